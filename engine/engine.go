// Package engine holds what every check shares: the run context (tier, seed,
// budget), violation bookkeeping keyed for known-finding matching, replay
// files and the evidence writer.
package engine

import (
	"crypto/sha256"
	"encoding/hex"
	"encoding/json"
	"fmt"
	"os"
	"path/filepath"
	"regexp"
	"sort"
	"strconv"
	"sync"
	"time"
)

const Root = "/verif"

// OutRoot is where evidence and replay files go: /verif, unless VERIF_OUT redirects them (used only by
// tools/trymutant_alt.sh, which runs a check against a patched copy of the sources without touching /repo or
// the evidence of record).
func OutRoot() string {
	if d := os.Getenv("VERIF_OUT"); d != "" {
		return d
	}
	return Root
}

// Finding is one entry of known_findings.json.
type Finding struct {
	Property string `json:"property"`
	Status   string `json:"status"` // "known" (suppresses, prints KNOWN-FINDING) or "fixed" (suppresses nothing)
	Key      string `json:"key"`    // regular expression matched against the violation key (anchored)
	What     string `json:"what"`
	Commit   string `json:"commit,omitempty"`
	Line     string `json:"line,omitempty"` // the "fixed: property=… <commit> <what>" record for fixed entries
}

// Violation is one distinct way the property failed.
type Violation struct {
	Key      string      `json:"key"`
	Count    int         `json:"count"`
	Detail   interface{} `json:"detail"`
	Case     interface{} `json:"case"` // enough to re-run exactly this case
	Sub      string      `json:"sub"`  // sub-check that produced it
	Replay   string      `json:"replay,omitempty"`
	Known    bool        `json:"known"`
	KnownMsg string      `json:"known_msg,omitempty"`
}

// Ctx is the run context of one check.
type Ctx struct {
	ID      string
	Tier    string
	Seed    int64
	Level   string
	Start   time.Time
	Budget  time.Duration // soft wall-clock budget; checks poll Expired()
	mu      sync.Mutex
	viol    map[string]*Violation
	order   []string
	Cov     map[string]interface{}
	Assume  []string
	samples []interface{}
	notes   []string
	// counters
	counters map[string]int64
	distinct map[string]struct{}
	capped   bool
}

// New creates the context from the environment (VERIF_SEED, tier argument).
func New(id, tier, level string) *Ctx {
	seed := int64(1)
	if s := os.Getenv("VERIF_SEED"); s != "" {
		if v, err := strconv.ParseInt(s, 10, 64); err == nil {
			seed = v
		}
	}
	if t := os.Getenv("VERIF_TIER"); t != "" && tier == "" {
		tier = t
	}
	if tier != "thorough" {
		tier = "quick"
	}
	b := 100 * time.Second
	if tier == "thorough" {
		b = 25 * time.Minute
	}
	if s := os.Getenv("VERIF_BUDGET_S"); s != "" {
		if v, err := strconv.Atoi(s); err == nil {
			b = time.Duration(v) * time.Second
		}
	}
	Cur = &Ctx{ID: id, Tier: tier, Seed: seed, Level: level, Start: time.Now(), Budget: b, viol: map[string]*Violation{},
		Cov: map[string]interface{}{}, counters: map[string]int64{}, distinct: map[string]struct{}{}}
	return Cur
}

// Thorough reports the tier.
// Heartbeat is a no-op in the main process (see Reporter).
func (c *Ctx) Heartbeat() {}

func (c *Ctx) Thorough() bool { return c.Tier == "thorough" }

// Expired reports whether the soft budget is used up; a check that stops
// because of it must call Capped.
func (c *Ctx) Expired() bool { return time.Since(c.Start) > c.Budget }

// Capped records that a sub-space was cut short (evidence: exhaustive=false).
func (c *Ctx) Capped(what string) {
	c.mu.Lock()
	c.capped = true
	c.notes = append(c.notes, "capped: "+what)
	c.mu.Unlock()
}

// Note adds a free-text note to the evidence.
func (c *Ctx) Note(format string, a ...interface{}) {
	c.mu.Lock()
	c.notes = append(c.notes, fmt.Sprintf(format, a...))
	c.mu.Unlock()
}

// Add adds n to a named counter.
func (c *Ctx) Add(name string, n int64) {
	c.mu.Lock()
	c.counters[name] += n
	c.mu.Unlock()
}

// Counter reads a named counter.
func (c *Ctx) Counter(name string) int64 {
	c.mu.Lock()
	defer c.mu.Unlock()
	return c.counters[name]
}

// Distinct records a distinct non-trivial case/outcome class by key.
func (c *Ctx) Distinct(key string) {
	c.mu.Lock()
	c.distinct[key] = struct{}{}
	c.mu.Unlock()
}

// Sample keeps up to 12 sample cases for the evidence file.
func (c *Ctx) Sample(s interface{}) {
	c.mu.Lock()
	if len(c.samples) < 12 {
		c.samples = append(c.samples, s)
	}
	c.mu.Unlock()
}

// Violate records a violation. key must identify the failing input class /
// call site / history precisely enough for known-finding matching; the first
// report per key keeps its case for the replay file.
func (c *Ctx) Violate(sub, key string, detail, cas interface{}) {
	c.mu.Lock()
	defer c.mu.Unlock()
	if v, ok := c.viol[key]; ok {
		v.Count++
		return
	}
	c.viol[key] = &Violation{Key: key, Count: 1, Detail: detail, Case: cas, Sub: sub}
	c.order = append(c.order, key)
}

// Cur is the context of the running check (set by New; one check per process).
var Cur *Ctx

// FailValid is for harness preconditions that consist of gokrb5 handling a VALID input (loading the model keytab,
// building a token with the library's own constructor, an unperturbed login against the simulated KDC). On the
// unchanged tree they cannot fail; if a change to gokrb5 makes one fail, that is a violation to report (the library
// rejects valid input), not an engine error. Records the violation and ends the run.
func FailValid(what string, err error) {
	if Cur == nil {
		Fatal("%s: %v", what, err)
	}
	Cur.Violate("precondition", "gokrb5-fails-on-valid-input:"+what, map[string]interface{}{"err": fmt.Sprint(err)}, map[string]interface{}{"precondition": what})
	Cur.Finish()
}

// NViolations returns the number of distinct violation keys so far.
func (c *Ctx) NViolations() int { c.mu.Lock(); defer c.mu.Unlock(); return len(c.viol) }

func loadFindings() []Finding {
	b, err := os.ReadFile(filepath.Join(Root, "known_findings.json"))
	if err != nil {
		return nil
	}
	var f struct {
		Findings []Finding `json:"findings"`
	}
	if err := json.Unmarshal(b, &f); err != nil {
		fmt.Fprintf(os.Stderr, "ENGINE-ERROR known_findings.json: %v\n", err)
		os.Exit(3)
	}
	return f.Findings
}

// Finish writes replay files and evidence, prints KNOWN-FINDING / VIOLATION
// lines and exits with the contract's status.
func (c *Ctx) Finish() {
	findings := loadFindings()
	exit := 0
	keys := append([]string(nil), c.order...)
	sort.Strings(keys)
	nviol := 0
	knownPrinted := map[string]bool{}
	for _, k := range keys {
		v := c.viol[k]
		for _, f := range findings {
			if f.Property != c.ID || f.Status != "known" {
				continue
			}
			re, err := regexp.Compile("^(?:" + f.Key + ")$")
			if err != nil {
				fmt.Fprintf(os.Stderr, "ENGINE-ERROR bad finding key %q: %v\n", f.Key, err)
				os.Exit(3)
			}
			if re.MatchString(v.Key) {
				v.Known, v.KnownMsg = true, f.What
				if !knownPrinted[f.Key] {
					knownPrinted[f.Key] = true
					fmt.Printf("KNOWN-FINDING: property=%s %s [key=%s, %d case(s)]\n", c.ID, f.What, v.Key, v.Count)
				}
				break
			}
		}
		if v.Known {
			continue
		}
		nviol++
		exit = 1
		h := sha256.Sum256([]byte(v.Key))
		dir := filepath.Join(OutRoot(), "replays", c.ID)
		os.MkdirAll(dir, 0o755)
		path := filepath.Join(dir, hex.EncodeToString(h[:6])+".json")
		v.Replay = path
		rb, _ := json.MarshalIndent(map[string]interface{}{"property": c.ID, "sub": v.Sub, "key": v.Key, "case": v.Case, "detail": v.Detail, "count": v.Count, "tier": c.Tier, "seed": c.Seed}, "", " ")
		os.WriteFile(path, rb, 0o644)
		if nviol <= 25 {
			db, _ := json.Marshal(v.Detail)
			if len(db) > 600 {
				db = append(db[:600], "..."...)
			}
			fmt.Printf("VIOLATION property=%s replay=%s key=%s count=%d detail=%s\n", c.ID, path, v.Key, v.Count, db)
		}
	}
	if nviol > 25 {
		fmt.Printf("(%d further distinct violations not printed; see evidence)\n", nviol-25)
	}
	c.writeEvidence(nviol)
	fmt.Printf("%s %s: %d distinct violation(s), %d known finding(s), wall %.1fs\n", c.ID, c.Tier, nviol, len(keys)-nviol, time.Since(c.Start).Seconds())
	os.Exit(exit)
}

func (c *Ctx) writeEvidence(nviol int) {
	cov := map[string]interface{}{}
	for k, v := range c.counters {
		cov[k] = v
	}
	for k, v := range c.Cov {
		cov[k] = v
	}
	cov["distinct_nontrivial"] = len(c.distinct)
	if len(c.distinct) <= 200 {
		var keys []string
		for k := range c.distinct {
			keys = append(keys, k)
		}
		sort.Strings(keys)
		cov["distinct_keys"] = keys
	}
	if _, ok := cov["exhaustive"]; !ok {
		cov["exhaustive"] = !c.capped
	} else if c.capped {
		cov["exhaustive"] = false
	}
	if len(c.samples) == 0 {
		c.samples = append(c.samples, "no sample recorded")
	}
	cov["samples"] = c.samples
	if len(c.notes) > 0 {
		cov["notes"] = c.notes
	}
	var vs []interface{}
	for _, k := range c.order {
		v := c.viol[k]
		vs = append(vs, map[string]interface{}{"key": v.Key, "count": v.Count, "known": v.Known, "replay": v.Replay})
	}
	if len(vs) > 0 {
		cov["violation_keys"] = vs
	}
	ev := map[string]interface{}{
		"property_id": c.ID,
		"tier":        c.Tier,
		"seed":        c.Seed,
		"level":       c.Level,
		"coverage":    cov,
		"assumptions": c.Assume,
		"wall_s":      time.Since(c.Start).Seconds(),
		"violations":  nviol,
	}
	if c.Assume == nil {
		ev["assumptions"] = []string{}
	}
	b, _ := json.MarshalIndent(ev, "", " ")
	os.MkdirAll(filepath.Join(OutRoot(), "evidence"), 0o755)
	if err := os.WriteFile(filepath.Join(OutRoot(), "evidence", c.ID+".json"), b, 0o644); err != nil {
		fmt.Fprintf(os.Stderr, "ENGINE-ERROR writing evidence: %v\n", err)
		os.Exit(3)
	}
}

// Fatal reports an engine error (never a violation) and exits 3.
func Fatal(format string, a ...interface{}) {
	fmt.Fprintf(os.Stderr, "ENGINE-ERROR "+format+"\n", a...)
	// Violations that were established before the machinery gave up are still true: report them (exit 1) rather than
	// losing them behind the engine error. With nothing recorded this is a plain engine error (exit 3).
	if Cur != nil && !inFatal && Cur.hasUnlistedViolation() {
		inFatal = true
		Cur.Capped(fmt.Sprintf("the run ended early with an engine error: "+format, a...))
		Cur.Finish()
	}
	os.Exit(3)
}

var inFatal bool

// hasUnlistedViolation tells whether a violation was recorded that no known-finding entry matches.
func (c *Ctx) hasUnlistedViolation() bool {
	findings := loadFindings()
	c.mu.Lock()
	defer c.mu.Unlock()
	for _, v := range c.viol {
		listed := false
		for _, f := range findings {
			if f.Property != c.ID || f.Status != "known" {
				continue
			}
			if re, err := regexp.Compile("^(?:" + f.Key + ")$"); err == nil && re.MatchString(v.Key) {
				listed = true
			}
		}
		if !listed {
			return true
		}
	}
	return false
}
