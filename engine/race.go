package engine

import (
	"fmt"
	"os"
	"os/exec"
	"path/filepath"
	"regexp"
	"runtime"
	"sort"
	"strings"
	"sync"
	"time"
)

// RaceReport is one data-race report of the free-running -race pass.
type RaceReport struct {
	Key  string // sorted pair inner[entry]~inner[entry] of the innermost and outermost gokrb5 functions of the two accesses
	Text string
}

var raceFrame = regexp.MustCompile(`(?m)^\s+(github\.com/jcmturner/gokrb5/v8/\S+?)\(\)\s*$`)

var anyFrame = regexp.MustCompile(`(?m)^  (\S+?)\(\)\s*$`)

// RaceInvariant collects (key, detail) invariant failures printed by the free-running pass.
var RaceInvariant [][]string

// HarnessRaces collects reports where an access is in harness or shim code (shown in evidence notes; to be fixed in /verif).
var HarnessRaces []string

// RunRace executes the -race build of the harness with the given arguments
// and returns the data races it reported, keyed by the gokrb5 functions of
// the two conflicting accesses. The -race pass is a complement to the
// cooperative scheduler (whose hand-offs are happens-before edges and blind
// the detector); it is a dynamic analysis of the runs it sees.
func RunRace(args ...string) ([]RaceReport, int, error) {
	bin := os.Getenv("VCHECK_RACE")
	if bin == "" {
		bin = filepath.Join(Root, ".build", "vcheck-race")
	}
	if _, err := os.Stat(bin); err != nil {
		return nil, 0, fmt.Errorf("race binary missing: %v", err)
	}
	logBase := filepath.Join(Root, ".build", "run", fmt.Sprintf("race.%d", os.Getpid()))
	cmd := exec.Command(bin, args...)
	cmd.Env = append(os.Environ(), "GORACE=halt_on_error=0 exitcode=0 log_path="+logBase)
	out, err := cmd.CombinedOutput()
	runs := 0
	RaceInvariant = nil
	for _, l := range strings.Split(string(out), "\n") {
		fmt.Sscanf(l, "RACE-RUNS %d", &runs)
		if strings.HasPrefix(l, "RACE-INVARIANT ") {
			RaceInvariant = append(RaceInvariant, strings.SplitN(strings.TrimPrefix(l, "RACE-INVARIANT "), "\t", 2))
		}
	}
	if err != nil {
		return nil, runs, fmt.Errorf("race pass failed: %v\n%s", err, out)
	}
	files, _ := filepath.Glob(logBase + ".*")
	seen := map[string]bool{}
	var reps []RaceReport
	for _, f := range files {
		b, _ := os.ReadFile(f)
		os.Remove(f)
		for _, blk := range strings.Split(string(b), "==================") {
			if !strings.Contains(blk, "DATA RACE") {
				continue
			}
			// innermost gokrb5 frame of each of the two accesses
			var fns []string
			harnessSide := 0
			for _, part := range regexp.MustCompile(`(?m)^(?:Previous )?(?:[Rr]ead|[Ww]rite) at `).Split(blk, -1)[1:] {
				stack := strings.SplitN(part, "\n\n", 2)[0]
				// The access belongs to the first frame that is not standard library / runtime. It counts as a
				// gokrb5 access only if that frame is gokrb5 code proper (not the shims mounted under zzverif and
				// not the harness). Key: inner[entry] with entry the outermost gokrb5 frame of the stack.
				var inner, entry string
				harness := false
				for _, m := range anyFrame.FindAllStringSubmatch(stack, -1) {
					fn := m[1]
					isGokrb5 := strings.HasPrefix(fn, "github.com/jcmturner/gokrb5/v8/") && !strings.HasPrefix(fn, "github.com/jcmturner/gokrb5/v8/zzverif/")
					// standard library, runtime and gokrb5's dependencies: the access is attributed to their caller
					isStd := !isGokrb5 && !strings.HasPrefix(fn, "verif/") && !strings.HasPrefix(fn, "main.") && !strings.HasPrefix(fn, "github.com/jcmturner/gokrb5/v8/zzverif/")
					if inner == "" && !harness {
						switch {
						case isStd:
							continue
						case isGokrb5:
							inner = strings.TrimPrefix(fn, "github.com/jcmturner/gokrb5/v8/")
						default:
							harness = true
						}
					}
					if isGokrb5 {
						entry = strings.TrimPrefix(fn, "github.com/jcmturner/gokrb5/v8/")
					}
				}
				if harness {
					harnessSide++
				} else if inner != "" {
					fns = append(fns, inner+"["+entry+"]")
				}
			}
			if harnessSide > 0 {
				HarnessRaces = append(HarnessRaces, blk)
				continue // at least one access is in the harness or a shim: a harness problem, not a gokrb5 race
			}
			if len(fns) == 0 {
				continue // race inside the harness or shims only: not a gokrb5 access
			}
			sort.Strings(fns)
			key := strings.Join(fns, "~")
			if !seen[key] {
				seen[key] = true
				if len(blk) > 3000 {
					blk = blk[:3000]
				}
				reps = append(reps, RaceReport{Key: key, Text: blk})
			}
		}
	}
	return reps, runs, nil
}

// WaitOrBlocked is used by the free-running race bodies: it waits for the scenario's goroutines; a deadlock in the
// code under test must not hang the pass. A scenario body takes milliseconds, so one that has not finished after a
// minute of real time is reported (RACE-INVARIANT line, picked up as a violation) and the pass ends.
func WaitOrBlocked(wg *sync.WaitGroup, scenario string, runs int) {
	done := make(chan struct{})
	go func() { wg.Wait(); close(done) }()
	select {
	case <-done:
	case <-time.After(60 * time.Second):
		buf := make([]byte, 1<<15)
		n := runtime.Stack(buf, true)
		fmt.Printf("RACE-INVARIANT deadlock:%s\tthe scenario's goroutines were still blocked after 60 s of real time; stacks: %s\n", scenario, strings.ReplaceAll(string(buf[:n]), "\n", " | "))
		fmt.Printf("RACE-RUNS %d\n", runs)
		os.Exit(0)
	}
}
