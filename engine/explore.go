package engine

import (
	"fmt"
	"reflect"

	"github.com/jcmturner/gokrb5/v8/zzverif/vsched"
)

// Explorer is the stateless DFS over schedules with iterative preemption
// bounding. Exec must build a fresh closed system, run it under
// vsched.Run(prefix, …) and return the execution; Check evaluates the
// invariant on it.
type Explorer struct {
	Bound     int // preemption bound (-1: unbounded)
	MaxPoints int
	Exec      func(prefix []int) *vsched.Sched
	Check     func(x *vsched.Sched)
	Stop      func() bool // budget
	// Sharding: the subtrees hanging off the root execution are numbered in exploration order and a shard
	// explores those with number % NShards == Shard; shard 0 also checks the root execution itself.
	Shard, NShards int

	Schedules   int64
	Points      int64
	MaxDepth    int
	Capped      bool
	DetChecked  int
	Warmups     int // executions spent warming up state outside the closed system before the traces became stable
	FirstChoice [][]int
}

func preemptionsBefore(tr []vsched.PointRec, i int) int {
	n := 0
	for k := 0; k < i; k++ {
		if !tr[k].Data && tr[k].RunningEnabled && tr[k].Choice != 0 {
			n++
		}
	}
	return n
}

// Run explores everything reachable from the given prefix.
func (e *Explorer) Run(prefix []int) { e.run(prefix, true) }

func (e *Explorer) run(prefix []int, root bool) {
	if e.Stop != nil && e.Stop() {
		e.Capped = true
		return
	}
	x := e.Exec(prefix)
	if x.Diverged != "" {
		Fatal("schedule replay diverged: %s (prefix %v)", x.Diverged, prefix)
	}
	if e.Schedules == 0 {
		// determinism gate: the same prefix must give the same trace and log. State that lives outside the closed
		// system and is built on first use (a package-level cache, a lazily initialised table) makes the first
		// executions differ from the later ones: such state is warmed up (up to three more executions) and the
		// exploration then runs from the steady state; executions that keep differing are an engine error.
		for attempt := 0; ; attempt++ {
			y := e.Exec(prefix)
			if reflect.DeepEqual(x.Trace, y.Trace) && reflect.DeepEqual(x.Log, y.Log) {
				break
			}
			if attempt >= 3 {
				Fatal("nondeterministic execution under the scheduler: traces differ for prefix %v\n%v\n%v\n%v\n%v", prefix, x.Trace, y.Trace, x.Log, y.Log)
			}
			x = y
			e.Warmups++
		}
		e.DetChecked++
	}
	sharded := root && e.NShards > 1
	if !sharded || e.Shard == 0 {
		e.Schedules++
		e.Points += int64(len(x.Trace))
		if len(x.Trace) > e.MaxDepth {
			e.MaxDepth = len(x.Trace)
		}
		e.Check(x)
	}
	child := 0
	tr := x.Trace
	choices := x.Choices()
	for i := len(prefix); i < len(tr); i++ {
		p := tr[i]
		if p.N <= 1 {
			continue
		}
		cost := preemptionsBefore(tr, i)
		if !p.Data && p.RunningEnabled {
			cost++
		}
		if e.Bound >= 0 && !p.Data && cost > e.Bound {
			continue
		}
		if e.Bound >= 0 && p.Data && preemptionsBefore(tr, i) > e.Bound {
			continue
		}
		for alt := 1; alt < p.N; alt++ {
			child++
			if sharded && (child-1)%e.NShards != e.Shard {
				continue
			}
			np := append(append([]int{}, choices[:i]...), alt)
			e.run(np, false)
		}
	}
}

// Describe renders a trace compactly for replay files.
func Describe(x *vsched.Sched) []string {
	var out []string
	for i, p := range x.Trace {
		out = append(out, fmt.Sprintf("%d: T%d %s (choice %d/%d%s)", i, p.Thread, p.Kind, p.Choice, p.N, map[bool]string{true: " data", false: ""}[p.Data]))
	}
	return out
}
