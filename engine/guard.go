package engine

import (
	"bufio"
	"encoding/json"
	"fmt"
	"os"
	"os/exec"
	"runtime"
	"strings"
	"sync"
	"time"
)

// Guarded execution: cases that may crash the process fatally (stack overflow,
// out of memory under RLIMIT_AS), hang or allocate without bound are run in
// worker subprocesses of this same binary. A worker announces each case before
// running it; if the worker dies or stalls the parent attributes that to the
// announced case, records it, and restarts a worker after it.

// Reporter is what a worker function reports through.
type Reporter interface {
	Violate(sub, key string, detail, cas interface{})
	Distinct(key string)
	Add(name string, n int64)
	Sample(s interface{})
	Note(format string, a ...interface{})
	Capped(what string)
	Heartbeat() // tells the parent the in-flight case is alive (long cases)
}

// WorkerFunc enumerates n cases; run executes case idx.
type WorkerFunc struct {
	N   func(args []string) int
	Run func(args []string, idx int, r Reporter)
}

var workers = map[string]WorkerFunc{}

// RegisterWorker makes a guarded worker available under a name.
func RegisterWorker(name string, w WorkerFunc) { workers[name] = w }

type wmsg struct {
	T      string      `json:"t"` // "start", "viol", "distinct", "add", "sample", "end"
	Idx    int         `json:"i,omitempty"`
	Sub    string      `json:"sub,omitempty"`
	Key    string      `json:"key,omitempty"`
	Detail interface{} `json:"detail,omitempty"`
	Case   interface{} `json:"case,omitempty"`
	N      int64       `json:"n,omitempty"`
}

type wreporter struct {
	w  *bufio.Writer
	mu sync.Mutex
}

func (r *wreporter) send(m wmsg) {
	b, _ := json.Marshal(m)
	r.mu.Lock()
	r.w.Write(b)
	r.w.WriteByte('\n')
	if m.T == "start" || m.T == "end" || m.T == "viol" || m.T == "viol-hb" {
		r.w.Flush()
	}
	r.mu.Unlock()
}
func (r *wreporter) Violate(sub, key string, detail, cas interface{}) {
	r.send(wmsg{T: "viol", Sub: sub, Key: key, Detail: detail, Case: cas})
}
func (r *wreporter) Distinct(key string)      { r.send(wmsg{T: "distinct", Key: key}) }
func (r *wreporter) Add(name string, n int64) { r.send(wmsg{T: "add", Key: name, N: n}) }
func (r *wreporter) Sample(s interface{})     { r.send(wmsg{T: "sample", Detail: s}) }
func (r *wreporter) Capped(what string)       { r.send(wmsg{T: "capped", Key: what}) }
func (r *wreporter) Heartbeat()               { r.send(wmsg{T: "viol-hb"}) }
func (r *wreporter) Note(format string, a ...interface{}) {
	r.send(wmsg{T: "note", Key: fmt.Sprintf(format, a...)})
}

// WorkerMain is the entry point of a worker subprocess: vcheck WORKER <name> <shard> <nshards> <from> args...
func WorkerMain(argv []string) {
	if len(argv) < 4 {
		Fatal("worker usage")
	}
	name := argv[0]
	var shard, nshards, from int
	fmt.Sscan(argv[1], &shard)
	fmt.Sscan(argv[2], &nshards)
	fmt.Sscan(argv[3], &from)
	args := argv[4:]
	w, ok := workers[name]
	if !ok {
		Fatal("unknown worker %s", name)
	}
	rep := &wreporter{w: bufio.NewWriterSize(os.Stdout, 1<<16)}
	n := w.N(args)
	for idx := from; idx < n; idx++ {
		if idx%nshards != shard {
			continue
		}
		rep.send(wmsg{T: "start", Idx: idx})
		func() {
			defer func() {
				if r := recover(); r != nil {
					rep.Violate("guard", fmt.Sprintf("%s:panic-escaped-harness", name), map[string]interface{}{"panic": fmt.Sprint(r)}, map[string]interface{}{"worker": name, "index": idx, "args": args})
				}
			}()
			w.Run(args, idx, rep)
		}()
	}
	rep.send(wmsg{T: "end"})
	rep.w.Flush()
}

var inflightFile *os.File

// Inflight records, in a per-worker scratch file named by the parent, the input the worker is about to run, so
// that a fatal death (out of memory, stack overflow) or a stall can be attributed to that exact input rather than
// to the whole case. One pwrite per input; the page cache survives the death of the process.
func Inflight(label string, b []byte) { InflightAt(label, 0, b) }

// ResumeSub tells a worker at which sub-index of case idx to resume after the previous worker process died on
// (or stalled in) that case: the sub-index after the fatal input. 0 when the case starts afresh.
func ResumeSub(idx int) int {
	var i, sub int
	if n, _ := fmt.Sscanf(os.Getenv("VERIF_RESUME"), "%d:%d", &i, &sub); n == 2 && i == idx {
		return sub
	}
	return 0
}

// InflightAt is Inflight with the position of the input inside its case.
func InflightAt(label string, sub int, b []byte) {
	if inflightFile == nil {
		p := os.Getenv("VERIF_INFLIGHT")
		if p == "" {
			return
		}
		f, err := os.OpenFile(p, os.O_RDWR|os.O_CREATE, 0o644)
		if err != nil {
			return
		}
		inflightFile = f
	}
	if len(b) > 1<<16 {
		b = b[:1<<16]
	}
	buf := make([]byte, 0, 12+len(label)+len(b))
	buf = append(buf, byte(len(label)>>8), byte(len(label)), byte(len(b)>>24), byte(len(b)>>16), byte(len(b)>>8), byte(len(b)))
	buf = append(buf, byte(sub>>24), byte(sub>>16), byte(sub>>8), byte(sub))
	buf = append(buf, label...)
	buf = append(buf, b...)
	inflightFile.WriteAt(buf, 0)
}

func readInflight(path string) (label string, sub int, data []byte) {
	b, err := os.ReadFile(path)
	if err != nil || len(b) < 10 {
		return "", -1, nil
	}
	ll := int(b[0])<<8 | int(b[1])
	dl := int(b[2])<<24 | int(b[3])<<16 | int(b[4])<<8 | int(b[5])
	sub = int(b[6])<<24 | int(b[7])<<16 | int(b[8])<<8 | int(b[9])
	if 10+ll+dl > len(b) {
		return "", -1, nil
	}
	return string(b[10 : 10+ll]), sub, b[10+ll : 10+ll+dl]
}

// GuardSpec configures a guarded run.
type GuardSpec struct {
	Worker   string
	Args     []string
	Shards   int                       // default: NumCPU
	MemKB    int                       // RLIMIT_AS per worker in KiB (default 6 GiB)
	Stall    time.Duration             // a case taking longer is a stall (default 30 s)
	Describe func(idx int) interface{} // renders a case for the replay file when the worker died on it
	// MaxDeathsPerKey, when positive: after that many fatal deaths with one violation key in a shard, a further
	// death with that key abandons the rest of its case instead of resuming inside it (reported as capped).
	MaxDeathsPerKey int
}

// RunGuarded runs all cases of the worker across shards and merges the reports into c.
// It returns the number of cases the workers completed.
func (c *Ctx) RunGuarded(spec GuardSpec) int64 {
	if spec.Shards <= 0 {
		spec.Shards = runtime.NumCPU()
	}
	if spec.MemKB <= 0 {
		spec.MemKB = 6 << 20
	}
	if spec.Stall <= 0 {
		spec.Stall = 30 * time.Second
	}
	self := os.Getenv("VCHECK_SELF")
	if self == "" {
		self, _ = os.Executable()
	}
	var done int64
	var mu sync.Mutex
	var wg sync.WaitGroup
	for sh := 0; sh < spec.Shards; sh++ {
		wg.Add(1)
		go func(sh int) {
			defer wg.Done()
			from := 0
			restarts := 0
			resume := ""
			deaths := map[string]int{}
			for {
				if c.Expired() {
					c.Capped(fmt.Sprintf("guarded worker %s shard %d stopped by budget at index %d", spec.Worker, sh, from))
					return
				}
				cmdline := fmt.Sprintf("ulimit -v %d; exec %q WORKER %s %d %d %d", spec.MemKB, self, spec.Worker, sh, spec.Shards, from)
				for _, a := range spec.Args {
					cmdline += fmt.Sprintf(" %q", a)
				}
				cmd := exec.Command("bash", "-c", cmdline)
				inflightPath := fmt.Sprintf("%s/.build/run/inflight.%d.%s.%d", Root, os.Getpid(), spec.Worker, sh)
				os.Remove(inflightPath)
				cmd.Env = append(os.Environ(), "GOTRACEBACK=single", "GOMAXPROCS=2", "VERIF_INFLIGHT="+inflightPath, "VERIF_RESUME="+resume)
				out, _ := cmd.StdoutPipe()
				var stderr strings.Builder
				cmd.Stderr = &limitedWriter{b: &stderr, max: 6000}
				if err := cmd.Start(); err != nil {
					Fatal("cannot start worker: %v", err)
				}
				lines := make(chan string, 256)
				go func() {
					sc := bufio.NewScanner(out)
					sc.Buffer(make([]byte, 1<<20), 64<<20)
					for sc.Scan() {
						lines <- sc.Text()
					}
					close(lines)
				}()
				inflight, ended := -1, false
				stalled := false
			loop:
				for {
					select {
					case l, ok := <-lines:
						if !ok {
							break loop
						}
						var m wmsg
						if json.Unmarshal([]byte(l), &m) != nil {
							continue
						}
						switch m.T {
						case "start":
							if inflight >= 0 {
								mu.Lock()
								done++
								mu.Unlock()
							}
							inflight = m.Idx
						case "end":
							if inflight >= 0 {
								mu.Lock()
								done++
								mu.Unlock()
							}
							inflight, ended = -1, true
						case "viol":
							c.Violate(m.Sub, m.Key, m.Detail, m.Case)
						case "distinct":
							c.Distinct(m.Key)
						case "add":
							c.Add(m.Key, m.N)
						case "sample":
							c.Sample(m.Detail)
						case "note":
							c.Note("%s", m.Key)
						case "capped":
							c.Capped(m.Key)
						}
					case <-time.After(spec.Stall):
						stalled = true
						cmd.Process.Kill()
						break loop
					}
				}
				cmd.Wait()
				inLabel, inSub, inData := readInflight(inflightPath)
				os.Remove(inflightPath)
				if ended {
					return
				}
				// the worker died or stalled on the in-flight case
				var cas interface{} = map[string]interface{}{"worker": spec.Worker, "index": inflight, "args": spec.Args}
				if spec.Describe != nil && inflight >= 0 {
					cas = map[string]interface{}{"worker": spec.Worker, "index": inflight, "args": spec.Args, "case": spec.Describe(inflight)}
				}
				if inflight < 0 {
					Fatal("guarded worker %s shard %d died before its first case: %s", spec.Worker, sh, stderr.String())
				}
				kind := "fatal-death"
				if stalled {
					kind = "stall"
				}
				key := fmt.Sprintf("%s:%s:%s", spec.Worker, kind, fatalClass(stderr.String()))
				if inLabel != "" {
					key += ":" + inLabel
					if site := fatalSite(stderr.String()); site != "" {
						key += ":" + site
					}
					cas = map[string]interface{}{"worker": spec.Worker, "index": inflight, "args": spec.Args, "input_label": inLabel, "input_hex": fmt.Sprintf("%x", inData)}
				}
				c.Violate("guard", key, map[string]interface{}{"stderr": stderr.String(), "stalled": stalled}, cas)
				from, resume = inflight+1, ""
				deaths[key]++
				if deaths[key] > spec.MaxDeathsPerKey && spec.MaxDeathsPerKey > 0 {
					// every further instance of this failure costs a process: leave the rest of this case
					c.Capped(fmt.Sprintf("guarded worker %s: more than %d fatal deaths keyed %s in one shard; rest of case %d skipped", spec.Worker, spec.MaxDeathsPerKey, key, inflight))
				} else if inLabel != "" && inSub >= 0 {
					// the worker records inputs inside the case: resume the same case after the fatal input
					from, resume = inflight, fmt.Sprintf("%d:%d", inflight, inSub+1)
				}
				restarts++
				if restarts > 1500 {
					c.Capped(fmt.Sprintf("guarded worker %s shard %d restarted more than 1500 times", spec.Worker, sh))
					return
				}
			}
		}(sh)
	}
	wg.Wait()
	return done
}

type limitedWriter struct {
	b   *strings.Builder
	max int
}

func (l *limitedWriter) Write(p []byte) (int, error) {
	if l.b.Len() < l.max {
		n := l.max - l.b.Len()
		if n > len(p) {
			n = len(p)
		}
		l.b.Write(p[:n])
	}
	return len(p), nil
}

func fatalClass(stderr string) string {
	switch {
	case strings.Contains(stderr, "out of memory") || strings.Contains(stderr, "cannot allocate memory"):
		return "out-of-memory"
	case strings.Contains(stderr, "stack overflow") || strings.Contains(stderr, "goroutine stack exceeds"):
		return "stack-overflow"
	case strings.Contains(stderr, "fatal error"):
		return "fatal-error"
	}
	return "killed"
}

// fatalSite extracts, from the traceback of a fatal error, the innermost function that is neither runtime nor
// reflect: where the fatal allocation / recursion was asked for.
func fatalSite(stderr string) string {
	i := strings.Index(stderr, "[running]:")
	if i < 0 {
		return ""
	}
	for _, l := range strings.Split(stderr[i:], "\n")[1:] {
		if l == "" || strings.HasPrefix(l, "\t") || strings.HasPrefix(l, "runtime.") || strings.HasPrefix(l, "reflect.") {
			continue
		}
		if strings.HasPrefix(l, "goroutine ") {
			break
		}
		fn := l
		if j := strings.LastIndex(fn, "("); j > 0 {
			fn = fn[:j]
		}
		fn = strings.TrimPrefix(fn, "github.com/jcmturner/gokrb5/v8/")
		return strings.TrimPrefix(fn, "github.com/jcmturner/")
	}
	return ""
}
