package engine

import (
	"bufio"
	"fmt"
	"io"
	"os"
	"os/exec"
	"path/filepath"
	"strings"
)

// JRef is a running JDK oracle process (jref/KrbOracle.java).
type JRef struct {
	cmd *exec.Cmd
	in  io.WriteCloser
	out *bufio.Reader
	N   int64
}

var jrefFlags = []string{
	"--add-exports", "java.security.jgss/sun.security.krb5.internal.crypto=ALL-UNNAMED",
	"--add-exports", "java.security.jgss/sun.security.krb5=ALL-UNNAMED",
	"--add-exports", "java.security.jgss/sun.security.krb5.internal=ALL-UNNAMED",
	"--add-exports", "java.security.jgss/sun.security.krb5.internal.ktab=ALL-UNNAMED",
	"--add-exports", "java.security.jgss/sun.security.krb5.internal.ccache=ALL-UNNAMED",
	"--add-exports", "java.base/sun.security.util=ALL-UNNAMED",
	"-Djava.security.krb5.conf=/dev/null", "-Xss4m",
}

// StartJRef compiles (if needed) and starts the JDK oracle.
func StartJRef(class string) (*JRef, error) {
	dir := filepath.Join(Root, ".build", "jref")
	if _, err := os.Stat(filepath.Join(dir, class+".class")); err != nil {
		os.MkdirAll(dir, 0o755)
		args := append([]string{}, jrefFlags[:12]...)
		args = append(args, "-nowarn", "-d", dir, filepath.Join(Root, "jref", class+".java"))
		if out, err := exec.Command("javac", args...).CombinedOutput(); err != nil {
			return nil, fmt.Errorf("javac: %v\n%s", err, out)
		}
	}
	args := append(append([]string{}, jrefFlags...), "-cp", dir, class)
	cmd := exec.Command("java", args...)
	in, _ := cmd.StdinPipe()
	out, _ := cmd.StdoutPipe()
	cmd.Stderr = os.Stderr
	if err := cmd.Start(); err != nil {
		return nil, err
	}
	return &JRef{cmd: cmd, in: in, out: bufio.NewReaderSize(out, 1<<20)}, nil
}

// Batch sends all request lines, closes the oracle's input and returns one
// answer per line (the process ends with the batch).
func (j *JRef) Batch(lines []string) ([]string, error) {
	errc := make(chan error, 1)
	go func() {
		w := bufio.NewWriterSize(j.in, 1<<20)
		for _, l := range lines {
			w.WriteString(l)
			w.WriteByte('\n')
		}
		err := w.Flush()
		j.in.Close()
		errc <- err
	}()
	out := make([]string, 0, len(lines))
	for {
		l, err := j.out.ReadString('\n')
		if l != "" {
			out = append(out, strings.TrimRight(l, "\r\n"))
		}
		if err != nil {
			break
		}
	}
	if err := <-errc; err != nil {
		return nil, err
	}
	j.cmd.Wait()
	j.N += int64(len(out))
	if len(out) != len(lines) {
		return out, fmt.Errorf("jref answered %d of %d requests", len(out), len(lines))
	}
	return out, nil
}

// JRefBatch runs one batch in a fresh oracle process.
func JRefBatch(class string, lines []string) ([]string, error) {
	j, err := StartJRef(class)
	if err != nil {
		return nil, err
	}
	return j.Batch(lines)
}
