// Package simkdc is an in-process RFC 4120 KDC model built only on the
// reference packages (ref/krbmsg, ref/rcrypto, ref/der). It answers AS and TGS
// requests given as bytes, validates every request strictly (recording each
// deviation from what the configured client is supposed to send), keeps an
// issue log of every ticket and session key it hands out, and can be put into
// adversary mode where one field of the reply is perturbed.
package simkdc

import (
	"bytes"
	"fmt"
	"math/rand"
	"strings"
	"time"

	"verif/ref/krbmsg"
	"verif/ref/rcrypto"
)

// Flag bit masks (KerberosFlags bit n = 1<<(31-n)).
const (
	FlagForwardable = 1 << (31 - 1)
	FlagProxiable   = 1 << (31 - 3)
	FlagRenewable   = 1 << (31 - 8)
	FlagInitial     = 1 << (31 - 9)
	FlagPreAuthent  = 1 << (31 - 10)
	OptCanonicalize = 1 << (31 - 15)
	OptRenewableOK  = 1 << (31 - 27)
	OptRenew        = 1 << (31 - 30)
	FlagEncPARep    = 1 << (31 - 15)
)

// Key is one long-term key of a principal.
type Key struct {
	Etype  int32
	KVNO   int64
	Value  []byte
	Salt   *string // advertised in ETYPE-INFO2 (nil: default salt, not advertised)
	Params []byte
}

// Principal is a database entry.
type Principal struct {
	Name  []string
	Realm string
	Keys  []Key
}

func (p *Principal) key(et int32) *Key {
	for i := range p.Keys {
		if p.Keys[i].Etype == et {
			return &p.Keys[i]
		}
	}
	return nil
}

// Issued records one ticket handed out.
type Issued struct {
	Exchange   string // "AS" / "TGS"
	Client     string
	SName      []string
	TktRealm   string
	SessionKey []byte
	KeyEtype   int32
	Ticket     []byte
	AuthTime   time.Time
	Start      time.Time
	End        time.Time
	RenewTill  *time.Time
	Flags      uint32
	Renewal    bool
	At         time.Time
	Nonce      int64
}

// Request records one request received.
type Request struct {
	Kind      string // "AS", "AS+PA", "TGS", "TGS-RENEW", "MALFORMED"
	At        time.Time
	Raw       []byte
	Decoded   *krbmsg.KDCReq
	ReplyKind string // "AS-REP", "TGS-REP", "ERR-<code>"
	Transport string
}

// Expect is what the client configuration is supposed to put on the wire.
type Expect struct {
	Check          bool
	ETypesAS       []int32
	ETypesTGS      []int32
	ASOptions      uint32 // exact kdc-options of an AS-REQ
	TGSOptions     uint32 // exact kdc-options of a (non-renewal) TGS-REQ
	TicketLifetime time.Duration
	RenewLifetime  time.Duration // 0: no rtime
	NoAddresses    bool
	// ExtraAddresses (NoAddresses false): addresses the configuration adds to the local ones; each has to be in the
	// request, and every address in the request has to be well-formed for its type
	ExtraAddresses []krbmsg.HostAddress
	Skew           time.Duration
	ClientName     []string
}

// Reply carries the parts of a reply before they are sealed, for the adversary.
type Reply struct {
	Exchange string // "AS" / "TGS"
	Rep      *krbmsg.KDCRep
	Enc      *krbmsg.EncKDCRepPart
	EncKey   []byte // key the enc-part will be sealed with
	EncEtype int32
	EncUsage uint32
	Ticket   *krbmsg.Ticket
	// set by a perturbation to replace the sealed enc-part ciphertext processing
	PostSeal func(ct []byte) []byte
	// Raw, when set by a perturbation, replaces the whole reply
	Raw []byte
	// RawEnc, when set by a perturbation, is sealed in place of the encoded enc-part
	RawEnc []byte
}

// KDC is the model of one realm's KDC.
type KDC struct {
	Realm      string
	Now        func() time.Time
	Principals map[string]*Principal
	TGSKey     Key               // krbtgt/REALM@REALM
	CrossOut   map[string]Key    // krbtgt/OTHER@REALM keys (this realm issues, OTHER consumes)
	CrossIn    map[string]Key    // krbtgt/REALM@OTHER keys (OTHER issued, this realm consumes)
	Referral   map[string]string // service host suffix -> next realm (canonicalization referrals)
	RequirePA  bool
	MaxLife    time.Duration
	MaxRenew   time.Duration
	Skew       time.Duration
	Expect     Expect
	Issued     []Issued
	Requests   []Request
	// AdvertiseParams, when set, is sent as s2kparams in ETYPE-INFO2 for client keys that have none (des3, rc4)
	AdvertiseParams []byte
	// ErrorCRealm, when set, is sent as the crealm of every KRB-ERROR (a KDC_ERR_WRONG_REALM referral names the realm to go to there)
	ErrorCRealm string
	// ErrorEText, when set, is sent as the e-text of every KRB-ERROR (MIT KDCs send one, Active Directory usually does not)
	ErrorEText string
	// StrictRenewal: a ticket that has ended cannot be renewed any more, whatever its renew-till time.
	StrictRenewal bool
	// FreshKeyOnRenew: renewed tickets carry a new session key instead of keeping the old one.
	FreshKeyOnRenew bool
	// LenientAuthCRealm: also accept an authenticator whose crealm is the realm of the presented ticket instead
	// of the client's realm (what lenient KDCs tolerate); used to explore referral chains past the known finding.
	LenientAuthCRealm bool
	Violations        []string
	Perturb           func(r *Reply)
	ErrorReply        func(req *krbmsg.KDCReq) *int32 // adversary: answer with this KRB-ERROR code instead
	seenNonces        map[int64]bool
	rnd               *rand.Rand
	AdvertiseETI2     bool // include ETYPE-INFO2 in AS-REP padata for password principals
	// PAHints, when set, builds the key-derivation hints of the PREAUTH_REQUIRED e-data from the client's real entry
	// (default: one ETYPE-INFO2 element); used to present the three hint kinds in every order with decoys
	PAHints        func(real krbmsg.ETypeInfo2Entry) []krbmsg.PAData
	EncTag25ForTGS bool // benign variation: seal the TGS enc-part with application tag 25
	EncTag26ForAS  bool // benign variation: seal the AS enc-part with application tag 26
}

// New creates an empty KDC model.
func New(realm string, now func() time.Time, seed int64) *KDC {
	k := &KDC{Realm: realm, Now: now, Principals: map[string]*Principal{}, CrossOut: map[string]Key{}, CrossIn: map[string]Key{}, Referral: map[string]string{},
		MaxLife: 24 * time.Hour, MaxRenew: 7 * 24 * time.Hour, Skew: 5 * time.Minute, seenNonces: map[int64]bool{}, rnd: rand.New(rand.NewSource(seed)), AdvertiseETI2: true}
	k.TGSKey = Key{Etype: rcrypto.AES256, KVNO: 1, Value: k.RandKey(rcrypto.AES256)}
	return k
}

// RandKey returns a fresh key.
func (k *KDC) RandKey(et int32) []byte {
	p, _ := rcrypto.Get(et)
	s := make([]byte, p.SeedLen)
	k.rnd.Read(s)
	return rcrypto.RandomToKey(et, s)
}

func (k *KDC) conf(et int32) []byte {
	p, _ := rcrypto.Get(et)
	b := make([]byte, p.Conf)
	k.rnd.Read(b)
	return b
}

func pkey(name []string, realm string) string { return strings.Join(name, "/") + "@" + realm }

// AddPrincipal registers a principal.
func (k *KDC) AddPrincipal(p *Principal) { k.Principals[pkey(p.Name, p.Realm)] = p }

// AddPasswordPrincipal derives keys for the etypes from a password.
func (k *KDC) AddPasswordPrincipal(name []string, password string, etypes []int32, salt *string, params []byte) *Principal {
	p := &Principal{Name: name, Realm: k.Realm}
	for _, et := range etypes {
		s := k.Realm + strings.Join(name, "")
		if salt != nil {
			s = *salt
		}
		par := params
		if et == rcrypto.DES3 || et == rcrypto.RC4 {
			par = nil
		}
		v, err := rcrypto.StringToKey(et, password, s, par)
		if err != nil {
			panic(err)
		}
		p.Keys = append(p.Keys, Key{Etype: et, KVNO: 1, Value: v, Salt: salt, Params: par})
	}
	k.AddPrincipal(p)
	return p
}

// AddKeyPrincipal registers a principal with random keys.
func (k *KDC) AddKeyPrincipal(name []string, etypes []int32) *Principal {
	p := &Principal{Name: name, Realm: k.Realm}
	for _, et := range etypes {
		p.Keys = append(p.Keys, Key{Etype: et, KVNO: 2, Value: k.RandKey(et)})
	}
	k.AddPrincipal(p)
	return p
}

func (k *KDC) violate(format string, a ...interface{}) {
	k.Violations = append(k.Violations, fmt.Sprintf(format, a...))
}

func (k *KDC) errReply(code int32, req *krbmsg.KDCReq, edata []byte) []byte {
	now := k.Now()
	e := krbmsg.KRBError{PVNO: 5, MsgType: 30, STime: now.Truncate(time.Second), Susec: 0, Code: code, Realm: k.Realm, SName: krbmsg.PrincipalName{Type: 2, Names: []string{"krbtgt", k.Realm}}, EData: edata}
	if req != nil {
		if req.Body.CName != nil {
			e.CName = req.Body.CName
			e.CRealm = krbmsg.Str(req.Body.Realm)
		}
		if req.Body.SName != nil {
			e.SName = *req.Body.SName
		}
	}
	if k.ErrorEText != "" {
		e.EText = krbmsg.Str(k.ErrorEText)
	}
	if k.ErrorCRealm != "" {
		e.CRealm = krbmsg.Str(k.ErrorCRealm)
	}
	if len(k.Requests) > 0 {
		k.Requests[len(k.Requests)-1].ReplyKind = fmt.Sprintf("ERR-%d", code)
	}
	return e.Encode()
}

// Handle answers one request.
func (k *KDC) Handle(transport string, raw []byte) []byte {
	now := k.Now()
	req, err := krbmsg.DecodeKDCReq(raw)
	if err != nil {
		k.Requests = append(k.Requests, Request{Kind: "MALFORMED", At: now, Raw: raw, Transport: transport})
		k.violate("request is not a well-formed KDC-REQ: %v", err)
		return k.errReply(60, nil, nil)
	}
	r := Request{At: now, Raw: raw, Decoded: &req, Transport: transport}
	if req.App == krbmsg.AppASReq {
		r.Kind = "AS"
		for _, pa := range req.PAData {
			if pa.Type == 2 {
				r.Kind = "AS+PA"
			}
		}
	} else {
		r.Kind = "TGS"
		if req.Body.KDCOptions&OptRenew != 0 {
			r.Kind = "TGS-RENEW"
		}
	}
	k.Requests = append(k.Requests, r)
	if k.ErrorReply != nil {
		if code := k.ErrorReply(&req); code != nil {
			var edata []byte
			if (*code == 24 || *code == 25) && len(req.Body.ETypes) > 0 {
				// a conformant KDC accompanies these codes with METHOD-DATA (RFC 4120 5.9.1)
				edata = krbmsg.EncodeMethodData([]krbmsg.PAData{{Type: 19, Value: krbmsg.EncodeETypeInfo2([]krbmsg.ETypeInfo2Entry{{EType: req.Body.ETypes[0]}})}, {Type: 2, Value: []byte{}}})
			}
			return k.errReply(*code, &req, edata)
		}
	}
	if req.PVNO != 5 {
		k.violate("pvno %d", req.PVNO)
	}
	if k.seenNonces[req.Body.Nonce] && r.Kind != "AS+PA" {
		// (the retry of an AS-REQ with pre-authentication data may keep its nonce)
		k.violate("%s request reuses nonce %d", r.Kind, req.Body.Nonce)
	}
	k.seenNonces[req.Body.Nonce] = true
	if req.App == krbmsg.AppASReq {
		return k.handleAS(&req)
	}
	return k.handleTGS(&req)
}

func sameETypes(a, b []int32) bool {
	if len(a) != len(b) {
		return false
	}
	for i := range a {
		if a[i] != b[i] {
			return false
		}
	}
	return true
}

func (k *KDC) checkCommon(kind string, req *krbmsg.KDCReq, wantOpts uint32, wantETypes []int32, renewal bool) {
	e := k.Expect
	if !e.Check {
		return
	}
	now := k.Now()
	b := req.Body
	if !renewal && b.KDCOptions != wantOpts {
		k.violate("%s kdc-options %08x, configuration implies %08x", kind, b.KDCOptions, wantOpts)
	}
	if !sameETypes(b.ETypes, wantETypes) {
		k.violate("%s etype list %v, configuration implies %v", kind, b.ETypes, wantETypes)
	}
	if want := now.Add(e.TicketLifetime).Truncate(time.Second); !b.Till.Equal(want) {
		k.violate("%s till %v, configuration implies now+ticket_lifetime = %v", kind, b.Till, want)
	}
	if !renewal {
		if e.RenewLifetime > 0 {
			want := now.Add(e.RenewLifetime).Truncate(time.Second)
			if b.RTime == nil || !b.RTime.Equal(want) {
				k.violate("%s rtime %v, configuration implies now+renew_lifetime = %v", kind, b.RTime, want)
			}
		} else if b.RTime != nil {
			k.violate("%s rtime %v although renew_lifetime is 0", kind, b.RTime)
		}
	}
	if e.NoAddresses && b.Addresses != nil {
		k.violate("%s carries addresses although noaddresses is set", kind)
	}
	if !e.NoAddresses {
		for _, a := range b.Addresses {
			if a.Type == 2 && len(a.Addr) != 4 || a.Type == 24 && len(a.Addr) != 16 {
				k.violate("%s addresses: an address of type %d has %d octets (%x)", kind, a.Type, len(a.Addr), a.Addr)
			}
		}
		for _, x := range e.ExtraAddresses {
			found := false
			for _, a := range b.Addresses {
				if a.Type == x.Type && bytes.Equal(a.Addr, x.Addr) {
					found = true
				}
			}
			if !found {
				k.violate("%s addresses lack the configured extra address %d:%x", kind, x.Type, x.Addr)
			}
		}
	}
	if b.From != nil {
		k.violate("%s carries a from time", kind)
	}
	if b.CName == nil || !b.CName.SameName(krbmsg.PrincipalName{Names: e.ClientName}) {
		k.violate("%s cname %v, want %v", kind, b.CName, e.ClientName)
	}
}

func (k *KDC) handleAS(req *krbmsg.KDCReq) []byte {
	now := k.Now()
	if req.MsgType != 10 {
		k.violate("AS-REQ msg-type %d", req.MsgType)
	}
	k.checkCommon("AS-REQ", req, k.Expect.ASOptions, k.Expect.ETypesAS, false)
	b := req.Body
	if b.Realm != k.Realm {
		return k.errReply(68, req, nil)
	}
	if b.CName == nil || b.SName == nil {
		k.violate("AS-REQ without cname or sname")
		return k.errReply(6, req, nil)
	}
	cl, ok := k.Principals[pkey(b.CName.Names, k.Realm)]
	if !ok {
		return k.errReply(6, req, nil)
	}
	// choose the client key: first requested etype the client has
	var ck *Key
	for _, et := range b.ETypes {
		if ck = cl.key(et); ck != nil {
			break
		}
	}
	if ck == nil {
		return k.errReply(14, req, nil)
	}
	eti2 := func() []byte {
		par := ck.Params
		if par == nil && k.AdvertiseParams != nil {
			par = k.AdvertiseParams
		}
		return krbmsg.EncodeETypeInfo2([]krbmsg.ETypeInfo2Entry{{EType: ck.Etype, Salt: ck.Salt, Params: par}})
	}
	preauth := false
	for _, pa := range req.PAData {
		if pa.Type != 2 {
			continue
		}
		ed, err := krbmsg.DecodeEncryptedData(pa.Value)
		if err != nil {
			k.violate("PA-ENC-TIMESTAMP is not an EncryptedData: %v", err)
			return k.errReply(24, req, nil)
		}
		pk := cl.key(ed.EType)
		if pk == nil {
			k.violate("PA-ENC-TIMESTAMP uses etype %d for which the client has no key", ed.EType)
			return k.errReply(24, req, nil)
		}
		_, pt, err := rcrypto.Decrypt(ed.EType, pk.Value, 1, ed.Cipher)
		if err != nil {
			k.violate("(soft) PA-ENC-TIMESTAMP does not decrypt under the client key with key usage 1: %v", err)
			return k.errReply(24, req, krbmsg.EncodeMethodData([]krbmsg.PAData{{Type: 19, Value: eti2()}}))
		}
		if ed.EType == rcrypto.DES3 {
			pt = trimDER(pt)
		}
		ts, err := krbmsg.DecodePAEncTSEnc(pt)
		if err != nil {
			k.violate("PA-ENC-TS-ENC malformed: %v", err)
			return k.errReply(24, req, nil)
		}
		t := ts.Timestamp
		if ts.Usec != nil {
			t = t.Add(time.Duration(*ts.Usec) * time.Microsecond)
		}
		if d := now.Sub(t); d > k.Skew || -d > k.Skew {
			k.violate("PA-ENC-TIMESTAMP %v is outside the clock skew of %v", t, now)
			return k.errReply(37, req, nil)
		}
		if ed.KVNO != nil && *ed.KVNO != pk.KVNO && *ed.KVNO != 0 {
			k.violate("PA-ENC-TIMESTAMP kvno %d, client key has kvno %d", *ed.KVNO, pk.KVNO)
		}
		preauth = true
		ck = pk
	}
	if k.RequirePA && !preauth {
		hints := []krbmsg.PAData{{Type: 19, Value: eti2()}}
		if k.PAHints != nil {
			hints = k.PAHints(krbmsg.ETypeInfo2Entry{EType: ck.Etype, Salt: ck.Salt, Params: ck.Params})
		}
		md := krbmsg.EncodeMethodData(append(hints, krbmsg.PAData{Type: 2, Value: []byte{}}))
		return k.errReply(25, req, md)
	}
	// the requested server: the TGS of this realm or a service (e.g. kadmin/changepw)
	var skey Key
	if len(b.SName.Names) == 2 && b.SName.Names[0] == "krbtgt" && b.SName.Names[1] == k.Realm {
		skey = k.TGSKey
	} else if sp, ok := k.Principals[pkey(b.SName.Names, k.Realm)]; ok && len(sp.Keys) > 0 {
		skey = sp.Keys[0]
	} else {
		return k.errReply(7, req, nil)
	}
	flags := uint32(FlagInitial)
	if preauth {
		flags |= FlagPreAuthent
	}
	if b.KDCOptions&FlagForwardable != 0 {
		flags |= FlagForwardable
	}
	if b.KDCOptions&FlagProxiable != 0 {
		flags |= FlagProxiable
	}
	end := b.Till
	if mx := now.Add(k.MaxLife); end.After(mx) || end.IsZero() || end.Unix() == 0 {
		end = mx
	}
	end = end.Truncate(time.Second)
	var renew *time.Time
	if b.KDCOptions&FlagRenewable != 0 && b.RTime != nil {
		rt := *b.RTime
		if mx := now.Add(k.MaxRenew); rt.After(mx) {
			rt = mx
		}
		rt = rt.Truncate(time.Second)
		renew = &rt
		flags |= FlagRenewable
	}
	sess := k.RandKey(ck.Etype)
	start := now.Truncate(time.Second)
	etp := krbmsg.EncTicketPart{Flags: flags, Key: krbmsg.EncryptionKey{Type: ck.Etype, Value: sess}, CRealm: k.Realm, CName: *b.CName,
		Transited: krbmsg.Transited{Type: 1, Contents: []byte{}}, AuthTime: start, StartTime: &start, EndTime: end, RenewTill: renew, CAddr: b.Addresses}
	tct, _ := rcrypto.EncryptWithConfounder(skey.Etype, skey.Value, 2, k.conf(skey.Etype), etp.Encode())
	tkt := krbmsg.Ticket{VNO: 5, Realm: k.Realm, SName: *b.SName, Enc: krbmsg.EncryptedData{EType: skey.Etype, KVNO: krbmsg.I64(skey.KVNO), Cipher: tct}}
	encApp := krbmsg.AppEncASRepPart
	if k.EncTag26ForAS {
		encApp = krbmsg.AppEncTGSRepPart
	}
	enc := krbmsg.EncKDCRepPart{App: encApp, Key: krbmsg.EncryptionKey{Type: ck.Etype, Value: sess}, LastReqs: []krbmsg.LastReq{{Type: 0, Value: start}}, Nonce: b.Nonce, Flags: flags,
		AuthTime: start, StartTime: &start, EndTime: end, RenewTill: renew, SRealm: k.Realm, SName: *b.SName, CAddr: b.Addresses}
	rep := krbmsg.KDCRep{App: krbmsg.AppASRep, PVNO: 5, MsgType: 11, CRealm: k.Realm, CName: *b.CName}
	if k.AdvertiseETI2 && (ck.Salt != nil || ck.Params != nil) {
		rep.PAData = []krbmsg.PAData{{Type: 19, Value: eti2()}}
	}
	r := &Reply{Exchange: "AS", Rep: &rep, Enc: &enc, EncKey: ck.Value, EncEtype: ck.Etype, EncUsage: 3, Ticket: &tkt}
	out := k.seal(r, ck.KVNO)
	k.Issued = append(k.Issued, Issued{Exchange: "AS", Client: pkey(b.CName.Names, k.Realm), SName: b.SName.Names, TktRealm: k.Realm, SessionKey: sess, KeyEtype: ck.Etype, Ticket: tkt.Encode(),
		AuthTime: start, Start: start, End: end, RenewTill: renew, Flags: flags, At: now, Nonce: b.Nonce})
	k.Requests[len(k.Requests)-1].ReplyKind = "AS-REP"
	return out
}

// trimDER cuts des3 zero padding after a DER element.
func trimDER(b []byte) []byte {
	if len(b) < 2 {
		return b
	}
	l := int(b[1])
	hdr := 2
	if l > 0x80 {
		n := l & 0x7f
		if 2+n > len(b) {
			return b
		}
		l = 0
		for i := 0; i < n; i++ {
			l = l<<8 | int(b[2+i])
		}
		hdr = 2 + n
	}
	if hdr+l <= len(b) {
		return b[:hdr+l]
	}
	return b
}

// seal encrypts the enc-part (after the adversary had its say) and encodes the reply.
func (k *KDC) seal(r *Reply, kvno int64) []byte {
	if k.Perturb != nil {
		k.Perturb(r)
	}
	if r.Raw != nil {
		return r.Raw
	}
	r.Rep.Ticket = r.Ticket.Encode()
	plain := r.Enc.Encode()
	if r.RawEnc != nil {
		plain = r.RawEnc
	}
	ct, err := rcrypto.EncryptWithConfounder(r.EncEtype, r.EncKey, r.EncUsage, k.conf(r.EncEtype), plain)
	if err != nil {
		panic(err)
	}
	if r.PostSeal != nil {
		ct = r.PostSeal(ct)
	}
	if r.Rep.Enc.Cipher == nil {
		r.Rep.Enc = krbmsg.EncryptedData{EType: r.EncEtype, Cipher: ct}
		if r.Exchange == "AS" {
			r.Rep.Enc.KVNO = krbmsg.I64(kvno)
		}
	} else {
		r.Rep.Enc.Cipher = ct
	}
	return r.Rep.Encode()
}

func (k *KDC) handleTGS(req *krbmsg.KDCReq) []byte {
	now := k.Now()
	if req.MsgType != 12 {
		k.violate("TGS-REQ msg-type %d", req.MsgType)
	}
	b := req.Body
	renewal := b.KDCOptions&OptRenew != 0
	var apb []byte
	for _, pa := range req.PAData {
		if pa.Type == 1 {
			apb = pa.Value
		}
	}
	if apb == nil {
		k.violate("TGS-REQ without PA-TGS-REQ")
		return k.errReply(75, req, nil)
	}
	ap, err := krbmsg.DecodeAPReq(apb)
	if err != nil {
		k.violate("PA-TGS-REQ is not a well-formed AP-REQ: %v", err)
		return k.errReply(60, req, nil)
	}
	tkt, err := krbmsg.DecodeTicket(ap.Ticket)
	if err != nil {
		k.violate("ticket in PA-TGS-REQ malformed: %v", err)
		return k.errReply(60, req, nil)
	}
	// which key seals the presented ticket
	var tkey Key
	switch {
	case len(tkt.SName.Names) == 2 && tkt.SName.Names[0] == "krbtgt" && tkt.SName.Names[1] == k.Realm && tkt.Realm == k.Realm:
		tkey = k.TGSKey
	case len(tkt.SName.Names) == 2 && tkt.SName.Names[0] == "krbtgt" && tkt.SName.Names[1] == k.Realm:
		ck, ok := k.CrossIn[tkt.Realm]
		if !ok {
			return k.errReply(31, req, nil)
		}
		tkey = ck
	case len(tkt.SName.Names) == 2 && tkt.SName.Names[0] == "krbtgt" && tkt.Realm == k.Realm && renewal:
		// renewal of a cross-realm TGT this realm issued
		ck, ok := k.CrossOut[tkt.SName.Names[1]]
		if !ok {
			return k.errReply(31, req, nil)
		}
		tkey = ck
	default:
		// renewal of a service ticket: sealed with the service key
		sp, ok := k.Principals[pkey(tkt.SName.Names, k.Realm)]
		if !ok || !renewal {
			k.violate("TGS-REQ presents a ticket for %v that is not a TGT for this realm", tkt.SName.Names)
			return k.errReply(35, req, nil)
		}
		kk := sp.key(tkt.Enc.EType)
		if kk == nil {
			return k.errReply(31, req, nil)
		}
		tkey = *kk
	}
	_, etb, err := rcrypto.Decrypt(tkt.Enc.EType, tkey.Value, 2, tkt.Enc.Cipher)
	if err != nil || tkt.Enc.EType != tkey.Etype {
		k.violate("ticket in PA-TGS-REQ does not decrypt: %v", err)
		return k.errReply(31, req, nil)
	}
	if tkt.Enc.EType == rcrypto.DES3 {
		etb = trimDER(etb)
	}
	etp, err := krbmsg.DecodeEncTicketPart(etb)
	if err != nil {
		k.violate("EncTicketPart malformed: %v", err)
		return k.errReply(31, req, nil)
	}
	_, ab, err := rcrypto.Decrypt(ap.Auth.EType, etp.Key.Value, 7, ap.Auth.Cipher)
	if err != nil {
		k.violate("authenticator of PA-TGS-REQ does not decrypt under the ticket session key with key usage 7: %v", err)
		return k.errReply(31, req, nil)
	}
	if ap.Auth.EType == rcrypto.DES3 {
		ab = trimDER(ab)
	}
	auth, err := krbmsg.DecodeAuthenticator(ab)
	if err != nil {
		k.violate("authenticator malformed: %v", err)
		return k.errReply(31, req, nil)
	}
	if !auth.CName.SameName(etp.CName) || (auth.CRealm != etp.CRealm && !(k.LenientAuthCRealm && auth.CRealm == tkt.Realm)) {
		k.violate("authenticator client %v@%s differs from the ticket's %v@%s", auth.CName.Names, auth.CRealm, etp.CName.Names, etp.CRealm)
		return k.errReply(36, req, nil)
	}
	at := auth.CTime.Add(time.Duration(auth.Cusec) * time.Microsecond)
	if d := now.Sub(at); d > k.Skew || -d > k.Skew {
		k.violate("authenticator time %v outside the clock skew of %v", at, now)
		return k.errReply(37, req, nil)
	}
	if auth.Cksum == nil {
		k.violate("authenticator of PA-TGS-REQ carries no checksum over the request body")
	} else {
		cet, ok := rcrypto.EtypeForCksum(auth.Cksum.Type)
		if !ok || cet != etp.Key.Type {
			k.violate("authenticator checksum type %d does not belong to the session key etype %d", auth.Cksum.Type, etp.Key.Type)
		} else if want, _ := rcrypto.Checksum(cet, etp.Key.Value, 6, req.BodyRaw); !bytes.Equal(want, auth.Cksum.Sum) {
			k.violate("authenticator checksum does not match the req-body (key usage 6)")
			return k.errReply(50, req, nil)
		}
	}
	// A ticket past its end time (plus skew) is refused. By default the model lets a renewable ticket be renewed until
	// renew-till even after it has ended (lenient); StrictRenewal refuses that, as MIT's KDC does - both are conformant,
	// and the client has to cope with either.
	if now.After(etp.EndTime.Add(k.Skew)) && !(renewal && !k.StrictRenewal && etp.RenewTill != nil && now.Before(*etp.RenewTill)) {
		return k.errReply(32, req, nil)
	}
	if now.After(etp.EndTime) && !renewal {
		return k.errReply(32, req, nil)
	}
	k.checkCommon("TGS-REQ", req, k.Expect.TGSOptions, k.Expect.ETypesTGS, renewal)
	if b.SName == nil {
		k.violate("TGS-REQ without sname")
		return k.errReply(7, req, nil)
	}
	if k.Expect.Check && b.Realm != k.Realm {
		k.violate("TGS-REQ realm %q sent to the KDC of %q", b.Realm, k.Realm)
	}
	client := pkey(etp.CName.Names, etp.CRealm)
	sessEt := etp.Key.Type
	var sess []byte
	start := now.Truncate(time.Second)
	flags := etp.Flags &^ FlagInitial
	var skey Key
	sname := *b.SName
	tktRealm := k.Realm
	switch {
	case renewal:
		if etp.Flags&FlagRenewable == 0 || etp.RenewTill == nil || !now.Before(*etp.RenewTill) {
			return k.errReply(32, req, nil)
		}
		if !sname.SameName(tkt.SName) {
			k.violate("renewal request names %v but presents a ticket for %v", sname.Names, tkt.SName.Names)
		}
		skey = tkey
		sess = etp.Key.Value // a renewed ticket keeps its session key (MIT behaviour) ...
		if k.FreshKeyOnRenew {
			sess = k.RandKey(sessEt) // ... or gets a new one; a conformant KDC may do either
		}
	case len(sname.Names) == 2 && sname.Names[0] == "krbtgt" && sname.Names[1] != k.Realm:
		ck, ok := k.CrossOut[sname.Names[1]]
		if !ok {
			return k.errReply(7, req, nil)
		}
		skey = ck
		sess = k.RandKey(sessEt)
	default:
		if sp, ok := k.Principals[pkey(sname.Names, k.Realm)]; ok {
			var kk *Key
			for _, et := range b.ETypes {
				if kk = sp.key(et); kk != nil {
					break
				}
			}
			if kk == nil {
				return k.errReply(14, req, nil)
			}
			skey = *kk
			sessEt = kk.Etype
			sess = k.RandKey(sessEt)
		} else if next := k.referralFor(sname.Names); next != "" && b.KDCOptions&OptCanonicalize != 0 {
			ck, ok := k.CrossOut[next]
			if !ok {
				return k.errReply(7, req, nil)
			}
			skey = ck
			sname = krbmsg.PrincipalName{Type: 2, Names: []string{"krbtgt", next}}
			sess = k.RandKey(sessEt)
		} else {
			return k.errReply(7, req, nil)
		}
	}
	end := b.Till
	if mx := now.Add(k.MaxLife); end.After(mx) || end.Unix() == 0 {
		end = mx
	}
	if end.After(etp.EndTime) && !renewal {
		end = etp.EndTime
	}
	if renewal {
		life := etp.EndTime.Sub(etp.AuthTime)
		if etp.StartTime != nil {
			life = etp.EndTime.Sub(*etp.StartTime)
		}
		end = now.Add(life)
		if end.After(*etp.RenewTill) {
			end = *etp.RenewTill
		}
	}
	end = end.Truncate(time.Second)
	if !end.After(start) {
		// RFC 4120 3.3.3 / 3.1.3: a ticket that could never be used is not issued
		return k.errReply(11, req, nil) // KDC_ERR_NEVER_VALID
	}
	renew := etp.RenewTill
	if renew == nil {
		flags &^= FlagRenewable
	}
	netp := krbmsg.EncTicketPart{Flags: flags, Key: krbmsg.EncryptionKey{Type: sessEt, Value: sess}, CRealm: etp.CRealm, CName: etp.CName,
		Transited: etp.Transited, AuthTime: etp.AuthTime, StartTime: &start, EndTime: end, RenewTill: renew, CAddr: etp.CAddr}
	nct, _ := rcrypto.EncryptWithConfounder(skey.Etype, skey.Value, 2, k.conf(skey.Etype), netp.Encode())
	ntkt := krbmsg.Ticket{VNO: 5, Realm: tktRealm, SName: sname, Enc: krbmsg.EncryptedData{EType: skey.Etype, KVNO: krbmsg.I64(skey.KVNO), Cipher: nct}}
	encApp := krbmsg.AppEncTGSRepPart
	if k.EncTag25ForTGS {
		encApp = krbmsg.AppEncASRepPart
	}
	enc := krbmsg.EncKDCRepPart{App: encApp, Key: netp.Key, LastReqs: []krbmsg.LastReq{{Type: 0, Value: start}}, Nonce: b.Nonce, Flags: flags,
		AuthTime: etp.AuthTime, StartTime: &start, EndTime: end, RenewTill: renew, SRealm: tktRealm, SName: sname, CAddr: etp.CAddr}
	rep := krbmsg.KDCRep{App: krbmsg.AppTGSRep, PVNO: 5, MsgType: 13, CRealm: etp.CRealm, CName: etp.CName}
	usage, ekey, eet := uint32(8), etp.Key.Value, etp.Key.Type
	if auth.SubKey != nil {
		usage, ekey, eet = 9, auth.SubKey.Value, auth.SubKey.Type
	}
	r := &Reply{Exchange: "TGS", Rep: &rep, Enc: &enc, EncKey: ekey, EncEtype: eet, EncUsage: usage, Ticket: &ntkt}
	out := k.seal(r, 0)
	k.Issued = append(k.Issued, Issued{Exchange: "TGS", Client: client, SName: sname.Names, TktRealm: tktRealm, SessionKey: sess, KeyEtype: netp.Key.Type, Ticket: ntkt.Encode(),
		AuthTime: etp.AuthTime, Start: start, End: end, RenewTill: renew, Flags: flags, Renewal: renewal, At: now, Nonce: b.Nonce})
	k.Requests[len(k.Requests)-1].ReplyKind = "TGS-REP"
	return out
}

// IssueDirect issues a ticket for cname to sname without a request (what a credential cache written earlier by
// another program holds) and enters it in the issue log. renew <= 0: not renewable.
func (k *KDC) IssueDirect(cname, sname []string, life, renew time.Duration, flags uint32) *Issued {
	var skey Key
	switch {
	case len(sname) == 2 && sname[0] == "krbtgt" && sname[1] == k.Realm:
		skey = k.TGSKey
	case len(sname) == 2 && sname[0] == "krbtgt":
		skey = k.CrossOut[sname[1]]
	default:
		p := k.Principals[pkey(sname, k.Realm)]
		if p == nil || len(p.Keys) == 0 {
			return nil
		}
		skey = p.Keys[0]
	}
	now := k.Now().UTC()
	start := now.Truncate(time.Second)
	end := start.Add(life)
	var rt *time.Time
	flags &^= FlagRenewable
	if renew > 0 {
		t := start.Add(renew)
		rt = &t
		flags |= FlagRenewable
	}
	sess := k.RandKey(skey.Etype)
	etp := krbmsg.EncTicketPart{Flags: flags, Key: krbmsg.EncryptionKey{Type: skey.Etype, Value: sess}, CRealm: k.Realm, CName: krbmsg.PrincipalName{Type: 1, Names: cname},
		Transited: krbmsg.Transited{Type: 1, Contents: []byte{}}, AuthTime: start, StartTime: &start, EndTime: end, RenewTill: rt}
	ct, _ := rcrypto.EncryptWithConfounder(skey.Etype, skey.Value, 2, k.conf(skey.Etype), etp.Encode())
	tkt := krbmsg.Ticket{VNO: 5, Realm: k.Realm, SName: krbmsg.PrincipalName{Type: 2, Names: sname}, Enc: krbmsg.EncryptedData{EType: skey.Etype, KVNO: krbmsg.I64(skey.KVNO), Cipher: ct}}
	k.Issued = append(k.Issued, Issued{Exchange: "DIRECT", Client: pkey(cname, k.Realm), SName: sname, TktRealm: k.Realm, SessionKey: sess, KeyEtype: skey.Etype, Ticket: tkt.Encode(),
		AuthTime: start, Start: start, End: end, RenewTill: rt, Flags: flags, At: now})
	return &k.Issued[len(k.Issued)-1]
}

func (k *KDC) referralFor(sname []string) string {
	if len(sname) < 2 {
		return ""
	}
	host := sname[len(sname)-1]
	best, bl := "", -1
	for suf, realm := range k.Referral {
		if strings.HasSuffix(host, suf) && len(suf) > bl {
			best, bl = realm, len(suf)
		}
	}
	return best
}

// Link creates inter-realm keys so that a issues cross-realm TGTs b accepts.
func Link(a, b *KDC) {
	key := Key{Etype: rcrypto.AES256, KVNO: 3, Value: a.RandKey(rcrypto.AES256)}
	a.CrossOut[b.Realm] = key
	b.CrossIn[a.Realm] = key
}
