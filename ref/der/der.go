// Package der is a small, strict DER reader and writer written from X.690 for
// the verification harness (independent of gokrb5 and of gofork's asn1).
package der

import (
	"errors"
	"fmt"
	"math/big"
	"time"
)

// Classes.
const (
	Universal = 0
	App       = 1
	Ctx       = 2
	Private   = 3
)

// Universal tags used by Kerberos.
const (
	TagBoolean         = 1
	TagInteger         = 2
	TagBitString       = 3
	TagOctetString     = 4
	TagNull            = 5
	TagOID             = 6
	TagEnumerated      = 10
	TagUTF8String      = 12
	TagSequence        = 16
	TagIA5String       = 22
	TagGeneralizedTime = 24
	TagGeneralString   = 27
)

// ---------------------------------------------------------------- writer

// Len encodes a definite length in the minimal number of octets.
func Len(n int) []byte {
	if n < 0x80 {
		return []byte{byte(n)}
	}
	var b []byte
	for v := n; v > 0; v >>= 8 {
		b = append([]byte{byte(v)}, b...)
	}
	return append([]byte{0x80 | byte(len(b))}, b...)
}

// TLV builds an element. Tags >= 31 use the high-tag-number form.
func TLV(class int, constructed bool, tag int, content []byte) []byte {
	id := byte(class << 6)
	if constructed {
		id |= 0x20
	}
	var out []byte
	if tag < 31 {
		out = []byte{id | byte(tag)}
	} else {
		out = []byte{id | 31}
		var tb []byte
		for v := tag; ; v >>= 7 {
			tb = append([]byte{byte(v & 0x7f)}, tb...)
			if v < 0x80 {
				break
			}
		}
		for i := 0; i < len(tb)-1; i++ {
			tb[i] |= 0x80
		}
		out = append(out, tb...)
	}
	out = append(out, Len(len(content))...)
	return append(out, content...)
}

func cat(parts [][]byte) []byte {
	var out []byte
	for _, p := range parts {
		out = append(out, p...)
	}
	return out
}

// Seq is a SEQUENCE of the given (already encoded) elements; nil elements are skipped.
func Seq(items ...[]byte) []byte { return TLV(Universal, true, TagSequence, cat(items)) }

// Explicit wraps inner in a context-specific constructed tag.
func Explicit(tag int, inner []byte) []byte {
	if inner == nil {
		return nil
	}
	return TLV(Ctx, true, tag, inner)
}

// Application wraps inner in an APPLICATION constructed tag.
func Application(tag int, inner []byte) []byte { return TLV(App, true, tag, inner) }

// Int encodes an INTEGER (two's complement, minimal).
func Int(v int64) []byte {
	n := 1
	for x := v; x > 127 || x < -128; x >>= 8 {
		n++
	}
	b := make([]byte, n)
	for i := n - 1; i >= 0; i-- {
		b[i] = byte(v)
		v >>= 8
	}
	return TLV(Universal, false, TagInteger, b)
}

// BigInt encodes an arbitrary non-negative INTEGER.
func BigInt(v *big.Int) []byte {
	b := v.Bytes()
	if len(b) == 0 || b[0]&0x80 != 0 {
		b = append([]byte{0}, b...)
	}
	return TLV(Universal, false, TagInteger, b)
}

// Octets encodes an OCTET STRING.
func Octets(b []byte) []byte { return TLV(Universal, false, TagOctetString, b) }

// GeneralString encodes a GeneralString (KerberosString).
func GeneralString(s string) []byte { return TLV(Universal, false, TagGeneralString, []byte(s)) }

// BitString encodes a BIT STRING with the given unused-bit count.
func BitString(b []byte, unused int) []byte {
	return TLV(Universal, false, TagBitString, append([]byte{byte(unused)}, b...))
}

// Flags32 encodes KerberosFlags: 32 bits, bit 0 is the most significant bit of the first octet.
func Flags32(v uint32) []byte {
	return BitString([]byte{byte(v >> 24), byte(v >> 16), byte(v >> 8), byte(v)}, 0)
}

// GenTime encodes KerberosTime (GeneralizedTime, UTC, no fractional seconds).
func GenTime(t time.Time) []byte {
	return TLV(Universal, false, TagGeneralizedTime, []byte(t.UTC().Format("20060102150405Z")))
}

// OID encodes an OBJECT IDENTIFIER.
func OID(arcs ...int) []byte {
	b := []byte{byte(arcs[0]*40 + arcs[1])}
	for _, a := range arcs[2:] {
		var tb []byte
		for v := a; ; v >>= 7 {
			tb = append([]byte{byte(v & 0x7f)}, tb...)
			if v < 0x80 {
				break
			}
		}
		for i := 0; i < len(tb)-1; i++ {
			tb[i] |= 0x80
		}
		b = append(b, tb...)
	}
	return TLV(Universal, false, TagOID, b)
}

// Enumerated encodes an ENUMERATED.
func Enumerated(v int64) []byte {
	e := Int(v)
	e[0] = TagEnumerated
	return e
}

// Bool encodes a BOOLEAN.
func Bool(v bool) []byte {
	if v {
		return []byte{TagBoolean, 1, 0xff}
	}
	return []byte{TagBoolean, 1, 0}
}

// ---------------------------------------------------------------- reader

// Node is a decoded element.
type Node struct {
	Class       int
	Constructed bool
	Tag         int
	Content     []byte
	Full        []byte
	Children    []*Node // parsed for constructed elements
}

// ErrDER is returned for any violation of DER.
var ErrDER = errors.New("not valid DER")

func derr(format string, a ...interface{}) error {
	return fmt.Errorf("%w: %s", ErrDER, fmt.Sprintf(format, a...))
}

// parseOne reads one element strictly (definite minimal lengths, low-tag form when possible).
func parseOne(b []byte, depth int) (*Node, []byte, error) {
	if depth > 64 {
		return nil, nil, derr("nesting too deep")
	}
	if len(b) < 2 {
		return nil, nil, derr("truncated header")
	}
	n := &Node{Class: int(b[0] >> 6), Constructed: b[0]&0x20 != 0, Tag: int(b[0] & 0x1f)}
	p := 1
	if n.Tag == 31 {
		n.Tag = 0
		for {
			if p >= len(b) {
				return nil, nil, derr("truncated high tag")
			}
			if n.Tag == 0 && b[p] == 0x80 {
				return nil, nil, derr("non-minimal high tag")
			}
			n.Tag = n.Tag<<7 | int(b[p]&0x7f)
			p++
			if b[p-1]&0x80 == 0 {
				break
			}
			if n.Tag > 1<<24 {
				return nil, nil, derr("tag too large")
			}
		}
		if n.Tag < 31 {
			return nil, nil, derr("high tag form used for low tag")
		}
	}
	if p >= len(b) {
		return nil, nil, derr("truncated length")
	}
	l := int(b[p])
	p++
	if l == 0x80 {
		return nil, nil, derr("indefinite length")
	}
	if l > 0x80 {
		nb := l & 0x7f
		if nb > 4 || p+nb > len(b) {
			return nil, nil, derr("bad length of length")
		}
		if b[p] == 0 {
			return nil, nil, derr("non-minimal length (leading zero)")
		}
		l = 0
		for i := 0; i < nb; i++ {
			l = l<<8 | int(b[p+i])
		}
		p += nb
		if l < 0x80 {
			return nil, nil, derr("non-minimal length (long form for short length)")
		}
	}
	if l < 0 || p+l > len(b) {
		return nil, nil, derr("content exceeds input")
	}
	n.Content = b[p : p+l]
	n.Full = b[:p+l]
	if n.Constructed {
		rest := n.Content
		for len(rest) > 0 {
			c, r, err := parseOne(rest, depth+1)
			if err != nil {
				return nil, nil, err
			}
			n.Children = append(n.Children, c)
			rest = r
		}
	}
	return n, b[p+l:], nil
}

// Parse decodes exactly one element occupying all of b.
func Parse(b []byte) (*Node, error) {
	n, rest, err := parseOne(b, 0)
	if err != nil {
		return nil, err
	}
	if len(rest) != 0 {
		return nil, derr("%d trailing bytes", len(rest))
	}
	return n, nil
}

// ParsePrefix decodes one element and returns the remainder.
func ParsePrefix(b []byte) (*Node, []byte, error) { return parseOne(b, 0) }

// Is reports whether the node has the class/tag/constructed-ness.
func (n *Node) Is(class, tag int, constructed bool) bool {
	return n != nil && n.Class == class && n.Tag == tag && n.Constructed == constructed
}

// Expect checks class/tag and returns the node.
func (n *Node) Expect(class, tag int, constructed bool) (*Node, error) {
	if !n.Is(class, tag, constructed) {
		if n == nil {
			return nil, derr("missing element (want class %d tag %d)", class, tag)
		}
		return nil, derr("want class %d tag %d constructed %v, have class %d tag %d constructed %v", class, tag, constructed, n.Class, n.Tag, n.Constructed)
	}
	return n, nil
}

// Inner returns the single child of an explicit/application wrapper.
func (n *Node) Inner() (*Node, error) {
	if n == nil || !n.Constructed || len(n.Children) != 1 {
		return nil, derr("explicit tag must wrap exactly one element")
	}
	return n.Children[0], nil
}

// Field returns the content of context tag [tag] among the children of a SEQUENCE, or nil.
func (n *Node) Field(tag int) *Node {
	for _, c := range n.Children {
		if c.Class == Ctx && c.Tag == tag {
			if len(c.Children) == 1 {
				return c.Children[0]
			}
			return nil
		}
	}
	return nil
}

// FieldTagsAscending verifies that the children are context tags in strictly ascending order.
func (n *Node) FieldTagsAscending() error {
	last := -1
	for _, c := range n.Children {
		if c.Class != Ctx || !c.Constructed {
			return derr("sequence member is not an explicit context tag")
		}
		if c.Tag <= last {
			return derr("context tags out of order (%d after %d)", c.Tag, last)
		}
		if len(c.Children) != 1 {
			return derr("explicit tag [%d] does not wrap exactly one element", c.Tag)
		}
		last = c.Tag
	}
	return nil
}

// AsInt decodes a minimal INTEGER.
func (n *Node) AsInt() (int64, error) {
	if !n.Is(Universal, TagInteger, false) && !n.Is(Universal, TagEnumerated, false) {
		return 0, derr("not an INTEGER")
	}
	b := n.Content
	if len(b) == 0 || len(b) > 8 {
		return 0, derr("bad INTEGER length %d", len(b))
	}
	if len(b) > 1 && (b[0] == 0 && b[1]&0x80 == 0 || b[0] == 0xff && b[1]&0x80 != 0) {
		return 0, derr("non-minimal INTEGER")
	}
	v := int64(int8(b[0]))
	for _, x := range b[1:] {
		v = v<<8 | int64(x)
	}
	return v, nil
}

// AsOctets decodes an OCTET STRING.
func (n *Node) AsOctets() ([]byte, error) {
	if !n.Is(Universal, TagOctetString, false) {
		return nil, derr("not an OCTET STRING")
	}
	return n.Content, nil
}

// AsGeneralString decodes a GeneralString.
func (n *Node) AsGeneralString() (string, error) {
	if !n.Is(Universal, TagGeneralString, false) {
		return "", derr("not a GeneralString (tag %d)", n.Tag)
	}
	return string(n.Content), nil
}

// AsBitString decodes a BIT STRING to (bytes, unused bits).
func (n *Node) AsBitString() ([]byte, int, error) {
	if !n.Is(Universal, TagBitString, false) || len(n.Content) < 1 {
		return nil, 0, derr("not a BIT STRING")
	}
	u := int(n.Content[0])
	if u > 7 || (len(n.Content) == 1 && u != 0) {
		return nil, 0, derr("bad unused-bit count")
	}
	return n.Content[1:], u, nil
}

// AsTime decodes KerberosTime.
func (n *Node) AsTime() (time.Time, error) {
	if !n.Is(Universal, TagGeneralizedTime, false) {
		return time.Time{}, derr("not a GeneralizedTime")
	}
	if len(n.Content) != 15 {
		return time.Time{}, derr("KerberosTime must be YYYYMMDDHHMMSSZ")
	}
	t, err := time.Parse("20060102150405Z", string(n.Content))
	if err != nil {
		return time.Time{}, derr("bad time %q", n.Content)
	}
	return t, nil
}

// AsOID decodes an OBJECT IDENTIFIER.
func (n *Node) AsOID() ([]int, error) {
	if !n.Is(Universal, TagOID, false) || len(n.Content) == 0 {
		return nil, derr("not an OID")
	}
	out := []int{int(n.Content[0]) / 40, int(n.Content[0]) % 40}
	v := 0
	for _, b := range n.Content[1:] {
		v = v<<7 | int(b&0x7f)
		if b&0x80 == 0 {
			out = append(out, v)
			v = 0
		}
	}
	return out, nil
}
