// Package ccachefmt is an independent writer of the MIT credential cache
// file format, versions 1-4, written from the MIT "Credential cache file
// format" document: versions 1 and 2 use native byte order (little-endian
// here), 3 and 4 big-endian; version 1 principals have no name type and count
// the realm among the components; version 3 writes the key type twice;
// version 4 has a tagged header.
package ccachefmt

import "encoding/binary"

type Principal struct {
	NameType   uint32
	Realm      string
	Components []string
}

type Address struct {
	Type uint16
	Data []byte
}

type AuthData struct {
	Type uint16
	Data []byte
}

type Credential struct {
	Client, Server Principal
	KeyType        uint16
	Key            []byte
	AuthTime       int32
	StartTime      int32
	EndTime        int32
	RenewTill      int32
	IsSKey         uint8
	Flags          uint32 // krb5_flags: TKT_FLG_FORWARDABLE = 0x40000000 ...
	Addresses      []Address
	AuthData       []AuthData
	Ticket         []byte
	SecondTicket   []byte
}

type HeaderField struct {
	Tag  uint16
	Data []byte
}

type CCache struct {
	Version int
	Header  []HeaderField // version 4 only
	Default Principal
	Creds   []Credential
}

// IsConfig reports whether the credential is a configuration entry.
func (c Credential) IsConfig() bool {
	return len(c.Server.Realm) >= 11 && c.Server.Realm[:11] == "X-CACHECONF"
}

type w struct {
	bo binary.ByteOrder
	b  []byte
}

func (x *w) u8(v uint8)   { x.b = append(x.b, v) }
func (x *w) u16(v uint16) { t := make([]byte, 2); x.bo.PutUint16(t, v); x.b = append(x.b, t...) }
func (x *w) u32(v uint32) { t := make([]byte, 4); x.bo.PutUint32(t, v); x.b = append(x.b, t...) }
func (x *w) data(d []byte) {
	x.u32(uint32(len(d)))
	x.b = append(x.b, d...)
}

func (x *w) principal(version int, p Principal) {
	if version != 1 {
		x.u32(p.NameType)
	}
	n := len(p.Components)
	if version == 1 {
		n++
	}
	x.u32(uint32(n))
	x.data([]byte(p.Realm))
	for _, c := range p.Components {
		x.data([]byte(c))
	}
}

// Write renders the cache file.
func Write(c CCache) []byte {
	x := &w{bo: binary.BigEndian}
	if c.Version <= 2 {
		x.bo = binary.LittleEndian
	}
	x.b = []byte{5, byte(c.Version)}
	if c.Version == 4 {
		hl := 0
		for _, f := range c.Header {
			hl += 4 + len(f.Data)
		}
		x.u16(uint16(hl))
		for _, f := range c.Header {
			x.u16(f.Tag)
			x.u16(uint16(len(f.Data)))
			x.b = append(x.b, f.Data...)
		}
	}
	x.principal(c.Version, c.Default)
	for _, cr := range c.Creds {
		x.principal(c.Version, cr.Client)
		x.principal(c.Version, cr.Server)
		x.u16(cr.KeyType)
		if c.Version == 3 {
			x.u16(cr.KeyType)
		}
		x.data(cr.Key)
		x.u32(uint32(cr.AuthTime))
		x.u32(uint32(cr.StartTime))
		x.u32(uint32(cr.EndTime))
		x.u32(uint32(cr.RenewTill))
		x.u8(cr.IsSKey)
		x.u32(cr.Flags)
		x.u32(uint32(len(cr.Addresses)))
		for _, a := range cr.Addresses {
			x.u16(a.Type)
			x.data(a.Data)
		}
		x.u32(uint32(len(cr.AuthData)))
		for _, a := range cr.AuthData {
			x.u16(a.Type)
			x.data(a.Data)
		}
		x.data(cr.Ticket)
		x.data(cr.SecondTicket)
	}
	return x.b
}
