// Package krbmsg is an independent model of the RFC 4120 message types with a
// DER encoder and a strict decoder built on ref/der. It is the reference for
// minting requests/replies (C01, C03, C09, C10, C18) and for checking what
// gokrb5 encodes (C13). It imports nothing from gokrb5.
package krbmsg

import (
	"fmt"
	"time"

	"verif/ref/der"
)

// Application tags (RFC 4120 5.10).
const (
	AppTicket         = 1
	AppAuthenticator  = 2
	AppEncTicketPart  = 3
	AppASReq          = 10
	AppASRep          = 11
	AppTGSReq         = 12
	AppTGSRep         = 13
	AppAPReq          = 14
	AppAPRep          = 15
	AppKRBSafe        = 20
	AppKRBPriv        = 21
	AppKRBCred        = 22
	AppEncASRepPart   = 25
	AppEncTGSRepPart  = 26
	AppEncAPRepPart   = 27
	AppEncKrbPrivPart = 28
	AppKRBError       = 30
)

type PrincipalName struct {
	Type  int32
	Names []string
}

type EncryptionKey struct {
	Type  int32
	Value []byte
}

type EncryptedData struct {
	EType  int32
	KVNO   *int64
	Cipher []byte
}

type Checksum struct {
	Type int32
	Sum  []byte
}

type HostAddress struct {
	Type int32
	Addr []byte
}

type AuthDataEntry struct {
	Type int32
	Data []byte
}

type PAData struct {
	Type  int32
	Value []byte
}

type Transited struct {
	Type     int32
	Contents []byte
}

type Ticket struct {
	VNO   int64
	Realm string
	SName PrincipalName
	Enc   EncryptedData
}

type EncTicketPart struct {
	Flags     uint32
	FlagsRaw  []byte // when non-nil, encoded instead of Flags (unusual lengths)
	Key       EncryptionKey
	CRealm    string
	CName     PrincipalName
	Transited Transited
	AuthTime  time.Time
	StartTime *time.Time
	EndTime   time.Time
	RenewTill *time.Time
	CAddr     []HostAddress // nil: absent
	AuthData  []AuthDataEntry
	HasAD     bool // encode authorization-data even when empty
}

type Authenticator struct {
	VNO      int64
	CRealm   string
	CName    PrincipalName
	Cksum    *Checksum
	Cusec    int64
	CTime    time.Time
	SubKey   *EncryptionKey
	SeqNum   *int64
	AuthData []AuthDataEntry
}

type APReq struct {
	PVNO      int64
	MsgType   int64
	APOptions uint32
	Ticket    []byte // encoded Ticket
	Auth      EncryptedData
}

type KDCReqBody struct {
	KDCOptions  uint32
	CName       *PrincipalName
	Realm       string
	SName       *PrincipalName
	From        *time.Time
	Till        time.Time
	RTime       *time.Time
	Nonce       int64
	ETypes      []int32
	Addresses   []HostAddress
	EncAuthData *EncryptedData
	AddTickets  [][]byte // encoded tickets
}

type KDCReq struct {
	App     int // AppASReq or AppTGSReq
	PVNO    int64
	MsgType int64
	PAData  []PAData
	HasPA   bool
	Body    KDCReqBody
	BodyRaw []byte // exact bytes of the req-body element as received (for checksum verification)
}

type KDCRep struct {
	App     int
	PVNO    int64
	MsgType int64
	PAData  []PAData
	HasPA   bool
	CRealm  string
	CName   PrincipalName
	Ticket  []byte
	Enc     EncryptedData
}

type LastReq struct {
	Type  int32
	Value time.Time
}

type EncKDCRepPart struct {
	App       int // AppEncASRepPart or AppEncTGSRepPart
	Key       EncryptionKey
	LastReqs  []LastReq
	Nonce     int64
	KeyExp    *time.Time
	Flags     uint32
	AuthTime  time.Time
	StartTime *time.Time
	EndTime   time.Time
	RenewTill *time.Time
	SRealm    string
	SName     PrincipalName
	CAddr     []HostAddress
	EncPA     []PAData
	HasEncPA  bool
}

type KRBError struct {
	PVNO    int64
	MsgType int64
	CTime   *time.Time
	Cusec   *int64
	STime   time.Time
	Susec   int64
	Code    int32
	CRealm  *string
	CName   *PrincipalName
	Realm   string
	SName   PrincipalName
	EText   *string
	EData   []byte
}

type KRBPriv struct {
	PVNO    int64
	MsgType int64
	Enc     EncryptedData
}

type EncKrbPrivPart struct {
	UserData  []byte
	Timestamp *time.Time
	Usec      *int64
	SeqNum    *int64
	SAddress  HostAddress
	RAddress  *HostAddress
}

type APRep struct {
	PVNO    int64
	MsgType int64
	Enc     EncryptedData
}

type EncAPRepPart struct {
	CTime  time.Time
	Cusec  int64
	SubKey *EncryptionKey
	SeqNum *int64
}

type PAEncTSEnc struct {
	Timestamp time.Time
	Usec      *int64
}

type ETypeInfo2Entry struct {
	EType  int32
	Salt   *string
	Params []byte
}

// ---------------------------------------------------------------- encoders

func (p PrincipalName) Encode() []byte {
	var names [][]byte
	for _, n := range p.Names {
		names = append(names, der.GeneralString(n))
	}
	return der.Seq(der.Explicit(0, der.Int(int64(p.Type))), der.Explicit(1, der.Seq(names...)))
}

func (k EncryptionKey) Encode() []byte {
	return der.Seq(der.Explicit(0, der.Int(int64(k.Type))), der.Explicit(1, der.Octets(k.Value)))
}

func (e EncryptedData) Encode() []byte {
	var kv []byte
	if e.KVNO != nil {
		kv = der.Explicit(1, der.Int(*e.KVNO))
	}
	return der.Seq(der.Explicit(0, der.Int(int64(e.EType))), kv, der.Explicit(2, der.Octets(e.Cipher)))
}

func (c Checksum) Encode() []byte {
	return der.Seq(der.Explicit(0, der.Int(int64(c.Type))), der.Explicit(1, der.Octets(c.Sum)))
}

func (h HostAddress) Encode() []byte {
	return der.Seq(der.Explicit(0, der.Int(int64(h.Type))), der.Explicit(1, der.Octets(h.Addr)))
}

func EncodeHostAddresses(hs []HostAddress) []byte {
	var items [][]byte
	for _, h := range hs {
		items = append(items, h.Encode())
	}
	return der.Seq(items...)
}

func EncodeAuthData(ad []AuthDataEntry) []byte {
	var items [][]byte
	for _, a := range ad {
		items = append(items, der.Seq(der.Explicit(0, der.Int(int64(a.Type))), der.Explicit(1, der.Octets(a.Data))))
	}
	return der.Seq(items...)
}

func EncodePAData(pas []PAData) []byte {
	var items [][]byte
	for _, p := range pas {
		items = append(items, der.Seq(der.Explicit(1, der.Int(int64(p.Type))), der.Explicit(2, der.Octets(p.Value))))
	}
	return der.Seq(items...)
}

func optTime(tag int, t *time.Time) []byte {
	if t == nil {
		return nil
	}
	return der.Explicit(tag, der.GenTime(*t))
}

func optInt(tag int, v *int64) []byte {
	if v == nil {
		return nil
	}
	return der.Explicit(tag, der.Int(*v))
}

func (t Ticket) Encode() []byte {
	return der.Application(AppTicket, der.Seq(
		der.Explicit(0, der.Int(t.VNO)),
		der.Explicit(1, der.GeneralString(t.Realm)),
		der.Explicit(2, t.SName.Encode()),
		der.Explicit(3, t.Enc.Encode())))
}

func (e EncTicketPart) Encode() []byte {
	var caddr, ad []byte
	if e.CAddr != nil {
		caddr = der.Explicit(9, EncodeHostAddresses(e.CAddr))
	}
	if len(e.AuthData) > 0 || e.HasAD {
		ad = der.Explicit(10, EncodeAuthData(e.AuthData))
	}
	flags := der.Flags32(e.Flags)
	if e.FlagsRaw != nil {
		flags = der.BitString(e.FlagsRaw, 0)
	}
	return der.Application(AppEncTicketPart, der.Seq(
		der.Explicit(0, flags),
		der.Explicit(1, e.Key.Encode()),
		der.Explicit(2, der.GeneralString(e.CRealm)),
		der.Explicit(3, e.CName.Encode()),
		der.Explicit(4, der.Seq(der.Explicit(0, der.Int(int64(e.Transited.Type))), der.Explicit(1, der.Octets(e.Transited.Contents)))),
		der.Explicit(5, der.GenTime(e.AuthTime)),
		optTime(6, e.StartTime),
		der.Explicit(7, der.GenTime(e.EndTime)),
		optTime(8, e.RenewTill),
		caddr, ad))
}

func (a Authenticator) Encode() []byte {
	var ck, sk, ad []byte
	if a.Cksum != nil {
		ck = der.Explicit(3, a.Cksum.Encode())
	}
	if a.SubKey != nil {
		sk = der.Explicit(6, a.SubKey.Encode())
	}
	if len(a.AuthData) > 0 {
		ad = der.Explicit(8, EncodeAuthData(a.AuthData))
	}
	return der.Application(AppAuthenticator, der.Seq(
		der.Explicit(0, der.Int(a.VNO)),
		der.Explicit(1, der.GeneralString(a.CRealm)),
		der.Explicit(2, a.CName.Encode()),
		ck,
		der.Explicit(4, der.Int(a.Cusec)),
		der.Explicit(5, der.GenTime(a.CTime)),
		sk,
		optInt(7, a.SeqNum),
		ad))
}

func (a APReq) Encode() []byte {
	return der.Application(AppAPReq, der.Seq(
		der.Explicit(0, der.Int(a.PVNO)),
		der.Explicit(1, der.Int(a.MsgType)),
		der.Explicit(2, der.Flags32(a.APOptions)),
		der.Explicit(3, a.Ticket),
		der.Explicit(4, a.Auth.Encode())))
}

func (b KDCReqBody) Encode() []byte {
	var cname, sname, addrs, ead, tkts []byte
	if b.CName != nil {
		cname = der.Explicit(1, b.CName.Encode())
	}
	if b.SName != nil {
		sname = der.Explicit(3, b.SName.Encode())
	}
	if b.Addresses != nil {
		addrs = der.Explicit(9, EncodeHostAddresses(b.Addresses))
	}
	if b.EncAuthData != nil {
		ead = der.Explicit(10, b.EncAuthData.Encode())
	}
	if b.AddTickets != nil {
		tkts = der.Explicit(11, der.Seq(b.AddTickets...))
	}
	var ets [][]byte
	for _, e := range b.ETypes {
		ets = append(ets, der.Int(int64(e)))
	}
	return der.Seq(
		der.Explicit(0, der.Flags32(b.KDCOptions)),
		cname,
		der.Explicit(2, der.GeneralString(b.Realm)),
		sname,
		optTime(4, b.From),
		der.Explicit(5, der.GenTime(b.Till)),
		optTime(6, b.RTime),
		der.Explicit(7, der.Int(b.Nonce)),
		der.Explicit(8, der.Seq(ets...)),
		addrs, ead, tkts)
}

func (r KDCReq) Encode() []byte {
	var pa []byte
	if len(r.PAData) > 0 || r.HasPA {
		pa = der.Explicit(3, EncodePAData(r.PAData))
	}
	return der.Application(r.App, der.Seq(
		der.Explicit(1, der.Int(r.PVNO)),
		der.Explicit(2, der.Int(r.MsgType)),
		pa,
		der.Explicit(4, r.Body.Encode())))
}

func (r KDCRep) Encode() []byte {
	var pa []byte
	if len(r.PAData) > 0 || r.HasPA {
		pa = der.Explicit(2, EncodePAData(r.PAData))
	}
	return der.Application(r.App, der.Seq(
		der.Explicit(0, der.Int(r.PVNO)),
		der.Explicit(1, der.Int(r.MsgType)),
		pa,
		der.Explicit(3, der.GeneralString(r.CRealm)),
		der.Explicit(4, r.CName.Encode()),
		der.Explicit(5, r.Ticket),
		der.Explicit(6, r.Enc.Encode())))
}

func (e EncKDCRepPart) Encode() []byte {
	var lrs [][]byte
	for _, l := range e.LastReqs {
		lrs = append(lrs, der.Seq(der.Explicit(0, der.Int(int64(l.Type))), der.Explicit(1, der.GenTime(l.Value))))
	}
	var caddr, epa []byte
	if e.CAddr != nil {
		caddr = der.Explicit(11, EncodeHostAddresses(e.CAddr))
	}
	if len(e.EncPA) > 0 || e.HasEncPA {
		epa = der.Explicit(12, EncodePAData(e.EncPA))
	}
	return der.Application(e.App, der.Seq(
		der.Explicit(0, e.Key.Encode()),
		der.Explicit(1, der.Seq(lrs...)),
		der.Explicit(2, der.Int(e.Nonce)),
		optTime(3, e.KeyExp),
		der.Explicit(4, der.Flags32(e.Flags)),
		der.Explicit(5, der.GenTime(e.AuthTime)),
		optTime(6, e.StartTime),
		der.Explicit(7, der.GenTime(e.EndTime)),
		optTime(8, e.RenewTill),
		der.Explicit(9, der.GeneralString(e.SRealm)),
		der.Explicit(10, e.SName.Encode()),
		caddr, epa))
}

func (e KRBError) Encode() []byte {
	var crealm, cname, etext, edata []byte
	if e.CRealm != nil {
		crealm = der.Explicit(7, der.GeneralString(*e.CRealm))
	}
	if e.CName != nil {
		cname = der.Explicit(8, e.CName.Encode())
	}
	if e.EText != nil {
		etext = der.Explicit(11, der.GeneralString(*e.EText))
	}
	if e.EData != nil {
		edata = der.Explicit(12, der.Octets(e.EData))
	}
	return der.Application(AppKRBError, der.Seq(
		der.Explicit(0, der.Int(e.PVNO)),
		der.Explicit(1, der.Int(e.MsgType)),
		optTime(2, e.CTime),
		optInt(3, e.Cusec),
		der.Explicit(4, der.GenTime(e.STime)),
		der.Explicit(5, der.Int(e.Susec)),
		der.Explicit(6, der.Int(int64(e.Code))),
		crealm, cname,
		der.Explicit(9, der.GeneralString(e.Realm)),
		der.Explicit(10, e.SName.Encode()),
		etext, edata))
}

func (p KRBPriv) Encode() []byte {
	return der.Application(AppKRBPriv, der.Seq(
		der.Explicit(0, der.Int(p.PVNO)),
		der.Explicit(1, der.Int(p.MsgType)),
		der.Explicit(3, p.Enc.Encode())))
}

func (p EncKrbPrivPart) Encode() []byte {
	var ra []byte
	if p.RAddress != nil {
		ra = der.Explicit(5, p.RAddress.Encode())
	}
	return der.Application(AppEncKrbPrivPart, der.Seq(
		der.Explicit(0, der.Octets(p.UserData)),
		optTime(1, p.Timestamp),
		optInt(2, p.Usec),
		optInt(3, p.SeqNum),
		der.Explicit(4, p.SAddress.Encode()),
		ra))
}

func (a APRep) Encode() []byte {
	return der.Application(AppAPRep, der.Seq(
		der.Explicit(0, der.Int(a.PVNO)),
		der.Explicit(1, der.Int(a.MsgType)),
		der.Explicit(2, a.Enc.Encode())))
}

func (e EncAPRepPart) Encode() []byte {
	var sk []byte
	if e.SubKey != nil {
		sk = der.Explicit(2, e.SubKey.Encode())
	}
	return der.Application(AppEncAPRepPart, der.Seq(
		der.Explicit(0, der.GenTime(e.CTime)),
		der.Explicit(1, der.Int(e.Cusec)),
		sk, optInt(3, e.SeqNum)))
}

func (p PAEncTSEnc) Encode() []byte {
	return der.Seq(der.Explicit(0, der.GenTime(p.Timestamp)), optInt(1, p.Usec))
}

func EncodeETypeInfo2(es []ETypeInfo2Entry) []byte {
	var items [][]byte
	for _, e := range es {
		var salt, par []byte
		if e.Salt != nil {
			salt = der.Explicit(1, der.GeneralString(*e.Salt))
		}
		if e.Params != nil {
			par = der.Explicit(2, der.Octets(e.Params))
		}
		items = append(items, der.Seq(der.Explicit(0, der.Int(int64(e.EType))), salt, par))
	}
	return der.Seq(items...)
}

// EncodeMethodData encodes METHOD-DATA (SEQUENCE OF PA-DATA), the e-data of PREAUTH_REQUIRED.
func EncodeMethodData(pas []PAData) []byte { return EncodePAData(pas) }

// ---------------------------------------------------------------- decoders (strict)

type dec struct{ err error }

func (d *dec) fail(format string, a ...interface{}) {
	if d.err == nil {
		d.err = fmt.Errorf(format, a...)
	}
}

func (d *dec) seq(n *der.Node, what string) *der.Node {
	if d.err != nil {
		return &der.Node{}
	}
	if n == nil || !n.Is(der.Universal, der.TagSequence, true) {
		d.fail("%s: not a SEQUENCE", what)
		return &der.Node{}
	}
	return n
}

// fields checks that a SEQUENCE consists of explicit context tags in ascending
// order drawn from allowed, with all required ones present.
func (d *dec) fields(n *der.Node, what string, allowed []int, required []int) *der.Node {
	n = d.seq(n, what)
	if d.err != nil {
		return n
	}
	if err := n.FieldTagsAscending(); err != nil {
		d.fail("%s: %v", what, err)
		return n
	}
	ok := map[int]bool{}
	for _, a := range allowed {
		ok[a] = true
	}
	have := map[int]bool{}
	for _, c := range n.Children {
		if !ok[c.Tag] {
			d.fail("%s: unexpected field [%d]", what, c.Tag)
		}
		have[c.Tag] = true
	}
	for _, r := range required {
		if !have[r] {
			d.fail("%s: required field [%d] missing", what, r)
		}
	}
	return n
}

func (d *dec) int(n *der.Node, what string) int64 {
	if d.err != nil || n == nil {
		if n == nil {
			d.fail("%s: missing", what)
		}
		return 0
	}
	v, err := n.AsInt()
	if err != nil {
		d.fail("%s: %v", what, err)
	}
	return v
}

func (d *dec) optInt(n *der.Node, what string) *int64 {
	if n == nil {
		return nil
	}
	v := d.int(n, what)
	return &v
}

func (d *dec) str(n *der.Node, what string) string {
	if d.err != nil || n == nil {
		if n == nil {
			d.fail("%s: missing", what)
		}
		return ""
	}
	s, err := n.AsGeneralString()
	if err != nil {
		d.fail("%s: %v", what, err)
	}
	return s
}

func (d *dec) octets(n *der.Node, what string) []byte {
	if d.err != nil || n == nil {
		if n == nil {
			d.fail("%s: missing", what)
		}
		return nil
	}
	b, err := n.AsOctets()
	if err != nil {
		d.fail("%s: %v", what, err)
	}
	return append([]byte{}, b...)
}

func (d *dec) time(n *der.Node, what string) time.Time {
	if d.err != nil || n == nil {
		if n == nil {
			d.fail("%s: missing", what)
		}
		return time.Time{}
	}
	t, err := n.AsTime()
	if err != nil {
		d.fail("%s: %v", what, err)
	}
	return t
}

func (d *dec) optTime(n *der.Node, what string) *time.Time {
	if n == nil {
		return nil
	}
	t := d.time(n, what)
	return &t
}

// flags decodes KerberosFlags: at least 32 bits; bit 0 is the MSB of the first octet.
func (d *dec) flags(n *der.Node, what string) uint32 {
	if d.err != nil || n == nil {
		if n == nil {
			d.fail("%s: missing", what)
		}
		return 0
	}
	b, unused, err := n.AsBitString()
	if err != nil {
		d.fail("%s: %v", what, err)
		return 0
	}
	if len(b) < 4 || unused != 0 && len(b) == 4 {
		d.fail("%s: KerberosFlags must carry at least 32 bits (have %d bytes, %d unused)", what, len(b), unused)
		return 0
	}
	return uint32(b[0])<<24 | uint32(b[1])<<16 | uint32(b[2])<<8 | uint32(b[3])
}

func (d *dec) principal(n *der.Node, what string) PrincipalName {
	n = d.fields(n, what, []int{0, 1}, []int{0, 1})
	var p PrincipalName
	if d.err != nil {
		return p
	}
	p.Type = int32(d.int(n.Field(0), what+".name-type"))
	ns := d.seq(n.Field(1), what+".name-string")
	p.Names = []string{}
	for _, c := range ns.Children {
		p.Names = append(p.Names, d.str(c, what+".name-string[]"))
	}
	return p
}

func (d *dec) key(n *der.Node, what string) EncryptionKey {
	n = d.fields(n, what, []int{0, 1}, []int{0, 1})
	if d.err != nil {
		return EncryptionKey{}
	}
	return EncryptionKey{Type: int32(d.int(n.Field(0), what+".keytype")), Value: d.octets(n.Field(1), what+".keyvalue")}
}

func (d *dec) encdata(n *der.Node, what string) EncryptedData {
	n = d.fields(n, what, []int{0, 1, 2}, []int{0, 2})
	if d.err != nil {
		return EncryptedData{}
	}
	return EncryptedData{EType: int32(d.int(n.Field(0), what+".etype")), KVNO: d.optInt(n.Field(1), what+".kvno"), Cipher: d.octets(n.Field(2), what+".cipher")}
}

func (d *dec) checksum(n *der.Node, what string) Checksum {
	n = d.fields(n, what, []int{0, 1}, []int{0, 1})
	if d.err != nil {
		return Checksum{}
	}
	return Checksum{Type: int32(d.int(n.Field(0), what+".cksumtype")), Sum: d.octets(n.Field(1), what+".checksum")}
}

func (d *dec) hostaddr(n *der.Node, what string) HostAddress {
	n = d.fields(n, what, []int{0, 1}, []int{0, 1})
	if d.err != nil {
		return HostAddress{}
	}
	return HostAddress{Type: int32(d.int(n.Field(0), what+".addr-type")), Addr: d.octets(n.Field(1), what+".address")}
}

func (d *dec) hostaddrs(n *der.Node, what string) []HostAddress {
	if n == nil {
		return nil
	}
	s := d.seq(n, what)
	out := []HostAddress{}
	for _, c := range s.Children {
		out = append(out, d.hostaddr(c, what+"[]"))
	}
	return out
}

func (d *dec) authdata(n *der.Node, what string) []AuthDataEntry {
	if n == nil {
		return nil
	}
	s := d.seq(n, what)
	out := []AuthDataEntry{}
	for _, c := range s.Children {
		e := d.fields(c, what+"[]", []int{0, 1}, []int{0, 1})
		if d.err != nil {
			return out
		}
		out = append(out, AuthDataEntry{Type: int32(d.int(e.Field(0), what+".ad-type")), Data: d.octets(e.Field(1), what+".ad-data")})
	}
	return out
}

func (d *dec) padata(n *der.Node, what string) []PAData {
	if n == nil {
		return nil
	}
	s := d.seq(n, what)
	out := []PAData{}
	for _, c := range s.Children {
		e := d.fields(c, what+"[]", []int{1, 2}, []int{1, 2})
		if d.err != nil {
			return out
		}
		out = append(out, PAData{Type: int32(d.int(e.Field(1), what+".padata-type")), Value: d.octets(e.Field(2), what+".padata-value")})
	}
	return out
}

// app parses b as one element with the APPLICATION tag and returns the inner SEQUENCE.
func (d *dec) app(b []byte, tag int, what string) *der.Node {
	n, err := der.Parse(b)
	if err != nil {
		d.fail("%s: %v", what, err)
		return &der.Node{}
	}
	return d.appNode(n, tag, what)
}

func (d *dec) appNode(n *der.Node, tag int, what string) *der.Node {
	if !n.Is(der.App, tag, true) {
		d.fail("%s: want [APPLICATION %d], have class %d tag %d", what, tag, n.Class, n.Tag)
		return &der.Node{}
	}
	in, err := n.Inner()
	if err != nil {
		d.fail("%s: %v", what, err)
		return &der.Node{}
	}
	return in
}

// AppTagOf returns the application tag of an encoded message (or -1).
func AppTagOf(b []byte) int {
	n, _, err := der.ParsePrefix(b)
	if err != nil || n.Class != der.App {
		return -1
	}
	return n.Tag
}

func DecodeTicket(b []byte) (Ticket, error) {
	d := &dec{}
	n := d.fields(d.app(b, AppTicket, "Ticket"), "Ticket", []int{0, 1, 2, 3}, []int{0, 1, 2, 3})
	var t Ticket
	if d.err != nil {
		return t, d.err
	}
	t.VNO = d.int(n.Field(0), "tkt-vno")
	t.Realm = d.str(n.Field(1), "realm")
	t.SName = d.principal(n.Field(2), "sname")
	t.Enc = d.encdata(n.Field(3), "enc-part")
	return t, d.err
}

func DecodeEncTicketPart(b []byte) (EncTicketPart, error) {
	d := &dec{}
	n := d.fields(d.app(b, AppEncTicketPart, "EncTicketPart"), "EncTicketPart", []int{0, 1, 2, 3, 4, 5, 6, 7, 8, 9, 10}, []int{0, 1, 2, 3, 4, 5, 7})
	var e EncTicketPart
	if d.err != nil {
		return e, d.err
	}
	e.Flags = d.flags(n.Field(0), "flags")
	e.Key = d.key(n.Field(1), "key")
	e.CRealm = d.str(n.Field(2), "crealm")
	e.CName = d.principal(n.Field(3), "cname")
	tr := d.fields(n.Field(4), "transited", []int{0, 1}, []int{0, 1})
	if d.err == nil {
		e.Transited = Transited{Type: int32(d.int(tr.Field(0), "tr-type")), Contents: d.octets(tr.Field(1), "contents")}
	}
	e.AuthTime = d.time(n.Field(5), "authtime")
	e.StartTime = d.optTime(n.Field(6), "starttime")
	e.EndTime = d.time(n.Field(7), "endtime")
	e.RenewTill = d.optTime(n.Field(8), "renew-till")
	e.CAddr = d.hostaddrs(n.Field(9), "caddr")
	e.AuthData = d.authdata(n.Field(10), "authorization-data")
	return e, d.err
}

func DecodeAuthenticator(b []byte) (Authenticator, error) {
	d := &dec{}
	n := d.fields(d.app(b, AppAuthenticator, "Authenticator"), "Authenticator", []int{0, 1, 2, 3, 4, 5, 6, 7, 8}, []int{0, 1, 2, 4, 5})
	var a Authenticator
	if d.err != nil {
		return a, d.err
	}
	a.VNO = d.int(n.Field(0), "authenticator-vno")
	a.CRealm = d.str(n.Field(1), "crealm")
	a.CName = d.principal(n.Field(2), "cname")
	if f := n.Field(3); f != nil {
		c := d.checksum(f, "cksum")
		a.Cksum = &c
	}
	a.Cusec = d.int(n.Field(4), "cusec")
	a.CTime = d.time(n.Field(5), "ctime")
	if f := n.Field(6); f != nil {
		k := d.key(f, "subkey")
		a.SubKey = &k
	}
	a.SeqNum = d.optInt(n.Field(7), "seq-number")
	a.AuthData = d.authdata(n.Field(8), "authorization-data")
	if d.err == nil && (a.Cusec < 0 || a.Cusec > 999999) {
		d.fail("cusec out of range")
	}
	return a, d.err
}

func DecodeAPReq(b []byte) (APReq, error) {
	d := &dec{}
	n := d.fields(d.app(b, AppAPReq, "AP-REQ"), "AP-REQ", []int{0, 1, 2, 3, 4}, []int{0, 1, 2, 3, 4})
	var a APReq
	if d.err != nil {
		return a, d.err
	}
	a.PVNO = d.int(n.Field(0), "pvno")
	a.MsgType = d.int(n.Field(1), "msg-type")
	a.APOptions = d.flags(n.Field(2), "ap-options")
	if t := n.Field(3); t != nil {
		a.Ticket = append([]byte{}, t.Full...)
	}
	a.Auth = d.encdata(n.Field(4), "authenticator")
	return a, d.err
}

func (d *dec) reqBody(n *der.Node) KDCReqBody {
	n = d.fields(n, "KDC-REQ-BODY", []int{0, 1, 2, 3, 4, 5, 6, 7, 8, 9, 10, 11}, []int{0, 2, 5, 7, 8})
	var b KDCReqBody
	if d.err != nil {
		return b
	}
	b.KDCOptions = d.flags(n.Field(0), "kdc-options")
	if f := n.Field(1); f != nil {
		p := d.principal(f, "cname")
		b.CName = &p
	}
	b.Realm = d.str(n.Field(2), "realm")
	if f := n.Field(3); f != nil {
		p := d.principal(f, "sname")
		b.SName = &p
	}
	b.From = d.optTime(n.Field(4), "from")
	b.Till = d.time(n.Field(5), "till")
	b.RTime = d.optTime(n.Field(6), "rtime")
	b.Nonce = d.int(n.Field(7), "nonce")
	ets := d.seq(n.Field(8), "etype")
	for _, c := range ets.Children {
		b.ETypes = append(b.ETypes, int32(d.int(c, "etype[]")))
	}
	b.Addresses = d.hostaddrs(n.Field(9), "addresses")
	if f := n.Field(10); f != nil {
		e := d.encdata(f, "enc-authorization-data")
		b.EncAuthData = &e
	}
	if f := n.Field(11); f != nil {
		s := d.seq(f, "additional-tickets")
		b.AddTickets = [][]byte{}
		for _, c := range s.Children {
			if _, err := DecodeTicket(c.Full); err != nil {
				d.fail("additional-tickets[]: %v", err)
			}
			b.AddTickets = append(b.AddTickets, append([]byte{}, c.Full...))
		}
	}
	if d.err == nil && (b.Nonce < 0 || b.Nonce > 0xffffffff) {
		d.fail("nonce out of UInt32 range")
	}
	return b
}

func DecodeKDCReqBody(b []byte) (KDCReqBody, error) {
	d := &dec{}
	n, err := der.Parse(b)
	if err != nil {
		return KDCReqBody{}, err
	}
	body := d.reqBody(n)
	return body, d.err
}

func DecodeKDCReq(b []byte) (KDCReq, error) {
	d := &dec{}
	tag := AppTagOf(b)
	if tag != AppASReq && tag != AppTGSReq {
		return KDCReq{}, fmt.Errorf("KDC-REQ: application tag %d", tag)
	}
	n := d.fields(d.app(b, tag, "KDC-REQ"), "KDC-REQ", []int{1, 2, 3, 4}, []int{1, 2, 4})
	r := KDCReq{App: tag}
	if d.err != nil {
		return r, d.err
	}
	r.PVNO = d.int(n.Field(1), "pvno")
	r.MsgType = d.int(n.Field(2), "msg-type")
	if f := n.Field(3); f != nil {
		r.PAData = d.padata(f, "padata")
		r.HasPA = true
	}
	if f := n.Field(4); f != nil {
		r.BodyRaw = append([]byte{}, f.Full...)
	}
	r.Body = d.reqBody(n.Field(4))
	return r, d.err
}

func DecodeKDCRep(b []byte) (KDCRep, error) {
	d := &dec{}
	tag := AppTagOf(b)
	if tag != AppASRep && tag != AppTGSRep {
		return KDCRep{}, fmt.Errorf("KDC-REP: application tag %d", tag)
	}
	n := d.fields(d.app(b, tag, "KDC-REP"), "KDC-REP", []int{0, 1, 2, 3, 4, 5, 6}, []int{0, 1, 3, 4, 5, 6})
	r := KDCRep{App: tag}
	if d.err != nil {
		return r, d.err
	}
	r.PVNO = d.int(n.Field(0), "pvno")
	r.MsgType = d.int(n.Field(1), "msg-type")
	if f := n.Field(2); f != nil {
		r.PAData = d.padata(f, "padata")
		r.HasPA = true
	}
	r.CRealm = d.str(n.Field(3), "crealm")
	r.CName = d.principal(n.Field(4), "cname")
	if t := n.Field(5); t != nil {
		r.Ticket = append([]byte{}, t.Full...)
		if _, err := DecodeTicket(r.Ticket); err != nil {
			d.fail("ticket: %v", err)
		}
	}
	r.Enc = d.encdata(n.Field(6), "enc-part")
	return r, d.err
}

func DecodeEncKDCRepPart(b []byte) (EncKDCRepPart, error) {
	d := &dec{}
	tag := AppTagOf(b)
	if tag != AppEncASRepPart && tag != AppEncTGSRepPart {
		return EncKDCRepPart{}, fmt.Errorf("EncKDCRepPart: application tag %d", tag)
	}
	n := d.fields(d.app(b, tag, "EncKDCRepPart"), "EncKDCRepPart", []int{0, 1, 2, 3, 4, 5, 6, 7, 8, 9, 10, 11, 12}, []int{0, 1, 2, 4, 5, 7, 9, 10})
	e := EncKDCRepPart{App: tag}
	if d.err != nil {
		return e, d.err
	}
	e.Key = d.key(n.Field(0), "key")
	lr := d.seq(n.Field(1), "last-req")
	e.LastReqs = []LastReq{}
	for _, c := range lr.Children {
		f := d.fields(c, "last-req[]", []int{0, 1}, []int{0, 1})
		if d.err != nil {
			break
		}
		e.LastReqs = append(e.LastReqs, LastReq{Type: int32(d.int(f.Field(0), "lr-type")), Value: d.time(f.Field(1), "lr-value")})
	}
	e.Nonce = d.int(n.Field(2), "nonce")
	e.KeyExp = d.optTime(n.Field(3), "key-expiration")
	e.Flags = d.flags(n.Field(4), "flags")
	e.AuthTime = d.time(n.Field(5), "authtime")
	e.StartTime = d.optTime(n.Field(6), "starttime")
	e.EndTime = d.time(n.Field(7), "endtime")
	e.RenewTill = d.optTime(n.Field(8), "renew-till")
	e.SRealm = d.str(n.Field(9), "srealm")
	e.SName = d.principal(n.Field(10), "sname")
	e.CAddr = d.hostaddrs(n.Field(11), "caddr")
	if f := n.Field(12); f != nil {
		e.EncPA = d.padata(f, "encrypted-pa-data")
		e.HasEncPA = true
	}
	return e, d.err
}

func DecodeKRBError(b []byte) (KRBError, error) {
	d := &dec{}
	n := d.fields(d.app(b, AppKRBError, "KRB-ERROR"), "KRB-ERROR", []int{0, 1, 2, 3, 4, 5, 6, 7, 8, 9, 10, 11, 12}, []int{0, 1, 4, 5, 6, 9, 10})
	var e KRBError
	if d.err != nil {
		return e, d.err
	}
	e.PVNO = d.int(n.Field(0), "pvno")
	e.MsgType = d.int(n.Field(1), "msg-type")
	e.CTime = d.optTime(n.Field(2), "ctime")
	e.Cusec = d.optInt(n.Field(3), "cusec")
	e.STime = d.time(n.Field(4), "stime")
	e.Susec = d.int(n.Field(5), "susec")
	e.Code = int32(d.int(n.Field(6), "error-code"))
	if f := n.Field(7); f != nil {
		s := d.str(f, "crealm")
		e.CRealm = &s
	}
	if f := n.Field(8); f != nil {
		p := d.principal(f, "cname")
		e.CName = &p
	}
	e.Realm = d.str(n.Field(9), "realm")
	e.SName = d.principal(n.Field(10), "sname")
	if f := n.Field(11); f != nil {
		s := d.str(f, "e-text")
		e.EText = &s
	}
	if f := n.Field(12); f != nil {
		e.EData = d.octets(f, "e-data")
	}
	return e, d.err
}

func DecodeKRBPriv(b []byte) (KRBPriv, error) {
	d := &dec{}
	n := d.fields(d.app(b, AppKRBPriv, "KRB-PRIV"), "KRB-PRIV", []int{0, 1, 3}, []int{0, 1, 3})
	var p KRBPriv
	if d.err != nil {
		return p, d.err
	}
	p.PVNO = d.int(n.Field(0), "pvno")
	p.MsgType = d.int(n.Field(1), "msg-type")
	p.Enc = d.encdata(n.Field(3), "enc-part")
	return p, d.err
}

func DecodeEncKrbPrivPart(b []byte) (EncKrbPrivPart, error) {
	d := &dec{}
	n := d.fields(d.app(b, AppEncKrbPrivPart, "EncKrbPrivPart"), "EncKrbPrivPart", []int{0, 1, 2, 3, 4, 5}, []int{0, 4})
	var p EncKrbPrivPart
	if d.err != nil {
		return p, d.err
	}
	p.UserData = d.octets(n.Field(0), "user-data")
	p.Timestamp = d.optTime(n.Field(1), "timestamp")
	p.Usec = d.optInt(n.Field(2), "usec")
	p.SeqNum = d.optInt(n.Field(3), "seq-number")
	p.SAddress = d.hostaddr(n.Field(4), "s-address")
	if f := n.Field(5); f != nil {
		h := d.hostaddr(f, "r-address")
		p.RAddress = &h
	}
	return p, d.err
}

func DecodePAEncTSEnc(b []byte) (PAEncTSEnc, error) {
	d := &dec{}
	n, err := der.Parse(b)
	if err != nil {
		return PAEncTSEnc{}, err
	}
	n = d.fields(n, "PA-ENC-TS-ENC", []int{0, 1}, []int{0})
	var p PAEncTSEnc
	if d.err != nil {
		return p, d.err
	}
	p.Timestamp = d.time(n.Field(0), "patimestamp")
	p.Usec = d.optInt(n.Field(1), "pausec")
	return p, d.err
}

func DecodeEncryptedData(b []byte) (EncryptedData, error) {
	d := &dec{}
	n, err := der.Parse(b)
	if err != nil {
		return EncryptedData{}, err
	}
	e := d.encdata(n, "EncryptedData")
	return e, d.err
}

func DecodePrincipalName(b []byte) (PrincipalName, error) {
	d := &dec{}
	n, err := der.Parse(b)
	if err != nil {
		return PrincipalName{}, err
	}
	p := d.principal(n, "PrincipalName")
	return p, d.err
}

// Equal compares principal names (type and components).
func (p PrincipalName) Equal(o PrincipalName) bool {
	if p.Type != o.Type || len(p.Names) != len(o.Names) {
		return false
	}
	for i := range p.Names {
		if p.Names[i] != o.Names[i] {
			return false
		}
	}
	return true
}

// SameName compares components only (RFC 4120 6.2: the name type is not significant).
func (p PrincipalName) SameName(o PrincipalName) bool {
	if len(p.Names) != len(o.Names) {
		return false
	}
	for i := range p.Names {
		if p.Names[i] != o.Names[i] {
			return false
		}
	}
	return true
}

func I64(v int64) *int64        { return &v }
func Tm(t time.Time) *time.Time { return &t }
func Str(s string) *string      { return &s }
