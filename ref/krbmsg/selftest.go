package krbmsg

import (
	"bytes"
	"encoding/hex"
	"fmt"
	"strings"
)

// SelfTest decodes each MIT reference encoding (krb5 tests/asn.1
// reference_encode.out, shipped in gokrb5's test/testdata as hex constants and
// passed in by the caller) with the strict decoder and re-encodes it: the
// bytes must be reproduced exactly.
func SelfTest(vectors map[string]string) (int, error) {
	n := 0
	rt := func(name string, f func(b []byte) ([]byte, error)) error {
		hx, ok := vectors[name]
		if !ok {
			return fmt.Errorf("vector %s missing", name)
		}
		b, err := hex.DecodeString(strings.ToLower(hx))
		if err != nil {
			return fmt.Errorf("vector %s: %v", name, err)
		}
		out, err := f(b)
		if err != nil {
			return fmt.Errorf("reference self-test: %s: decode: %v", name, err)
		}
		if !bytes.Equal(out, b) {
			return fmt.Errorf("reference self-test: %s: re-encoding differs\n have %x\n want %x", name, out, b)
		}
		n++
		return nil
	}
	type tc struct {
		name string
		f    func(b []byte) ([]byte, error)
	}
	tkt := func(b []byte) ([]byte, error) { v, err := DecodeTicket(b); return v.Encode(), err }
	auth := func(b []byte) ([]byte, error) { v, err := DecodeAuthenticator(b); return v.Encode(), err }
	etp := func(b []byte) ([]byte, error) { v, err := DecodeEncTicketPart(b); return v.Encode(), err }
	ekr := func(b []byte) ([]byte, error) { v, err := DecodeEncKDCRepPart(b); return v.Encode(), err }
	rep := func(b []byte) ([]byte, error) { v, err := DecodeKDCRep(b); return v.Encode(), err }
	req := func(b []byte) ([]byte, error) { v, err := DecodeKDCReq(b); return v.Encode(), err }
	body := func(b []byte) ([]byte, error) { v, err := DecodeKDCReqBody(b); return v.Encode(), err }
	apreq := func(b []byte) ([]byte, error) { v, err := DecodeAPReq(b); return v.Encode(), err }
	kerr := func(b []byte) ([]byte, error) { v, err := DecodeKRBError(b); return v.Encode(), err }
	priv := func(b []byte) ([]byte, error) { v, err := DecodeKRBPriv(b); return v.Encode(), err }
	epriv := func(b []byte) ([]byte, error) { v, err := DecodeEncKrbPrivPart(b); return v.Encode(), err }
	pats := func(b []byte) ([]byte, error) { v, err := DecodePAEncTSEnc(b); return v.Encode(), err }
	ed := func(b []byte) ([]byte, error) { v, err := DecodeEncryptedData(b); return v.Encode(), err }
	for _, c := range []tc{
		{"MarshaledKRB5ticket", tkt},
		{"MarshaledKRB5authenticator", auth}, {"MarshaledKRB5authenticatorOptionalsNULL", auth},
		{"MarshaledKRB5enc_tkt_part", etp}, {"MarshaledKRB5enc_tkt_partOptionalsNULL", etp},
		{"MarshaledKRB5enc_kdc_rep_part", ekr}, {"MarshaledKRB5enc_kdc_rep_partOptionalsNULL", ekr},
		{"MarshaledKRB5as_rep", rep}, {"MarshaledKRB5as_repOptionalsNULL", rep},
		{"MarshaledKRB5tgs_rep", rep}, {"MarshaledKRB5tgs_repOptionalsNULL", rep},
		{"MarshaledKRB5as_req", req}, {"MarshaledKRB5as_reqOptionalsNULLexceptsecond_ticket", req}, {"MarshaledKRB5as_reqOptionalsNULLexceptserver", req},
		{"MarshaledKRB5tgs_req", req}, {"MarshaledKRB5tgs_reqOptionalsNULLexceptsecond_ticket", req}, {"MarshaledKRB5tgs_reqOptionalsNULLexceptserver", req},
		{"MarshaledKRB5kdc_req_body", body}, {"MarshaledKRB5kdc_req_bodyOptionalsNULLexceptsecond_ticket", body}, {"MarshaledKRB5kdc_req_bodyOptionalsNULLexceptserver", body},
		{"MarshaledKRB5ap_req", apreq},
		{"MarshaledKRB5error", kerr}, {"MarshaledKRB5errorOptionalsNULL", kerr},
		{"MarshaledKRB5priv", priv}, {"MarshaledKRB5enc_priv_part", epriv}, {"MarshaledKRB5enc_priv_partOptionalsNULL", epriv},
		{"MarshaledKRB5pa_enc_ts", pats}, {"MarshaledKRB5pa_enc_tsNoUsec", pats},
		{"MarshaledKRB5enc_data", ed}, {"MarshaledKRB5enc_dataKVNONegOne", ed},
	} {
		if err := rt(c.name, c.f); err != nil {
			return n, err
		}
	}
	return n, nil
}
