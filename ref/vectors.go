// Package ref gathers the published vectors used to self-validate the references.
package ref

import "github.com/jcmturner/gokrb5/v8/test/testdata"

// MITVectors returns the MIT krb5 reference encodings (data only) shipped with gokrb5.
func MITVectors() map[string]string {
	return map[string]string{
		"MarshaledKRB5ticket":                                       testdata.MarshaledKRB5ticket,
		"MarshaledKRB5authenticator":                                testdata.MarshaledKRB5authenticator,
		"MarshaledKRB5authenticatorOptionalsNULL":                   testdata.MarshaledKRB5authenticatorOptionalsNULL,
		"MarshaledKRB5enc_tkt_part":                                 testdata.MarshaledKRB5enc_tkt_part,
		"MarshaledKRB5enc_tkt_partOptionalsNULL":                    testdata.MarshaledKRB5enc_tkt_partOptionalsNULL,
		"MarshaledKRB5enc_kdc_rep_part":                             testdata.MarshaledKRB5enc_kdc_rep_part,
		"MarshaledKRB5enc_kdc_rep_partOptionalsNULL":                testdata.MarshaledKRB5enc_kdc_rep_partOptionalsNULL,
		"MarshaledKRB5as_rep":                                       testdata.MarshaledKRB5as_rep,
		"MarshaledKRB5as_repOptionalsNULL":                          testdata.MarshaledKRB5as_repOptionalsNULL,
		"MarshaledKRB5tgs_rep":                                      testdata.MarshaledKRB5tgs_rep,
		"MarshaledKRB5tgs_repOptionalsNULL":                         testdata.MarshaledKRB5tgs_repOptionalsNULL,
		"MarshaledKRB5as_req":                                       testdata.MarshaledKRB5as_req,
		"MarshaledKRB5as_reqOptionalsNULLexceptsecond_ticket":       testdata.MarshaledKRB5as_reqOptionalsNULLexceptsecond_ticket,
		"MarshaledKRB5as_reqOptionalsNULLexceptserver":              testdata.MarshaledKRB5as_reqOptionalsNULLexceptserver,
		"MarshaledKRB5tgs_req":                                      testdata.MarshaledKRB5tgs_req,
		"MarshaledKRB5tgs_reqOptionalsNULLexceptsecond_ticket":      testdata.MarshaledKRB5tgs_reqOptionalsNULLexceptsecond_ticket,
		"MarshaledKRB5tgs_reqOptionalsNULLexceptserver":             testdata.MarshaledKRB5tgs_reqOptionalsNULLexceptserver,
		"MarshaledKRB5kdc_req_body":                                 testdata.MarshaledKRB5kdc_req_body,
		"MarshaledKRB5kdc_req_bodyOptionalsNULLexceptsecond_ticket": testdata.MarshaledKRB5kdc_req_bodyOptionalsNULLexceptsecond_ticket,
		"MarshaledKRB5kdc_req_bodyOptionalsNULLexceptserver":        testdata.MarshaledKRB5kdc_req_bodyOptionalsNULLexceptserver,
		"MarshaledKRB5ap_req":                                       testdata.MarshaledKRB5ap_req,
		"MarshaledKRB5error":                                        testdata.MarshaledKRB5error,
		"MarshaledKRB5errorOptionalsNULL":                           testdata.MarshaledKRB5errorOptionalsNULL,
		"MarshaledKRB5priv":                                         testdata.MarshaledKRB5priv,
		"MarshaledKRB5enc_priv_part":                                testdata.MarshaledKRB5enc_priv_part,
		"MarshaledKRB5enc_priv_partOptionalsNULL":                   testdata.MarshaledKRB5enc_priv_partOptionalsNULL,
		"MarshaledKRB5pa_enc_ts":                                    testdata.MarshaledKRB5pa_enc_ts,
		"MarshaledKRB5pa_enc_tsNoUsec":                              testdata.MarshaledKRB5pa_enc_tsNoUsec,
		"MarshaledKRB5enc_data":                                     testdata.MarshaledKRB5enc_data,
		"MarshaledKRB5enc_dataKVNONegOne":                           testdata.MarshaledKRB5enc_dataKVNONegOne,
	}
}

// PACSamples returns the two captured KERB_VALIDATION_INFO buffers (hex).
func PACSamples() (gokrb5Hex, trustHex string) {
	return testdata.MarshaledPAC_Kerb_Validation_Info, testdata.MarshaledPAC_Kerb_Validation_Info_Trust
}

// PACSampleFull returns the captured complete PAC, and the keytab holding the service key it was signed with.
func PACSampleFull() (pacHex, keytabHex string) {
	return testdata.MarshaledPAC_AD_WIN2K_PAC, testdata.KEYTAB_SYSHTTP_TEST_GOKRB5
}
