package pac

import (
	"bytes"
	"encoding/hex"
	"fmt"
	"time"
)

// SampleGOKRB5 is the attribute model of the KERB_VALIDATION_INFO captured in
// gokrb5's test data (MarshaledPAC_Kerb_Validation_Info), written down from
// the values its own unit test asserts.
func SampleGOKRB5() ValidationInfo {
	dom := SID{1, 5, []uint32{21, 3167651404, 3865080224, 2280184895}}
	sub := func(rid uint32) SID { return SID{1, 5, append(append([]uint32{}, dom.Sub...), rid)} }
	return ValidationInfo{
		LogonTime: FileTime(time.Date(2017, 5, 6, 15, 53, 11, 825766900, time.UTC)), LogoffTime: Never, KickOffTime: Never,
		PasswordLastSet: FileTime(time.Date(2017, 5, 6, 7, 23, 8, 968750000, time.UTC)), PasswordCanChange: FileTime(time.Date(2017, 5, 7, 7, 23, 8, 968750000, time.UTC)), PasswordMustChange: Never,
		EffectiveName: Str{Value: "testuser1"}, FullName: Str{Value: "Test1 User1"},
		LogonCount: 216, UserID: 1105, PrimaryGroupID: 513,
		Groups:    []Group{{513, 7}, {1108, 7}, {1109, 7}, {1115, 7}, {1116, 7}},
		UserFlags: 32, LogonServer: Str{Value: "ADDC", Extra: 2}, LogonDomainName: Str{Value: "TEST", Extra: 2}, LogonDomainID: &dom,
		UserAccountControl: 528,
		ExtraSIDs:          []ExtraSID{{sub(1114), 0x20000007}, {sub(1111), 0x20000007}},
	}
}

// SampleTrust models MarshaledPAC_Kerb_Validation_Info_Trust (resource groups present).
func SampleTrust() ValidationInfo {
	dom := SID{1, 5, []uint32{21, 2284869408, 3503417140, 1141177250}}
	res := SID{1, 5, []uint32{21, 3062750306, 1230139592, 1973306805}}
	return ValidationInfo{
		LogonTime: FileTime(time.Date(2017, 10, 14, 12, 3, 41, 52409900, time.UTC)), LogoffTime: Never, KickOffTime: Never,
		PasswordLastSet: FileTime(time.Date(2017, 10, 10, 20, 42, 56, 220282300, time.UTC)), PasswordCanChange: FileTime(time.Date(2017, 10, 11, 20, 42, 56, 220282300, time.UTC)), PasswordMustChange: Never,
		EffectiveName: Str{Value: "testuser1"}, FullName: Str{Value: "Test1 User1"},
		LogonCount: 46, UserID: 1106, PrimaryGroupID: 513,
		Groups:    []Group{{1110, 7}, {513, 7}, {1109, 7}},
		UserFlags: 544, LogonServer: Str{Value: "UDC", Extra: 2}, LogonDomainName: Str{Value: "USER", Extra: 2}, LogonDomainID: &dom,
		UserAccountControl:     528,
		ExtraSIDs:              []ExtraSID{{SID{1, 18, []uint32{1}}, 7}},
		ResourceGroupDomainSID: &res, ResourceGroups: []Group{{1107, 0x20000007}, {1108, 0x20000007}},
	}
}

// SelfTest re-encodes the two captured KERB_VALIDATION_INFO samples from their
// known attributes; the bytes must equal the captures exactly.
func SelfTest(gokrb5Hex, trustHex string) (int, error) {
	for name, c := range map[string]struct {
		v   ValidationInfo
		hex string
	}{"GOKRB5": {SampleGOKRB5(), gokrb5Hex}, "Trust": {SampleTrust(), trustHex}} {
		want, err := hex.DecodeString(c.hex)
		if err != nil {
			return 0, err
		}
		got := c.v.Encode()
		if !bytes.Equal(got, want) {
			i := 0
			for i < len(got) && i < len(want) && got[i] == want[i] {
				i++
			}
			return 0, fmt.Errorf("reference NDR encoder does not reproduce the %s sample (first difference at 0x%x, lengths %d/%d)", name, i, len(got), len(want))
		}
	}
	return 2, nil
}
