// Package pac is an independent assembler of MS-PAC structures: an NDR
// encoder for KERB_VALIDATION_INFO (MS-PAC 2.5, MS-RPCE type serialization
// version 1), PAC_CLIENT_INFO, the PACTYPE buffer table with 8-byte aligned
// buffers, and server/KDC signatures (MS-PAC 2.8: the server checksum is
// computed over the whole PAC with both signature values zeroed, key usage
// 17; the KDC checksum over the server signature value).
package pac

import (
	"encoding/binary"
	"time"
	"unicode/utf16"

	"verif/ref/rcrypto"
)

// SID is a security identifier.
type SID struct {
	Revision  uint8
	Authority uint64 // 48-bit identifier authority
	Sub       []uint32
}

func (s SID) String() string {
	out := "S-" + utoa(uint64(s.Revision)) + "-" + utoa(s.Authority)
	for _, v := range s.Sub {
		out += "-" + utoa(uint64(v))
	}
	return out
}

func utoa(v uint64) string {
	if v == 0 {
		return "0"
	}
	var b []byte
	for v > 0 {
		b = append([]byte{byte('0' + v%10)}, b...)
		v /= 10
	}
	return string(b)
}

type Group struct {
	RID, Attributes uint32
}

type ExtraSID struct {
	SID        SID
	Attributes uint32
}

// Str is an RPC_UNICODE_STRING; Extra is MaximumLength-Length in bytes
// (Windows writes 2 for some fields); Null makes the buffer pointer null.
type Str struct {
	Value string
	Extra int
	Null  bool
}

// ValidationInfo is the attribute model of KERB_VALIDATION_INFO.
type ValidationInfo struct {
	LogonTime, LogoffTime, KickOffTime, PasswordLastSet, PasswordCanChange, PasswordMustChange uint64 // FILETIME
	EffectiveName, FullName, LogonScript, ProfilePath, HomeDirectory, HomeDirectoryDrive       Str
	LogonCount, BadPasswordCount                                                               uint16
	UserID, PrimaryGroupID                                                                     uint32
	Groups                                                                                     []Group
	UserFlags                                                                                  uint32
	UserSessionKey                                                                             [16]byte
	LogonServer, LogonDomainName                                                               Str
	LogonDomainID                                                                              *SID
	UserAccountControl, SubAuthStatus                                                          uint32
	LastSuccessfulILogon, LastFailedILogon                                                     uint64
	FailedILogonCount                                                                          uint32
	ExtraSIDs                                                                                  []ExtraSID
	ExtraSIDsNull                                                                              bool // null pointer when there are none
	ResourceGroupDomainSID                                                                     *SID
	ResourceGroups                                                                             []Group
}

// FileTime converts to FILETIME (100 ns ticks since 1601-01-01).
func FileTime(t time.Time) uint64 {
	return uint64(t.Unix()+11644473600)*10000000 + uint64(t.Nanosecond()/100)
}

// FromFileTime converts back.
func FromFileTime(ft uint64) time.Time {
	return time.Unix(int64(ft/10000000)-11644473600, int64(ft%10000000)*100).UTC()
}

// Never is the FILETIME Windows writes for "never".
const Never = uint64(0x7fffffffffffffff)

type enc struct {
	b   []byte
	ref uint32
}

func (e *enc) u16(v uint16) { e.b = append(e.b, byte(v), byte(v>>8)) }
func (e *enc) u32(v uint32) {
	t := make([]byte, 4)
	binary.LittleEndian.PutUint32(t, v)
	e.b = append(e.b, t...)
}
func (e *enc) u64(v uint64) {
	t := make([]byte, 8)
	binary.LittleEndian.PutUint64(t, v)
	e.b = append(e.b, t...)
}
func (e *enc) align(n int) {
	for len(e.b)%n != 0 {
		e.b = append(e.b, 0)
	}
}
func (e *enc) ptr(null bool) uint32 {
	if null {
		e.u32(0)
		return 0
	}
	id := e.ref
	e.ref += 4
	e.u32(id)
	return id
}

func utf16le(s string) []byte {
	u := utf16.Encode([]rune(s))
	b := make([]byte, 2*len(u))
	for i, c := range u {
		binary.LittleEndian.PutUint16(b[2*i:], c)
	}
	return b
}

func (e *enc) strHeader(s Str) {
	n := len(utf16le(s.Value))
	e.u16(uint16(n))
	e.u16(uint16(n + s.Extra))
	e.ptr(s.Null)
}

func (e *enc) strBody(s Str) {
	if s.Null {
		return
	}
	e.align(4)
	w := utf16le(s.Value)
	e.u32(uint32((len(w) + s.Extra) / 2)) // MaximumCount
	e.u32(0)                              // Offset
	e.u32(uint32(len(w) / 2))             // ActualCount
	e.b = append(e.b, w...)
}

func (e *enc) sid(s SID) {
	e.align(4)
	e.u32(uint32(len(s.Sub)))
	e.b = append(e.b, s.Revision, byte(len(s.Sub)))
	e.b = append(e.b, byte(s.Authority>>40), byte(s.Authority>>32), byte(s.Authority>>24), byte(s.Authority>>16), byte(s.Authority>>8), byte(s.Authority))
	for _, v := range s.Sub {
		e.u32(v)
	}
}

func (e *enc) groups(g []Group) {
	e.align(4)
	e.u32(uint32(len(g)))
	for _, x := range g {
		e.u32(x.RID)
		e.u32(x.Attributes)
	}
}

// Encode renders the NDR type-serialization-1 stream of the structure.
func (v ValidationInfo) Encode() []byte {
	e := &enc{ref: 0x00020000}
	// the object starts after the 16-byte headers; alignment is relative to that point
	e.ptr(false) // top-level pointer
	for _, ft := range []uint64{v.LogonTime, v.LogoffTime, v.KickOffTime, v.PasswordLastSet, v.PasswordCanChange, v.PasswordMustChange} {
		e.u64(ft)
	}
	strs := []Str{v.EffectiveName, v.FullName, v.LogonScript, v.ProfilePath, v.HomeDirectory, v.HomeDirectoryDrive}
	for _, s := range strs {
		e.strHeader(s)
	}
	e.u16(v.LogonCount)
	e.u16(v.BadPasswordCount)
	e.u32(v.UserID)
	e.u32(v.PrimaryGroupID)
	e.u32(uint32(len(v.Groups)))
	e.ptr(false)
	e.u32(v.UserFlags)
	e.b = append(e.b, v.UserSessionKey[:]...)
	e.strHeader(v.LogonServer)
	e.strHeader(v.LogonDomainName)
	e.ptr(v.LogonDomainID == nil)
	e.u32(0)
	e.u32(0)
	e.u32(v.UserAccountControl)
	e.u32(v.SubAuthStatus)
	e.u64(v.LastSuccessfulILogon)
	e.u64(v.LastFailedILogon)
	e.u32(v.FailedILogonCount)
	e.u32(0)
	e.u32(uint32(len(v.ExtraSIDs)))
	extraNull := len(v.ExtraSIDs) == 0 && v.ExtraSIDsNull
	e.ptr(extraNull)
	// Windows numbers the SID pointers inside the ExtraSids array before the remaining top-level pointers
	sidRefs := make([]uint32, len(v.ExtraSIDs))
	for i := range v.ExtraSIDs {
		sidRefs[i] = e.ref
		e.ref += 4
	}
	e.ptr(v.ResourceGroupDomainSID == nil)
	e.u32(uint32(len(v.ResourceGroups)))
	e.ptr(v.ResourceGroupDomainSID == nil && len(v.ResourceGroups) == 0)
	// deferred referents, in order of appearance (depth first)
	for _, s := range strs {
		e.strBody(s)
	}
	e.groups(v.Groups)
	e.strBody(v.LogonServer)
	e.strBody(v.LogonDomainName)
	if v.LogonDomainID != nil {
		e.sid(*v.LogonDomainID)
	}
	if !extraNull {
		e.align(4)
		e.u32(uint32(len(v.ExtraSIDs)))
		for i, x := range v.ExtraSIDs {
			e.u32(sidRefs[i])
			e.u32(x.Attributes)
		}
		for _, x := range v.ExtraSIDs {
			e.sid(x.SID)
		}
	}
	if v.ResourceGroupDomainSID != nil {
		e.sid(*v.ResourceGroupDomainSID)
	}
	if !(v.ResourceGroupDomainSID == nil && len(v.ResourceGroups) == 0) {
		e.groups(v.ResourceGroups)
	}
	e.align(8)
	hdr := []byte{0x01, 0x10, 0x08, 0x00, 0xcc, 0xcc, 0xcc, 0xcc, 0, 0, 0, 0, 0, 0, 0, 0}
	binary.LittleEndian.PutUint32(hdr[8:], uint32(len(e.b)))
	return append(hdr, e.b...)
}

// GroupSIDs lists the group membership SIDs the way an application sees them:
// domain groups, extra SIDs, resource groups (duplicates removed).
func (v ValidationInfo) GroupSIDs() []string {
	var out []string
	seen := map[string]bool{}
	add := func(s string) {
		if !seen[s] {
			seen[s] = true
			out = append(out, s)
		}
	}
	dom := ""
	if v.LogonDomainID != nil {
		dom = v.LogonDomainID.String()
	}
	for _, g := range v.Groups {
		out = append(out, dom+"-"+utoa(uint64(g.RID)))
		seen[dom+"-"+utoa(uint64(g.RID))] = true
	}
	for _, x := range v.ExtraSIDs {
		add(x.SID.String())
	}
	for _, g := range v.ResourceGroups {
		r := ""
		if v.ResourceGroupDomainSID != nil {
			r = v.ResourceGroupDomainSID.String()
		}
		add(r + "-" + utoa(uint64(g.RID)))
	}
	return out
}

// ClientInfo encodes PAC_CLIENT_INFO.
func ClientInfo(authTime uint64, name string) []byte {
	w := utf16le(name)
	b := make([]byte, 10)
	binary.LittleEndian.PutUint64(b, authTime)
	binary.LittleEndian.PutUint16(b[8:], uint16(len(w)))
	return append(b, w...)
}

// Buffer is one PAC info buffer.
type Buffer struct {
	Type uint32
	Data []byte
}

// Buffer types.
const (
	TypeLogonInfo  = 1
	TypeServerSig  = 6
	TypeKDCSig     = 7
	TypeClientInfo = 10
	TypeUPNDNS     = 12
)

// SigLen returns the signature length of a PAC checksum type (0: unknown).
func SigLen(cksumType int32) int {
	switch cksumType {
	case -138:
		return 16
	case 15, 16:
		return 12
	case 19:
		return 16
	case 20:
		return 24
	}
	return 0
}

// SigBuffer builds an (unsigned, zeroed) PAC_SIGNATURE_DATA buffer.
func SigBuffer(cksumType int32, rodc *uint16) []byte {
	b := make([]byte, 4+SigLen(cksumType))
	binary.LittleEndian.PutUint32(b, uint32(cksumType))
	if rodc != nil {
		b = append(b, byte(*rodc), byte(*rodc>>8))
	}
	return b
}

// Layout describes where things ended up in an assembled PAC.
type Layout struct {
	Offsets []int // offset of each buffer's data
	Sizes   []int
}

// Assemble lays the buffers out (table, 8-byte aligned data) without signing.
func Assemble(bufs []Buffer) ([]byte, Layout) {
	n := len(bufs)
	out := make([]byte, 8+16*n)
	binary.LittleEndian.PutUint32(out[0:], uint32(n))
	binary.LittleEndian.PutUint32(out[4:], 0)
	var lay Layout
	for i, b := range bufs {
		for len(out)%8 != 0 {
			out = append(out, 0)
		}
		off := len(out)
		binary.LittleEndian.PutUint32(out[8+16*i:], b.Type)
		binary.LittleEndian.PutUint32(out[8+16*i+4:], uint32(len(b.Data)))
		binary.LittleEndian.PutUint64(out[8+16*i+8:], uint64(off))
		out = append(out, b.Data...)
		lay.Offsets = append(lay.Offsets, off)
		lay.Sizes = append(lay.Sizes, len(b.Data))
	}
	for len(out)%8 != 0 {
		out = append(out, 0)
	}
	return out, lay
}

// Sign fills the server and KDC signature values of an assembled PAC whose
// signature buffers are at indices si and ki (values must currently be zero).
func Sign(pac []byte, lay Layout, si, ki int, srvType int32, srvEtype int32, srvKey []byte, kdcType int32, kdcEtype int32, kdcKey []byte) error {
	sig, err := rcrypto.Checksum(srvEtype, srvKey, 17, pac)
	if err != nil {
		return err
	}
	copy(pac[lay.Offsets[si]+4:], sig[:SigLen(srvType)])
	ksig, err := rcrypto.Checksum(kdcEtype, kdcKey, 17, sig[:SigLen(srvType)])
	if err != nil {
		return err
	}
	copy(pac[lay.Offsets[ki]+4:], ksig[:SigLen(kdcType)])
	return nil
}

// Resign recomputes the server signature of a (possibly malformed) PAC in place of the old one, as far as the
// buffer table can be followed: the signature values of the type 6 and 7 buffers are zeroed, the checksum of the
// whole is taken with the given key and written into the type 6 buffer. Returns a copy; unchanged bytes if the
// table cannot be followed. Used to present mutated PACs the way a holder of the service key could.
func Resign(in []byte, etype int32, key []byte) []byte {
	b := append([]byte{}, in...)
	if len(b) < 8 {
		return b
	}
	n := int(binary.LittleEndian.Uint32(b))
	type sb struct{ off, size int }
	var srv *sb
	var sigs []sb
	for i := 0; i < n && 8+16*i+16 <= len(b); i++ {
		t := binary.LittleEndian.Uint32(b[8+16*i:])
		size := uint64(binary.LittleEndian.Uint32(b[8+16*i+4:]))
		off := binary.LittleEndian.Uint64(b[8+16*i+8:])
		if t != TypeServerSig && t != TypeKDCSig {
			continue
		}
		if off > uint64(len(b)) || off+size > uint64(len(b)) || size < 4 {
			return b
		}
		s := sb{int(off), int(size)}
		sigs = append(sigs, s)
		if t == TypeServerSig && srv == nil {
			srv = &sigs[len(sigs)-1]
		}
	}
	if srv == nil {
		return b
	}
	for _, s := range sigs {
		ct := int32(binary.LittleEndian.Uint32(b[s.off:]))
		l := SigLen(ct)
		if l == 0 || 4+l > s.size {
			l = s.size - 4
		}
		for k := 0; k < l; k++ {
			b[s.off+4+k] = 0
		}
	}
	sig, err := rcrypto.Checksum(etype, key, 17, b)
	if err != nil {
		return b
	}
	copy(b[srv.off+4:srv.off+srv.size], sig)
	return b
}
