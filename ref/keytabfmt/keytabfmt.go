// Package keytabfmt is an independent writer and reader of the MIT keytab
// file format (versions 1 and 2), written from the MIT "keytab file format"
// document. Version 1 uses native byte order (little-endian here) and counts
// the realm among the components; version 2 is big-endian and carries a name
// type. Entries may be followed by an optional 32-bit key version and may be
// interleaved with holes (negative length).
package keytabfmt

import (
	"encoding/binary"
	"errors"
	"fmt"
)

// Entry is one keytab entry as the model sees it.
type Entry struct {
	Components []string
	Realm      string
	NameType   uint32 // version 2 only
	Timestamp  uint32
	KVNO8      uint8
	KVNO32     *uint32 // optional trailing 32-bit kvno
	KeyType    uint16  // 16-bit on disk (signed in the reader's view)
	Key        []byte
	Trailer    []byte // extra bytes after the optional kvno (ignored by readers)
}

// KVNO is the effective key version: the 32-bit field when present and non-zero, else the 8-bit one.
func (e Entry) KVNO() uint32 {
	if e.KVNO32 != nil && *e.KVNO32 != 0 {
		return *e.KVNO32
	}
	return uint32(e.KVNO8)
}

// Item is an entry or a hole.
type Item struct {
	Entry *Entry
	Hole  int // >0: a hole of this many bytes
}

func order(version int) binary.ByteOrder {
	if version == 1 {
		return binary.LittleEndian
	}
	return binary.BigEndian
}

// EncodeEntry renders the entry body (without the length prefix).
func EncodeEntry(version int, e Entry) []byte {
	bo := order(version)
	var b []byte
	u16 := func(v uint16) { t := make([]byte, 2); bo.PutUint16(t, v); b = append(b, t...) }
	u32 := func(v uint32) { t := make([]byte, 4); bo.PutUint32(t, v); b = append(b, t...) }
	str := func(s []byte) { u16(uint16(len(s))); b = append(b, s...) }
	n := len(e.Components)
	if version == 1 {
		n++
	}
	u16(uint16(n))
	str([]byte(e.Realm))
	for _, c := range e.Components {
		str([]byte(c))
	}
	if version != 1 {
		u32(e.NameType)
	}
	u32(e.Timestamp)
	b = append(b, e.KVNO8)
	u16(e.KeyType)
	str(e.Key)
	if e.KVNO32 != nil {
		u32(*e.KVNO32)
	}
	b = append(b, e.Trailer...)
	return b
}

// Write renders a keytab file.
func Write(version int, items []Item) []byte {
	bo := order(version)
	out := []byte{5, byte(version)}
	for _, it := range items {
		l := make([]byte, 4)
		if it.Entry == nil {
			bo.PutUint32(l, uint32(int32(-it.Hole)))
			out = append(out, l...)
			out = append(out, make([]byte, it.Hole)...)
			continue
		}
		body := EncodeEntry(version, *it.Entry)
		bo.PutUint32(l, uint32(len(body)))
		out = append(out, l...)
		out = append(out, body...)
	}
	return out
}

// Read parses a keytab file strictly.
func Read(b []byte) (version int, entries []Entry, err error) {
	if len(b) < 2 || b[0] != 5 || (b[1] != 1 && b[1] != 2) {
		return 0, nil, errors.New("not a keytab (bad version bytes)")
	}
	version = int(b[1])
	bo := order(version)
	p := 2
	for p < len(b) {
		if p+4 > len(b) {
			return version, entries, errors.New("truncated entry length")
		}
		l := int(int32(bo.Uint32(b[p:])))
		p += 4
		if l == 0 {
			break // end marker written by some implementations
		}
		if l < 0 {
			if p-l > len(b) {
				return version, entries, errors.New("hole exceeds file")
			}
			p -= l
			continue
		}
		if p+l > len(b) {
			return version, entries, errors.New("entry exceeds file")
		}
		e, err := readEntry(version, b[p:p+l])
		if err != nil {
			return version, entries, err
		}
		entries = append(entries, e)
		p += l
	}
	return version, entries, nil
}

func readEntry(version int, b []byte) (Entry, error) {
	bo := order(version)
	p := 0
	var e Entry
	need := func(n int) error {
		if p+n > len(b) {
			return fmt.Errorf("entry truncated at offset %d", p)
		}
		return nil
	}
	u16 := func() (uint16, error) {
		if err := need(2); err != nil {
			return 0, err
		}
		v := bo.Uint16(b[p:])
		p += 2
		return v, nil
	}
	u32 := func() (uint32, error) {
		if err := need(4); err != nil {
			return 0, err
		}
		v := bo.Uint32(b[p:])
		p += 4
		return v, nil
	}
	str := func() ([]byte, error) {
		l, err := u16()
		if err != nil {
			return nil, err
		}
		if err := need(int(l)); err != nil {
			return nil, err
		}
		s := b[p : p+int(l)]
		p += int(l)
		return s, nil
	}
	n, err := u16()
	if err != nil {
		return e, err
	}
	nc := int(n)
	if version == 1 {
		nc--
	}
	if nc < 0 {
		return e, errors.New("negative component count")
	}
	r, err := str()
	if err != nil {
		return e, err
	}
	e.Realm = string(r)
	e.Components = []string{}
	for i := 0; i < nc; i++ {
		c, err := str()
		if err != nil {
			return e, err
		}
		e.Components = append(e.Components, string(c))
	}
	if version != 1 {
		if e.NameType, err = u32(); err != nil {
			return e, err
		}
	}
	if e.Timestamp, err = u32(); err != nil {
		return e, err
	}
	if err := need(1); err != nil {
		return e, err
	}
	e.KVNO8 = b[p]
	p++
	if e.KeyType, err = u16(); err != nil {
		return e, err
	}
	k, err := str()
	if err != nil {
		return e, err
	}
	e.Key = append([]byte{}, k...)
	if len(b)-p >= 4 {
		v, _ := u32()
		e.KVNO32 = &v
	}
	if p < len(b) {
		e.Trailer = append([]byte{}, b[p:]...)
	}
	return e, nil
}
