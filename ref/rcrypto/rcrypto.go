// Package rcrypto is an independent implementation of the Kerberos crypto
// profiles, written from RFC 3961, 3962, 8009 and 4757 for use as the oracle
// of the verification harness. It imports nothing from gokrb5 and only uses
// primitive algorithms (AES, DES, RC4, HMAC, SHA-1/2, MD4/5) from the Go
// standard library and x/crypto/md4.
package rcrypto

import (
	"crypto/aes"
	"crypto/cipher"
	"crypto/des"
	"crypto/hmac"
	"crypto/md5"
	"crypto/rc4"
	"crypto/sha1"
	"crypto/sha256"
	"crypto/sha512"
	"crypto/subtle"
	"encoding/binary"
	"errors"
	"fmt"
	"hash"
	"unicode/utf16"

	"golang.org/x/crypto/md4"
)

// Etype numbers.
const (
	DES3   = 16
	AES128 = 17
	AES256 = 18
	A128S2 = 19 // aes128-cts-hmac-sha256-128
	A256S2 = 20 // aes256-cts-hmac-sha384-192
	RC4    = 23
)

// Etypes lists the six supported encryption types.
var Etypes = []int32{DES3, AES128, AES256, A128S2, A256S2, RC4}

// Profile describes one etype.
type Profile struct {
	ID        int32
	Name      string
	KeyLen    int // protocol key length in bytes
	SeedLen   int // key-generation seed length in bytes
	Block     int // cipher block size
	Conf      int // confounder length
	MacLen    int // truncated HMAC length in message encryption
	CksumType int32
	CksumLen  int
	DefParams string // default string-to-key parameter (hex) or ""
}

var profiles = map[int32]Profile{
	DES3:   {DES3, "des3-cbc-sha1-kd", 24, 21, 8, 8, 20, 12, 20, ""},
	AES128: {AES128, "aes128-cts-hmac-sha1-96", 16, 16, 16, 16, 12, 15, 12, "00001000"},
	AES256: {AES256, "aes256-cts-hmac-sha1-96", 32, 32, 16, 16, 12, 16, 12, "00001000"},
	A128S2: {A128S2, "aes128-cts-hmac-sha256-128", 16, 16, 16, 16, 16, 19, 16, "00008000"},
	A256S2: {A256S2, "aes256-cts-hmac-sha384-192", 32, 32, 16, 16, 24, 20, 24, "00008000"},
	RC4:    {RC4, "rc4-hmac", 16, 16, 1, 8, 16, -138, 16, ""},
}

// Get returns the profile of an etype.
func Get(et int32) (Profile, bool) { p, ok := profiles[et]; return p, ok }

// EtypeForCksum maps an IANA checksum type to the etype whose key it uses.
func EtypeForCksum(ct int32) (int32, bool) {
	switch ct {
	case 12:
		return DES3, true
	case 15:
		return AES128, true
	case 16:
		return AES256, true
	case 19:
		return A128S2, true
	case 20:
		return A256S2, true
	case -138:
		return RC4, true
	}
	return 0, false
}

// ---------------------------------------------------------------- n-fold

func gcd(a, b int) int {
	for b != 0 {
		a, b = b, a%b
	}
	return a
}

// NFold is RFC 3961 section 5.1 n-fold: in is folded to outLen bytes.
func NFold(in []byte, outLen int) []byte {
	inBits, outBits := len(in)*8, outLen*8
	if inBits == 0 || outBits == 0 {
		return make([]byte, outLen)
	}
	lcm := inBits / gcd(inBits, outBits) * outBits
	// bit i (MSB first) of the concatenation: copy c = i / inBits is the input
	// rotated right by 13*c bits, so its bit j is input bit (j - 13c) mod inBits.
	getBit := func(i int) int {
		c := i / inBits
		j := i % inBits
		src := ((j-13*c)%inBits + inBits) % inBits
		return int(in[src/8]>>(7-uint(src%8))) & 1
	}
	acc := make([]int, outLen) // per-byte sums
	for i := 0; i < lcm; i++ {
		if getBit(i) == 1 {
			pos := i % outBits
			acc[pos/8] += 1 << (7 - uint(pos%8))
		}
	}
	// ones-complement addition: propagate carries with end-around carry
	for {
		carry := 0
		for i := outLen - 1; i >= 0; i-- {
			acc[i] += carry
			carry = acc[i] >> 8
			acc[i] &= 0xff
		}
		if carry == 0 {
			break
		}
		acc[outLen-1] += carry
	}
	out := make([]byte, outLen)
	for i, v := range acc {
		out[i] = byte(v)
	}
	return out
}

// ---------------------------------------------------------------- DES3 helpers

var weakDES = [][8]byte{
	{0x01, 0x01, 0x01, 0x01, 0x01, 0x01, 0x01, 0x01}, {0xFE, 0xFE, 0xFE, 0xFE, 0xFE, 0xFE, 0xFE, 0xFE},
	{0xE0, 0xE0, 0xE0, 0xE0, 0xF1, 0xF1, 0xF1, 0xF1}, {0x1F, 0x1F, 0x1F, 0x1F, 0x0E, 0x0E, 0x0E, 0x0E},
	{0x01, 0x1F, 0x01, 0x1F, 0x01, 0x0E, 0x01, 0x0E}, {0x1F, 0x01, 0x1F, 0x01, 0x0E, 0x01, 0x0E, 0x01},
	{0x01, 0xE0, 0x01, 0xE0, 0x01, 0xF1, 0x01, 0xF1}, {0xE0, 0x01, 0xE0, 0x01, 0xF1, 0x01, 0xF1, 0x01},
	{0x01, 0xFE, 0x01, 0xFE, 0x01, 0xFE, 0x01, 0xFE}, {0xFE, 0x01, 0xFE, 0x01, 0xFE, 0x01, 0xFE, 0x01},
	{0x1F, 0xE0, 0x1F, 0xE0, 0x0E, 0xF1, 0x0E, 0xF1}, {0xE0, 0x1F, 0xE0, 0x1F, 0xF1, 0x0E, 0xF1, 0x0E},
	{0x1F, 0xFE, 0x1F, 0xFE, 0x0E, 0xFE, 0x0E, 0xFE}, {0xFE, 0x1F, 0xFE, 0x1F, 0xFE, 0x0E, 0xFE, 0x0E},
	{0xE0, 0xFE, 0xE0, 0xFE, 0xF1, 0xFE, 0xF1, 0xFE}, {0xFE, 0xE0, 0xFE, 0xE0, 0xFE, 0xF1, 0xFE, 0xF1},
}

// WeakDESKeys exposes the 16 weak and semi-weak DES keys (with parity).
func WeakDESKeys() [][8]byte { return weakDES }

// des7to8 expands 56 bits to a DES key with odd parity as RFC 3961 6.3.1
// prescribes: bytes 1-7 carry the first 7 bits each of the 7 input bytes, byte
// 8 collects their low bits; then parity is set and weak keys are corrected.
func des7to8(in []byte) []byte {
	out := make([]byte, 8)
	var last byte
	for i := 0; i < 7; i++ {
		out[i] = in[i] &^ 1
		last |= (in[i] & 1) << uint(i+1)
	}
	out[7] = last
	for i := range out {
		b := out[i] >> 1
		ones := 0
		for k := 0; k < 7; k++ {
			ones += int(b>>uint(k)) & 1
		}
		out[i] &^= 1
		if ones%2 == 0 {
			out[i] |= 1
		}
	}
	for _, w := range weakDES {
		if subtle.ConstantTimeCompare(out, w[:]) == 1 {
			out[7] ^= 0xF0
			break
		}
	}
	return out
}

// DES3RandomToKey is RFC 3961 6.3.1 random-to-key (21 -> 24 bytes).
func DES3RandomToKey(seed []byte) []byte {
	var out []byte
	for i := 0; i < 3; i++ {
		out = append(out, des7to8(seed[7*i:7*i+7])...)
	}
	return out
}

// ---------------------------------------------------------------- simplified profile (RFC 3961 5.3)

func usageConst(usage uint32, tag byte) []byte {
	b := make([]byte, 5)
	binary.BigEndian.PutUint32(b, usage)
	b[4] = tag
	return b
}

// cbcZero encrypts whole blocks in CBC mode with a zero IV.
func cbcZero(b cipher.Block, in []byte) []byte {
	out := make([]byte, len(in))
	cipher.NewCBCEncrypter(b, make([]byte, b.BlockSize())).CryptBlocks(out, in)
	return out
}

func blockFor(et int32, key []byte) (cipher.Block, error) {
	if et == DES3 {
		return des.NewTripleDESCipher(key)
	}
	return aes.NewCipher(key)
}

// DR is RFC 3961 derive-random for the simplified-profile etypes 16, 17, 18.
func DR(et int32, key, constant []byte) ([]byte, error) {
	p := profiles[et]
	blk, err := blockFor(et, key)
	if err != nil {
		return nil, err
	}
	c := constant
	if len(c) != p.Block {
		c = NFold(c, p.Block)
	}
	var out []byte
	for len(out) < p.SeedLen {
		c = cbcZero(blk, c)
		out = append(out, c...)
	}
	return out[:p.SeedLen], nil
}

// DK is RFC 3961 derive-key (etypes 16, 17, 18).
func DK(et int32, key, constant []byte) ([]byte, error) {
	r, err := DR(et, key, constant)
	if err != nil {
		return nil, err
	}
	if et == DES3 {
		return DES3RandomToKey(r), nil
	}
	return r, nil
}

// KDFHMACSHA2 is RFC 8009 section 3 (no context).
func KDFHMACSHA2(et int32, key, label []byte, kbits int) []byte {
	h := sha256.New
	if et == A256S2 {
		h = sha512.New384
	}
	m := hmac.New(h, key)
	m.Write([]byte{0, 0, 0, 1})
	m.Write(label)
	m.Write([]byte{0})
	var k [4]byte
	binary.BigEndian.PutUint32(k[:], uint32(kbits))
	m.Write(k[:])
	return m.Sum(nil)[:kbits/8]
}

// DeriveKey derives the key for a 5-byte usage constant (or any constant).
func DeriveKey(et int32, key, constant []byte) ([]byte, error) {
	switch et {
	case DES3, AES128, AES256:
		return DK(et, key, constant)
	case A128S2, A256S2:
		// RFC 8009 section 5: Kc and Ki have the MAC length, Ke the key length.
		p := profiles[et]
		bits := p.KeyLen * 8
		if len(constant) == 5 && (constant[4] == 0x99 || constant[4] == 0x55) {
			bits = p.MacLen * 8
		}
		return KDFHMACSHA2(et, key, constant, bits), nil
	}
	return nil, fmt.Errorf("no key derivation for etype %d", et)
}

func hashFor(et int32) func() hash.Hash {
	switch et {
	case A128S2:
		return sha256.New
	case A256S2:
		return sha512.New384
	case RC4:
		return md5.New
	}
	return sha1.New
}

func hmacOf(h func() hash.Hash, key []byte, parts ...[]byte) []byte {
	m := hmac.New(h, key)
	for _, p := range parts {
		m.Write(p)
	}
	return m.Sum(nil)
}

// ctsEncrypt is CBC with ciphertext stealing as RFC 3962 section 5 defines it
// (zero IV; the last two blocks are always swapped when there are two or more).
func ctsEncrypt(blk cipher.Block, pt []byte) ([]byte, error) {
	bs := blk.BlockSize()
	n := len(pt)
	if n < bs {
		return nil, errors.New("cts: input shorter than a block")
	}
	if n == bs {
		return cbcZero(blk, pt), nil
	}
	pad := (bs - n%bs) % bs
	padded := append(append([]byte{}, pt...), make([]byte, pad)...)
	ct := cbcZero(blk, padded)
	nb := len(ct) / bs
	last := append([]byte{}, ct[(nb-1)*bs:]...)
	prev := append([]byte{}, ct[(nb-2)*bs:(nb-1)*bs]...)
	out := append([]byte{}, ct[:(nb-2)*bs]...)
	out = append(out, last...)
	out = append(out, prev[:bs-pad]...)
	return out, nil
}

func ctsDecrypt(blk cipher.Block, ct []byte) ([]byte, error) {
	bs := blk.BlockSize()
	n := len(ct)
	if n < bs {
		return nil, errors.New("cts: input shorter than a block")
	}
	iv := make([]byte, bs)
	if n == bs {
		out := make([]byte, bs)
		cipher.NewCBCDecrypter(blk, iv).CryptBlocks(out, ct)
		return out, nil
	}
	nb := (n + bs - 1) / bs
	tail := n - (nb-1)*bs // bytes in the final (possibly short) block, 1..bs
	head := ct[:(nb-2)*bs]
	cLast := ct[(nb-2)*bs : (nb-1)*bs] // this is C_n (full block), swapped into the penultimate place
	cPrevPart := ct[(nb-1)*bs:]        // first `tail` bytes of C_{n-1}
	// D_n = Decrypt(C_n); its trailing bs-tail bytes are the stolen tail of C_{n-1}
	dn := make([]byte, bs)
	blk.Decrypt(dn, cLast)
	cPrev := append(append([]byte{}, cPrevPart...), dn[tail:]...)
	// P_n = D_n xor C_{n-1} (first tail bytes)
	pn := make([]byte, tail)
	for i := 0; i < tail; i++ {
		pn[i] = dn[i] ^ cPrev[i]
	}
	// P_{n-1} = Decrypt(C_{n-1}) xor C_{n-2} (or IV)
	dp := make([]byte, bs)
	blk.Decrypt(dp, cPrev)
	prevIV := iv
	if len(head) > 0 {
		prevIV = head[len(head)-bs:]
	}
	for i := range dp {
		dp[i] ^= prevIV[i]
	}
	out := make([]byte, len(head))
	if len(head) > 0 {
		cipher.NewCBCDecrypter(blk, iv).CryptBlocks(out, head)
	}
	out = append(out, dp...)
	out = append(out, pn...)
	return out, nil
}

// T is the RFC 4757 message-type translation of a key usage.
func rc4T(usage uint32) []byte {
	switch usage {
	case 3, 9:
		usage = 8
	case 23:
		usage = 13
	}
	b := make([]byte, 4)
	binary.LittleEndian.PutUint32(b, usage)
	return b
}

// RC4UsageClass returns the canonical representative of the usages RFC 4757
// maps to the same message type (3, 9 -> 8; 23 -> 13).
func RC4UsageClass(usage uint32) uint32 {
	return binary.LittleEndian.Uint32(rc4T(usage))
}

// EncryptWithConfounder encrypts plaintext under (etype, key, usage) with the
// given confounder, exactly as the RFC for that etype specifies.
func EncryptWithConfounder(et int32, key []byte, usage uint32, conf, pt []byte) ([]byte, error) {
	p, ok := profiles[et]
	if !ok {
		return nil, fmt.Errorf("unsupported etype %d", et)
	}
	if len(key) != p.KeyLen {
		return nil, fmt.Errorf("key length %d, want %d", len(key), p.KeyLen)
	}
	if len(conf) != p.Conf {
		return nil, fmt.Errorf("confounder length %d, want %d", len(conf), p.Conf)
	}
	msg := append(append([]byte{}, conf...), pt...)
	switch et {
	case RC4:
		k1 := hmacOf(md5.New, key, rc4T(usage))
		cks := hmacOf(md5.New, k1, msg)
		k3 := hmacOf(md5.New, k1, cks)
		c, _ := rc4.NewCipher(k3)
		out := make([]byte, len(msg))
		c.XORKeyStream(out, msg)
		return append(cks, out...), nil
	case DES3, AES128, AES256:
		ke, err := DK(et, key, usageConst(usage, 0xAA))
		if err != nil {
			return nil, err
		}
		ki, err := DK(et, key, usageConst(usage, 0x55))
		if err != nil {
			return nil, err
		}
		blk, err := blockFor(et, ke)
		if err != nil {
			return nil, err
		}
		var c []byte
		if et == DES3 {
			if r := len(msg) % 8; r != 0 {
				msg = append(msg, make([]byte, 8-r)...)
			}
			c = cbcZero(blk, msg)
		} else {
			c, err = ctsEncrypt(blk, msg)
			if err != nil {
				return nil, err
			}
		}
		mac := hmacOf(sha1.New, ki, msg)[:p.MacLen]
		return append(c, mac...), nil
	case A128S2, A256S2:
		ke := KDFHMACSHA2(et, key, usageConst(usage, 0xAA), p.KeyLen*8)
		ki := KDFHMACSHA2(et, key, usageConst(usage, 0x55), p.MacLen*8)
		blk, err := aes.NewCipher(ke)
		if err != nil {
			return nil, err
		}
		c, err := ctsEncrypt(blk, msg)
		if err != nil {
			return nil, err
		}
		mac := hmacOf(hashFor(et), ki, make([]byte, 16), c)[:p.MacLen]
		return append(c, mac...), nil
	}
	return nil, fmt.Errorf("unsupported etype %d", et)
}

// Decrypt returns (confounder, plaintext) of an authentic ciphertext, or an
// error. For des3 the plaintext includes the zero padding.
func Decrypt(et int32, key []byte, usage uint32, ct []byte) (conf, pt []byte, err error) {
	p, ok := profiles[et]
	if !ok {
		return nil, nil, fmt.Errorf("unsupported etype %d", et)
	}
	if len(key) != p.KeyLen {
		return nil, nil, fmt.Errorf("key length %d, want %d", len(key), p.KeyLen)
	}
	switch et {
	case RC4:
		if len(ct) < 16+p.Conf {
			return nil, nil, errors.New("ciphertext too short")
		}
		k1 := hmacOf(md5.New, key, rc4T(usage))
		k3 := hmacOf(md5.New, k1, ct[:16])
		c, _ := rc4.NewCipher(k3)
		msg := make([]byte, len(ct)-16)
		c.XORKeyStream(msg, ct[16:])
		if !hmac.Equal(hmacOf(md5.New, k1, msg), ct[:16]) {
			return nil, nil, errors.New("integrity check failed")
		}
		return msg[:p.Conf], msg[p.Conf:], nil
	case DES3, AES128, AES256, A128S2, A256S2:
		if len(ct) < p.MacLen+p.Conf {
			return nil, nil, errors.New("ciphertext too short")
		}
		body, mac := ct[:len(ct)-p.MacLen], ct[len(ct)-p.MacLen:]
		ke, err := DeriveKey(et, key, usageConst(usage, 0xAA))
		if err != nil {
			return nil, nil, err
		}
		ki, err := DeriveKey(et, key, usageConst(usage, 0x55))
		if err != nil {
			return nil, nil, err
		}
		blk, err := blockFor(et, ke)
		if err != nil {
			return nil, nil, err
		}
		var msg []byte
		if et == DES3 {
			if len(body)%8 != 0 {
				return nil, nil, errors.New("ciphertext not a multiple of the block size")
			}
			msg = make([]byte, len(body))
			cipher.NewCBCDecrypter(blk, make([]byte, 8)).CryptBlocks(msg, body)
		} else {
			msg, err = ctsDecrypt(blk, body)
			if err != nil {
				return nil, nil, err
			}
		}
		var want []byte
		if et == A128S2 || et == A256S2 {
			want = hmacOf(hashFor(et), ki, make([]byte, 16), body)[:p.MacLen]
		} else {
			want = hmacOf(sha1.New, ki, msg)[:p.MacLen]
		}
		if !hmac.Equal(want, mac) {
			return nil, nil, errors.New("integrity check failed")
		}
		return msg[:p.Conf], msg[p.Conf:], nil
	}
	return nil, nil, fmt.Errorf("unsupported etype %d", et)
}

// Checksum computes the keyed checksum of the etype's mandatory checksum type.
func Checksum(et int32, key []byte, usage uint32, data []byte) ([]byte, error) {
	p, ok := profiles[et]
	if !ok {
		return nil, fmt.Errorf("unsupported etype %d", et)
	}
	if len(key) != p.KeyLen {
		return nil, fmt.Errorf("key length %d, want %d", len(key), p.KeyLen)
	}
	if et == RC4 {
		ksign := hmacOf(md5.New, key, []byte("signaturekey\x00"))
		h := md5.New()
		h.Write(rc4T(usage))
		h.Write(data)
		return hmacOf(md5.New, ksign, h.Sum(nil)), nil
	}
	kc, err := DeriveKey(et, key, usageConst(usage, 0x99))
	if err != nil {
		return nil, err
	}
	return hmacOf(hashFor(et), kc, data)[:p.CksumLen], nil
}

// ---------------------------------------------------------------- string-to-key

// PBKDF2 (RFC 2898) with an arbitrary HMAC hash.
func PBKDF2(h func() hash.Hash, pw, salt []byte, iter, keyLen int) []byte {
	prf := hmac.New(h, pw)
	hl := prf.Size()
	var out []byte
	for blockN := 1; len(out) < keyLen; blockN++ {
		prf.Reset()
		prf.Write(salt)
		var ib [4]byte
		binary.BigEndian.PutUint32(ib[:], uint32(blockN))
		prf.Write(ib[:])
		u := prf.Sum(nil)
		t := append([]byte{}, u...)
		for i := 1; i < iter; i++ {
			prf.Reset()
			prf.Write(u)
			u = prf.Sum(nil)
			for k := 0; k < hl; k++ {
				t[k] ^= u[k]
			}
		}
		out = append(out, t...)
	}
	return out[:keyLen]
}

// ErrParams reports malformed string-to-key parameters.
var ErrParams = errors.New("malformed string-to-key parameters")

// StringToKey derives the key for a password. params is the raw s2kparams
// octet string (nil = default). The password and salt are used as the byte
// strings given (UTF-8), except for rc4 which converts the password from
// UTF-8 to UTF-16LE as RFC 4757 section 2 prescribes.
func StringToKey(et int32, password, salt string, params []byte) ([]byte, error) {
	p, ok := profiles[et]
	if !ok {
		return nil, fmt.Errorf("unsupported etype %d", et)
	}
	iterOf := func(def uint32) (int, error) {
		if params == nil {
			return int(def), nil
		}
		if len(params) != 4 {
			return 0, ErrParams
		}
		return int(binary.BigEndian.Uint32(params)), nil
	}
	switch et {
	case DES3:
		if params != nil && len(params) != 0 {
			return nil, ErrParams
		}
		s := append([]byte(password), salt...)
		tkey := DES3RandomToKey(NFold(s, 21))
		return DK(DES3, tkey, []byte("kerberos"))
	case AES128, AES256:
		it, err := iterOf(4096)
		if err != nil {
			return nil, err
		}
		if it == 0 {
			return nil, errors.New("iteration count 2^32 not supported by the reference")
		}
		tkey := PBKDF2(sha1.New, []byte(password), []byte(salt), it, p.KeyLen)
		return DK(et, tkey, []byte("kerberos"))
	case A128S2, A256S2:
		it, err := iterOf(32768)
		if err != nil {
			return nil, err
		}
		if it == 0 {
			return nil, errors.New("iteration count 0 is invalid")
		}
		saltp := append(append([]byte(p.Name), 0), salt...)
		tkey := PBKDF2(hashFor(et), []byte(password), saltp, it, p.KeyLen)
		return KDFHMACSHA2(et, tkey, []byte("kerberos"), p.KeyLen*8), nil
	case RC4:
		u := utf16.Encode([]rune(password))
		b := make([]byte, 2*len(u))
		for i, c := range u {
			binary.LittleEndian.PutUint16(b[2*i:], c)
		}
		h := md4.New()
		h.Write(b)
		return h.Sum(nil), nil
	}
	return nil, fmt.Errorf("unsupported etype %d", et)
}

// RandomToKey is the etype's random-to-key.
func RandomToKey(et int32, seed []byte) []byte {
	if et == DES3 {
		return DES3RandomToKey(seed)
	}
	return append([]byte{}, seed...)
}
