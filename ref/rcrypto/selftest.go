package rcrypto

import (
	"bytes"
	"crypto/sha1"
	"encoding/hex"
	"fmt"
)

func hx(s string) []byte {
	b, err := hex.DecodeString(s)
	if err != nil {
		panic(err)
	}
	return b
}

// SelfTest validates the reference against the vectors published in RFC 3961
// (A.1 n-fold, A.3 DES3 DR/DK, A.4 DES3 string-to-key), RFC 3962 appendix B,
// RFC 8009 appendix A and the well-known RC4 string-to-key value. It returns
// the number of vectors checked.
func SelfTest() (int, error) {
	n := 0
	fail := func(what string, got, want []byte) error {
		return fmt.Errorf("reference self-test failed: %s: got %x want %x", what, got, want)
	}
	// RFC 3961 A.1
	for _, v := range []struct {
		bits int
		in   string
		out  string
	}{
		{64, "012345", "be072631276b1955"},
		{56, "password", "78a07b6caf85fa"},
		{64, "Rough Consensus, and Running Code", "bb6ed30870b7f0e0"},
		{168, "password", "59e4a8ca7c0385c3c37b3f6d2000247cb6e6bd5b3e"},
		{192, "MASSACHVSETTS INSTITVTE OF TECHNOLOGY", "db3b0d8f0b061e603282b308a50841229ad798fab9540c1b"},
		{168, "Q", "518a54a215a8452a518a54a215a8452a518a54a215"},
		{168, "ba", "fb25d531ae8974499f52fd92ea9857c4ba24cf297e"},
		{64, "kerberos", "6b65726265726f73"},
		{128, "kerberos", "6b65726265726f737b9b5b2b93132b93"},
		{168, "kerberos", "8372c236344e5f1550cd0747e15d62ca7a5a3bcea4"},
		{256, "kerberos", "6b65726265726f737b9b5b2b93132b935c9bdcdad95c9899c4cae4dee6d6cae4"},
	} {
		got := NFold([]byte(v.in), v.bits/8)
		if !bytes.Equal(got, hx(v.out)) {
			return n, fail(fmt.Sprintf("%d-fold(%q)", v.bits, v.in), got, hx(v.out))
		}
		n++
	}
	// RFC 3961 A.3
	for _, v := range [][4]string{
		{"dce06b1f64c857a11c3db57c51899b2cc1791008ce973b92", "0000000155", "935079d14490a75c3093c4a6e8c3b049c71e6ee705", "925179d04591a79b5d3192c4a7e9c289b049c71f6ee604cd"},
		{"5e13d31c70ef765746578531cb51c15bf11ca82c97cee9f2", "00000001aa", "9f58e5a047d894101c469845d67ae3c5249ed812f2", "9e58e5a146d9942a101c469845d67a20e3c4259ed913f207"},
		{"98e6fd8a04a4b6859b75a176540b9752bad3ecd610a252bc", "0000000155", "12fff90c773f956d13fc2ca0d0840349dbd39908eb", "13fef80d763e94ec6d13fd2ca1d085070249dad39808eabf"},
		{"622aec25a2fe2cad7094680b7c64940280084c1a7cec92b5", "00000001aa", "f8debf05b097e7dc0603686aca35d91fd9a5516a70", "f8dfbf04b097e6d9dc0702686bcb3489d91fd9a4516b703e"},
		{"d3f8298ccb166438dcb9b93ee5a7629286a491f838f802fb", "6b65726265726f73", "2270db565d2a3d64cfbfdc5305d4f778a6de42d9da", "2370da575d2a3da864cebfdc5204d56df779a7df43d9da43"},
		{"c1081649ada74362e6a1459d01dfd30d67c2234c940704da", "0000000155", "348056ec98fcc517171d2b4d7a9493af482d999175", "348057ec98fdc48016161c2a4c7a943e92ae492c989175f7"},
		{"5d154af238f46713155719d55e2f1f790dd661f279a7917c", "00000001aa", "a8818bc367dadacbe9a6c84627fb60c294b01215e5", "a8808ac267dada3dcbe9a7c84626fbc761c294b01315e5c1"},
		{"798562e049852f57dc8c343ba17f2ca1d97394efc8adc443", "0000000155", "c813f88b3be2b2f75424ce9175fbc8483b88c8713a", "c813f88a3be3b334f75425ce9175fbe3c8493b89c8703b49"},
		{"26dce334b545292f2feab9a8701a89a4b99eb9942cecd016", "00000001aa", "f58efc6f83f93e55e695fd252cf8fe59f7d5ba37ec", "f48ffd6e83f83e7354e694fd252cf83bfe58f7d5ba37ec5d"},
	} {
		dr, err := DR(DES3, hx(v[0]), hx(v[1]))
		if err != nil || !bytes.Equal(dr, hx(v[2])) {
			return n, fail("DES3 DR "+v[0], dr, hx(v[2]))
		}
		dk, _ := DK(DES3, hx(v[0]), hx(v[1]))
		if !bytes.Equal(dk, hx(v[3])) {
			return n, fail("DES3 DK "+v[0], dk, hx(v[3]))
		}
		n += 2
	}
	// RFC 3961 A.4
	for _, v := range [][3]string{
		{"ATHENA.MIT.EDUraeburn", "password", "850bb51358548cd05e86768c313e3bfef7511937dcf72c3e"},
		{"WHITEHOUSE.GOVdanny", "potatoe", "dfcd233dd0a43204ea6dc437fb15e061b02979c1f74f377a"},
		{"EXAMPLE.COMbuckaroo", "penny", "6d2fcdf2d6fbbc3ddcadb5da5710a23489b0d3b69d5d9d4a"},
		{"ATHENA.MIT.EDUJurišić", "ß", "16d5a40e1ce3bacb61b9dce00470324c831973a7b952feb0"},
		{"EXAMPLE.COMpianist", "\U0001D11E", "85763726585dbc1cce6ec43e1f751f07f1c4cbb098f40b19"},
	} {
		k, err := StringToKey(DES3, v[1], v[0], nil)
		if err != nil || !bytes.Equal(k, hx(v[2])) {
			return n, fail("DES3 s2k "+v[0], k, hx(v[2]))
		}
		n++
	}
	// RFC 3962 B
	s8 := string(hx("1234567878563412"))
	gclef := string(hx("f09d849e"))
	x64 := "XXXXXXXXXXXXXXXXXXXXXXXXXXXXXXXXXXXXXXXXXXXXXXXXXXXXXXXXXXXXXXXX"
	for _, v := range []struct {
		iter               uint32
		pw, salt           string
		pb128, k128, pb256 string
		k256               string
	}{
		{1, "password", "ATHENA.MIT.EDUraeburn", "cdedb5281bb2f801565a1122b2563515", "42263c6e89f4fc28b8df68ee09799f15", "cdedb5281bb2f801565a1122b25635150ad1f7a04bb9f3a333ecc0e2e1f70837", "fe697b52bc0d3ce14432ba036a92e65bbb52280990a2fa27883998d72af30161"},
		{2, "password", "ATHENA.MIT.EDUraeburn", "01dbee7f4a9e243e988b62c73cda935d", "c651bf29e2300ac27fa469d693bdda13", "01dbee7f4a9e243e988b62c73cda935da05378b93244ec8f48a99e61ad799d86", "a2e16d16b36069c135d5e9d2e25f896102685618b95914b467c67622225824ff"},
		{1200, "password", "ATHENA.MIT.EDUraeburn", "5c08eb61fdf71e4e4ec3cf6ba1f5512b", "4c01cd46d632d01e6dbe230a01ed642a", "5c08eb61fdf71e4e4ec3cf6ba1f5512ba7e52ddbc5e5142f708a31e2e62b1e13", "55a6ac740ad17b4846941051e1e8b0a7548d93b0ab30a8bc3ff16280382b8c2a"},
		{5, "password", s8, "d1daa78615f287e6a1c8b120d7062a49", "e9b23d52273747dd5c35cb55be619d8e", "d1daa78615f287e6a1c8b120d7062a493f98d203e6be49a6adf4fa574b6e64ee", "97a4e786be20d81a382d5ebc96d5909cabcdadc87ca48f574504159f16c36e31"},
		{1200, x64, "pass phrase equals block size", "139c30c0966bc32ba55fdbf212530ac9", "59d1bb789a828b1aa54ef9c2883f69ed", "139c30c0966bc32ba55fdbf212530ac9c5ec59f1a452f5cc9ad940fea0598ed1", "89adee3608db8bc71f1bfbfe459486b05618b70cbae22092534e56c553ba4b34"},
		{1200, x64 + "X", "pass phrase exceeds block size", "9ccad6d468770cd51b10e6a68721be61", "cb8005dc5f90179a7f02104c0018751d", "9ccad6d468770cd51b10e6a68721be611a8b4d282601db3b36be9246915ec82a", "d78c5c9cb872a8c9dad4697f0bb5b2d21496c82beb2caeda2112fceea057401b"},
		{50, gclef, "EXAMPLE.COMpianist", "6b9cf26d45455a43a5b8bb276a403b39", "f149c1f2e154a73452d43e7fe62a56e5", "6b9cf26d45455a43a5b8bb276a403b39e7fe37a0c41e02c281ff3069e1e94f52", "4b6d9839f84406df1f09cc166db4b83c571848b784a3d6bdc346589a3e393f9e"},
	} {
		par := []byte{byte(v.iter >> 24), byte(v.iter >> 16), byte(v.iter >> 8), byte(v.iter)}
		if got := PBKDF2(sha1.New, []byte(v.pw), []byte(v.salt), int(v.iter), 16); !bytes.Equal(got, hx(v.pb128)) {
			return n, fail("PBKDF2-128", got, hx(v.pb128))
		}
		if got := PBKDF2(sha1.New, []byte(v.pw), []byte(v.salt), int(v.iter), 32); !bytes.Equal(got, hx(v.pb256)) {
			return n, fail("PBKDF2-256", got, hx(v.pb256))
		}
		if got, _ := StringToKey(AES128, v.pw, v.salt, par); !bytes.Equal(got, hx(v.k128)) {
			return n, fail("aes128 s2k", got, hx(v.k128))
		}
		if got, _ := StringToKey(AES256, v.pw, v.salt, par); !bytes.Equal(got, hx(v.k256)) {
			return n, fail("aes256 s2k", got, hx(v.k256))
		}
		n += 4
	}
	// RFC 3962 B: CBC-CTS vectors (key "chicken teriyaki", zero IV)
	ctsKey := hx("636869636b656e207465726979616b69")
	ctsPT := hx("4920776f756c64206c696b65207468652047656e6572616c20476175277320436869636b656e2c20706c656173652c20616e6420776f6e746f6e20736f75702e")
	for _, v := range []struct {
		n  int
		ct string
	}{
		{17, "c6353568f2bf8cb4d8a580362da7ff7f97"},
		{31, "fc00783e0efdb2c1d445d4c8eff7ed2297687268d6ecccc0c07b25e25ecfe5"},
		{32, "39312523a78662d5be7fcbcc98ebf5a897687268d6ecccc0c07b25e25ecfe584"},
		{47, "97687268d6ecccc0c07b25e25ecfe584b3fffd940c16a18c1b5549d2f838029e39312523a78662d5be7fcbcc98ebf5"},
		{48, "97687268d6ecccc0c07b25e25ecfe5849dad8bbb96c4cdc03bc103e1a194bbd839312523a78662d5be7fcbcc98ebf5a8"},
		{64, "97687268d6ecccc0c07b25e25ecfe58439312523a78662d5be7fcbcc98ebf5a84807efe836ee89a526730dbc2f7bc8409dad8bbb96c4cdc03bc103e1a194bbd8"},
	} {
		blk, _ := blockFor(AES128, ctsKey)
		got, err := ctsEncrypt(blk, ctsPT[:v.n])
		if err != nil || !bytes.Equal(got, hx(v.ct)) {
			return n, fail(fmt.Sprintf("CTS encrypt %d", v.n), got, hx(v.ct))
		}
		back, err := ctsDecrypt(blk, got)
		if err != nil || !bytes.Equal(back, ctsPT[:v.n]) {
			return n, fail(fmt.Sprintf("CTS decrypt %d", v.n), back, ctsPT[:v.n])
		}
		n += 2
	}
	// RFC 8009 A
	salt8009 := string(hx("10DF9DD783E5BC8ACEA1730E74355F61")) + "ATHENA.MIT.EDUraeburn"
	if got, _ := StringToKey(A128S2, "password", salt8009, []byte{0, 0, 0x80, 0}); !bytes.Equal(got, hx("089bca48b105ea6ea77ca5d2f39dc5e7")) {
		return n, fail("rfc8009 s2k 128", got, hx("089bca48b105ea6ea77ca5d2f39dc5e7"))
	}
	if got, _ := StringToKey(A256S2, "password", salt8009, []byte{0, 0, 0x80, 0}); !bytes.Equal(got, hx("45bd806dbf6a833a9cffc1c94589a222367a79bc21c413718906e9f578a78467")) {
		return n, fail("rfc8009 s2k 256", got, hx("45bd806dbf6a833a9cffc1c94589a222367a79bc21c413718906e9f578a78467"))
	}
	n += 2
	b128 := hx("3705d96080c17728a0e800eab6e0d23c")
	b256 := hx("6d404d37faf79f9df0d33568d320669800eb4836472ea8a026d16b7182460c52")
	for _, v := range []struct {
		et   int32
		key  []byte
		tag  byte
		want string
	}{
		{A128S2, b128, 0x99, "b31a018a48f54776f403e9a396325dc3"},
		{A128S2, b128, 0xAA, "9b197dd1e8c5609d6e67c3e37c62c72e"},
		{A128S2, b128, 0x55, "9fda0e56ab2d85e1569a688696c26a6c"},
		{A256S2, b256, 0x99, "ef5718be86cc84963d8bbb5031e9f5c4ba41f28faf69e73d"},
		{A256S2, b256, 0xAA, "56ab22bee63d82d7bc5227f6773f8ea7a5eb1c825160c38312980c442e5c7e49"},
		{A256S2, b256, 0x55, "69b16514e3cd8e56b82010d5c73012b622c4d00ffc23ed1f"},
	} {
		got, _ := DeriveKey(v.et, v.key, usageConst(2, v.tag))
		if !bytes.Equal(got, hx(v.want)) {
			return n, fail("rfc8009 derive", got, hx(v.want))
		}
		n++
	}
	pt21 := hx("000102030405060708090a0b0c0d0e0f1011121314")
	if got, _ := Checksum(A128S2, b128, 2, pt21); !bytes.Equal(got, hx("d78367186643d67b411cba9139fc1dee")) {
		return n, fail("rfc8009 cksum 128", got, nil)
	}
	if got, _ := Checksum(A256S2, b256, 2, pt21); !bytes.Equal(got, hx("45ee791567eefca37f4ac1e0222de80d43c3bfa06699672a")) {
		return n, fail("rfc8009 cksum 256", got, nil)
	}
	n += 2
	for _, v := range []struct {
		et           int32
		key          []byte
		pt, conf, ct string
	}{
		{A128S2, b128, "", "7e5895eaf2672435bad817f545a37148", "ef85fb890bb8472f4dab20394dca781dad877eda39d50c870c0d5a0a8e48c718"},
		{A128S2, b128, "000102030405", "7bca285e2fd4130fb55b1a5c83bc5b24", "84d7f30754ed987bab0bf3506beb09cfb55402cef7e6877ce99e247e52d16ed4421dfdf8976c"},
		{A128S2, b128, "000102030405060708090a0b0c0d0e0f", "56ab21713ff62c0a1457200f6fa9948f", "3517d640f50ddc8ad3628722b3569d2ae07493fa8263254080ea65c1008e8fc295fb4852e7d83e1e7c48c37eebe6b0d3"},
		{A256S2, b256, "", "f764e9fa15c276478b2c7d0c4e5f58e4", "41f53fa5bfe7026d91faf9be959195a058707273a96a40f0a01960621ac612748b9bbfbe7eb4ce3c"},
		{A256S2, b256, "000102030405060708090a0b0c0d0e0f", "53bf8a0d105265d4e276428624ce5e63", "bc47ffec7998eb91e8115cf8d19dac4bbbe2e163e87dd37f49beca92027764f68cf51f14d798c2273f35df574d1f932e40c4ff255b36a266"},
	} {
		got, err := EncryptWithConfounder(v.et, v.key, 2, hx(v.conf), hx(v.pt))
		if err != nil || !bytes.Equal(got, hx(v.ct)) {
			return n, fail("rfc8009 encrypt "+v.pt, got, hx(v.ct))
		}
		c, p, err := Decrypt(v.et, v.key, 2, got)
		if err != nil || !bytes.Equal(c, hx(v.conf)) || !bytes.Equal(p, hx(v.pt)) {
			return n, fail("rfc8009 decrypt "+v.pt, p, hx(v.pt))
		}
		n += 2
	}
	// RC4: NT hash of "foo"
	if got, _ := StringToKey(RC4, "foo", "", nil); !bytes.Equal(got, hx("ac8e657f83df82beea5d43bdaf7800cc")) {
		return n, fail("rc4 s2k foo", got, hx("ac8e657f83df82beea5d43bdaf7800cc"))
	}
	n++
	// round trips for all etypes and lengths 0..40
	for _, et := range Etypes {
		p := profiles[et]
		key := make([]byte, p.KeyLen)
		for i := range key {
			key[i] = byte(i*7 + 3)
		}
		if et == DES3 {
			key = DES3RandomToKey(key[:21])
		}
		for l := 0; l <= 40; l++ {
			pt := make([]byte, l)
			for i := range pt {
				pt[i] = byte(i)
			}
			conf := make([]byte, p.Conf)
			ct, err := EncryptWithConfounder(et, key, 11, conf, pt)
			if err != nil {
				return n, err
			}
			_, back, err := Decrypt(et, key, 11, ct)
			if err != nil || !bytes.Equal(back[:l], pt) {
				return n, fail(fmt.Sprintf("round trip etype %d len %d", et, l), back, pt)
			}
			n++
		}
	}
	return n, nil
}
