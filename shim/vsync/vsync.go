// Package vsync replaces "sync" inside the instrumented gokrb5 sources. With
// no active scheduler every type behaves exactly like its sync counterpart
// (it delegates to it); under vsched each blocking operation is a scheduling
// point. RWMutex models Go's writer preference: a writer that has called Lock
// blocks new readers until it has acquired and released the lock.
package vsync

import (
	"sync"
	"sync/atomic"
	"time"

	"github.com/jcmturner/gokrb5/v8/zzverif/vsched"
)

type (
	Map    = sync.Map
	Locker = sync.Locker
)

// Free-running delay injection (used by the -race passes): the delayAt-th lock release (Unlock / RUnlock) since
// ArmDelay pauses the releasing goroutine for DelayFor, so that whatever it does next without holding the lock
// happens after the other goroutines have moved on. The race pass walks the position over all releases of a scenario,
// one pause per run: the window right behind every critical section is visited systematically instead of by luck.
var (
	delayAt  int64 = -1
	releases int64
	DelayFor = 2 * time.Millisecond
)

// ArmDelay resets the release counter and sets the position to pause at (-1: count only).
func ArmDelay(k int64) { atomic.StoreInt64(&releases, 0); atomic.StoreInt64(&delayAt, k) }

// Releases returns the number of free-running lock releases since ArmDelay.
func Releases() int64 { return atomic.LoadInt64(&releases) }

func afterRelease() {
	n := atomic.AddInt64(&releases, 1) - 1
	if k := atomic.LoadInt64(&delayAt); k >= 0 && n == k {
		time.Sleep(DelayFor)
	}
}

// Pool is a scheduler-aware sync.Pool: under the scheduler Get and Put are scheduling points and the pool is a
// deterministic LIFO (an object put back is the next one handed out, which is what makes a use-after-Put visible);
// free-running it is the real sync.Pool.
type Pool struct {
	New   func() interface{}
	real  sync.Pool
	items []interface{}
}

func (p *Pool) Get() interface{} {
	if vsched.S != nil && vsched.Active() {
		vsched.Yield("pool-get")
		if n := len(p.items); n > 0 {
			x := p.items[n-1]
			p.items = p.items[:n-1]
			return x
		}
		if p.New != nil {
			return p.New()
		}
		return nil
	}
	if x := p.real.Get(); x != nil {
		return x
	}
	if p.New != nil {
		return p.New()
	}
	return nil
}

func (p *Pool) Put(x interface{}) {
	if vsched.S != nil && vsched.Active() {
		vsched.Yield("pool-put")
		p.items = append(p.items, x)
		return
	}
	p.real.Put(x)
}

// Mutex is a scheduler-aware sync.Mutex.
type Mutex struct {
	real   sync.Mutex
	locked bool
}

func (m *Mutex) Lock() {
	if s := vsched.S; s != nil {
		if !vsched.Active() {
			return
		}
		vsched.Point("mutex-lock", func() bool { return !m.locked })
		m.locked = true
		return
	}
	m.real.Lock()
}

func (m *Mutex) Unlock() {
	if s := vsched.S; s != nil {
		if !vsched.Active() {
			return
		}
		if !m.locked {
			panic("vsync: unlock of unlocked mutex")
		}
		m.locked = false
		return
	}
	m.real.Unlock()
	afterRelease()
}

// RWMutex is a scheduler-aware sync.RWMutex with writer preference.
type RWMutex struct {
	real    sync.RWMutex
	readers int
	writer  bool
	pending int // writers that have announced themselves and are waiting
}

func (m *RWMutex) Lock() {
	if s := vsched.S; s != nil {
		if !vsched.Active() {
			return
		}
		vsched.Yield("rw-lock-announce")
		m.pending++
		vsched.Point("rw-lock", func() bool { return !m.writer && m.readers == 0 })
		m.pending--
		m.writer = true
		return
	}
	m.real.Lock()
}

func (m *RWMutex) Unlock() {
	if s := vsched.S; s != nil {
		if !vsched.Active() {
			return
		}
		if !m.writer {
			panic("vsync: Unlock of unlocked RWMutex")
		}
		m.writer = false
		return
	}
	m.real.Unlock()
	afterRelease()
}

func (m *RWMutex) RLock() {
	if s := vsched.S; s != nil {
		if !vsched.Active() {
			return
		}
		vsched.Point("rw-rlock", func() bool { return !m.writer && m.pending == 0 })
		m.readers++
		return
	}
	m.real.RLock()
}

func (m *RWMutex) RUnlock() {
	if s := vsched.S; s != nil {
		if !vsched.Active() {
			return
		}
		if m.readers <= 0 {
			panic("vsync: RUnlock of unlocked RWMutex")
		}
		m.readers--
		return
	}
	m.real.RUnlock()
	afterRelease()
}

// RLocker mirrors sync.RWMutex.RLocker.
func (m *RWMutex) RLocker() sync.Locker { return (*rlocker)(m) }

type rlocker RWMutex

func (r *rlocker) Lock()   { (*RWMutex)(r).RLock() }
func (r *rlocker) Unlock() { (*RWMutex)(r).RUnlock() }

// Once is a scheduler-aware sync.Once.
type Once struct {
	real    sync.Once
	done    bool
	running bool
}

func (o *Once) Do(f func()) {
	if s := vsched.S; s != nil {
		if !vsched.Active() {
			return
		}
		vsched.Point("once", func() bool { return !o.running })
		if o.done {
			return
		}
		o.running = true
		defer func() { o.done, o.running = true, false }()
		f()
		return
	}
	o.real.Do(f)
}

// WaitGroup is a scheduler-aware sync.WaitGroup.
type WaitGroup struct {
	real sync.WaitGroup
	n    int
}

func (w *WaitGroup) Add(d int) {
	if s := vsched.S; s != nil {
		if !vsched.Active() {
			return
		}
		w.n += d
		if w.n < 0 {
			panic("vsync: negative WaitGroup counter")
		}
		return
	}
	w.real.Add(d)
}

func (w *WaitGroup) Done() { w.Add(-1) }

func (w *WaitGroup) Wait() {
	if s := vsched.S; s != nil {
		if !vsched.Active() {
			return
		}
		vsched.Point("wg-wait", func() bool { return w.n == 0 })
		return
	}
	w.real.Wait()
}
