// Package vpbkdf2 stands in for the two PBKDF2 packages gokrb5 imports. By
// default it is the real function. C04 sets Cap: a derivation asked to run more
// than Cap iterations is abstracted (its cost is linear in a 32-bit number the
// peer chooses; it terminates, after up to hours) - the request is counted and
// a deterministic dummy key of the right length is returned at once. Every other
// check leaves Cap at 0 and gets the real derivation.
package vpbkdf2

import (
	"hash"

	gf "github.com/jcmturner/gofork/x/crypto/pbkdf2"
	"golang.org/x/crypto/pbkdf2"
)

// Cap is the largest iteration count actually computed (0: no cap).
var Cap int64

// Abstracted counts derivations that were abstracted; MaxAsked is the largest iteration count seen.
var Abstracted, MaxAsked int64

func over(iter int64, keyLen int64) ([]byte, bool) {
	if iter > MaxAsked {
		MaxAsked = iter
	}
	if Cap > 0 && iter > Cap {
		Abstracted++
		if keyLen < 0 || keyLen > 1<<16 {
			keyLen = 32
		}
		k := make([]byte, keyLen)
		for i := range k {
			k[i] = byte(iter>>uint(8*(i%4))) ^ byte(i)
		}
		return k, true
	}
	return nil, false
}

// Key mirrors golang.org/x/crypto/pbkdf2.Key.
func Key(password, salt []byte, iter, keyLen int, h func() hash.Hash) []byte {
	if k, ok := over(int64(iter), int64(keyLen)); ok {
		return k
	}
	return pbkdf2.Key(password, salt, iter, keyLen, h)
}

// Key64 mirrors github.com/jcmturner/gofork/x/crypto/pbkdf2.Key64.
func Key64(password, salt []byte, iter, keyLen int64, h func() hash.Hash) []byte {
	if k, ok := over(iter, keyLen); ok {
		return k
	}
	return gf.Key64(password, salt, iter, keyLen, h)
}
