// Package vrand replaces math/rand in the instrumented sources. Under the
// scheduler Intn is an enumerated data choice; otherwise a scripted or
// deterministic source is used so that runs are reproducible.
package vrand

import (
	mrand "math/rand"
	"sync"

	"github.com/jcmturner/gokrb5/v8/zzverif/vsched"
)

var (
	mu     sync.Mutex
	script []int // consumed front to back when non-empty
	Calls  int
	src    = mrand.New(mrand.NewSource(1))
	// Exhausted is set when a script ran out (harness treats as engine error).
	Exhausted bool
	useSrc    bool
)

// Script installs the answers for the next Intn calls (each taken modulo n).
func Script(s []int) {
	mu.Lock()
	script = append([]int(nil), s...)
	Exhausted = false
	useSrc = false
	mu.Unlock()
}

// Free makes Intn draw from a seeded PRNG (free-running -race pass).
func Free(seed int64) {
	mu.Lock()
	src = mrand.New(mrand.NewSource(seed))
	useSrc = true
	script = nil
	mu.Unlock()
}

func Intn(n int) int {
	if vsched.Active() {
		return vsched.Choose(n, "rand-intn")
	}
	mu.Lock()
	defer mu.Unlock()
	Calls++
	if len(script) > 0 {
		v := script[0] % n
		script = script[1:]
		return v
	}
	if useSrc {
		return src.Intn(n)
	}
	return 0
}

func Int() int             { return Intn(1 << 30) }
func Int31n(n int32) int32 { return int32(Intn(int(n))) }
func Int63n(n int64) int64 { return int64(Intn(int(n))) }
func Seed(int64)           {}
func Shuffle(n int, swap func(i, j int)) {
	for i := n - 1; i > 0; i-- {
		j := Intn(i + 1)
		swap(i, j)
	}
}
func Perm(n int) []int {
	p := make([]int, n)
	for i := range p {
		p[i] = i
	}
	Shuffle(n, func(i, j int) { p[i], p[j] = p[j], p[i] })
	return p
}
