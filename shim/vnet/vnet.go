// Package vnet replaces "net" in gokrb5's client and spnego packages with
// in-memory endpoints whose behaviour the harness scripts: answer, refuse,
// close early, stay silent (deadline expires in virtual time). A UDP datagram
// is one read; TCP is a byte stream that Read may return in chunks.
package vnet

import (
	"errors"
	"fmt"
	"io"
	"net"
	"strings"
	"sync"
	"time"

	"github.com/jcmturner/gokrb5/v8/zzverif/vclock"
	"github.com/jcmturner/gokrb5/v8/zzverif/vsched"
)

type (
	Addr    = net.Addr
	IP      = net.IP
	IPNet   = net.IPNet
	IPAddr  = net.IPAddr
	Error   = net.Error
	OpError = net.OpError
)

var (
	SplitHostPort = net.SplitHostPort
	JoinHostPort  = net.JoinHostPort
	ParseIP       = net.ParseIP
)

// Conn is what DialTimeout returns.
type Conn interface {
	Read(b []byte) (int, error)
	Write(b []byte) (int, error)
	Close() error
	LocalAddr() net.Addr
	RemoteAddr() net.Addr
	SetDeadline(t time.Time) error
	SetReadDeadline(t time.Time) error
	SetWriteDeadline(t time.Time) error
}

// Behaviour of an endpoint.
type Behaviour int

const (
	Answer     Behaviour = iota // Handler's reply is delivered
	Refuse                      // TCP: dial fails; UDP: first read fails with ECONNREFUSED (ICMP)
	CloseEarly                  // TCP: accepted, then EOF before any reply byte; UDP: like Refuse
	Silent                      // nothing comes back: read deadline expires
	Partial                     // TCP: length prefix + half of the reply, then EOF; UDP: like Silent
)

// Endpoint is one (network, address) pair.
type Endpoint struct {
	Behaviour Behaviour
	// Handler maps a request message (without TCP framing) to a reply message.
	Handler func(network, addr string, req []byte) []byte
	// RawTCP, when set, produces the raw byte stream returned on a TCP
	// connection (including any length prefix) — used by C04 to forge prefixes.
	RawTCP func(req []byte) []byte
	// Chunk > 0 makes TCP reads return at most Chunk bytes.
	Chunk int
}

// Attempt records one connection attempt.
type Attempt struct {
	Network, Addr string
	Outcome       string
}

var (
	mu        sync.Mutex
	endpoints = map[string]*Endpoint{}
	Attempts  []Attempt
	cnames    = map[string]string{}
	// CNAMEErr makes LookupCNAME fail.
	CNAMEErr error
	// MaxDials, when positive, bounds the connections one world may open (reset by Reset): the dial after the last
	// permitted one panics with Runaway, which turns a client that never stops exchanging messages into a finite run.
	MaxDials int
	dials    int
)

// Runaway is the panic value raised when MaxDials is exceeded.
type Runaway struct{ Dials int }

func (r Runaway) String() string {
	return fmt.Sprintf("more than %d connections opened by one operation", r.Dials-1)
}

// Reset clears endpoints, the attempt log and CNAME script.
func Reset() {
	mu.Lock()
	endpoints = map[string]*Endpoint{}
	Attempts = nil
	cnames = map[string]string{}
	CNAMEErr = nil
	MaxDials, dials = 0, 0
	mu.Unlock()
}

// Register installs an endpoint for network ("udp"/"tcp") and addr ("host:port").
func Register(network, addr string, ep *Endpoint) {
	mu.Lock()
	endpoints[network+"|"+addr] = ep
	mu.Unlock()
}

// SetCNAME scripts LookupCNAME.
func SetCNAME(host, cname string) { mu.Lock(); cnames[host] = cname; mu.Unlock() }

// TakeAttempts returns and clears the attempt log.
func TakeAttempts() []Attempt {
	mu.Lock()
	defer mu.Unlock()
	a := Attempts
	Attempts = nil
	return a
}

func logAttempt(network, addr, outcome string) {
	mu.Lock()
	Attempts = append(Attempts, Attempt{network, addr, outcome})
	mu.Unlock()
}

// LookupCNAME mirrors net.LookupCNAME using the script (default: host + ".").
func LookupCNAME(host string) (string, error) {
	mu.Lock()
	defer mu.Unlock()
	if CNAMEErr != nil {
		return "", CNAMEErr
	}
	if c, ok := cnames[strings.TrimSuffix(host, ".")]; ok {
		return c, nil
	}
	// the canonical name is fully qualified: exactly one trailing dot, also when the query already had one
	return strings.TrimSuffix(host, ".") + ".", nil
}

type addr struct{ network, s string }

func (a addr) Network() string { return a.network }
func (a addr) String() string  { return a.s }

type timeoutErr struct{}

func (timeoutErr) Error() string   { return "i/o timeout" }
func (timeoutErr) Timeout() bool   { return true }
func (timeoutErr) Temporary() bool { return true }

var errRefused = errors.New("connection refused")

type base struct {
	network, raddr string
	ep             *Endpoint
	closed         bool
	in             []byte // bytes written by the client
	out            []byte // bytes still to deliver
	produced       bool
	eofAfter       bool
	rdl, wdl       time.Time // deadlines, judged against the virtual clock
}

// NoDeadlineWaits counts reads on a silent endpoint made without a read deadline (a real connection would hang).
var NoDeadlineWaits int

func expired(d time.Time) bool { return !d.IsZero() && !vclock.Now().Before(d) }

// waitOut models blocking on a peer that never answers: virtual time passes until the read deadline.
func (c *base) waitOut() {
	if c.rdl.IsZero() {
		NoDeadlineWaits++
		return
	}
	if vclock.IsVirtual() && vclock.Now().Before(c.rdl) {
		vclock.Set(c.rdl)
	}
}

func (c *base) Close() error                       { c.closed = true; return nil }
func (c *base) LocalAddr() net.Addr                { return addr{c.network, "127.0.0.1:0"} }
func (c *base) RemoteAddr() net.Addr               { return addr{c.network, c.raddr} }
func (c *base) SetDeadline(t time.Time) error      { c.rdl, c.wdl = t, t; return nil }
func (c *base) SetReadDeadline(t time.Time) error  { c.rdl = t; return nil }
func (c *base) SetWriteDeadline(t time.Time) error { c.wdl = t; return nil }

func (c *base) Write(b []byte) (int, error) {
	if c.closed {
		return 0, errors.New("use of closed network connection")
	}
	if expired(c.wdl) {
		logAttempt(c.network, c.raddr, "write-deadline-already-passed")
		return 0, &net.OpError{Op: "write", Net: c.network, Err: timeoutErr{}}
	}
	c.in = append(c.in, b...)
	return len(b), nil
}

// UDPConn mirrors *net.UDPConn for the methods gokrb5 uses.
type UDPConn struct{ base }

// TCPConn mirrors *net.TCPConn for the methods gokrb5 uses.
type TCPConn struct{ base }

func (c *UDPConn) Read(b []byte) (int, error) { n, _, err := c.ReadFrom(b); return n, err }

// ReadFrom delivers the reply datagram.
func (c *UDPConn) ReadFrom(b []byte) (int, net.Addr, error) {
	if vsched.Active() {
		vsched.Yield("net-udp-read")
	}
	if c.closed {
		return 0, nil, errors.New("use of closed network connection")
	}
	if expired(c.rdl) {
		logAttempt(c.network, c.raddr, "read-deadline-already-passed")
		return 0, nil, &net.OpError{Op: "read", Net: "udp", Err: timeoutErr{}}
	}
	switch c.ep.Behaviour {
	case Refuse, CloseEarly:
		logAttempt(c.network, c.raddr, "refused")
		return 0, nil, &net.OpError{Op: "read", Net: "udp", Err: errRefused}
	case Silent, Partial:
		c.waitOut()
		logAttempt(c.network, c.raddr, "timeout")
		return 0, nil, &net.OpError{Op: "read", Net: "udp", Err: timeoutErr{}}
	}
	if c.produced {
		return 0, nil, &net.OpError{Op: "read", Net: "udp", Err: timeoutErr{}}
	}
	c.produced = true
	var rep []byte
	if c.ep.Handler != nil {
		rep = c.ep.Handler("udp", c.raddr, c.in)
	}
	logAttempt(c.network, c.raddr, "answered")
	n := copy(b, rep)
	return n, addr{"udp", c.raddr}, nil
}

func (c *TCPConn) Read(b []byte) (int, error) {
	if vsched.Active() && !c.produced {
		vsched.Yield("net-tcp-read")
	}
	if c.closed {
		return 0, errors.New("use of closed network connection")
	}
	if expired(c.rdl) {
		logAttempt(c.network, c.raddr, "read-deadline-already-passed")
		return 0, &net.OpError{Op: "read", Net: "tcp", Err: timeoutErr{}}
	}
	if !c.produced {
		c.produced = true
		switch c.ep.Behaviour {
		case CloseEarly:
			logAttempt(c.network, c.raddr, "closed-early")
			c.eofAfter = true
		case Silent:
			c.waitOut()
			logAttempt(c.network, c.raddr, "timeout")
			return 0, &net.OpError{Op: "read", Net: "tcp", Err: timeoutErr{}}
		default:
			if c.ep.RawTCP != nil {
				c.out = c.ep.RawTCP(c.in)
			} else {
				req := c.in
				if len(req) >= 4 {
					req = req[4:]
				}
				var rep []byte
				if c.ep.Handler != nil {
					rep = c.ep.Handler("tcp", c.raddr, req)
				}
				hdr := []byte{byte(len(rep) >> 24), byte(len(rep) >> 16), byte(len(rep) >> 8), byte(len(rep))}
				c.out = append(hdr, rep...)
				if c.ep.Behaviour == Partial {
					c.out = c.out[:4+len(rep)/2]
				}
			}
			c.eofAfter = true
			if c.ep.Behaviour == Partial {
				logAttempt(c.network, c.raddr, "partial")
			} else {
				logAttempt(c.network, c.raddr, "answered")
			}
		}
	}
	if c.ep.Behaviour == Silent {
		return 0, &net.OpError{Op: "read", Net: "tcp", Err: timeoutErr{}}
	}
	if len(c.out) == 0 {
		return 0, io.EOF
	}
	n := len(b)
	if c.ep.Chunk > 0 && n > c.ep.Chunk {
		n = c.ep.Chunk
	}
	n = copy(b[:n], c.out)
	c.out = c.out[n:]
	return n, nil
}

// DialTimeout mirrors net.DialTimeout over the registered endpoints.
func DialTimeout(network, address string, d time.Duration) (Conn, error) {
	if vsched.Active() {
		vsched.Yield("net-dial")
	}
	mu.Lock()
	ep := endpoints[network+"|"+address]
	dials++
	over := MaxDials > 0 && dials > MaxDials
	nd := dials
	mu.Unlock()
	if over {
		panic(Runaway{nd})
	}
	if ep == nil {
		logAttempt(network, address, "no-such-host")
		return nil, &net.OpError{Op: "dial", Net: network, Err: fmt.Errorf("lookup %s: no such host", address)}
	}
	switch network {
	case "udp":
		return &UDPConn{base{network: network, raddr: address, ep: ep}}, nil
	case "tcp":
		if ep.Behaviour == Refuse {
			logAttempt(network, address, "refused")
			return nil, &net.OpError{Op: "dial", Net: "tcp", Err: errRefused}
		}
		return &TCPConn{base{network: network, raddr: address, ep: ep}}, nil
	}
	return nil, fmt.Errorf("vnet: unsupported network %q", network)
}

// Dial mirrors net.Dial.
func Dial(network, address string) (Conn, error) { return DialTimeout(network, address, 0) }
