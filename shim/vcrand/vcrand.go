// Package vcrand replaces crypto/rand in the instrumented sources. It passes
// through to the real CSPRNG and, when recording is on, keeps a log of every
// byte string handed out so that a check can tie a ciphertext's confounder to
// the randomness actually drawn.
package vcrand

import (
	crand "crypto/rand"
	"io"
	"math/big"
	"sync"
)

var (
	mu        sync.Mutex
	recording bool
	log       [][]byte
	fixed     io.Reader
)

type reader struct{}

// Reader mirrors crypto/rand.Reader.
var Reader io.Reader = reader{}

func (reader) Read(b []byte) (int, error) { return Read(b) }

// Read mirrors crypto/rand.Read.
func Read(b []byte) (int, error) {
	mu.Lock()
	src := fixed
	mu.Unlock()
	var n int
	var err error
	if src != nil {
		n, err = io.ReadFull(src, b)
	} else {
		n, err = crand.Read(b)
	}
	mu.Lock()
	if recording {
		log = append(log, append([]byte(nil), b[:n]...))
	}
	mu.Unlock()
	return n, err
}

// Int mirrors crypto/rand.Int.
func Int(r io.Reader, max *big.Int) (*big.Int, error) { return crand.Int(r, max) }

// Prime mirrors crypto/rand.Prime.
func Prime(r io.Reader, bits int) (*big.Int, error) { return crand.Prime(r, bits) }

// Record starts (and clears) the log.
func Record() { mu.Lock(); recording, log = true, nil; mu.Unlock() }

// Stop stops recording and returns the log.
func Stop() [][]byte {
	mu.Lock()
	defer mu.Unlock()
	recording = false
	l := log
	log = nil
	return l
}

// Fix makes Read draw from r (nil: the real CSPRNG).
func Fix(r io.Reader) { mu.Lock(); fixed = r; mu.Unlock() }
