// Package vsched is the cooperative scheduler behind the interleaving
// explorer. It is mounted virtually (go build -overlay) inside the gokrb5
// module so that both the rewritten gokrb5 sources and the harness import the
// same instance.
//
// Exactly one registered thread holds the baton. Before every synchronisation
// operation (shim mutex / once / waitgroup, channel operation, virtual sleep,
// virtual network exchange, explicit harness point) the running thread reports
// a *point* together with a predicate telling whether the operation can
// proceed. The scheduler then picks, among all threads whose predicate holds,
// the one named by the replayed choice prefix, or choice 0 (the running thread
// if still enabled, otherwise the lowest id) beyond the prefix.
//
// When no scheduler is active (S == nil) every shim falls through to the real
// primitive, which is what the free-running -race pass uses.
package vsched

import (
	"fmt"
	"math/rand"
	"reflect"
	"runtime"
	"runtime/debug"
	"sync/atomic"
	"time"
)

// Thread is one scheduled goroutine.
type Thread struct {
	ID      int
	Name    string
	Harness bool // created by the harness body (must terminate); others are library goroutines
	gate    chan struct{}
	exited  chan struct{}
	pred    func() bool
	Kind    string // kind of point the thread is parked at ("" when running)
	Done    bool
}

// PointRec is one recorded scheduling decision.
type PointRec struct {
	N              int    // number of alternatives (enabled threads, or data alternatives)
	Choice         int    // alternative taken
	Data           bool   // data choice (vrand, select among several ready cases): costs no preemption
	RunningEnabled bool   // the thread that reported the point could itself have continued
	Thread         int    // id of the thread that runs next
	Kind           string // what that thread is about to do
}

// Sched is one controlled execution.
type Sched struct {
	Threads   []*Thread
	cur       *Thread
	prefix    []int
	Trace     []PointRec
	finished  chan struct{}
	finOnce   bool
	aborted   bool
	MaxPoints int
	Horizon   bool   // MaxPoints reached with threads still enabled
	Diverged  string // replay divergence (engine error)
	Panic     string // first panic raised by a thread, with stack
	Log       []string
}

var freeRunning int64
var skipFreeWait bool

// S is the active execution (nil: shims fall through to real primitives).
var S *Sched

// Active reports whether a controlled execution is in progress and not being torn down.
func Active() bool { return S != nil && !S.aborted }

// Run executes body as thread 0 under the scheduler, replaying prefix and
// taking choice 0 afterwards, until no thread is enabled (or maxPoints).
func Run(prefix []int, maxPoints int, body func()) *Sched {
	if S != nil {
		panic("vsched: nested Run")
	}
	// A goroutine spawned while no execution was active (e.g. the clean-up goroutine of a cache built by a
	// sequential phase; it ends at its first virtual sleep) must not reach a shim while this execution is active:
	// it would report its point under the identity of the running thread. Wait for such goroutines to end.
	if !skipFreeWait {
		deadline := time.Now().Add(2 * time.Second)
		for atomic.LoadInt64(&freeRunning) > 0 {
			if time.Now().After(deadline) {
				skipFreeWait = true // long-lived free goroutines exist in this process: waiting is pointless
				break
			}
			runtime.Gosched()
			time.Sleep(20 * time.Microsecond)
		}
	}
	s := &Sched{prefix: prefix, finished: make(chan struct{}), MaxPoints: maxPoints}
	S = s
	t0 := s.newThread("main", true)
	s.cur = t0
	s.start(t0, body)
	t0.gate <- struct{}{}
	<-s.finished
	s.aborted = true
	for i := 0; i < len(s.Threads); i++ { // Threads may not grow any more: all goroutines are parked or dead
		t := s.Threads[i]
		select {
		case <-t.exited:
		default:
			t.gate <- struct{}{}
			<-t.exited
		}
	}
	S = nil
	return s
}

func (s *Sched) newThread(name string, harness bool) *Thread {
	t := &Thread{ID: len(s.Threads), Name: name, Harness: harness, gate: make(chan struct{}, 1), exited: make(chan struct{}),
		pred: func() bool { return true }, Kind: "start"}
	s.Threads = append(s.Threads, t)
	return t
}

func (s *Sched) start(t *Thread, f func()) {
	go func() {
		defer close(t.exited)
		defer func() {
			if r := recover(); r != nil {
				if s.aborted {
					return
				}
				if s.Panic == "" {
					s.Panic = fmt.Sprintf("thread %d (%s): %v\n%s", t.ID, t.Name, r, debug.Stack())
				}
				t.Done = true
				s.finish()
			}
		}()
		<-t.gate
		if s.aborted {
			return
		}
		t.pred, t.Kind = nil, ""
		f()
		t.Done = true
		s.dispatch(t)
	}()
}

func (s *Sched) finish() {
	if !s.finOnce {
		s.finOnce = true
		close(s.finished)
	}
}

// dispatch is called by the thread that holds the baton, at a point (from.pred
// set) or at its exit (from.Done).
func (s *Sched) dispatch(from *Thread) {
	var en []*Thread
	runningEnabled := false
	if !from.Done && from.pred() {
		en = append(en, from)
		runningEnabled = true
	}
	for _, t := range s.Threads {
		if t != from && !t.Done && t.pred != nil && t.pred() {
			en = append(en, t)
		}
	}
	if len(en) == 0 || len(s.Trace) >= s.MaxPoints || s.Diverged != "" {
		if len(en) > 0 && s.Diverged == "" {
			s.Horizon = true
		}
		s.finish()
		s.park(from)
		return
	}
	idx := 0
	if len(s.Trace) < len(s.prefix) {
		idx = s.prefix[len(s.Trace)]
		if idx < 0 || idx >= len(en) {
			s.Diverged = fmt.Sprintf("replay divergence at point %d: choice %d of %d enabled", len(s.Trace), idx, len(en))
			s.finish()
			s.park(from)
			return
		}
	}
	next := en[idx]
	s.Trace = append(s.Trace, PointRec{N: len(en), Choice: idx, RunningEnabled: runningEnabled, Thread: next.ID, Kind: next.Kind})
	s.cur = next
	if next == from {
		from.pred, from.Kind = nil, ""
		return
	}
	next.gate <- struct{}{}
	s.park(from)
}

func (s *Sched) park(t *Thread) {
	if t.Done {
		return
	}
	<-t.gate
	if s.aborted {
		runtime.Goexit()
	}
	t.pred, t.Kind = nil, ""
}

// Point reports a scheduling point of the running thread. pred tells whether
// the operation that follows can proceed.
func Point(kind string, pred func() bool) {
	s := S
	if s == nil {
		return
	}
	if s.aborted {
		runtime.Goexit()
	}
	t := s.cur
	t.pred, t.Kind = pred, kind
	s.dispatch(t)
}

var always = func() bool { return true }

// Yield is an unconditional scheduling point.
func Yield(kind string) { Point(kind, always) }

// Choose is a data choice among n alternatives (no preemption cost).
func Choose(n int, kind string) int {
	s := S
	if s == nil || n <= 1 {
		return 0
	}
	if s.aborted {
		runtime.Goexit()
	}
	idx := 0
	if len(s.Trace) < len(s.prefix) {
		idx = s.prefix[len(s.Trace)]
		if idx < 0 || idx >= n {
			s.Diverged = fmt.Sprintf("replay divergence at data point %d: choice %d of %d", len(s.Trace), idx, n)
			idx = 0
		}
	}
	s.Trace = append(s.Trace, PointRec{N: n, Choice: idx, Data: true, Thread: s.cur.ID, Kind: kind})
	return idx
}

// Go starts f as a new scheduled thread (or a plain goroutine when inactive).
func Go(f func()) { GoNamed("", false, f) }

// GoNamed is Go with a name; harness marks threads that must terminate.
func GoNamed(name string, harness bool, f func()) *Thread {
	s := S
	if s == nil {
		// free-running goroutine; counted until it ends, so that a later controlled execution can wait for
		// goroutines that were spawned just before it and have not yet run to their end (see Run)
		atomic.AddInt64(&freeRunning, 1)
		go func() {
			defer atomic.AddInt64(&freeRunning, -1)
			f()
		}()
		return nil
	}
	if s.aborted {
		runtime.Goexit()
	}
	t := s.newThread(name, harness)
	s.start(t, f)
	return t
}

// CurrentID returns the id of the running thread (-1 when inactive).
func CurrentID() int {
	if s := S; s != nil && s.cur != nil {
		return s.cur.ID
	}
	return -1
}

// Logf appends to the execution's observation log (used for the determinism gate).
func Logf(format string, a ...interface{}) {
	if s := S; s != nil && !s.aborted {
		s.Log = append(s.Log, fmt.Sprintf(format, a...))
	}
}

// Blocked lists threads that are not done when the execution ended, with the
// kind of point they are parked at.
func (s *Sched) Blocked() []string {
	var out []string
	for _, t := range s.Threads {
		if !t.Done {
			out = append(out, fmt.Sprintf("%d:%s@%s", t.ID, t.Name, t.Kind))
		}
	}
	return out
}

// Choices returns the choice sequence of the execution.
func (s *Sched) Choices() []int {
	c := make([]int, len(s.Trace))
	for i, p := range s.Trace {
		c[i] = p.Choice
	}
	return c
}

// ---- channel operations -------------------------------------------------

// SelCase is one case of a rewritten select.
type SelCase struct {
	ch   reflect.Value
	send bool
}

// R is a receive case.
func R(ch interface{}) SelCase { return SelCase{reflect.ValueOf(ch), false} }

// Snd is a send case (S is taken by the active-scheduler variable).
func Snd(ch interface{}) SelCase { return SelCase{reflect.ValueOf(ch), true} }

func (c SelCase) ready() bool {
	if !c.ch.IsValid() || c.ch.IsNil() {
		return false
	}
	if c.send {
		return c.ch.Len() < c.ch.Cap()
	}
	return c.ch.Len() > 0
}

// BeforeSend is placed before `ch <- v`.
func BeforeSend(ch interface{}) {
	if S == nil {
		return
	}
	c := Snd(ch)
	Point("chan-send", c.ready)
}

// BeforeRecv is placed before `<-ch`.
func BeforeRecv(ch interface{}) {
	if S == nil {
		return
	}
	c := R(ch)
	Point("chan-recv", c.ready)
}

// Select waits until a case is ready and returns its index without
// performing the operation (the rewritten clause performs it).
func Select(cases ...SelCase) int {
	ready := func() []int {
		var r []int
		for i, c := range cases {
			if c.ready() {
				r = append(r, i)
			}
		}
		return r
	}
	if S == nil {
		// free-running: like Go's select, choose uniformly among the ready cases (always taking the first
		// would starve a cancel channel behind an always-ready timer)
		for {
			if r := ready(); len(r) > 0 {
				return r[rand.Intn(len(r))]
			}
			time.Sleep(50 * time.Microsecond)
		}
	}
	Point("select", func() bool { return len(ready()) > 0 })
	r := ready()
	if len(r) == 1 {
		return r[0]
	}
	return r[Choose(len(r), "select-case")]
}

// Quiesce blocks the calling thread until no other thread is enabled, i.e.
// until every library goroutine has run as far as it can (parked on a timer,
// a sleep or a channel). Used by sequential harnesses that want background
// work (e.g. TGT auto-renewal) finished before the next event.
func Quiesce() {
	s := S
	if s == nil || s.aborted {
		return
	}
	me := s.cur
	Point("quiesce", func() bool {
		for _, t := range s.Threads {
			if t != me && !t.Done && t.pred != nil && t.Kind != "quiesce" && t.pred() {
				return false
			}
		}
		return true
	})
}
