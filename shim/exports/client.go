package client

import (
	"sort"
	"time"

	"github.com/jcmturner/gokrb5/v8/types"
)

// VerifMinimal: false in this (full) variant of the exports; see shim/exports-min.
const VerifMinimal = false

// VerifSession is a session as the oracles see it.
type VerifSession struct {
	Realm      string
	AuthTime   time.Time
	EndTime    time.Time
	RenewTill  time.Time
	SessionKey types.EncryptionKey
	TGTRealm   string
	HasCancel  bool
}

// VerifSessions dumps the TGT sessions in canonical order.
func (cl *Client) VerifSessions() []VerifSession {
	cl.sessions.mux.RLock()
	defer cl.sessions.mux.RUnlock()
	var out []VerifSession
	for _, s := range cl.sessions.Entries {
		s.mux.RLock()
		out = append(out, VerifSession{Realm: s.realm, AuthTime: s.authTime, EndTime: s.endTime, RenewTill: s.renewTill, SessionKey: s.sessionKey, TGTRealm: s.tgt.Realm, HasCancel: s.cancel != nil})
		s.mux.RUnlock()
	}
	sort.Slice(out, func(i, j int) bool { return out[i].Realm < out[j].Realm })
	return out
}

// VerifCacheEntry is a service-ticket cache entry as the oracles see it.
type VerifCacheEntry struct {
	SPN        string
	StartTime  time.Time
	EndTime    time.Time
	RenewTill  time.Time
	SessionKey types.EncryptionKey
	Ticket     []byte
}

// VerifCache dumps the service ticket cache in canonical order.
func (cl *Client) VerifCache() []VerifCacheEntry {
	cl.cache.mux.RLock()
	defer cl.cache.mux.RUnlock()
	var out []VerifCacheEntry
	for _, e := range cl.cache.Entries {
		tb, _ := e.Ticket.Marshal()
		out = append(out, VerifCacheEntry{SPN: e.SPN, StartTime: e.StartTime, EndTime: e.EndTime, RenewTill: e.RenewTill, SessionKey: e.SessionKey, Ticket: tb})
	}
	sort.Slice(out, func(i, j int) bool { return out[i].SPN < out[j].SPN })
	return out
}

// VerifSendToKDC exposes the transport fail-over logic.
func (cl *Client) VerifSendToKDC(b []byte, realm string) ([]byte, error) {
	return cl.sendToKDC(b, realm)
}
