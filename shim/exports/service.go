package service

import (
	"sort"
	"time"

	sync "github.com/jcmturner/gokrb5/v8/zzverif/vsync"
)

// VerifMinimal: false in this (full) variant of the exports; see shim/exports-min.
const VerifMinimal = false

// VerifResetReplayCache discards the replay-cache singleton so that the next
// GetReplayCache call builds a fresh one (and starts a fresh clean-up loop).
func VerifResetReplayCache() {
	replayCache = Cache{}
	once = sync.Once{}
}

// VerifNewCache returns an empty, private cache (no background goroutine).
func VerifNewCache() *Cache {
	return &Cache{entries: make(map[string]clientEntries)}
}

// VerifReplayEntry is one entry of the replay cache as the oracle sees it.
type VerifReplayEntry struct {
	Client    string
	CTime     time.Time
	SName     string
	Presented time.Time
}

// VerifDump lists the cache's entries in canonical order.
func (c *Cache) VerifDump() []VerifReplayEntry {
	var out []VerifReplayEntry
	for cl, ce := range c.entries {
		for _, e := range ce.replayMap {
			out = append(out, VerifReplayEntry{Client: cl, CTime: e.cTime, SName: e.sName.PrincipalNameString(), Presented: e.presentedTime})
		}
	}
	sort.Slice(out, func(i, j int) bool {
		a, b := out[i], out[j]
		if a.Client != b.Client {
			return a.Client < b.Client
		}
		if !a.CTime.Equal(b.CTime) {
			return a.CTime.Before(b.CTime)
		}
		return a.SName < b.SName
	})
	return out
}
