package client

import (
	"errors"
	"time"

	"github.com/jcmturner/gokrb5/v8/types"
)

// Minimal variant of the client exports: used when the full variant (shim/exports/client.go), which reads the
// client's private session and cache state, does not compile against the tree under test. Nothing private is
// touched here; the checks see no sessions and no cache entries and skip what depends on them.

// VerifMinimal tells the checks that private state is not visible.
const VerifMinimal = true

// VerifSession is a session as the oracles see it.
type VerifSession struct {
	Realm      string
	AuthTime   time.Time
	EndTime    time.Time
	RenewTill  time.Time
	SessionKey types.EncryptionKey
	TGTRealm   string
	HasCancel  bool
}

// VerifSessions is not available in the minimal variant.
func (cl *Client) VerifSessions() []VerifSession { return nil }

// VerifCacheEntry is a service-ticket cache entry as the oracles see it.
type VerifCacheEntry struct {
	SPN        string
	StartTime  time.Time
	EndTime    time.Time
	RenewTill  time.Time
	SessionKey types.EncryptionKey
	Ticket     []byte
}

// VerifCache is not available in the minimal variant.
func (cl *Client) VerifCache() []VerifCacheEntry { return nil }

// ErrVerifMinimal is returned by VerifSendToKDC in the minimal variant.
var ErrVerifMinimal = errors.New("verif: private function not reachable in the minimal export variant")

// VerifSendToKDC is not available in the minimal variant.
func (cl *Client) VerifSendToKDC(b []byte, realm string) ([]byte, error) { return nil, ErrVerifMinimal }
