package service

import (
	"time"
)

// Minimal variant of the service exports: used when the full variant (shim/exports/service.go), which reaches into
// the package's private state, does not compile against the tree under test (its private names were changed).
// Only the package's public API is used here, at the price of reduced observability.

// VerifMinimal tells the checks that private state is not visible.
const VerifMinimal = true

// VerifResetReplayCache empties the replay cache through its public clean-up function (every entry is older than a
// negative retention).
func VerifResetReplayCache() {
	for _, d := range []time.Duration{5 * time.Minute, time.Minute, 2 * time.Second, 10 * time.Minute} {
		GetReplayCache(d).ClearOldEntries(-(1 << 62))
	}
}

// VerifNewCache returns the (emptied) shared cache: a private instance cannot be built through the public API.
func VerifNewCache() *Cache {
	VerifResetReplayCache()
	return GetReplayCache(5 * time.Minute)
}

// VerifReplayEntry is one entry of the replay cache as the oracle sees it.
type VerifReplayEntry struct {
	Client    string
	CTime     time.Time
	SName     string
	Presented time.Time
}

// VerifDump is not available in the minimal variant.
func (c *Cache) VerifDump() []VerifReplayEntry { return nil }
