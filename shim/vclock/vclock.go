// Package vclock replaces the time functions that read or wait on the clock.
// In virtual mode (the default for every check) the clock only moves when the
// harness calls Set/Advance; timers and sleepers fire only then.
package vclock

import (
	"runtime"
	"sync"
	"time"

	"github.com/jcmturner/gokrb5/v8/zzverif/vsched"
)

var (
	mu      sync.Mutex
	virtual bool
	now     time.Time
	timers  []*Timer
	// WakeSleepers controls whether, outside the scheduler, goroutines blocked
	// in Sleep are released when the clock passes their deadline (default: no,
	// so that library background loops stay parked and histories stay
	// deterministic; the harness performs their work as explicit events).
	WakeSleepers bool
	// Reads counts Now() calls (vacuity guard: did the code consult the clock?).
	Reads int64
)

// Timer mirrors time.Timer.
type Timer struct {
	C        <-chan time.Time
	c        chan time.Time
	deadline time.Time
	f        func()
	active   bool
	real     *time.Timer
}

// Ticker is not used by gokrb5; present so that a change introducing it still builds.
type Ticker = time.Ticker

// Virtual switches to the virtual clock at instant t.
func Virtual(t time.Time) {
	mu.Lock()
	defer mu.Unlock()
	virtual, now, timers, AutoTick = true, t, nil, 0
}

// AutoTick, when positive, makes every reading of the virtual clock advance it by that much, so that two
// readings are never equal (as with a real clock); timers still fire only on Set/Advance. Reset by Virtual.
var AutoTick time.Duration

// Real switches back to the OS clock.
func Real() { mu.Lock(); virtual = false; timers = nil; mu.Unlock() }

// IsVirtual reports the mode.
func IsVirtual() bool { return virtual }

// Zone is the local time zone of the simulated machine: like time.Now, the virtual clock hands out times in the
// local zone, and a machine's zone is rarely UTC. Code that puts a time on the wire or into a key without .UTC()
// shows under it. Harness code compares instants with Equal/Before/After or .UTC() first.
var Zone = time.FixedZone("VERIF+0530", 5*3600+1800)

func Now() time.Time {
	if !virtual {
		return time.Now()
	}
	if vsched.S != nil {
		Reads++
		now = now.Add(AutoTick)
		return now.In(Zone)
	}
	mu.Lock()
	defer mu.Unlock()
	Reads++
	now = now.Add(AutoTick)
	return now.In(Zone)
}

func Since(t time.Time) time.Duration { return Now().Sub(t) }
func Until(t time.Time) time.Duration { return t.Sub(Now()) }

// Set moves the virtual clock to t (never backwards for timers' sake) and fires due timers.
func Set(t time.Time) {
	if vsched.Active() {
		vsched.Yield("clock-advance")
	}
	mu.Lock()
	now = t
	var due []*Timer
	rest := timers[:0]
	for _, tm := range timers {
		if tm.active && !now.Before(tm.deadline) {
			tm.active = false
			due = append(due, tm)
		} else if tm.active {
			rest = append(rest, tm)
		}
	}
	timers = rest
	mu.Unlock()
	for _, tm := range due {
		if tm.f != nil {
			vsched.Go(tm.f)
		} else {
			select {
			case tm.c <- t.In(Zone):
			default:
			}
		}
	}
}

// Advance moves the virtual clock forward by d.
func Advance(d time.Duration) { Set(Now().Add(d)) }

func Sleep(d time.Duration) {
	if !virtual {
		time.Sleep(d)
		return
	}
	deadline := Now().Add(d)
	if vsched.S != nil {
		vsched.Point("sleep", func() bool { return !now.Before(deadline) })
		return
	}
	if !WakeSleepers {
		// Parked for good: the harness performs background work explicitly.
		// Ending the goroutine is indistinguishable from parking it and does
		// not leak one goroutine per rebuilt singleton.
		runtime.Goexit()
	}
	t := NewTimer(d)
	<-t.C
}

func NewTimer(d time.Duration) *Timer {
	if !virtual {
		rt := time.NewTimer(d)
		return &Timer{C: rt.C, real: rt}
	}
	c := make(chan time.Time, 1)
	t := &Timer{C: c, c: c, deadline: Now().Add(d), active: true}
	mu.Lock()
	if d <= 0 {
		// a timer that is already due: firing it still takes time on a real clock, so a loop of zero waits (e.g. a
		// renewal loop recomputing 5/6 of a remaining lifetime that has shrunk below 2 ns) gets past its end instant
		// instead of spinning on a frozen clock
		now = now.Add(time.Nanosecond)
		t.active = false
		c <- now.In(Zone)
	} else {
		timers = append(timers, t)
	}
	mu.Unlock()
	return t
}

func After(d time.Duration) <-chan time.Time { return NewTimer(d).C }

func AfterFunc(d time.Duration, f func()) *Timer {
	if !virtual {
		return &Timer{real: time.AfterFunc(d, f)}
	}
	t := &Timer{deadline: Now().Add(d), f: f, active: true}
	mu.Lock()
	timers = append(timers, t)
	mu.Unlock()
	return t
}

// Stop mirrors time.Timer.Stop.
func (t *Timer) Stop() bool {
	if t.real != nil {
		return t.real.Stop()
	}
	mu.Lock()
	defer mu.Unlock()
	was := t.active
	t.active = false
	return was
}

// Reset mirrors time.Timer.Reset.
func (t *Timer) Reset(d time.Duration) bool {
	if t.real != nil {
		return t.real.Reset(d)
	}
	mu.Lock()
	defer mu.Unlock()
	was := t.active
	t.deadline = now.Add(d)
	if !t.active {
		t.active = true
		timers = append(timers, t)
	}
	return was
}

// PendingTimers returns the deadlines of active timers (harness: "next interesting instant").
func PendingTimers() []time.Time {
	mu.Lock()
	defer mu.Unlock()
	var out []time.Time
	for _, t := range timers {
		if t.active {
			out = append(out, t.deadline)
		}
	}
	return out
}

func Tick(d time.Duration) <-chan time.Time { return time.Tick(d) }

func NewTicker(d time.Duration) *time.Ticker { return time.NewTicker(d) }
