package ccrypto

import (
	"bytes"
	"encoding/hex"
	"fmt"
	"math/rand"

	"verif/engine"
	"verif/ref/rcrypto"

	"github.com/jcmturner/gokrb5/v8/crypto"
)

type c07case struct {
	Cksum int32  `json:"cksumtype"`
	Len   int    `json:"len"`
	Usage uint32 `json:"usage"`
	Key   string `json:"key"`
	Data  string `json:"data,omitempty"`
	What  string `json:"what,omitempty"`
}

var cksumTypes = []int32{12, 15, 16, 19, 20, -138}

// RunC07 is property C07.
func RunC07(c *engine.Ctx) {
	c.Assume = append(c.Assume,
		"reference checksums from ref/rcrypto (RFC 3961 5.3 Kc derivation + truncated HMAC; RFC 8009 5; RFC 4757 4), validated against RFC vectors; JDK cross-check in the thorough tier",
		"key and data bytes are seeded pseudo-random; checksum type, data length, usage and every mutation position are enumerated completely")
	if _, err := rcrypto.SelfTest(); err != nil {
		engine.Fatal("%v", err)
	}
	r := rand.New(rand.NewSource(c.Seed))
	var evals int64
	var jlines []string
	var jwant []string
	for _, ct := range cksumTypes {
		et, _ := rcrypto.EtypeForCksum(ct)
		g, err := crypto.GetChksumEtype(ct)
		if err != nil {
			c.Violate("map", fmt.Sprintf("cksumtype-%d-unsupported", ct), map[string]interface{}{"err": err.Error()}, c07case{Cksum: ct})
			continue
		}
		if g.GetETypeID() != et {
			c.Violate("map", fmt.Sprintf("cksumtype-%d-maps-to-etype-%d", ct, g.GetETypeID()), map[string]interface{}{"want_etype": et}, c07case{Cksum: ct})
			continue
		}
		if g.GetHashID() != ct {
			c.Violate("map", fmt.Sprintf("etype-%d-hash-id-%d", et, g.GetHashID()), map[string]interface{}{"want": ct}, c07case{Cksum: ct})
		}
		ks := keys(et, 2, c.Seed)
		for ki, key := range ks {
			for l := 0; l <= 200; l++ {
				data := randBytes(r, l)
				for _, u := range Usages {
					cs := c07case{Cksum: ct, Len: l, Usage: u, Key: hex.EncodeToString(key), Data: hex.EncodeToString(data)}
					var got []byte
					var gerr error
					if pn := safely(func() { got, gerr = g.GetChecksumHash(key, append([]byte{}, data...), u) }); pn != "" {
						c.Violate("value", fmt.Sprintf("value:ck%d:panic", ct), map[string]interface{}{"panic": pn}, cs)
						continue
					}
					evals++
					want, _ := rcrypto.Checksum(et, key, u, data)
					if gerr != nil || !bytes.Equal(got, want) {
						c.Violate("value", fmt.Sprintf("value:ck%d:differs-from-rfc:%s", ct, usageClass(u)), map[string]interface{}{"got": hex.EncodeToString(got), "want": hex.EncodeToString(want), "err": fmt.Sprint(gerr)}, cs)
						continue
					}
					c.Distinct(fmt.Sprintf("v/%d/%d/%d", ct, l, u))
					if c.Thorough() && ki == 0 && u < 1<<31 && l%4 == 0 {
						jlines = append(jlines, fmt.Sprintf("C %d %s %d %s", ct, cs.Key, u, hexOrDash(data)))
						jwant = append(jwant, hex.EncodeToString(want))
					}
					// verification must accept exactly this value
					if !g.VerifyChecksum(key, data, got, u) {
						c.Violate("verify", fmt.Sprintf("verify:ck%d:rejects-correct", ct), nil, cs)
					}
					evals++
				}
			}
			// negative verification for selected lengths
			for _, l := range []int{0, 1, 16, 63, 64, 200} {
				data := randBytes(r, l)
				const u = 15
				good, _ := rcrypto.Checksum(et, key, u, data)
				cs := c07case{Cksum: ct, Len: l, Usage: u, Key: hex.EncodeToString(key), Data: hex.EncodeToString(data)}
				neg := func(what string, k, d, ck []byte, uu uint32) {
					evals++
					cs2 := cs
					cs2.What = what
					var ok bool
					if pn := safely(func() { ok = g.VerifyChecksum(k, d, ck, uu) }); pn != "" {
						c.Violate("verify", fmt.Sprintf("verify:ck%d:panic", ct), map[string]interface{}{"panic": pn, "what": what}, cs2)
						return
					}
					if ok {
						c.Violate("verify", fmt.Sprintf("verify:ck%d:accepts-%s", ct, classOf(what)), map[string]interface{}{"what": what, "checksum": hex.EncodeToString(ck)}, cs2)
						return
					}
					c.Distinct(fmt.Sprintf("n/%d/%s", ct, classOf(what)))
				}
				for n := 0; n < len(good); n++ {
					neg(fmt.Sprintf("truncated-to-%d", n), key, data, good[:n], u)
				}
				for b := 0; b < 256; b++ {
					neg(fmt.Sprintf("extended-by-%02x", b), key, data, append(append([]byte{}, good...), byte(b)), u)
				}
				for i := 0; i < len(good)*8; i++ {
					m := append([]byte{}, good...)
					m[i/8] ^= 1 << uint(7-i%8)
					neg(fmt.Sprintf("bitflip-%d", i), key, data, m, u)
				}
				if l <= 16 {
					for i := 0; i < l*8; i++ {
						d := append([]byte{}, data...)
						d[i/8] ^= 1 << uint(7-i%8)
						neg(fmt.Sprintf("data-bitflip-%d", i), key, d, good, u)
					}
				}
				neg("data-extended", key, append(append([]byte{}, data...), 0), good, u)
				if l > 0 {
					neg("data-truncated", key, data[:l-1], good, u)
				}
				neg("other-key", ks[1-ki], data, good, u)
				// keys that differ from the right one in a single late byte (0x02: not a DES parity bit), tried after
				// the right key has been used: nothing derived from the right key may be found again under them
				pr, _ := rcrypto.Get(et)
				for _, pos := range []int{len(key) - 1, len(key) - 2, pr.SeedLen - 1, pr.SeedLen, len(key) / 2, 0} {
					if pos < 0 || pos >= len(key) {
						continue
					}
					k2 := append([]byte{}, key...)
					k2[pos] ^= 0x02
					g.GetChecksumHash(key, data, u)
					neg(fmt.Sprintf("other-key-differing-in-byte-%d-only", pos), k2, data, good, u)
				}
				for _, uu := range Usages {
					if uu == u || (et == rcrypto.RC4 && rcrypto.RC4UsageClass(uu) == rcrypto.RC4UsageClass(u)) {
						continue
					}
					neg(fmt.Sprintf("usage-%d", uu), key, data, good, uu)
				}
			}
		}
	}
	// dense usage sweep: every usage 0..8192 and around every power of two, one key, two data lengths
	// (the key derivation folds the usage number; carries in the fold depend on its bit pattern)
	for _, ct := range cksumTypes {
		et, _ := rcrypto.EtypeForCksum(ct)
		g, err := crypto.GetChksumEtype(ct)
		if err != nil {
			continue
		}
		key := keys(et, 1, c.Seed+3)[0]
		var dense []uint32
		for u := uint32(0); u <= 8192; u++ {
			dense = append(dense, u)
		}
		for k := uint(13); k < 32; k++ {
			dense = append(dense, 1<<k-1, 1<<k, 1<<k+1, 1<<k+255)
		}
		dense = append(dense, 0xffffffff, 0xfffffffe, 0x7fffffff, 0x00ff00ff, 0xff00ff00, 0x0000ffff, 0xffff0000)
		for _, l := range []int{0, 33} {
			data := randBytes(r, l)
			for _, u := range dense {
				cs := c07case{Cksum: ct, Len: l, Usage: u, Key: hex.EncodeToString(key), Data: hex.EncodeToString(data), What: "dense-usage-sweep"}
				var got []byte
				var gerr error
				if pn := safely(func() { got, gerr = g.GetChecksumHash(key, append([]byte{}, data...), u) }); pn != "" {
					c.Violate("value", fmt.Sprintf("value:ck%d:panic", ct), map[string]interface{}{"panic": pn}, cs)
					continue
				}
				evals++
				want, _ := rcrypto.Checksum(et, key, u, data)
				if gerr != nil || !bytes.Equal(got, want) {
					c.Violate("value", fmt.Sprintf("value:ck%d:differs-from-rfc:dense-usage", ct), map[string]interface{}{"got": hex.EncodeToString(got), "want": hex.EncodeToString(want), "err": fmt.Sprint(gerr)}, cs)
					continue
				}
				if !g.VerifyChecksum(key, data, want, u) {
					c.Violate("verify", fmt.Sprintf("verify:ck%d:rejects-correct", ct), nil, cs)
				}
			}
		}
		c.Distinct(fmt.Sprintf("dense/%d", ct))
	}
	// keys of the wrong length and degenerate checksums: verification must say no (and not panic), whatever
	// goes wrong inside (a key-derivation error must not fall through to "equal")
	for _, ct := range cksumTypes {
		et, _ := rcrypto.EtypeForCksum(ct)
		g, err := crypto.GetChksumEtype(ct)
		if err != nil {
			continue
		}
		p, _ := rcrypto.Get(et)
		data := randBytes(r, 20)
		good, _ := rcrypto.Checksum(et, keys(et, 1, c.Seed)[0], 7, data)
		for _, kl := range []int{0, 1, 8, 15, 16, 17, 24, 31, 32, 33, 64} {
			if kl == p.KeyLen {
				continue
			}
			key := randBytes(r, kl)
			for _, ck := range [][]byte{nil, {}, {0}, make([]byte, p.CksumLen), good, good[:len(good)/2]} {
				cs := c07case{Cksum: ct, Len: 20, Usage: 7, Key: hex.EncodeToString(key), Data: hex.EncodeToString(data), What: fmt.Sprintf("key-of-%d-bytes-checksum-of-%d-bytes", kl, len(ck))}
				var ok bool
				evals++
				if pn := safely(func() { ok = g.VerifyChecksum(key, data, ck, 7) }); pn != "" {
					// a panic on a key of impossible length is C04's business (keys are not outside input); not judged here
					continue
				}
				if ok {
					// the reference cannot even derive a key of this length: nothing can be a valid checksum
					c.Violate("verify", fmt.Sprintf("verify:ck%d:accepts-with-key-of-wrong-length", ct), map[string]interface{}{"checksum": hex.EncodeToString(ck)}, cs)
				}
			}
		}
		// the right key and an empty / nil checksum
		key := keys(et, 1, c.Seed)[0]
		for _, ck := range [][]byte{nil, {}} {
			evals++
			var ok bool
			safely(func() { ok = g.VerifyChecksum(key, data, ck, 7) })
			if ok {
				c.Violate("verify", fmt.Sprintf("verify:ck%d:accepts-empty-checksum", ct), nil, c07case{Cksum: ct, Len: 20, Usage: 7, Key: hex.EncodeToString(key), Data: hex.EncodeToString(data), What: "empty-checksum"})
			}
		}
	}
	// histories with one key buffer overwritten in place between calls (A, B, A, ...): no state may be carried by reference
	for _, ct := range cksumTypes {
		et, _ := rcrypto.EtypeForCksum(ct)
		g, err := crypto.GetChksumEtype(ct)
		if err != nil {
			continue
		}
		ks := keys(et, 2, c.Seed+3)
		kb := make([]byte, len(ks[0]))
		data := randBytes(r, 33)
		db := make([]byte, len(data))
		for _, u := range []uint32{3, 6, 15, 23} {
			for step, which := range []int{0, 1, 0, 1, 1, 0} {
				copy(kb, ks[which])
				copy(db, data)
				db[0] ^= byte(step)
				cs := c07case{Cksum: ct, Len: len(db), Usage: u, Key: hex.EncodeToString(ks[which]), Data: hex.EncodeToString(db), What: fmt.Sprintf("alias-history step %d (key and data buffers overwritten in place)", step)}
				got, gerr := g.GetChecksumHash(kb, db, u)
				want, _ := rcrypto.Checksum(et, ks[which], u, db)
				evals++
				if gerr != nil || !bytes.Equal(got, want) {
					c.Violate("alias", fmt.Sprintf("alias:ck%d:value-under-stale-key-or-data", ct), map[string]interface{}{"got": hex.EncodeToString(got), "want": hex.EncodeToString(want)}, cs)
					continue
				}
				other, _ := rcrypto.Checksum(et, ks[1-which], u, db)
				if !g.VerifyChecksum(kb, db, want, u) || g.VerifyChecksum(kb, db, other, u) {
					c.Violate("alias", fmt.Sprintf("alias:ck%d:verify-under-stale-key", ct), nil, cs)
					continue
				}
				evals++
				c.Distinct(fmt.Sprintf("alias/%d/%d/%d", ct, u, step))
			}
		}
	}
	// checksum-type registry: every id in -200..200
	for id := int32(-200); id <= 200; id++ {
		wantEt, known := rcrypto.EtypeForCksum(id)
		g, err := crypto.GetChksumEtype(id)
		evals++
		switch {
		case known && (err != nil || g.GetETypeID() != wantEt):
			c.Violate("map", fmt.Sprintf("cksumtype-%d-wrong-family", id), map[string]interface{}{"err": fmt.Sprint(err)}, c07case{Cksum: id})
		case !known && err == nil:
			// ids gokrb5 supports beyond the six named by the property are not judged unless they alias a family wrongly
			c.Note("checksum type %d is accepted by GetChksumEtype (etype %d); not one of the six types of the property", id, g.GetETypeID())
			c.Violate("map", fmt.Sprintf("cksumtype-%d-accepted-but-unassigned", id), map[string]interface{}{"etype": g.GetETypeID()}, c07case{Cksum: id})
		}
	}
	if len(jlines) > 0 {
		ans, err := engine.JRefBatch("KrbOracle", jlines)
		if err != nil {
			engine.Fatal("jref: %v", err)
		}
		agree := 0
		for i, a := range ans {
			if a == jwant[i] {
				agree++
			} else {
				c.Note("ORACLE-DISAGREEMENT jdk vs reference: %s -> %s want %s", jlines[i][:40], a, jwant[i])
				c.Add("oracle_disagreements", 1)
			}
		}
		c.Cov["jdk_agreed"] = agree
		c.Cov["jdk_requests"] = len(jlines)
	}
	c.Add("evaluations", evals)
	c.Add("states", evals)
	c.Add("transitions", evals)
	c.Add("traces_validated_against_impl", evals)
	c.Sample(map[string]interface{}{"cksumtype": 16, "len": 5, "usage": 15, "checks": "value equals RFC; verify accepts it; rejects every truncation, 256 one-byte extensions, every bit flip, flipped data, other key, other usages"})
	siblingEtypes(c)
	concurrentSchedules(c, "C07")
	c.Cov["rule"] = "checksum type(6) x data length 0..200 x usage set x 2 keys for values; for lengths {0,1,16,63,64,200}: every truncation, every one-byte extension, every single-bit flip, data bit flips, other key, other usages for verification; checksum ids -200..200 for the registry; distinct = exercised (type,len,usage) value cells and (type, mutation class) rejections"
}

func hexOrDash(b []byte) string {
	if len(b) == 0 {
		return "-"
	}
	return hex.EncodeToString(b)
}

func classOf(what string) string {
	for i := len(what) - 1; i >= 0; i-- {
		if what[i] == '-' {
			rest := what[i+1:]
			digits := true
			for _, ch := range rest {
				if !(ch >= '0' && ch <= '9' || ch >= 'a' && ch <= 'f') {
					digits = false
				}
			}
			if digits && len(rest) > 0 {
				return what[:i]
			}
			break
		}
	}
	return what
}
