package ccrypto

import (
	"bytes"
	"encoding/hex"
	"fmt"
	"math/rand"

	"verif/engine"
	"verif/ref/rcrypto"

	"github.com/jcmturner/gokrb5/v8/crypto"
	"github.com/jcmturner/gokrb5/v8/types"
	"github.com/jcmturner/gokrb5/v8/zzverif/vcrand"
)

type c05case struct {
	Etype int32  `json:"etype"`
	Len   int    `json:"len"`
	Usage uint32 `json:"usage"`
	Key   string `json:"key"`
	Dir   string `json:"dir"`
}

// expectPlain is what a decryption must return for plaintext pt: pt itself,
// or for des3 pt followed by zero bytes up to the 8-byte boundary.
func expectPlain(et int32, pt, got []byte) bool {
	if et != rcrypto.DES3 {
		return bytes.Equal(pt, got)
	}
	want := (8+len(pt)+7)/8*8 - 8
	if len(got) != want || !bytes.Equal(got[:len(pt)], pt) {
		return false
	}
	for _, b := range got[len(pt):] {
		if b != 0 {
			return false
		}
	}
	return true
}

// RunC05 is property C05.
func RunC05(c *engine.Ctx) {
	c.Assume = append(c.Assume,
		"reference ref/rcrypto written from RFC 3961/3962/8009/4757, validated on every run against the RFC appendix vectors; thorough tier also asks OpenJDK's sun.security.krb5 crypto for each (etype,len,usage) cell",
		"key and plaintext bytes are seeded pseudo-random (outside the enumerated alphabet); etype, length, usage and direction are enumerated completely")
	if n, err := rcrypto.SelfTest(); err != nil {
		engine.Fatal("%v", err)
	} else {
		c.Cov["reference_vectors_ok"] = n
	}
	nkeys := 2
	if c.Thorough() {
		nkeys = 3
	}
	maxLen := 130
	r := rand.New(rand.NewSource(c.Seed))
	var jlines []string
	type jexp struct {
		cs c05case
		pt []byte
	}
	var jexps []jexp
	for _, et := range rcrypto.Etypes {
		p, _ := rcrypto.Get(et)
		g := goET(et)
		for ki, key := range keys(et, nkeys, c.Seed) {
			for l := 0; l <= maxLen; l++ {
				pt := randBytes(r, l)
				for _, u := range Usages {
					cs := c05case{Etype: et, Len: l, Usage: u, Key: hex.EncodeToString(key)}
					// direction 1: gokrb5 encrypts, the reference decrypts
					cs.Dir = "gokrb5->ref"
					vcrand.Record()
					var ct []byte
					var err error
					// the plaintext is a sub-slice of a larger buffer of the caller's (spare capacity behind it holds the caller's
					// other data) and the key likewise: neither the slices nor what lies behind them may be written to
					arena := append(append(append([]byte{}, pt...), sentinel...), 0)[:len(pt)+len(sentinel)]
					ptIn := arena[:len(pt):len(arena)]
					karena := append(append([]byte{}, key...), sentinel...)
					keyIn := karena[:len(key):len(karena)]
					if pn := safely(func() { _, ct, err = g.EncryptMessage(keyIn, ptIn, u) }); pn != "" {
						c.Violate("enc", fmt.Sprintf("enc:et%d:panic", et), map[string]interface{}{"panic": pn}, cs)
						vcrand.Stop()
						continue
					}
					draws := vcrand.Stop()
					c.Add("evaluations", 1)
					if !bytes.Equal(arena[:len(pt)], pt) || !bytes.Equal(arena[len(pt):], sentinel) || !bytes.Equal(karena[:len(key)], key) || !bytes.Equal(karena[len(key):], sentinel) {
						c.Violate("enc", fmt.Sprintf("enc:et%d:modifies-caller-buffers", et), map[string]interface{}{"plaintext_changed": !bytes.Equal(arena[:len(pt)], pt), "bytes_behind_the_plaintext_changed": !bytes.Equal(arena[len(pt):], sentinel),
							"key_changed": !bytes.Equal(karena[:len(key)], key), "bytes_behind_the_key_changed": !bytes.Equal(karena[len(key):], sentinel)}, cs)
						continue
					}
					if err != nil {
						c.Violate("enc", fmt.Sprintf("enc:et%d:error:%s", et, usageClass(u)), map[string]interface{}{"err": err.Error()}, cs)
						continue
					}
					conf, back, derr := rcrypto.Decrypt(et, key, u, ct)
					if derr != nil {
						c.Violate("enc", fmt.Sprintf("enc:et%d:reference-cannot-decrypt:%s", et, usageClass(u)), map[string]interface{}{"err": derr.Error(), "ct": hex.EncodeToString(ct)}, cs)
						continue
					}
					if !expectPlain(et, pt, back) {
						c.Violate("enc", fmt.Sprintf("enc:et%d:plaintext-mismatch", et), map[string]interface{}{"want": hex.EncodeToString(pt), "got": hex.EncodeToString(back)}, cs)
						continue
					}
					if len(draws) != 1 || !bytes.Equal(draws[0], conf) {
						c.Violate("enc", fmt.Sprintf("enc:et%d:confounder-not-the-random-draw", et), map[string]interface{}{"draws": len(draws), "conf": hex.EncodeToString(conf)}, cs)
					}
					// second encryption of the same plaintext must differ
					if ki == 0 && u == 11 {
						var ct2 []byte
						g.EncryptMessage(key, append([]byte{}, pt...), u)
						_, ct2, _ = g.EncryptMessage(key, append([]byte{}, pt...), u)
						if bytes.Equal(ct, ct2) {
							c.Violate("enc", fmt.Sprintf("enc:et%d:repeated-ciphertext", et), nil, cs)
						}
						conf2, _, _ := rcrypto.Decrypt(et, key, u, ct2)
						if bytes.Equal(conf, conf2) {
							c.Violate("enc", fmt.Sprintf("enc:et%d:repeated-confounder", et), nil, cs)
						}
					}
					// direction 2: the reference encrypts, gokrb5 decrypts
					cs.Dir = "ref->gokrb5"
					rconf := randBytes(r, p.Conf)
					rct, rerr := rcrypto.EncryptWithConfounder(et, key, u, rconf, pt)
					if rerr != nil {
						engine.Fatal("reference encrypt: %v", rerr)
					}
					var got []byte
					buf := append([]byte{}, rct...)
					kbuf := append([]byte{}, key...)
					if pn := safely(func() { got, err = g.DecryptMessage(kbuf, buf, u) }); pn != "" {
						c.Violate("dec", fmt.Sprintf("dec:et%d:panic", et), map[string]interface{}{"panic": pn}, cs)
						continue
					}
					c.Add("evaluations", 1)
					// the caller's buffers must be left alone and a second decryption of the same buffer must succeed too
					if !bytes.Equal(buf, rct) || !bytes.Equal(kbuf, key) {
						c.Violate("dec", fmt.Sprintf("dec:et%d:modifies-caller-buffers", et), map[string]interface{}{"ciphertext_changed": !bytes.Equal(buf, rct), "key_changed": !bytes.Equal(kbuf, key)}, cs)
						continue
					}
					if l%16 == 3 {
						got2, err2 := g.DecryptMessage(kbuf, buf, u)
						if err2 != nil || !bytes.Equal(got2, got) {
							c.Violate("dec", fmt.Sprintf("dec:et%d:second-decryption-differs", et), map[string]interface{}{"err": fmt.Sprint(err2)}, cs)
							continue
						}
					}
					if err != nil {
						c.Violate("dec", fmt.Sprintf("dec:et%d:rejects-reference-ciphertext:%s", et, usageClass(u)), map[string]interface{}{"err": err.Error(), "ct": hex.EncodeToString(rct)}, cs)
						continue
					}
					if !expectPlain(et, pt, got) {
						c.Violate("dec", fmt.Sprintf("dec:et%d:plaintext-mismatch", et), map[string]interface{}{"want": hex.EncodeToString(pt), "got": hex.EncodeToString(got)}, cs)
						continue
					}
					c.Distinct(fmt.Sprintf("%d/%d/%d", et, l, u))
					if ki == 0 && l%37 == 5 && u == 24 {
						c.Sample(map[string]interface{}{"etype": et, "len": l, "usage": u, "key": cs.Key, "gokrb5_ct": hex.EncodeToString(ct)})
					}
					// JDK: decrypt gokrb5's ciphertext and encrypt for gokrb5 (thorough, first key)
					if c.Thorough() && ki == 0 && u < 1<<31 {
						jlines = append(jlines, fmt.Sprintf("D %d %s %d %s", et, cs.Key, u, hex.EncodeToString(ct)))
						jexps = append(jexps, jexp{cs, pt})
					}
				}
			}
			// wrappers crypto.GetEncryptedData / DecryptEncPart once per (etype,key)
			pt := randBytes(r, 33)
			ek := types.EncryptionKey{KeyType: et, KeyValue: key}
			ed, err := crypto.GetEncryptedData(pt, ek, 7, 3)
			if err != nil || ed.EType != et || ed.KVNO != 3 {
				c.Violate("wrap", fmt.Sprintf("wrap:et%d:GetEncryptedData", et), map[string]interface{}{"err": fmt.Sprint(err)}, c05case{Etype: et, Len: 33, Usage: 7})
				continue
			}
			if _, back, derr := rcrypto.Decrypt(et, key, 7, ed.Cipher); derr != nil || !expectPlain(et, pt, back) {
				c.Violate("wrap", fmt.Sprintf("wrap:et%d:GetEncryptedData-not-decryptable", et), nil, c05case{Etype: et, Len: 33, Usage: 7})
			}
			got, err := crypto.DecryptEncPart(ed, ek, 7)
			if err != nil || !expectPlain(et, pt, got) {
				c.Violate("wrap", fmt.Sprintf("wrap:et%d:DecryptEncPart", et), map[string]interface{}{"err": fmt.Sprint(err)}, c05case{Etype: et, Len: 33, Usage: 7})
			}
		}
	}
	aliasHistories(c)
	if len(jlines) > 0 {
		ans, err := engine.JRefBatch("KrbOracle", jlines)
		if err != nil {
			engine.Fatal("jref: %v", err)
		}
		agree := 0
		for i, a := range ans {
			e := jexps[i]
			want := e.pt
			if a == "OK "+hex.EncodeToString(want) || (e.cs.Etype == rcrypto.DES3 && len(a) > 3 && len(a[3:]) >= 2*len(want) && a[3:3+2*len(want)] == hex.EncodeToString(want)) {
				agree++
				continue
			}
			// The JDK disagrees with gokrb5 although the Go reference agreed: oracle disagreement, not a violation.
			c.Note("ORACLE-DISAGREEMENT jdk vs reference: case %+v jdk=%s", e.cs, a)
			c.Add("oracle_disagreements", 1)
		}
		c.Cov["jdk_decrypted_gokrb5_ciphertexts"] = agree
		c.Cov["jdk_requests"] = len(jlines)
	}
	// dense usage sweep: every usage 0..8192 and around every power of two, one key, one short plaintext, both
	// directions (the key derivation folds the usage number; carries in the fold depend on its bit pattern)
	{
		// usage 0 is not a Kerberos key usage (gokrb5 documents it as "use the key without derivation" and its
		// encryption side then fails with an error): not judged
		var dense []uint32
		for u := uint32(1); u <= 8192; u++ {
			dense = append(dense, u)
		}
		for k := uint(13); k < 32; k++ {
			dense = append(dense, 1<<k-1, 1<<k, 1<<k+1, 1<<k+255)
		}
		dense = append(dense, 0xffffffff, 0xfffffffe, 0x7fffffff, 0x00ff00ff, 0xff00ff00, 0x0000ffff, 0xffff0000)
		rr := rand.New(rand.NewSource(c.Seed + 9))
		var n int64
		for _, et := range rcrypto.Etypes {
			p, _ := rcrypto.Get(et)
			g := goET(et)
			key := keys(et, 1, c.Seed+4)[0]
			pt := randBytes(rr, 21)
			for _, u := range dense {
				cs := map[string]interface{}{"etype": et, "usage": u, "key": hex.EncodeToString(key), "plaintext": hex.EncodeToString(pt), "what": "dense-usage-sweep"}
				var ct []byte
				var err error
				if pn := safely(func() { _, ct, err = g.EncryptMessage(key, append([]byte{}, pt...), u) }); pn != "" || err != nil {
					c.Violate("dense", fmt.Sprintf("enc:et%d:fails:dense-usage", et), map[string]interface{}{"panic": pn, "err": fmt.Sprint(err)}, cs)
					continue
				}
				n++
				if _, out, rerr := rcrypto.Decrypt(et, key, u, ct); rerr != nil || !expectPlain(et, pt, out) {
					c.Violate("dense", fmt.Sprintf("enc:et%d:reference-cannot-decrypt:dense-usage", et), map[string]interface{}{"err": fmt.Sprint(rerr)}, cs)
					continue
				}
				rct, _ := rcrypto.EncryptWithConfounder(et, key, u, randBytes(rr, p.Conf), pt)
				var out []byte
				if pn := safely(func() { out, err = g.DecryptMessage(key, append([]byte{}, rct...), u) }); pn != "" || err != nil || !expectPlain(et, pt, out) {
					c.Violate("dense", fmt.Sprintf("dec:et%d:rejects-reference-ciphertext:dense-usage", et), map[string]interface{}{"panic": pn, "err": fmt.Sprint(err)}, cs)
				}
				n++
			}
			c.Distinct(fmt.Sprintf("dense/%d", et))
		}
		c.Add("evaluations", n)
	}
	ev := c.Counter("evaluations")
	c.Add("states", int64(len(rcrypto.Etypes)*(maxLen+1)*len(Usages)))
	c.Add("transitions", ev)
	c.Add("traces_validated_against_impl", ev)
	siblingEtypes(c)
	concurrentSchedules(c, "C05")
	c.Cov["rule"] = "full product etype(6) x plaintext length 0..130 x usage set x keys x 2 directions; distinct = (etype,len,usage) cells in which both directions agreed with the reference"
}

// sentinel lies behind the caller's plaintext and key in their buffers.
var sentinel = []byte("SENTINEL-bytes-of-the-caller-behind-the-slice-0123456789")

// aliasHistories: operation sequences in which the caller reuses one key
// buffer, overwriting it in place between calls (A, B, A) and one data buffer;
// every call must behave as for fresh buffers (no state carried over by
// reference).
func aliasHistories(c *engine.Ctx) {
	r := rand.New(rand.NewSource(c.Seed + 5))
	for _, et := range rcrypto.Etypes {
		p, _ := rcrypto.Get(et)
		g := goET(et)
		ks := keys(et, 2, c.Seed+9)
		kb := make([]byte, len(ks[0]))
		pt := randBytes(r, 40)
		for _, u := range []uint32{3, 11, 24} {
			for step, which := range []int{0, 1, 0, 1, 1, 0} {
				copy(kb, ks[which])
				cs := c05case{Etype: et, Len: len(pt), Usage: u, Key: hex.EncodeToString(ks[which]), Dir: fmt.Sprintf("alias-history step %d (key buffer overwritten in place)", step)}
				_, ct, err := g.EncryptMessage(kb, append([]byte{}, pt...), u)
				c.Add("evaluations", 1)
				if err != nil {
					c.Violate("alias", fmt.Sprintf("alias:et%d:encrypt-error", et), map[string]interface{}{"err": err.Error()}, cs)
					continue
				}
				if _, back, derr := rcrypto.Decrypt(et, ks[which], u, ct); derr != nil || !expectPlain(et, pt, back) {
					c.Violate("alias", fmt.Sprintf("alias:et%d:encrypts-under-stale-key", et), map[string]interface{}{"err": fmt.Sprint(derr)}, cs)
					continue
				}
				rct, _ := rcrypto.EncryptWithConfounder(et, ks[which], u, randBytes(r, p.Conf), pt)
				got, err := g.DecryptMessage(kb, rct, u)
				c.Add("evaluations", 1)
				if err != nil || !expectPlain(et, pt, got) {
					c.Violate("alias", fmt.Sprintf("alias:et%d:decrypts-under-stale-key", et), map[string]interface{}{"err": fmt.Sprint(err)}, cs)
					continue
				}
				// a ciphertext made under the other key must not decrypt now
				oct, _ := rcrypto.EncryptWithConfounder(et, ks[1-which], u, randBytes(r, p.Conf), pt)
				if out, err := g.DecryptMessage(kb, oct, u); err == nil || len(out) != 0 {
					c.Violate("alias", fmt.Sprintf("alias:et%d:accepts-other-keys-ciphertext", et), nil, cs)
					continue
				}
				c.Distinct(fmt.Sprintf("alias/%d/%d/%d", et, u, step))
			}
		}
	}
}
