package ccrypto

import (
	"bytes"
	"encoding/hex"
	"fmt"
	"github.com/jcmturner/gokrb5/v8/crypto/common"
	"github.com/jcmturner/gokrb5/v8/zzverif/vclock"
	"math/rand"
	"strings"
	"sync"
	"verif/checks/cworld"

	"verif/engine"
	"verif/ref/der"
	"verif/ref/rcrypto"

	"github.com/jcmturner/gokrb5/v8/crypto"
	"github.com/jcmturner/gokrb5/v8/crypto/rfc3961"
	"github.com/jcmturner/gokrb5/v8/crypto/rfc8009"
	"github.com/jcmturner/gokrb5/v8/iana/nametype"
	"github.com/jcmturner/gokrb5/v8/types"
)

type s2kCase struct {
	Etype  int32  `json:"etype"`
	PW     string `json:"password_utf8_hex"`
	Salt   string `json:"salt_utf8_hex"`
	Params string `json:"params_hex"`
}

var passwords = []string{
	"", "a", "password", "correct horse battery staple",
	"pässwörd",     // Latin-1
	"ß",            // sharp s
	"пароль",       // Cyrillic (BMP)
	"密码",           // CJK (BMP)
	"\U0001D11E",   // G clef, supplementary plane
	"a\U0001F511b", // key emoji between ASCII
	"é\U0001D11Ez", // mixed 2-byte, 4-byte, ASCII
	"x\u0000y",     // embedded NUL
	strings.Repeat("X", 64), strings.Repeat("X", 65),
}

var salts = []string{"", "salt", "ATHENA.MIT.EDUraeburn", "EXAMPLE.COMJurišić", strings.Repeat("s", 128)}

func be32(i uint32) []byte { return []byte{byte(i >> 24), byte(i >> 16), byte(i >> 8), byte(i)} }

// RunC08 is property C08.
func RunC08(c *engine.Ctx) {
	c.Assume = append(c.Assume,
		"reference ref/rcrypto (own PBKDF2, n-fold, DK, KDF-HMAC-SHA2, DES3 random-to-key, UTF-16LE+MD4), validated against the RFC vectors on every run; JDK cross-check of string-to-key in the thorough tier",
		"PA-data hint encodings are produced by the independent DER writer ref/der")
	if _, err := rcrypto.SelfTest(); err != nil {
		engine.Fatal("%v", err)
	}
	s2kGrid(c)
	nfoldAndDerivation(c)
	paDataPrecedence(c)
	defaultSalts(c)
	clientHintPrecedence(c)
	generatedKeys(c)
	ev := c.Counter("evaluations")
	c.Add("states", ev)
	c.Add("transitions", ev)
	c.Add("traces_validated_against_impl", ev)
	c.Cov["rule"] = "string-to-key: etype(6) x 14 passwords x 5 salts x iteration counts (quick: 1..64, powers of two, defaults on a sub-grid; thorough: 1..5000) x malformed parameters; n-fold: every input length 1..64 x output sizes {8,16,21,24,32} x all unit-bit vectors, all-ones, seeded; DK/DR/KDF with constants of every length 1..16 and the usage constants of every usage number 0..1200 and of numbers carrying a tag octet (0x55/0x99/0xAA) in any byte; DES3 random-to-key: all 256 values at each byte position + pre-images of all 16 weak keys in each third; GetKeyFromPassword: every ordered sequence of every subset of the three PA-data hints (x etype named by each hint); the same hint sequences (with decoys in the lower-precedence kinds) presented by a simulated KDC to the real client's login for 9 (real, decoy) etype pairs; default salt: 10 realms (case, non-ASCII, empty, blanks) x 10 names x etypes x {no hints, hints without salt}; generated keys for each etype. distinct = (sub-space, etype, cell) combinations that agreed with the reference"
}

func s2kGrid(c *engine.Ctx) {
	type job struct {
		et     int32
		pw, sa string
		params []byte // nil = default
	}
	var jobs []job
	for _, et := range rcrypto.Etypes {
		aes := et != rcrypto.DES3 && et != rcrypto.RC4
		for pi, pw := range passwords {
			for si, sa := range salts {
				if et == rcrypto.DES3 && pw == "" && sa == "" {
					continue // not judged: n-fold of the empty string is undefined in RFC 3961
				}
				if !aes {
					jobs = append(jobs, job{et, pw, sa, nil})
					continue
				}
				// small iteration counts everywhere; the default count on a sub-grid
				for _, it := range []uint32{1, 2, 3} {
					jobs = append(jobs, job{et, pw, sa, be32(it)})
				}
				if (pi+si)%5 == 0 {
					jobs = append(jobs, job{et, pw, sa, nil})
				}
			}
		}
		if aes {
			// iteration sweep on two (password, salt) pairs
			hi := uint32(64)
			if c.Thorough() {
				hi = 5000
			}
			for _, ps := range [][2]string{{"password", "ATHENA.MIT.EDUraeburn"}, {"é\U0001D11Ez", "EXAMPLE.COMJurišić"}} {
				for it := uint32(1); it <= hi; it++ {
					jobs = append(jobs, job{et, ps[0], ps[1], be32(it)})
				}
				for it := uint32(128); it <= 65536; it *= 2 {
					jobs = append(jobs, job{et, ps[0], ps[1], be32(it)})
				}
				if !c.Thorough() {
					break
				}
			}
		}
	}
	var jlines []string
	var jwant []string
	var jmu sync.Mutex
	var wg sync.WaitGroup
	ch := make(chan job, 64)
	for w := 0; w < 16; w++ {
		wg.Add(1)
		go func() {
			defer wg.Done()
			for j := range ch {
				g := goET(j.et)
				ps := g.GetDefaultStringToKeyParams()
				if j.params != nil {
					ps = hex.EncodeToString(j.params)
				}
				cs := s2kCase{j.et, hex.EncodeToString([]byte(j.pw)), hex.EncodeToString([]byte(j.sa)), ps}
				var got []byte
				var err error
				if pn := safely(func() { got, err = g.StringToKey(j.pw, j.sa, ps) }); pn != "" {
					c.Violate("s2k", fmt.Sprintf("s2k:et%d:panic", j.et), map[string]interface{}{"panic": pn}, cs)
					continue
				}
				c.Add("evaluations", 1)
				want, rerr := rcrypto.StringToKey(j.et, j.pw, j.sa, j.params)
				if rerr != nil {
					engine.Fatal("reference s2k: %v", rerr)
				}
				if err != nil || !bytes.Equal(got, want) {
					c.Violate("s2k", fmt.Sprintf("s2k:et%d:%s", j.et, pwClass(j.pw)), map[string]interface{}{"got": hex.EncodeToString(got), "want": hex.EncodeToString(want), "err": fmt.Sprint(err)}, cs)
					continue
				}
				c.Distinct(fmt.Sprintf("s2k/%d/%s/%s/%s", j.et, cs.PW, cs.Salt, ps))
				if c.Thorough() {
					p := "-"
					if j.params != nil {
						p = hex.EncodeToString(j.params)
					}
					jmu.Lock()
					jlines = append(jlines, fmt.Sprintf("S %d %s %s %s", j.et, hexOrDash([]byte(j.pw)), hexOrDash([]byte(j.sa)), p))
					jwant = append(jwant, hex.EncodeToString(want))
					jmu.Unlock()
				}
			}
		}()
	}
	for _, j := range jobs {
		ch <- j
	}
	close(ch)
	wg.Wait()
	c.Note("not judged: des3 string-to-key of an empty password with an empty salt (168-fold of the empty string is undefined in RFC 3961)")
	c.Sample(map[string]interface{}{"etype": 23, "password": "\U0001D11E", "salt": "", "expect": "MD4(UTF-16LE) with a surrogate pair"})
	// malformed parameters must be rejected by the PBKDF2-based etypes
	for _, et := range []int32{rcrypto.AES128, rcrypto.AES256, rcrypto.A128S2, rcrypto.A256S2} {
		g := goET(et)
		for _, bad := range []string{"", "00", "000010", "0000100000", "0000100g", "zzzzzzzz", "00 01000", "-0001000"} {
			var k []byte
			var err error
			pn := safely(func() { k, err = g.StringToKey("password", "salt", bad) })
			c.Add("evaluations", 1)
			cs := s2kCase{et, hex.EncodeToString([]byte("password")), hex.EncodeToString([]byte("salt")), bad}
			if pn != "" {
				c.Violate("s2k", fmt.Sprintf("s2k:et%d:malformed-params-panic", et), map[string]interface{}{"panic": pn}, cs)
			} else if err == nil {
				c.Violate("s2k", fmt.Sprintf("s2k:et%d:malformed-params-accepted", et), map[string]interface{}{"params": bad, "key": hex.EncodeToString(k)}, cs)
			} else {
				c.Distinct(fmt.Sprintf("s2k-bad/%d/%s", et, bad))
			}
		}
	}
	if len(jlines) > 0 {
		ans, err := engine.JRefBatch("KrbOracle", jlines)
		if err != nil {
			engine.Fatal("jref: %v", err)
		}
		agree, noop := 0, 0
		for i, a := range ans {
			switch {
			case a == jwant[i]:
				agree++
			case strings.HasPrefix(a, "ERR"):
				noop++ // the JDK refuses e.g. small iteration counts: no opinion
			default:
				c.Note("ORACLE-DISAGREEMENT jdk vs reference: %s -> %s want %s", jlines[i], a, jwant[i])
				c.Add("oracle_disagreements", 1)
			}
		}
		c.Cov["jdk_s2k_agreed"] = agree
		c.Cov["jdk_s2k_no_opinion"] = noop
	}
}

func pwClass(pw string) string {
	cl := "ascii"
	for _, r := range pw {
		switch {
		case r > 0xffff:
			return "supplementary-plane"
		case r > 0xff:
			cl = "bmp"
		case r > 0x7f && cl == "ascii":
			cl = "latin1"
		}
	}
	return cl
}

func nfoldAndDerivation(c *engine.Ctx) {
	r := rand.New(rand.NewSource(c.Seed + 8))
	outs := []int{8, 16, 21, 24, 32}
	for l := 1; l <= 64; l++ {
		var inputs [][]byte
		for i := 0; i < l*8; i++ {
			b := make([]byte, l)
			b[i/8] = 1 << uint(7-i%8)
			inputs = append(inputs, b)
		}
		inputs = append(inputs, bytes.Repeat([]byte{0xff}, l), randBytes(r, l), randBytes(r, l))
		for _, in := range inputs {
			for _, o := range outs {
				var got []byte
				if pn := safely(func() { got = rfc3961.Nfold(append([]byte{}, in...), o*8) }); pn != "" {
					c.Violate("nfold", "nfold:panic", map[string]interface{}{"panic": pn}, map[string]interface{}{"in": hex.EncodeToString(in), "out_bytes": o})
					continue
				}
				c.Add("evaluations", 1)
				if want := rcrypto.NFold(in, o); !bytes.Equal(got, want) {
					c.Violate("nfold", fmt.Sprintf("nfold:differs:out%d", o), map[string]interface{}{"got": hex.EncodeToString(got), "want": hex.EncodeToString(want)}, map[string]interface{}{"in": hex.EncodeToString(in), "out_bytes": o})
				} else {
					c.Distinct(fmt.Sprintf("nfold/%d/%d", l, o))
				}
			}
		}
	}
	// DK / DR with constants of every length 1..16 (RFC 3961 etypes) and usage constants
	for _, et := range []int32{rcrypto.DES3, rcrypto.AES128, rcrypto.AES256} {
		g := goET(et)
		for _, key := range keys(et, 2, c.Seed) {
			var consts [][]byte
			for l := 1; l <= 16; l++ {
				consts = append(consts, randBytes(r, l), bytes.Repeat([]byte{0}, l))
			}
			consts = append(consts, []byte("kerberos"), []byte("prf"), []byte("signaturekey\x00"))
			for _, u := range denseUsages(key) {
				for _, tag := range []byte{0x99, 0xAA, 0x55} {
					consts = append(consts, append(be32(u), tag))
				}
			}
			for _, k := range consts {
				cs := map[string]interface{}{"etype": et, "key": hex.EncodeToString(key), "constant": hex.EncodeToString(k)}
				var dr, dk []byte
				var e1, e2 error
				if pn := safely(func() {
					dr, e1 = g.DeriveRandom(key, append([]byte{}, k...))
					dk, e2 = g.DeriveKey(key, append([]byte{}, k...))
				}); pn != "" {
					c.Violate("dk", fmt.Sprintf("dk:et%d:panic", et), map[string]interface{}{"panic": pn}, cs)
					continue
				}
				c.Add("evaluations", 2)
				wr, _ := rcrypto.DR(et, key, k)
				wk, _ := rcrypto.DK(et, key, k)
				if e1 != nil || !bytes.Equal(dr, wr) {
					c.Violate("dk", fmt.Sprintf("dr:et%d:differs:constlen%d", et, len(k)), map[string]interface{}{"got": hex.EncodeToString(dr), "want": hex.EncodeToString(wr), "err": fmt.Sprint(e1)}, cs)
				} else if e2 != nil || !bytes.Equal(dk, wk) {
					c.Violate("dk", fmt.Sprintf("dk:et%d:differs:constlen%d", et, len(k)), map[string]interface{}{"got": hex.EncodeToString(dk), "want": hex.EncodeToString(wk), "err": fmt.Sprint(e2)}, cs)
				} else {
					c.Distinct(fmt.Sprintf("dk/%d/%d", et, len(k)))
				}
			}
		}
	}
	// the usage constants as the library itself builds them from a usage number (RFC 3961 5.3: the number as four
	// octets, most significant first, followed by 0xAA / 0x99 / 0x55)
	for _, u := range append(denseUsages(nil), 0x00010005, 0x00020000, 0x00ff0000, 0x12345678, 0x89abcdef, 0xffffffff, 0x00018000, 0x0003ffff, 0x00040000) {
		for tag, f := range map[byte]func(uint32) []byte{0xAA: common.GetUsageKe, 0x99: common.GetUsageKc, 0x55: common.GetUsageKi} {
			c.Add("evaluations", 1)
			if got, want := f(u), append(be32(u), tag); !bytes.Equal(got, want) {
				c.Violate("dk", fmt.Sprintf("usage-constant:differs:tag-%02x:%s", tag, usageWidth(u)), map[string]interface{}{"got": hex.EncodeToString(got), "want": hex.EncodeToString(want)}, map[string]interface{}{"usage": u})
			}
		}
	}
	c.Distinct("usage-constants")
	// RFC 8009: Kc/Ke/Ki and "kerberos" through DeriveKey, and KDF-HMAC-SHA2 directly with labels of every length
	for _, et := range []int32{rcrypto.A128S2, rcrypto.A256S2} {
		g := goET(et)
		p, _ := rcrypto.Get(et)
		for _, key := range keys(et, 2, c.Seed) {
			for _, u := range denseUsages(key) {
				for _, tag := range []byte{0x99, 0xAA, 0x55} {
					k := append(be32(u), tag)
					got, err := g.DeriveKey(key, k)
					want, _ := rcrypto.DeriveKey(et, key, k)
					c.Add("evaluations", 1)
					if err != nil || !bytes.Equal(got, want) {
						c.Violate("dk", fmt.Sprintf("kdf:et%d:usage-key-%02x-differs", et, tag), map[string]interface{}{"got": hex.EncodeToString(got), "want": hex.EncodeToString(want)}, map[string]interface{}{"etype": et, "key": hex.EncodeToString(key), "constant": hex.EncodeToString(k)})
					} else {
						c.Distinct(fmt.Sprintf("kdf/%d/%d/%02x", et, u, tag))
					}
				}
			}
			got, err := g.DeriveKey(key, []byte("kerberos"))
			want := rcrypto.KDFHMACSHA2(et, key, []byte("kerberos"), p.KeyLen*8)
			c.Add("evaluations", 1)
			if err != nil || !bytes.Equal(got, want) {
				c.Violate("dk", fmt.Sprintf("kdf:et%d:kerberos-differs", et), map[string]interface{}{"got": hex.EncodeToString(got), "want": hex.EncodeToString(want)}, nil)
			}
			for l := 1; l <= 16; l++ {
				label := randBytes(r, l)
				for _, bits := range []int{128, 192, 256} {
					if et == rcrypto.A128S2 && bits > 256 {
						continue
					}
					got := rfc8009.KDF_HMAC_SHA2(key, label, nil, bits, g)
					want := rcrypto.KDFHMACSHA2(et, key, label, bits)
					c.Add("evaluations", 1)
					if !bytes.Equal(got, want) {
						c.Violate("dk", fmt.Sprintf("kdf:et%d:label-len-%d", et, l), map[string]interface{}{"got": hex.EncodeToString(got), "want": hex.EncodeToString(want)}, nil)
					} else {
						c.Distinct(fmt.Sprintf("kdf-label/%d/%d/%d", et, l, bits))
					}
				}
			}
		}
	}
	// DES3 random-to-key: every value at every byte position, and weak-key pre-images in each third
	g := goET(rcrypto.DES3)
	base := randBytes(r, 21)
	var seeds [][]byte
	for pos := 0; pos < 21; pos++ {
		for v := 0; v < 256; v++ {
			s := append([]byte{}, base...)
			s[pos] = byte(v)
			seeds = append(seeds, s)
		}
	}
	for _, w := range rcrypto.WeakDESKeys() {
		pre := make([]byte, 7)
		for i := 0; i < 7; i++ {
			pre[i] = (w[i] &^ 1) | (w[7]>>uint(i+1))&1
		}
		for third := 0; third < 3; third++ {
			s := append([]byte{}, base...)
			copy(s[7*third:], pre)
			seeds = append(seeds, s)
		}
		all := append(append(append([]byte{}, pre...), pre...), pre...)
		seeds = append(seeds, all)
	}
	weakSeen := 0
	for _, s := range seeds {
		var got []byte
		if pn := safely(func() { got = g.RandomToKey(append([]byte{}, s...)) }); pn != "" {
			c.Violate("r2k", "des3-random-to-key:panic", map[string]interface{}{"panic": pn}, map[string]interface{}{"seed": hex.EncodeToString(s)})
			continue
		}
		c.Add("evaluations", 1)
		want := rcrypto.DES3RandomToKey(s)
		if !bytes.Equal(got, want) {
			c.Violate("r2k", "des3-random-to-key:differs", map[string]interface{}{"got": hex.EncodeToString(got), "want": hex.EncodeToString(want)}, map[string]interface{}{"seed": hex.EncodeToString(s)})
			continue
		}
		// independent sanity: odd parity everywhere and no weak key in any third
		for i := 0; i < 24; i++ {
			ones := 0
			for b := 0; b < 8; b++ {
				ones += int(got[i]>>uint(b)) & 1
			}
			if ones%2 != 1 {
				c.Violate("r2k", "des3-random-to-key:parity", nil, map[string]interface{}{"seed": hex.EncodeToString(s)})
			}
		}
		for third := 0; third < 3; third++ {
			for _, w := range rcrypto.WeakDESKeys() {
				if bytes.Equal(got[8*third:8*third+8], w[:]) {
					c.Violate("r2k", "des3-random-to-key:weak-key-not-corrected", nil, map[string]interface{}{"seed": hex.EncodeToString(s)})
				}
				x := append([]byte{}, w[:]...)
				x[7] ^= 0xF0
				if bytes.Equal(got[8*third:8*third+8], x) {
					weakSeen++
				}
			}
		}
		c.Distinct("r2k/" + hex.EncodeToString(s[:3]))
	}
	c.Cov["des3_weak_key_corrections_exercised"] = weakSeen
}

// ---- PA-data precedence ------------------------------------------------

const (
	paPWSalt = 3
	paInfo   = 11
	paInfo2  = 19
)

func etypeInfo2(et int32, salt *string, params []byte) []byte {
	var items [][]byte
	items = append(items, der.Explicit(0, der.Int(int64(et))))
	if salt != nil {
		items = append(items, der.Explicit(1, der.GeneralString(*salt)))
	}
	if params != nil {
		items = append(items, der.Explicit(2, der.Octets(params)))
	}
	return der.Seq(der.Seq(items...))
}

func etypeInfo(et int32, salt *string) []byte {
	var items [][]byte
	items = append(items, der.Explicit(0, der.Int(int64(et))))
	if salt != nil {
		items = append(items, der.Explicit(1, der.Octets([]byte(*salt))))
	}
	return der.Seq(der.Seq(items...))
}

// flipEtype returns the other of the two candidates {et, otherEtype(et)}.
func flipEtype(et, cur int32) int32 {
	if cur == et {
		return otherEtype(et)
	}
	return et
}

func paDataPrecedence(c *engine.Ctx) {
	cname := types.PrincipalName{NameType: nametype.KRB_NT_PRINCIPAL, NameString: []string{"user", "admin"}}
	realm := "EXAMPLE.COM"
	defSalt := realm + "user" + "admin"
	sPW, sI, sI2 := "salt-from-pw-salt", "salt-from-etype-info", "salt-from-etype-info2"
	kinds := []int32{paPWSalt, paInfo, paInfo2}
	// every ordered sequence of every subset
	var seqs [][]int32
	var rec func(cur []int32, used int)
	rec = func(cur []int32, used int) {
		seqs = append(seqs, append([]int32{}, cur...))
		for i, k := range kinds {
			if used&(1<<uint(i)) == 0 {
				rec(append(cur, k), used|1<<uint(i))
			}
		}
	}
	rec(nil, 0)
	for _, et := range rcrypto.Etypes {
		aes := et != rcrypto.DES3 && et != rcrypto.RC4
		for _, withParams := range []bool{false, true} {
			if withParams && !aes {
				continue
			}
			for _, hintEt := range []int32{et, otherEtype(et)} {
				// the etype named by ETYPE-INFO, independently of the one named by ETYPE-INFO2 (hintEt)
				for _, hintEtInfo := range []int32{hintEt, flipEtype(et, hintEt)} {
					for _, seq0 := range seqs {
						// which of the two structured hints come without a salt (0: none, 1: ETYPE-INFO2, 2: ETYPE-INFO, 3: both):
						// a winning hint without a salt means the default salt, whatever salts the losing hints carry
						for saltless := 0; saltless < 4; saltless++ {
							// unrelated PA-data elements (types below, between and above the hint types) at every position must not matter
							for _, unrelated := range unrelatedVariants(len(seq0)) {
								if saltless > 0 && (len(unrelated) > 0 || hintEtInfo != hintEt || aes && !withParams) {
									continue
								}
								seq := seq0
								if aes && !withParams && len(unrelated) > 0 {
									continue // default iteration counts are expensive; the interleavings run with explicit parameters and on des3/rc4
								}
								if hintEtInfo != hintEt && (len(unrelated) > 0 || aes && !withParams) {
									continue // the two hints naming different etypes: without unrelated elements, cheap parameters only
								}
								var pas types.PADataSequence
								emit := func(pos int) {
									for _, t := range unrelated[pos] {
										pas = append(pas, types.PAData{PADataType: t, PADataValue: []byte{0x30, 0x00}})
									}
								}
								for pos, k := range seq {
									emit(pos)
									switch k {
									case paPWSalt:
										pas = append(pas, types.PAData{PADataType: paPWSalt, PADataValue: []byte(sPW)})
									case paInfo:
										si := &sI
										if saltless&2 != 0 {
											si = nil
										}
										pas = append(pas, types.PAData{PADataType: paInfo, PADataValue: etypeInfo(hintEtInfo, si)})
									case paInfo2:
										var pr []byte
										if withParams {
											pr = be32(7)
										}
										si2 := &sI2
										if saltless&1 != 0 {
											si2 = nil
										}
										pas = append(pas, types.PAData{PADataType: paInfo2, PADataValue: etypeInfo2(hintEt, si2, pr)})
									}
								}
								emit(len(seq))
								has := func(k int32) bool {
									for _, x := range seq {
										if x == k {
											return true
										}
									}
									return false
								}
								// RFC 4120 5.2.7.5: ETYPE-INFO2 > ETYPE-INFO > PW-SALT > default
								wantSalt, wantEt := defSalt, et
								var wantParams []byte
								switch {
								case has(paInfo2):
									wantSalt, wantEt = sI2, hintEt
									if saltless&1 != 0 {
										wantSalt = defSalt
									}
									if withParams {
										wantParams = be32(7)
									}
								case has(paInfo):
									wantSalt, wantEt = sI, hintEtInfo
									if saltless&2 != 0 {
										wantSalt = defSalt
									}
								case has(paPWSalt):
									wantSalt = sPW
								}
								if _, ok := rcrypto.Get(wantEt); !ok {
									continue
								}
								if wantEt == rcrypto.DES3 || wantEt == rcrypto.RC4 {
									wantParams = nil
								}
								cs := map[string]interface{}{"etype": et, "hint_etype": hintEt, "etype_info_names_etype": hintEtInfo, "hints_without_salt": []string{"none", "ETYPE-INFO2", "ETYPE-INFO", "both"}[saltless], "sequence": seq, "with_s2kparams": withParams, "unrelated_padata_at_positions": unrelated}
								var key types.EncryptionKey
								var err error
								var gotEt int32
								if pn := safely(func() {
									k, e, er := crypto.GetKeyFromPassword("pa55word", cname, realm, et, pas)
									key, err = k, er
									if e != nil {
										gotEt = e.GetETypeID()
									}
								}); pn != "" {
									c.Violate("padata", fmt.Sprintf("padata:et%d:panic", et), map[string]interface{}{"panic": pn}, cs)
									continue
								}
								c.Add("evaluations", 1)
								want, rerr := rcrypto.StringToKey(wantEt, "pa55word", wantSalt, wantParams)
								if rerr != nil {
									engine.Fatal("reference: %v", rerr)
								}
								if err != nil || !bytes.Equal(key.KeyValue, want) {
									used := whichSalt(et, hintEt, key.KeyValue, []string{defSalt, sPW, sI, sI2}, withParams)
									c.Violate("padata", fmt.Sprintf("padata:precedence:%s", seqName(seq)), map[string]interface{}{"err": fmt.Sprint(err), "want_salt": wantSalt, "gokrb5_used": used, "want_etype": wantEt, "got_etype": gotEt}, cs)
									continue
								}
								if gotEt != wantEt {
									c.Violate("padata", fmt.Sprintf("padata:etype:%s", seqName(seq)), map[string]interface{}{"want_etype": wantEt, "got_etype": gotEt}, cs)
									continue
								}
								c.Distinct(fmt.Sprintf("padata/%d/%d/%d/%v/%s/%v/%d", et, hintEt, hintEtInfo, withParams, seqName(seq), unrelated, saltless))
							}
						}
					}
				}
			}
		}
	}
	c.Sample(map[string]interface{}{"padata_sequence": "[ETYPE-INFO2, PW-SALT]", "expect": "salt and s2kparams from ETYPE-INFO2 although PW-SALT comes later"})
	c.Note("not judged: a PREAUTH_REQUIRED error whose e-data carries PA-PW-SALT alone (no etype named): the client fails with 'unsupported EType: 0'")
	c.Note("not judged: EncryptionKey.KeyType when the hint's etype differs from the requested etype (gokrb5 labels the key with the requested id)")
}

// defaultSalts: the default salt is the realm exactly as given followed by the name components exactly as given
// (RFC 4120 section 4, RFC 3961 appendix / RFC 3962 section 4); realm and component names are case sensitive and
// are not transformed. Judged on GetSalt and on every path that falls back to it: no hints, hints without a salt.
func defaultSalts(c *engine.Ctx) {
	realms := []string{"EXAMPLE.COM", "example.com", "Example.Com", "ATHENA.MIT.EDU", "athena.mit.edu", "ÉCOLE.Fr", "A", "", "r e a l m", "EXAMPLE.COM "}
	names := [][]string{{"user"}, {"User"}, {"USER"}, {"HTTP", "www.Example.org"}, {"host", "a", "b"}, {"Jurišić"}, {""}, {}, {"a/b"}, {"x", ""}}
	for _, realm := range realms {
		for _, ns := range names {
			cname := types.PrincipalName{NameType: nametype.KRB_NT_PRINCIPAL, NameString: ns}
			want := realm + strings.Join(ns, "")
			cs := map[string]interface{}{"realm": realm, "name": ns}
			var got string
			if pn := safely(func() { got = cname.GetSalt(realm) }); pn != "" {
				c.Violate("defsalt", "defsalt:panic", map[string]interface{}{"panic": pn}, cs)
				continue
			}
			c.Add("evaluations", 1)
			if got != want {
				c.Violate("defsalt", "defsalt:GetSalt:"+saltShape(realm, ns, got), map[string]interface{}{"got": got, "want": want}, cs)
			}
			for _, et := range rcrypto.Etypes {
				aes := et != rcrypto.DES3 && et != rcrypto.RC4
				type variant struct {
					name   string
					pas    types.PADataSequence
					params []byte
				}
				vs := []variant{}
				if aes {
					// cheap iteration count through ETYPE-INFO2 without a salt
					vs = append(vs, variant{"etype-info2-without-salt", types.PADataSequence{{PADataType: paInfo2, PADataValue: etypeInfo2(et, nil, be32(3))}}, be32(3)})
					vs = append(vs, variant{"unrelated-then-etype-info2-without-salt", types.PADataSequence{{PADataType: 133, PADataValue: []byte{0x30, 0}}, {PADataType: paInfo2, PADataValue: etypeInfo2(et, nil, be32(3))}}, be32(3)})
				} else {
					vs = append(vs, variant{"no-hints", nil, nil})
					vs = append(vs, variant{"etype-info-without-salt", types.PADataSequence{{PADataType: paInfo, PADataValue: etypeInfo(et, nil)}}, nil})
					vs = append(vs, variant{"etype-info2-without-salt", types.PADataSequence{{PADataType: paInfo2, PADataValue: etypeInfo2(et, nil, nil)}}, nil})
				}
				for _, v := range vs {
					cs := map[string]interface{}{"realm": realm, "name": ns, "etype": et, "hints": v.name}
					var key types.EncryptionKey
					var err error
					if pn := safely(func() { key, _, err = crypto.GetKeyFromPassword("pa55word", cname, realm, et, v.pas) }); pn != "" {
						c.Violate("defsalt", fmt.Sprintf("defsalt:et%d:panic", et), map[string]interface{}{"panic": pn}, cs)
						continue
					}
					c.Add("evaluations", 1)
					wk, rerr := rcrypto.StringToKey(et, "pa55word", want, v.params)
					if rerr != nil {
						engine.Fatal("reference: %v", rerr)
					}
					if err != nil || !bytes.Equal(key.KeyValue, wk) {
						c.Violate("defsalt", fmt.Sprintf("defsalt:key:%s:%s", v.name, saltShape(realm, ns, "")), map[string]interface{}{"err": fmt.Sprint(err), "want_salt": want}, cs)
						continue
					}
					c.Distinct(fmt.Sprintf("defsalt/%d/%s/%q/%q", et, v.name, realm, ns))
				}
			}
		}
	}
	// the default iteration count together with the default salt, once per AES etype, on a realm that is not upper case
	for _, et := range rcrypto.Etypes {
		if et == rcrypto.DES3 || et == rcrypto.RC4 {
			continue
		}
		cname := types.PrincipalName{NameType: nametype.KRB_NT_PRINCIPAL, NameString: []string{"raeburn"}}
		key, _, err := crypto.GetKeyFromPassword("password", cname, "Athena.mit.edu", et, nil)
		wk, _ := rcrypto.StringToKey(et, "password", "Athena.mit.eduraeburn", nil)
		c.Add("evaluations", 1)
		if err != nil || !bytes.Equal(key.KeyValue, wk) {
			c.Violate("defsalt", "defsalt:key:no-hints:realm-not-upper-case", map[string]interface{}{"err": fmt.Sprint(err)}, map[string]interface{}{"etype": et, "realm": "Athena.mit.edu", "name": "raeburn"})
		} else {
			c.Distinct(fmt.Sprintf("defsalt/%d/no-hints-default-iterations", et))
		}
	}
}

// saltShape classifies a realm/name pair for violation keys (so that one defect gives few keys).
func saltShape(realm string, ns []string, got string) string {
	switch {
	case realm != strings.ToUpper(realm):
		return "realm-not-upper-case"
	case strings.Join(ns, "") != strings.ToLower(strings.Join(ns, "")):
		return "name-not-lower-case"
	case realm == "":
		return "empty-realm"
	case len(ns) == 0 || strings.Join(ns, "") == "":
		return "empty-name"
	case len(ns) > 1:
		return "several-components"
	}
	return "plain"
}

// clientHintPrecedence: the same precedence through the real client. A simulated KDC answers the first AS-REQ
// with PREAUTH_REQUIRED whose e-data carries every ordered sequence of every non-empty subset of the three hint
// kinds; the kind of highest precedence carries the principal's real etype, salt and parameters, the others carry
// decoys. The login must succeed, i.e. the PA-ENC-TIMESTAMP must be made with the real etype's key.
func clientHintPrecedence(c *engine.Ctx) {
	defer vclock.Real()
	kinds := []int32{paPWSalt, paInfo, paInfo2}
	var seqs [][]int32
	var rec func(cur []int32, used int)
	rec = func(cur []int32, used int) {
		if len(cur) > 0 {
			seqs = append(seqs, append([]int32{}, cur...))
		}
		for i, k := range kinds {
			if used&(1<<uint(i)) == 0 {
				rec(append(cur, k), used|1<<uint(i))
			}
		}
	}
	rec(nil, 0)
	pairs := [][2]int32{{18, 17}, {17, 18}, {23, 17}, {17, 23}, {18, 23}, {16, 18}, {19, 20}, {20, 19}, {18, 18}}
	for _, pr := range pairs {
		for _, seq := range seqs {
			if len(seq) == 1 && seq[0] == paPWSalt {
				// a PREAUTH_REQUIRED error naming no etype at all: which etype the client then uses is not stated by the
				// property (gokrb5 gives up: "unknown or unsupported EType: 0"); not judged
				c.Add("not_judged", 1)
				continue
			}
			o := cworld.DefaultOpts()
			o.Cred, o.PreAuth = "password", "required"
			o.ETypes = []int32{pr[0], pr[1]}
			if pr[0] == pr[1] {
				o.ETypes = []int32{pr[0]}
			}
			salt := "the principal's real salt"
			o.Salt = &salt
			o.HintSeq, o.DecoyEtype = seq, pr[1]
			vclock.Virtual(cworld.T0)
			var err error
			var w *cworld.World
			pn := safely(func() {
				w = cworld.New(o)
				err = w.Client.Login()
			})
			c.Add("evaluations", 1)
			cs := map[string]interface{}{"real_etype": pr[0], "decoy_etype": pr[1], "hint_sequence": seqName(seq)}
			switch {
			case pn != "":
				c.Violate("padata", "client:hint-precedence:panic", map[string]interface{}{"panic": pn}, cs)
			case err != nil:
				var kv []string
				if w != nil {
					kv = w.Violations()
				}
				c.Violate("padata", "client:hint-precedence:login-fails:"+seqName(seq), map[string]interface{}{"err": truncErr(err), "kdc_says": kv}, cs)
			default:
				c.Distinct(fmt.Sprintf("client-hints/%d/%d/%s", pr[0], pr[1], seqName(seq)))
			}
		}
	}
}

func truncErr(err error) string {
	s := err.Error()
	if len(s) > 400 {
		s = s[:400]
	}
	return s
}

func usageWidth(u uint32) string {
	switch {
	case u < 256:
		return "usage<256"
	case u < 65536:
		return "usage<65536"
	case u < 1<<24:
		return "usage<2^24"
	}
	return "usage>=2^24"
}

// denseUsages: the named usage set, every usage number 0..1200, and numbers carrying one of the three derivation
// tag octets (0x55, 0x99, 0xAA) in each byte position, alone and next to another tag octet.
func denseUsages(key []byte) []uint32 {
	out := append([]uint32{}, Usages...)
	seen := map[uint32]bool{}
	for _, u := range out {
		seen[u] = true
	}
	add := func(u uint32) {
		if !seen[u] {
			seen[u] = true
			out = append(out, u)
		}
	}
	for u := uint32(0); u <= 1200; u++ {
		add(u)
	}
	tags := []uint32{0x55, 0x99, 0xAA}
	for _, t := range tags {
		for sh := uint(0); sh < 32; sh += 8 {
			add(t << sh)
			add(t<<sh | 1)
			for _, t2 := range tags {
				add(t<<sh | t2<<((sh+8)%32))
			}
		}
	}
	return out
}

func otherEtype(et int32) int32 {
	if et == rcrypto.AES256 {
		return rcrypto.AES128
	}
	return rcrypto.AES256
}

func seqName(seq []int32) string {
	var s []string
	for _, k := range seq {
		s = append(s, map[int32]string{paPWSalt: "PW-SALT", paInfo: "ETYPE-INFO", paInfo2: "ETYPE-INFO2"}[k])
	}
	if len(s) == 0 {
		return "none"
	}
	return strings.Join(s, ",")
}

func whichSalt(et, hintEt int32, key []byte, salts []string, withParams bool) string {
	for _, e := range []int32{et, hintEt} {
		for _, s := range salts {
			for _, p := range [][]byte{nil, be32(7)} {
				if k, err := rcrypto.StringToKey(e, "pa55word", s, p); err == nil && bytes.Equal(k, key) {
					return fmt.Sprintf("etype %d salt %q params %x", e, s, p)
				}
			}
		}
	}
	return "unknown"
}

func generatedKeys(c *engine.Ctx) {
	for _, et := range rcrypto.Etypes {
		p, _ := rcrypto.Get(et)
		g := goET(et)
		for rep := 0; rep < 8; rep++ {
			cs := map[string]interface{}{"etype": et, "generator": "types.GenerateEncryptionKey"}
			var k types.EncryptionKey
			var err error
			if pn := safely(func() { k, err = types.GenerateEncryptionKey(g) }); pn != "" || err != nil {
				c.Violate("genkey", fmt.Sprintf("genkey:et%d:error", et), map[string]interface{}{"panic": pn, "err": fmt.Sprint(err)}, cs)
				continue
			}
			c.Add("evaluations", 1)
			checkUsable(c, et, p, k, cs)
			var a types.Authenticator
			cs2 := map[string]interface{}{"etype": et, "generator": "Authenticator.GenerateSeqNumberAndSubKey(id, GetKeyByteSize())"}
			if pn := safely(func() { err = a.GenerateSeqNumberAndSubKey(et, g.GetKeyByteSize()) }); pn != "" || err != nil {
				c.Violate("genkey", fmt.Sprintf("subkey:et%d:error", et), map[string]interface{}{"panic": pn, "err": fmt.Sprint(err)}, cs2)
				continue
			}
			c.Add("evaluations", 1)
			checkUsable(c, et, p, a.SubKey, cs2)
		}
	}
	// one Authenticator asked for sub-keys of different etypes in turn (larger key first, then smaller, then larger):
	// every key has its etype's length, and a key handed out earlier is not changed by a later call
	for _, order := range [][]int32{{18, 17, 23, 16, 20, 19, 18}, {17, 18, 17}, {20, 19, 16, 23}, {16, 17, 16}} {
		var a types.Authenticator
		var handed []types.EncryptionKey
		var copies [][]byte
		for step, et := range order {
			g := goET(et)
			p, _ := rcrypto.Get(et)
			cs := map[string]interface{}{"etype": et, "generator": "Authenticator.GenerateSeqNumberAndSubKey on one Authenticator", "etype_order": order, "step": step}
			var err error
			if pn := safely(func() { err = a.GenerateSeqNumberAndSubKey(et, g.GetKeyByteSize()) }); pn != "" || err != nil {
				c.Violate("genkey", fmt.Sprintf("subkey:et%d:error:repeated-generation", et), map[string]interface{}{"panic": pn, "err": fmt.Sprint(err)}, cs)
				break
			}
			c.Add("evaluations", 1)
			if a.SubKey.KeyType != et || len(a.SubKey.KeyValue) != p.KeyLen {
				c.Violate("genkey", fmt.Sprintf("subkey:et%d:wrong-length:repeated-generation", et), map[string]interface{}{"len": len(a.SubKey.KeyValue), "want": p.KeyLen, "keytype": a.SubKey.KeyType}, cs)
				break
			}
			checkUsable(c, et, p, a.SubKey, cs)
			bad := false
			for i, h := range handed {
				if !bytes.Equal(h.KeyValue, copies[i]) {
					c.Violate("genkey", "subkey:earlier-key-overwritten:repeated-generation", map[string]interface{}{"earlier_step": i}, cs)
					bad = true
					break
				}
			}
			if bad {
				break
			}
			handed = append(handed, a.SubKey)
			copies = append(copies, append([]byte{}, a.SubKey.KeyValue...))
			c.Distinct(fmt.Sprintf("subkey-repeat/%v/%d", order, step))
		}
	}
}

func checkUsable(c *engine.Ctx, et int32, p rcrypto.Profile, k types.EncryptionKey, cs map[string]interface{}) {
	gen := cs["generator"].(string)
	short := "sessionkey"
	if strings.HasPrefix(gen, "Authenticator") {
		short = "subkey"
	}
	if k.KeyType != et || len(k.KeyValue) != p.KeyLen {
		c.Violate("genkey", fmt.Sprintf("%s:et%d:wrong-length", short, et), map[string]interface{}{"len": len(k.KeyValue), "want": p.KeyLen, "keytype": k.KeyType}, cs)
		return
	}
	pt := []byte("generated keys must be usable")
	ed, err := crypto.GetEncryptedData(pt, k, 11, 0)
	if err != nil {
		c.Violate("genkey", fmt.Sprintf("%s:et%d:cannot-encrypt", short, et), map[string]interface{}{"err": err.Error()}, cs)
		return
	}
	if _, back, derr := rcrypto.Decrypt(et, k.KeyValue, 11, ed.Cipher); derr != nil || !expectPlain(et, pt, back) {
		c.Violate("genkey", fmt.Sprintf("%s:et%d:reference-cannot-decrypt", short, et), map[string]interface{}{"err": fmt.Sprint(derr)}, cs)
		return
	}
	if got, err := crypto.DecryptEncPart(ed, k, 11); err != nil || !expectPlain(et, pt, got) {
		c.Violate("genkey", fmt.Sprintf("%s:et%d:cannot-decrypt", short, et), map[string]interface{}{"err": fmt.Sprint(err)}, cs)
		return
	}
	c.Distinct(fmt.Sprintf("genkey/%s/%d", short, et))
}

// unrelatedVariants returns, for a hint sequence of length n, the placements of
// unrelated PA-data types: none; each of {2 (ENC-TIMESTAMP), 16 (PK-AS-REQ),
// 133 (FX-COOKIE), 136 (FX-FAST)} at each single position 0..n; and all four
// together at the front and at the back.
func unrelatedVariants(n int) []map[int][]int32 {
	out := []map[int][]int32{{}}
	for _, t := range []int32{2, 16, 133, 136} {
		for pos := 0; pos <= n; pos++ {
			out = append(out, map[int][]int32{pos: {t}})
		}
	}
	out = append(out, map[int][]int32{0: {136, 133, 16, 2}}, map[int][]int32{n: {2, 16, 133, 136}})
	return out
}
