// Package ccrypto holds the crypto checks C05-C08: bounded-exhaustive
// differential checking of gokrb5's six encryption types against the
// independent reference (ref/rcrypto) and, in the thorough tier, OpenJDK.
package ccrypto

import (
	"fmt"
	"math/rand"

	"verif/ref/rcrypto"

	"github.com/jcmturner/gokrb5/v8/crypto"
	"github.com/jcmturner/gokrb5/v8/crypto/etype"
)

// Usages is every key usage gokrb5 names (iana/keyusage) plus boundary values.
var Usages = []uint32{1, 2, 3, 4, 5, 6, 7, 8, 9, 10, 11, 12, 13, 14, 15, 16, 17, 19, 22, 23, 24, 25, 50, 51, 52, 53, 54, 55, 56,
	127, 128, 255, 256, 1024, 1 << 31,
	// numbers that use the two middle octets of the 32-bit usage
	0x00010005, 0x00550000, 0x00aa0099, 0x12345678}

func goET(id int32) etype.EType {
	e, err := crypto.GetEtype(id)
	if err != nil {
		panic(fmt.Sprintf("gokrb5 does not know etype %d: %v", id, err))
	}
	return e
}

// keys returns n deterministic protocol keys for the etype.
func keys(et int32, n int, seed int64) [][]byte {
	r := rand.New(rand.NewSource(seed*1000 + int64(et)))
	p, _ := rcrypto.Get(et)
	var out [][]byte
	for i := 0; i < n; i++ {
		s := make([]byte, p.SeedLen)
		r.Read(s)
		out = append(out, rcrypto.RandomToKey(et, s))
	}
	if et == rcrypto.DES3 && n >= 2 {
		// "any key": the last des3 key is 24 raw random octets, i.e. without the odd parity random-to-key would give
		// (DES ignores the parity bits, so every RFC function is defined on it)
		raw := make([]byte, 24)
		r.Read(raw)
		out[n-1] = raw
	}
	return out
}

func randBytes(r *rand.Rand, n int) []byte {
	b := make([]byte, n)
	r.Read(b)
	return b
}

// safely runs f and converts a panic into an error string.
func safely(f func()) (panicked string) {
	defer func() {
		if r := recover(); r != nil {
			panicked = fmt.Sprint(r)
		}
	}()
	f()
	return ""
}

func usageClass(u uint32) string {
	if u >= 128 {
		return "usage>=128"
	}
	return "usage<128"
}
