package ccrypto

import (
	"bytes"
	"fmt"
	"sync"

	"verif/engine"
	"verif/ref/rcrypto"

	"github.com/jcmturner/gokrb5/v8/crypto"
	"github.com/jcmturner/gokrb5/v8/types"
	"github.com/jcmturner/gokrb5/v8/zzverif/vsched"
)

// Concurrency: operations issued by different goroutines on different data must not influence each other. The
// crypto code has no synchronisation today, so under the cooperative scheduler each scenario is a single schedule;
// the scenarios exist for changes that introduce shared state (a buffer pool, a key cache, a scratch buffer at
// package level): every interleaving at the synchronisation operations such a change brings (locks, channel
// operations including non-blocking selects, sync.Pool Get/Put) is explored, and a free-running -race pass over the
// same bodies covers shared state that is not synchronised at all.

type concJob struct {
	name string
	run  func() string // "" = as expected, else what went wrong
}

func concJobs(et int32, seed int64) []concJob {
	p, _ := rcrypto.Get(et)
	key := keys(et, 1, seed)[0]
	k := types.EncryptionKey{KeyType: et, KeyValue: key}
	pt1 := bytes.Repeat([]byte("genuine message one "), 4)[:70]
	pt2 := bytes.Repeat([]byte("another plaintext 22"), 4)[:70]
	g1, _ := rcrypto.EncryptWithConfounder(et, key, 11, bytes.Repeat([]byte{7}, p.Conf), pt1)
	forged := append([]byte{}, g1...)
	forged[len(forged)/2] ^= 0x10
	if et == rcrypto.RC4 {
		forged = append([]byte{}, g1...)
		forged[len(forged)-3] ^= 0x10
	}
	data := bytes.Repeat([]byte("checksummed data "), 5)
	wantCk, _ := rcrypto.Checksum(et, key, 9, data)
	badCk := append([]byte{}, wantCk...)
	badCk[0] ^= 1
	g := goET(et)
	return []concJob{
		{"decrypt-genuine", func() string {
			out, err := crypto.DecryptMessage(append([]byte{}, g1...), k, 11)
			if err != nil || !expectPlain(et, pt1, out) {
				return fmt.Sprintf("genuine ciphertext: err=%v plaintext-ok=%v", err, expectPlain(et, pt1, out))
			}
			return ""
		}},
		{"decrypt-forged", func() string {
			out, err := crypto.DecryptMessage(append([]byte{}, forged...), k, 11)
			if err == nil || len(out) != 0 {
				return "forged ciphertext decrypted without error"
			}
			return ""
		}},
		{"encrypt-roundtrip", func() string {
			_, ct, err := g.EncryptMessage(key, append([]byte{}, pt2...), 3)
			if err != nil {
				return "encrypt: " + err.Error()
			}
			_, out, err := rcrypto.Decrypt(et, key, 3, ct)
			if err != nil || !expectPlain(et, pt2, out) {
				return fmt.Sprintf("reference cannot decrypt what was encrypted: %v", err)
			}
			return ""
		}},
		{"checksum", func() string {
			got, err := g.GetChecksumHash(key, append([]byte{}, data...), 9)
			if err != nil || !bytes.Equal(got, wantCk) {
				return fmt.Sprintf("checksum differs from the reference (err=%v)", err)
			}
			if !g.VerifyChecksum(key, data, wantCk, 9) {
				return "true checksum does not verify"
			}
			if g.VerifyChecksum(key, data, badCk, 9) {
				return "forged checksum verifies"
			}
			return ""
		}},
	}
}

// concurrentSchedules explores, per etype, every interleaving (preemption bound 2) of the four jobs in separate threads.
func concurrentSchedules(c *engine.Ctx, prop string) {
	var schedules int64
	for _, et := range rcrypto.Etypes {
		jobs := concJobs(et, c.Seed)
		var results []string
		e := &engine.Explorer{Bound: 2, MaxPoints: 5000, Stop: c.Expired}
		e.Exec = func(prefix []int) *vsched.Sched {
			results = make([]string, len(jobs))
			return vsched.Run(prefix, e.MaxPoints, func() {
				for i, j := range jobs {
					i, j := i, j
					vsched.GoNamed(j.name, true, func() { results[i] = j.run() })
				}
			})
		}
		e.Check = func(x *vsched.Sched) {
			rec := map[string]interface{}{"etype": et, "schedule": x.Choices(), "trace": engine.Describe(x)}
			if x.Panic != "" {
				c.Violate("concurrent", fmt.Sprintf("concurrent:panic:et%d", et), map[string]interface{}{"panic": x.Panic}, rec)
				return
			}
			if x.Horizon || len(x.Blocked()) > 0 {
				c.Violate("concurrent", fmt.Sprintf("concurrent:deadlock-or-livelock:et%d", et), map[string]interface{}{"blocked": x.Blocked()}, rec)
				return
			}
			for i, r := range results {
				if r != "" {
					c.Violate("concurrent", fmt.Sprintf("concurrent:%s:et%d", jobs[i].name, et), map[string]interface{}{"what": r}, rec)
				}
			}
		}
		e.Run(nil)
		schedules += e.Schedules
		if e.Capped {
			c.Capped(fmt.Sprintf("concurrent crypto scenario et%d stopped by budget", et))
		}
	}
	c.Cov["concurrent_schedules"] = schedules
	c.Add("evaluations", schedules)
	// free-running complement under the race detector
	reps := 40
	if c.Thorough() {
		reps = 400
	}
	reports, runs, err := engine.RunRace("CCRACE", fmt.Sprint(reps), fmt.Sprint(c.Seed))
	if err != nil {
		engine.Fatal("%v", err)
	}
	c.Cov["race_pass_runs"] = runs
	c.Cov["race_reports"] = len(reports)
	for _, r := range reports {
		c.Violate("race", "race:"+r.Key, map[string]interface{}{"report": r.Text}, map[string]interface{}{"cmd": "vcheck-race CCRACE"})
	}
	for _, iv := range engine.RaceInvariant {
		d := ""
		if len(iv) > 1 {
			d = iv[1]
		}
		c.Violate("race", "free-running:"+iv[0], map[string]interface{}{"what": d}, map[string]interface{}{"cmd": "vcheck-race CCRACE"})
	}
	_ = prop
}

// RaceBody runs the jobs of every etype from many goroutines at once (race build, free-running).
func RaceBody(reps int, seed int64) {
	runs := 0
	var mu sync.Mutex
	failed := map[string]string{}
	for rep := 0; rep < reps; rep++ {
		var wg sync.WaitGroup
		for _, et := range rcrypto.Etypes {
			for _, j := range concJobs(et, seed) {
				for copyN := 0; copyN < 2; copyN++ {
					wg.Add(1)
					go func(et int32, j concJob) {
						defer wg.Done()
						defer func() {
							if p := recover(); p != nil {
								mu.Lock()
								failed[fmt.Sprintf("concurrent:panic:et%d", et)] = fmt.Sprint(p)
								mu.Unlock()
							}
						}()
						if r := j.run(); r != "" {
							mu.Lock()
							failed[fmt.Sprintf("concurrent:%s:et%d", j.name, et)] = r
							mu.Unlock()
						}
					}(et, j)
				}
			}
		}
		engine.WaitOrBlocked(&wg, "crypto jobs", runs)
		runs++
	}
	for k, v := range failed {
		fmt.Printf("RACE-INVARIANT %s\t%s\n", k, v)
	}
	fmt.Printf("RACE-RUNS %d\n", runs)
}

// siblingEtypes: the same key bytes and the same usage used under two encryption types of equal key length, one
// after the other in one process (17 then 19 then 17, 18 then 20 then 18, and the other way round): whatever one
// etype derived or cached must not be found by the other. Every result is compared with the reference.
func siblingEtypes(c *engine.Ctx) {
	var n int64
	for _, pair := range [][2]int32{{17, 19}, {19, 17}, {18, 20}, {20, 18}} {
		key := keys(pair[0], 1, c.Seed+21)[0]
		pt := []byte("sibling etypes share key bytes, not derived keys")
		data := []byte("checksummed under two etypes")
		for _, usage := range []uint32{2, 11, 1024} {
			for step, et := range []int32{pair[0], pair[1], pair[0], pair[1]} {
				p, _ := rcrypto.Get(et)
				g := goET(et)
				rec := map[string]interface{}{"etypes_in_order": []int32{pair[0], pair[1], pair[0], pair[1]}, "step": step, "etype": et, "usage": usage}
				n++
				_, ct, err := g.EncryptMessage(key, append([]byte{}, pt...), usage)
				if err != nil {
					c.Violate("siblings", fmt.Sprintf("sibling-etypes:encrypt-fails:et%d-after-et%d", et, other(pair, et)), map[string]interface{}{"err": err.Error()}, rec)
					continue
				}
				if _, out, rerr := rcrypto.Decrypt(et, key, usage, ct); rerr != nil || !expectPlain(et, pt, out) {
					c.Violate("siblings", fmt.Sprintf("sibling-etypes:reference-cannot-decrypt:et%d-after-et%d", et, other(pair, et)), map[string]interface{}{"err": fmt.Sprint(rerr)}, rec)
				}
				rct, _ := rcrypto.EncryptWithConfounder(et, key, usage, make([]byte, p.Conf), pt)
				if out, derr := g.DecryptMessage(key, append([]byte{}, rct...), usage); derr != nil || !expectPlain(et, pt, out) {
					c.Violate("siblings", fmt.Sprintf("sibling-etypes:rejects-reference-ciphertext:et%d-after-et%d", et, other(pair, et)), map[string]interface{}{"err": fmt.Sprint(derr)}, rec)
				}
				want, _ := rcrypto.Checksum(et, key, usage, data)
				got, cerr := g.GetChecksumHash(key, append([]byte{}, data...), usage)
				if cerr != nil || !bytes.Equal(got, want) {
					c.Violate("siblings", fmt.Sprintf("sibling-etypes:checksum-differs:et%d-after-et%d", et, other(pair, et)), map[string]interface{}{"err": fmt.Sprint(cerr)}, rec)
				} else if !g.VerifyChecksum(key, data, want, usage) {
					c.Violate("siblings", fmt.Sprintf("sibling-etypes:true-checksum-rejected:et%d-after-et%d", et, other(pair, et)), nil, rec)
				}
				// the sibling's checksum (same key bytes, same usage, same data) must not verify here
				sw, _ := rcrypto.Checksum(other(pair, et), key, usage, data)
				if !bytes.Equal(sw, want) && g.VerifyChecksum(key, data, sw, usage) {
					c.Violate("siblings", fmt.Sprintf("sibling-etypes:accepts-checksum-of-sibling:et%d", et), nil, rec)
				}
			}
		}
		c.Distinct(fmt.Sprintf("siblings/%d-%d", pair[0], pair[1]))
	}
	c.Add("evaluations", n)
}

func other(pair [2]int32, et int32) int32 {
	if et == pair[0] {
		return pair[1]
	}
	return pair[0]
}
