package ccrypto

import (
	"encoding/hex"
	"fmt"
	"math/rand"

	"verif/engine"
	"verif/ref/rcrypto"
)

type c06case struct {
	Etype    int32  `json:"etype"`
	Len      int    `json:"len"`
	Usage    uint32 `json:"usage"`
	Key      string `json:"key"`
	CT       string `json:"genuine_ct"`
	Mutation string `json:"mutation"`
	Input    string `json:"input_ct,omitempty"`
	AltKey   string `json:"alt_key,omitempty"`
	AltUsage uint32 `json:"alt_usage,omitempty"`
	AltEtype int32  `json:"alt_etype,omitempty"`
}

// RunC06 is property C06.
func RunC06(c *engine.Ctx) {
	c.Assume = append(c.Assume,
		"genuine ciphertexts are produced by the reference implementation (validated against RFC vectors) so that a symmetric error in gokrb5 cannot hide",
		"a mutated input that the reference also accepts is not judged (counted in reference_accepts, expected 0)")
	if _, err := rcrypto.SelfTest(); err != nil {
		engine.Fatal("%v", err)
	}
	r := rand.New(rand.NewSource(c.Seed))
	maxLen := 64
	lens := []int{}
	for l := 0; l <= maxLen; l++ {
		lens = append(lens, l)
	}
	const usage = 11
	var evals, rejected, refAccepts int64
	for _, et := range rcrypto.Etypes {
		p, _ := rcrypto.Get(et)
		g := goET(et)
		key := keys(et, 1, c.Seed)[0]
		otherKeys := keys(et, 4, c.Seed+77)[1:]
		for _, l := range lens {
			pt := randBytes(r, l)
			ct, err := rcrypto.EncryptWithConfounder(et, key, usage, randBytes(r, p.Conf), pt)
			if err != nil {
				engine.Fatal("reference encrypt: %v", err)
			}
			base := c06case{Etype: et, Len: l, Usage: usage, Key: hex.EncodeToString(key), CT: hex.EncodeToString(ct)}
			// the genuine ciphertext must decrypt
			if got, err := g.DecryptMessage(key, append([]byte{}, ct...), usage); err != nil || !expectPlain(et, pt, got) {
				c.Violate("genuine", fmt.Sprintf("genuine-rejected:et%d", et), map[string]interface{}{"err": fmt.Sprint(err)}, base)
				continue
			}
			try := func(mut string, et2 int32, k []byte, u uint32, in []byte, class string) {
				cs := base
				cs.Mutation, cs.Input, cs.AltKey, cs.AltUsage, cs.AltEtype = mut, hex.EncodeToString(in), hex.EncodeToString(k), u, et2
				evals++
				g2 := g
				if et2 != et {
					g2 = goET(et2)
				}
				var out []byte
				var derr error
				if pn := safely(func() { out, derr = g2.DecryptMessage(k, append([]byte{}, in...), u) }); pn != "" {
					c.Violate("mutated", fmt.Sprintf("panic:et%d:%s", et2, class), map[string]interface{}{"panic": pn, "mutation": mut}, cs)
					return
				}
				if derr == nil || len(out) != 0 {
					if _, _, rerr := rcrypto.Decrypt(et2, k, u, in); rerr == nil {
						refAccepts++
						return
					}
					c.Violate("mutated", fmt.Sprintf("accepted:et%d:%s", et2, class), map[string]interface{}{"mutation": mut, "returned_plaintext_len": len(out), "err": fmt.Sprint(derr)}, cs)
					return
				}
				rejected++
				c.Distinct(fmt.Sprintf("%d/%s", et2, class))
			}
			// every single-bit flip
			for i := 0; i < len(ct)*8; i++ {
				m := append([]byte{}, ct...)
				m[i/8] ^= 1 << uint(7-i%8)
				region := "body"
				if et == rcrypto.RC4 {
					if i/8 < 16 {
						region = "mac"
					}
				} else if i/8 >= len(ct)-p.MacLen {
					region = "mac"
				}
				try(fmt.Sprintf("flip-bit-%d", i), et, key, usage, m, "bitflip-"+region)
			}
			// every truncation
			for n := 0; n < len(ct); n++ {
				cl := "truncate"
				if n < p.MacLen {
					cl = "truncate-below-mac-length"
				} else if n < p.MacLen+p.Conf {
					cl = "truncate-below-confounder"
				}
				try(fmt.Sprintf("truncate-to-%d", n), et, key, usage, ct[:n], cl)
			}
			// appended bytes
			for _, n := range []int{1, 8, 16} {
				try(fmt.Sprintf("append-%d", n), et, key, usage, append(append([]byte{}, ct...), randBytes(r, n)...), "append")
				try(fmt.Sprintf("prepend-%d", n), et, key, usage, append(randBytes(r, n), ct...), "prepend")
			}
			// swapped aligned blocks
			bs := p.Block
			if bs < 8 {
				bs = 8
			}
			nb := len(ct) / bs
			for a := 0; a < nb; a++ {
				for b := a + 1; b < nb; b++ {
					m := append([]byte{}, ct...)
					tmp := append([]byte{}, m[a*bs:(a+1)*bs]...)
					copy(m[a*bs:], m[b*bs:(b+1)*bs])
					copy(m[b*bs:], tmp)
					try(fmt.Sprintf("swap-blocks-%d-%d", a, b), et, key, usage, m, "swap")
				}
			}
			// other usages (for rc4 modulo the RFC 4757 aliases)
			for _, u := range Usages {
				if u == usage {
					continue
				}
				if et == rcrypto.RC4 && rcrypto.RC4UsageClass(u) == rcrypto.RC4UsageClass(usage) {
					continue
				}
				try(fmt.Sprintf("usage-%d", u), et, key, u, ct, "other-usage")
			}
			// dense usage sweep for two lengths: every usage 1..1200 and around the powers of two
			if l == 0 || l == 17 {
				var dense []uint32
				for u := uint32(1); u <= 1200; u++ {
					dense = append(dense, u)
				}
				for k := uint(11); k < 32; k++ {
					dense = append(dense, 1<<k-1, 1<<k, 1<<k+usage)
				}
				for _, u := range dense {
					if u == usage || (et == rcrypto.RC4 && rcrypto.RC4UsageClass(u) == rcrypto.RC4UsageClass(usage)) {
						continue
					}
					try(fmt.Sprintf("usage-%d", u), et, key, u, ct, "other-usage")
				}
			}
			// unrelated keys
			for i, k := range otherKeys {
				try(fmt.Sprintf("other-key-%d", i), et, k, usage, ct, "other-key")
			}
			// the same key bytes under another etype of equal key length
			for _, et2 := range rcrypto.Etypes {
				p2, _ := rcrypto.Get(et2)
				if et2 != et && p2.KeyLen == p.KeyLen {
					try(fmt.Sprintf("as-etype-%d", et2), et2, key, usage, ct, "other-etype")
				}
			}
			// sequence on ONE buffer: a failed attempt with another key must not spoil the buffer for the right key
			seq := append([]byte{}, ct...)
			if out, err := g.DecryptMessage(otherKeys[0], seq, usage); err == nil || len(out) != 0 {
				c.Violate("mutated", fmt.Sprintf("accepted:et%d:other-key", et), nil, base)
			}
			evals++
			if got, err := g.DecryptMessage(key, seq, usage); err != nil || !expectPlain(et, pt, got) {
				c.Violate("genuine", fmt.Sprintf("genuine-rejected-after-failed-attempt:et%d", et), map[string]interface{}{"err": fmt.Sprint(err), "buffer_changed": !bytesEqual(seq, ct)}, base)
			}
			evals++
			if l == 17 {
				c.Sample(map[string]interface{}{"etype": et, "len": l, "genuine_ct": base.CT, "mutations": "every bit flip, truncation, append/prepend, block swap, other usage/key/etype"})
			}
		}
	}
	c.Add("evaluations", evals)
	c.Add("states", evals)
	c.Add("transitions", evals)
	c.Add("traces_validated_against_impl", evals)
	c.Cov["rejected"] = rejected
	c.Cov["reference_accepts"] = refAccepts
	c.Cov["rule"] = "for etype(6) x plaintext length 0..64: every single-bit flip, every truncation, appended/prepended bytes, every swap of two aligned blocks, every other usage of the usage set (rc4: modulo RFC 4757 aliases), 3 unrelated keys, same key under each other etype of equal key length; distinct = (etype, mutation class) pairs that were exercised and rejected"
}

func bytesEqual(a, b []byte) bool {
	if len(a) != len(b) {
		return false
	}
	for i := range a {
		if a[i] != b[i] {
			return false
		}
	}
	return true
}
