package ccrypto

import (
	"bytes"
	"encoding/hex"
	"fmt"
	"github.com/jcmturner/gokrb5/v8/crypto"
	"github.com/jcmturner/gokrb5/v8/types"
	"math/rand"
	"strings"

	"verif/engine"
	"verif/ref/rcrypto"
)

type c06case struct {
	Etype    int32  `json:"etype"`
	Len      int    `json:"len"`
	Usage    uint32 `json:"usage"`
	Key      string `json:"key"`
	CT       string `json:"genuine_ct"`
	Mutation string `json:"mutation"`
	Input    string `json:"input_ct,omitempty"`
	AltKey   string `json:"alt_key,omitempty"`
	AltUsage uint32 `json:"alt_usage,omitempty"`
	AltEtype int32  `json:"alt_etype,omitempty"`
}

// RunC06 is property C06.
func RunC06(c *engine.Ctx) {
	c.Assume = append(c.Assume,
		"genuine ciphertexts are produced by the reference implementation (validated against RFC vectors) so that a symmetric error in gokrb5 cannot hide",
		"a mutated input that the reference also accepts is not judged (counted in reference_accepts, expected 0)")
	if _, err := rcrypto.SelfTest(); err != nil {
		engine.Fatal("%v", err)
	}
	r := rand.New(rand.NewSource(c.Seed))
	maxLen := 64
	lens := []int{}
	for l := 0; l <= maxLen; l++ {
		lens = append(lens, l)
	}
	const usage = 11
	var evals, rejected, refAccepts int64
	for _, et := range rcrypto.Etypes {
		p, _ := rcrypto.Get(et)
		g := goET(et)
		key := keys(et, 1, c.Seed)[0]
		otherKeys := keys(et, 4, c.Seed+77)[1:]
		for _, l := range lens {
			pt := randBytes(r, l)
			ct, err := rcrypto.EncryptWithConfounder(et, key, usage, randBytes(r, p.Conf), pt)
			if err != nil {
				engine.Fatal("reference encrypt: %v", err)
			}
			base := c06case{Etype: et, Len: l, Usage: usage, Key: hex.EncodeToString(key), CT: hex.EncodeToString(ct)}
			// the genuine ciphertext must decrypt
			if got, err := g.DecryptMessage(key, append([]byte{}, ct...), usage); err != nil || !expectPlain(et, pt, got) {
				c.Violate("genuine", fmt.Sprintf("genuine-rejected:et%d", et), map[string]interface{}{"err": fmt.Sprint(err)}, base)
				continue
			}
			try := func(mut string, et2 int32, k []byte, u uint32, in []byte, class string) {
				cs := base
				cs.Mutation, cs.Input, cs.AltKey, cs.AltUsage, cs.AltEtype = mut, hex.EncodeToString(in), hex.EncodeToString(k), u, et2
				evals++
				g2 := g
				if et2 != et {
					g2 = goET(et2)
				}
				// the etype method always; the package-level entry points (what message handling calls) for a
				// rotating third of the cases and for every usage / key / etype substitution
				apis := []string{"etype.DecryptMessage"}
				if evals%3 == 0 || strings.HasPrefix(class, "other-") {
					apis = append(apis, "crypto.DecryptMessage", "crypto.DecryptEncPart")
				}
				for _, api := range apis {
					var out []byte
					var derr error
					if pn := safely(func() {
						switch api {
						case "etype.DecryptMessage":
							out, derr = g2.DecryptMessage(k, append([]byte{}, in...), u)
						case "crypto.DecryptMessage":
							out, derr = crypto.DecryptMessage(append([]byte{}, in...), types.EncryptionKey{KeyType: et2, KeyValue: k}, u)
						default:
							out, derr = crypto.DecryptEncPart(types.EncryptedData{EType: et2, Cipher: append([]byte{}, in...)}, types.EncryptionKey{KeyType: et2, KeyValue: k}, u)
						}
					}); pn != "" {
						c.Violate("mutated", fmt.Sprintf("panic:et%d:%s", et2, class), map[string]interface{}{"panic": pn, "mutation": mut, "api": api}, cs)
						return
					}
					if derr == nil || len(out) != 0 {
						if _, _, rerr := rcrypto.Decrypt(et2, k, u, in); rerr == nil {
							refAccepts++
							return
						}
						c.Violate("mutated", fmt.Sprintf("accepted:et%d:%s", et2, class), map[string]interface{}{"mutation": mut, "returned_plaintext_len": len(out), "err": fmt.Sprint(derr), "api": api}, cs)
						return
					}
				}
				rejected++
				c.Distinct(fmt.Sprintf("%d/%s", et2, class))
			}
			// every single-bit flip
			for i := 0; i < len(ct)*8; i++ {
				m := append([]byte{}, ct...)
				m[i/8] ^= 1 << uint(7-i%8)
				region := "body"
				if et == rcrypto.RC4 {
					if i/8 < 16 {
						region = "mac"
					}
				} else if i/8 >= len(ct)-p.MacLen {
					region = "mac"
				}
				try(fmt.Sprintf("flip-bit-%d", i), et, key, usage, m, "bitflip-"+region)
			}
			// every truncation
			for n := 0; n < len(ct); n++ {
				cl := "truncate"
				if n < p.MacLen {
					cl = "truncate-below-mac-length"
				} else if n < p.MacLen+p.Conf {
					cl = "truncate-below-confounder"
				}
				try(fmt.Sprintf("truncate-to-%d", n), et, key, usage, ct[:n], cl)
			}
			// appended bytes
			for _, n := range []int{1, 8, 16} {
				try(fmt.Sprintf("append-%d", n), et, key, usage, append(append([]byte{}, ct...), randBytes(r, n)...), "append")
				try(fmt.Sprintf("prepend-%d", n), et, key, usage, append(randBytes(r, n), ct...), "prepend")
			}
			// swapped aligned blocks
			bs := p.Block
			if bs < 8 {
				bs = 8
			}
			nb := len(ct) / bs
			for a := 0; a < nb; a++ {
				for b := a + 1; b < nb; b++ {
					m := append([]byte{}, ct...)
					tmp := append([]byte{}, m[a*bs:(a+1)*bs]...)
					copy(m[a*bs:], m[b*bs:(b+1)*bs])
					copy(m[b*bs:], tmp)
					try(fmt.Sprintf("swap-blocks-%d-%d", a, b), et, key, usage, m, "swap")
				}
			}
			// other usages (for rc4 modulo the RFC 4757 aliases)
			for _, u := range Usages {
				if u == usage {
					continue
				}
				if et == rcrypto.RC4 && rcrypto.RC4UsageClass(u) == rcrypto.RC4UsageClass(usage) {
					continue
				}
				try(fmt.Sprintf("usage-%d", u), et, key, u, ct, "other-usage")
			}
			// dense usage sweep for two lengths: every usage 1..1200 and around the powers of two
			if l == 0 || l == 17 {
				var dense []uint32
				for u := uint32(1); u <= 1200; u++ {
					dense = append(dense, u)
				}
				for k := uint(11); k < 32; k++ {
					dense = append(dense, 1<<k-1, 1<<k, 1<<k+usage)
				}
				for _, u := range dense {
					if u == usage || (et == rcrypto.RC4 && rcrypto.RC4UsageClass(u) == rcrypto.RC4UsageClass(usage)) {
						continue
					}
					try(fmt.Sprintf("usage-%d", u), et, key, u, ct, "other-usage")
				}
			}
			// usage matrix: a ciphertext made under u1 presented under u2, for all u1 != u2 in 0..32 and the byte
			// boundaries (rc4: modulo the aliases); and flips / truncations of a ciphertext made under usage 0
			if l == 0 || l == 17 || l == 40 {
				small := []uint32{127, 128, 255, 256}
				for u := uint32(0); u <= 32; u++ {
					small = append(small, u)
				}
				for _, u1 := range small {
					ct1, err := rcrypto.EncryptWithConfounder(et, key, u1, randBytes(r, p.Conf), pt)
					if err != nil {
						engine.Fatal("reference encrypt: %v", err)
					}
					if got, err := crypto.DecryptMessage(append([]byte{}, ct1...), types.EncryptionKey{KeyType: et, KeyValue: key}, u1); err != nil || !expectPlain(et, pt, got) {
						c.Violate("genuine", fmt.Sprintf("genuine-rejected:et%d:usage-matrix", et), map[string]interface{}{"err": fmt.Sprint(err), "usage": u1}, base)
						continue
					}
					evals++
					for _, u2 := range small {
						if u2 == u1 || (et == rcrypto.RC4 && rcrypto.RC4UsageClass(u2) == rcrypto.RC4UsageClass(u1)) {
							continue
						}
						try(fmt.Sprintf("made-under-usage-%d-presented-under-%d", u1, u2), et, key, u2, ct1, "other-usage")
					}
					if u1 == 0 {
						for i := 0; i < len(ct1)*8; i += 5 {
							m := append([]byte{}, ct1...)
							m[i/8] ^= 1 << uint(7-i%8)
							try(fmt.Sprintf("usage-0-flip-bit-%d", i), et, key, 0, m, "other-bitflip-usage-0")
						}
						for n := 0; n < len(ct1); n++ {
							try(fmt.Sprintf("usage-0-truncate-to-%d", n), et, key, 0, ct1[:n], "other-truncate-usage-0")
						}
						try("usage-0-random-bytes", et, key, 0, randBytes(r, len(ct1)), "other-random-usage-0")
					}
				}
			}
			// unrelated keys
			for i, k := range otherKeys {
				try(fmt.Sprintf("other-key-%d", i), et, k, usage, ct, "other-key")
			}
			// the same key bytes under another etype of equal key length
			for _, et2 := range rcrypto.Etypes {
				p2, _ := rcrypto.Get(et2)
				if et2 != et && p2.KeyLen == p.KeyLen {
					try(fmt.Sprintf("as-etype-%d", et2), et2, key, usage, ct, "other-etype")
				}
			}
			// sequence on ONE buffer: a failed attempt with another key must not spoil the buffer for the right key
			seq := append([]byte{}, ct...)
			if out, err := g.DecryptMessage(otherKeys[0], seq, usage); err == nil || len(out) != 0 {
				c.Violate("mutated", fmt.Sprintf("accepted:et%d:other-key", et), nil, base)
			}
			evals++
			if got, err := g.DecryptMessage(key, seq, usage); err != nil || !expectPlain(et, pt, got) {
				c.Violate("genuine", fmt.Sprintf("genuine-rejected-after-failed-attempt:et%d", et), map[string]interface{}{"err": fmt.Sprint(err), "buffer_changed": !bytesEqual(seq, ct)}, base)
			}
			evals++
			if l == 17 {
				c.Sample(map[string]interface{}{"etype": et, "len": l, "genuine_ct": base.CT, "mutations": "every bit flip, truncation, append/prepend, block swap, other usage/key/etype"})
			}
		}
	}
	c.Add("evaluations", evals)
	c.Add("states", evals)
	c.Add("transitions", evals)
	c.Add("traces_validated_against_impl", evals)
	c.Cov["rejected"] = rejected
	c.Cov["reference_accepts"] = refAccepts
	siblingEtypes(c)
	keyBufferHistories(c)
	malformedKeys(c)
	concurrentSchedules(c, "C06")
	c.Cov["rule"] = "key-buffer histories (one key buffer overwritten in place between calls: a ciphertext of the key that was in the buffer before must not decrypt, the current key's must), every order of 2 keys over 6 steps x 4 usages x encrypt-first / decrypt-first; for etype(6) x plaintext length 0..64: every single-bit flip, every truncation, appended/prepended bytes, every swap of two aligned blocks, every other usage of the usage set and a dense sweep 1..1200 (rc4: modulo RFC 4757 aliases), the full made-under x presented-under matrix for usages 0..32 and 127/128/255/256, flips and truncations under usage 0, each through the etype method and (for a third of the cases and all substitutions) crypto.DecryptMessage and crypto.DecryptEncPart, 3 unrelated keys, same key under each other etype of equal key length; distinct = (etype, mutation class) pairs that were exercised and rejected"
}

// malformedKeys: keys of a length the etype does not have (nil, empty, short, long). Decryption under such a key yields
// an error and no plaintext - for a genuine ciphertext of a real key, and for whatever the library itself produces when
// asked to encrypt under another malformed key (if it does not refuse that, the two "keys" are still different keys).
func malformedKeys(c *engine.Ctx) {
	r := rand.New(rand.NewSource(c.Seed + 8))
	for _, et := range rcrypto.Etypes {
		p, _ := rcrypto.Get(et)
		g := goET(et)
		good := keys(et, 1, c.Seed+3)[0]
		pt := randBytes(r, 24)
		genuine, _ := rcrypto.EncryptWithConfounder(et, good, 11, randBytes(r, p.Conf), pt)
		if et == rcrypto.RC4 {
			continue // rc4-hmac keys are HMAC keys: every length is usable, and keys differing in trailing zero octets are the same key
		}
		bads := [][]byte{nil, {}, randBytes(r, 5), randBytes(r, 15), randBytes(r, p.KeyLen-1), randBytes(r, p.KeyLen+1), randBytes(r, 33)}
		for i, a := range bads {
			cs := c06case{Etype: et, Len: len(pt), Usage: 11, Key: hex.EncodeToString(a), Mutation: fmt.Sprintf("key of %d octets (etype needs %d)", len(a), p.KeyLen)}
			c.Add("evaluations", 1)
			var out []byte
			var err error
			if pn := safely(func() { out, err = g.DecryptMessage(a, append([]byte{}, genuine...), 11) }); pn != "" {
				c.Violate("malformed", fmt.Sprintf("panic:et%d:malformed-key", et), map[string]interface{}{"panic": pn}, cs)
				continue
			}
			if err == nil || len(out) != 0 {
				c.Violate("malformed", fmt.Sprintf("accepted:et%d:genuine-ciphertext-under-malformed-key", et), map[string]interface{}{"plaintext_returned": len(out)}, cs)
				continue
			}
			// what the library makes under this malformed key, offered under each other malformed key
			var forged []byte
			var eerr error
			if pn := safely(func() { _, forged, eerr = g.EncryptMessage(a, append([]byte{}, pt...), 11) }); pn != "" || eerr != nil || len(forged) == 0 {
				c.Distinct(fmt.Sprintf("malformed/%d/%d/refused", et, i))
				continue
			}
			bad := false
			for j, b := range bads {
				if j == i || bytes.Equal(a, b) {
					continue
				}
				c.Add("evaluations", 1)
				var o2 []byte
				var e2 error
				if pn := safely(func() { o2, e2 = g.DecryptMessage(b, append([]byte{}, forged...), 11) }); pn == "" && (e2 == nil || len(o2) != 0) {
					cs.AltKey = hex.EncodeToString(b)
					c.Violate("malformed", fmt.Sprintf("accepted:et%d:ciphertext-of-one-malformed-key-under-another", et), map[string]interface{}{"plaintext_returned": len(o2)}, cs)
					bad = true
					break
				}
			}
			if !bad {
				c.Distinct(fmt.Sprintf("malformed/%d/%d/encrypts", et, i))
			}
		}
	}
}

// keyBufferHistories: the caller keeps its key in one buffer and overwrites it in place with another key between
// calls. Whatever the library remembers from earlier calls, a ciphertext made under the key that used to be in the
// buffer yields an error and no plaintext, and the current key's ciphertext decrypts.
func keyBufferHistories(c *engine.Ctx) {
	r := rand.New(rand.NewSource(c.Seed + 6))
	for _, et := range rcrypto.Etypes {
		p, _ := rcrypto.Get(et)
		g := goET(et)
		ks := keys(et, 3, c.Seed+19)
		kb := make([]byte, len(ks[0]))
		for _, u := range []uint32{3, 11, 24, 1025} {
			for _, first := range []string{"decrypt", "encrypt"} {
				pt := randBytes(r, 33)
				for step, which := range []int{0, 1, 0, 2, 2, 1} {
					copy(kb, ks[which])
					cs := c06case{Etype: et, Len: len(pt), Usage: u, Key: hex.EncodeToString(ks[which]), Mutation: fmt.Sprintf("key-buffer history step %d (%s first; buffer overwritten in place)", step, first)}
					c.Add("evaluations", 2)
					if first == "encrypt" {
						if _, _, err := g.EncryptMessage(kb, append([]byte{}, pt...), u); err != nil {
							c.Violate("keybuf", fmt.Sprintf("keybuf:et%d:encrypt-error", et), map[string]interface{}{"err": err.Error()}, cs)
							break
						}
					}
					mine, _ := rcrypto.EncryptWithConfounder(et, ks[which], u, randBytes(r, p.Conf), pt)
					if got, err := g.DecryptMessage(kb, mine, u); err != nil || !expectPlain(et, pt, got) {
						c.Violate("keybuf", fmt.Sprintf("genuine-rejected:key-buffer-reused:et%d", et), map[string]interface{}{"err": fmt.Sprint(err)}, cs)
						break
					}
					bad := false
					for o := range ks {
						if o == which {
							continue
						}
						theirs, _ := rcrypto.EncryptWithConfounder(et, ks[o], u, randBytes(r, p.Conf), pt)
						if out, err := g.DecryptMessage(kb, theirs, u); err == nil || len(out) != 0 {
							c.Violate("keybuf", fmt.Sprintf("accepted:et%d:ciphertext-of-a-key-previously-in-the-buffer", et), map[string]interface{}{"plaintext_returned": len(out), "err": fmt.Sprint(err)}, cs)
							bad = true
							break
						}
					}
					if bad {
						break
					}
					c.Distinct(fmt.Sprintf("keybuf/%d/%d/%s/%d", et, u, first, step))
				}
			}
		}
	}
}

func bytesEqual(a, b []byte) bool {
	if len(a) != len(b) {
		return false
	}
	for i := range a {
		if a[i] != b[i] {
			return false
		}
	}
	return true
}
