package c20

import (
	"bytes"
	"encoding/base64"
	"encoding/hex"
	"encoding/json"
	"fmt"
	"log"
	"strings"
	"time"

	"verif/checks/apworld"
	"verif/checks/c09"
	"verif/checks/cworld"
	"verif/engine"
	"verif/ref/ccachefmt"
	"verif/ref/keytabfmt"
	"verif/ref/krbmsg"
	"verif/ref/rcrypto"
	"verif/ref/simkdc"

	"github.com/jcmturner/gokrb5/v8/client"
	"github.com/jcmturner/gokrb5/v8/credentials"
	"github.com/jcmturner/gokrb5/v8/keytab"
	"github.com/jcmturner/gokrb5/v8/messages"
	"github.com/jcmturner/gokrb5/v8/service"
	"github.com/jcmturner/gokrb5/v8/types"
	"github.com/jcmturner/gokrb5/v8/zzverif/vclock"
)

func report(c *engine.Ctx, sub string, leaks []leak, rec interface{}) {
	for _, l := range leaks {
		c.Violate(sub, fmt.Sprintf("leak:%s:%s:%s", surfaceClass(l.Surface), secretClass(l.Secret), l.Form), map[string]interface{}{"secret": l.Secret, "form": l.Form, "surface": l.Surface, "context": l.Context}, rec)
	}
}

// classes used in violation keys (stable across seeds and realms)
func surfaceClass(s string) string { return s }
func secretClass(s string) string {
	for _, p := range []string{"long-term key", "session key", "krbtgt key", "cross-realm key", "authenticator subkey", "client password", "new password", "wrong password", "keytab key", "ccache session key", "ticket session key"} {
		if len(s) >= len(p) && s[:len(p)] == p {
			return p
		}
	}
	return s
}

// scannerSelfTest plants every encoded form of a key and of a password in a dummy surface at three alignments and
// demands that the scanner reports each; a scanner that cannot see a planted leak makes the check meaningless.
func scannerSelfTest() {
	key := []byte{0x8e, 0xa0, 0xf3, 0xca, 0x99, 0x36, 0xe8, 0x46, 0x1f, 0x10, 0xd7, 0x7c, 0x96, 0xea, 0x80, 0xa7, 0xa6, 0x65, 0xf6, 0x06, 0xf6, 0xa6, 0x3b, 0x7f, 0x3d, 0xfd, 0x25, 0x67, 0xc1, 0x89, 0x79, 0x01}
	pw := markerPasswords[1]
	secrets := []secret{newKeySecret("k", key), newPasswordSecret("p", pw)}
	plant := map[string][]byte{
		"raw":        key,
		"hex":        []byte(hex.EncodeToString(key)),
		"HEX":        []byte(strings.ToUpper(hex.EncodeToString(key))),
		"hex-spaced": []byte(fmt.Sprintf("% x", key)),
		"base64":     []byte(base64.StdEncoding.EncodeToString(key)),
		"base64url":  []byte(base64.URLEncoding.EncodeToString(key)),
		"json":       mustJSON(map[string]interface{}{"KeyValue": key}),
		"decimal":    []byte(fmt.Sprintf("%v", key)),
		"struct":     []byte(fmt.Sprintf("%+v", struct{ KeyValue []byte }{key})),
		"percent-s":  []byte(fmt.Sprintf("%s", key)),
		"password":   []byte("login failed for " + pw),
		"quoted":     []byte(fmt.Sprintf("%q", pw)[1:12]),
	}
	for name, b := range plant {
		for pad := 0; pad < 3; pad++ {
			data := append(append(bytes.Repeat([]byte{'x'}, pad), b...), []byte(" tail")...)
			if name == "base64" || name == "base64url" {
				// embedded in a larger buffer at another alignment
				enc := base64.StdEncoding
				if name == "base64url" {
					enc = base64.URLEncoding
				}
				data = []byte(enc.EncodeToString(append(append(bytes.Repeat([]byte{7}, pad+5), key...), 1, 2, 3, 4, 5)))
			}
			if name == "quoted" {
				continue // an escaped rendering of part of the password is not demanded
			}
			if len(scan([]surface{{"selftest", data}}, secrets)) == 0 {
				engine.Fatal("scanner self-test: planted %s form (pad %d) not found", name, pad)
			}
		}
	}
	if l := scan([]surface{{"selftest", []byte("nothing secret here: password: true, Keytab: false 0000000000000000")}}, secrets); len(l) != 0 {
		engine.Fatal("scanner self-test: false positive %+v", l)
	}
}

func mustJSON(v interface{}) []byte {
	b, err := json.Marshal(v)
	if err != nil {
		engine.Fatal("json: %v", err)
	}
	return b
}

// sequences: every operation sequence up to depth over the alphabet, for each configuration
func sequences(c *engine.Ctx) {
	depth := 2
	if c.Thorough() {
		depth = 3
	}
	base := cworld.DefaultOpts()
	pw := base
	pw.Cred, pw.PreAuth = "password", "required"
	pwRC4 := pw
	pwRC4.ETypes = []int32{23}
	ktRenew := base
	ktRenew.RenewLifetime, ktRenew.TicketLifetime, ktRenew.FreshRenewKey = time.Hour, 10*time.Minute, true
	ktRenew.ETypes = []int32{17, 23}
	assumed := pw
	assumed.PreAuth = "assumed"
	// des3 password principal whose KDC (wrongly but harmlessly) advertises s2kparams for it: the refusal is an error path of its own
	pwDES3 := pw
	pwDES3.ETypes, pwDES3.AdvertiseParams = []int32{16}, []byte{0, 0, 0, 9}
	cfgs := []cworld.Opts{pw, base, pwRC4, ktRenew, assumed, pwDES3}
	var seqs [][]string
	var gen func(prefix []string)
	gen = func(prefix []string) {
		if len(prefix) > 0 {
			seqs = append(seqs, append([]string{}, prefix...))
		}
		if len(prefix) == depth {
			return
		}
		for _, op := range ops {
			gen(append(prefix, op))
		}
	}
	gen(nil)
	// every sequence is preceded by a login unless it starts with one of the login variants (most operations need a session)
	var n, nsurf, steps int64
	for ci, o := range cfgs {
		for si, seq := range seqs {
			if ci == len(cfgs)-1 && len(seq) > 1 {
				continue // the des3 configuration runs the single operations only
			}
			if c.Expired() {
				c.Capped("sequence enumeration stopped by budget")
				return
			}
			full := seq
			if seq[0] != "login" && seq[0] != "login-wrong-password" && seq[0] != "kdc-unreachable-login" && seq[0] != "tampered-reply-login" {
				full = append([]string{"login"}, seq...)
			}
			leaks, ns := runSequence(o, ci+si, full)
			n++
			steps += int64(len(full))
			nsurf += int64(ns)
			rec := map[string]interface{}{"configuration": o, "sequence": full, "marker_variant": (ci + si) % len(markerPasswords)}
			report(c, "sequences", leaks, rec)
			if si%17 == 0 {
				c.Sample(rec)
			}
			c.Distinct(fmt.Sprintf("cfg%d/%v", ci, full[len(full)-1]))
		}
	}
	c.Add("evaluations", n)
	c.Add("states", n)
	c.Add("transitions", steps)
	c.Add("traces_validated_against_impl", n)
	c.Add("surfaces_scanned", nsurf)
	c.Cov["sequence_depth"] = depth
	c.Cov["configurations"] = len(cfgs)
	c.Cov["operation_alphabet"] = ops
}

// tamperedReplies: every perturbation of the C09 catalogue applied to the AS reply of a login and to the TGS reply
// of a ticket request; the rejection paths format what they saw.
func tamperedReplies(c *engine.Ctx) {
	base := cworld.DefaultOpts()
	pw := base
	pw.Cred, pw.PreAuth = "password", "required"
	rc4 := base
	rc4.ETypes = []int32{23}
	var n int64
	for ci, o := range []cworld.Opts{base, pw, rc4} {
		for _, exch := range []string{"AS", "TGS"} {
			for pi, p := range c09.Perturbations(o.ETypes[0]) {
				x := newWorldFor(o, ci+pi)
				p := p
				hook := func(r *simkdc.Reply) {
					if r.Exchange == exch {
						p.Apply(r, o.ETypes[0], x.w)
					}
				}
				for _, k := range x.w.AllKDCs() {
					k.Perturb = hook
				}
				err := x.w.Client.Login()
				x.errOut("login", err)
				if exch == "TGS" && err == nil {
					for _, spn := range []string{"HTTP/host.test.gokrb5", "HTTP/host.other.gokrb5"} {
						tkt, _, err := x.w.Client.GetServiceTicket(spn)
						x.errOut("ticket", err)
						if err == nil {
							b, _ := tkt.Marshal()
							x.out("Ticket.Marshal(returned by GetServiceTicket)", b)
						}
					}
				}
				x.harvest()
				x.dump()
				func() {
					defer func() { recover() }()
					x.w.Client.Destroy()
				}()
				n++
				report(c, "tampered-replies", scan(x.surfaces, x.secrets), map[string]interface{}{"configuration": o, "exchange": exch, "perturbation": p.Name})
				c.Distinct("tampered/" + exch + "/" + p.Name)
			}
		}
	}
	c.Add("evaluations", n)
	c.Add("states", n)
	c.Add("transitions", 2*n)
	c.Add("traces_validated_against_impl", n)
	c.Cov["tampered_reply_runs"] = n
}

// fileErrors: every truncation and every single-byte corruption of a keytab and a ccache holding marker keys;
// the error text must not contain key material.
func fileErrors(c *engine.Ctx) {
	w := apworld.NewWorld(77)
	var secrets []secret
	for _, e := range w.Entries {
		secrets = append(secrets, newKeySecret("keytab key", e.Key))
	}
	var n int64
	try := func(kind string, in []byte, what interface{}) {
		var err error
		var extra []surface
		func() {
			defer func() { recover() }() // panics are C04's business
			if kind == "keytab" {
				kt := keytab.New()
				err = kt.Unmarshal(in)
				if err == nil {
					j, _ := kt.JSON()
					extra = append(extra, surface{"Keytab.JSON", []byte(j)})
				}
			} else {
				var cc credentials.CCache
				err = cc.Unmarshal(in)
			}
		}()
		n++
		if err == nil && len(extra) == 0 {
			return
		}
		surfs := extra
		if err != nil {
			surfs = append(surfs, surface{"error:" + kind + ".Unmarshal", []byte(err.Error())}, surface{"error(%+v):" + kind + ".Unmarshal", []byte(fmt.Sprintf("%+v", err))})
		}
		report(c, "files", scan(surfs, secrets), map[string]interface{}{"file": kind, "mutation": what})
	}
	kt := w.Keytab
	for i := 0; i <= len(kt); i++ {
		try("keytab", kt[:i], map[string]interface{}{"truncate_to": i})
	}
	for i := 0; i < len(kt); i++ {
		for _, v := range []byte{0x00, 0x01, 0x7f, 0x80, 0xff, kt[i] + 1, kt[i] - 1, kt[i] ^ 0x40} {
			if v == kt[i] {
				continue
			}
			m := append([]byte{}, kt...)
			m[i] = v
			try("keytab", m, map[string]interface{}{"offset": i, "value": v})
		}
	}
	// version 1 keytab (native byte order) too
	var items []keytabfmt.Item
	for _, e := range w.Entries[:2] {
		items = append(items, keytabfmt.Item{Entry: &keytabfmt.Entry{Components: e.Principal, Realm: e.Realm, NameType: 1, Timestamp: 1000, KVNO8: uint8(e.KVNO), KeyType: uint16(e.Etype), Key: e.Key}})
	}
	v1 := keytabfmt.Write(1, items)
	for i := 0; i <= len(v1); i++ {
		try("keytab", v1[:i], map[string]interface{}{"version": 1, "truncate_to": i})
	}
	// ccache with a marker session key
	sk := w.RandKey(18)
	secrets = append(secrets, newKeySecret("ccache session key", sk))
	cc := ccacheWith(sk)
	for i := 0; i <= len(cc); i++ {
		try("ccache", cc[:i], map[string]interface{}{"truncate_to": i})
	}
	for i := 0; i < len(cc); i++ {
		for _, v := range []byte{0x00, 0x01, 0x7f, 0x80, 0xff, cc[i] + 1, cc[i] - 1} {
			if v == cc[i] {
				continue
			}
			m := append([]byte{}, cc...)
			m[i] = v
			try("ccache", m, map[string]interface{}{"offset": i, "value": v})
		}
	}
	// the other file shapes: every version, and version 4 with the header MIT always writes (KDC time offset field);
	// two credentials with marker keys each; every value of every byte of the version-4 header
	for version := 1; version <= 4; version++ {
		for _, hdr := range [][]ccachefmt.HeaderField{nil, {{Tag: 1, Data: []byte{0, 0, 0, 0, 0, 0, 0, 0}}}, {{Tag: 1, Data: []byte{0xff, 0xff, 0xff, 0xfe, 0, 0, 0, 9}}, {Tag: 2, Data: []byte{1, 2, 3}}}} {
			if hdr != nil && version != 4 {
				continue
			}
			k1, k2 := w.RandKey(18), w.RandKey(17)
			secrets = append(secrets, newKeySecret("ccache session key", k1), newKeySecret("ccache session key", k2))
			f := ccacheFile(version, hdr, k1, k2)
			what := func(m map[string]interface{}) map[string]interface{} {
				m["version"], m["header_fields"] = version, len(hdr)
				return m
			}
			for i := 0; i <= len(f); i++ {
				try("ccache", f[:i], what(map[string]interface{}{"truncate_to": i}))
			}
			hdrEnd := 2
			if version == 4 {
				hdrEnd = 4 + int(f[2])<<8 + int(f[3])
			}
			for i := 0; i < len(f); i++ {
				vals := []byte{0x00, 0x01, 0x7f, 0x80, 0xff, f[i] + 1, f[i] - 1}
				if i < hdrEnd {
					vals = vals[:0]
					for v := 0; v < 256; v++ {
						vals = append(vals, byte(v))
					}
				}
				for _, v := range vals {
					if v == f[i] {
						continue
					}
					m := append([]byte{}, f...)
					m[i] = v
					try("ccache", m, what(map[string]interface{}{"offset": i, "value": v}))
				}
			}
		}
	}
	c.Add("evaluations", n)
	c.Cov["file_inputs"] = n
}

func ccacheWith(key []byte) []byte {
	pr := ccachefmt.Principal{NameType: 1, Realm: "TEST.GOKRB5", Components: []string{"user1"}}
	sv := ccachefmt.Principal{NameType: 2, Realm: "TEST.GOKRB5", Components: []string{"krbtgt", "TEST.GOKRB5"}}
	f := ccachefmt.CCache{Version: 4, Default: pr, Creds: []ccachefmt.Credential{{Client: pr, Server: sv, KeyType: 18, Key: key, AuthTime: 1000, StartTime: 1000, EndTime: 90000, RenewTill: 0, Flags: 0x40e00000, Ticket: bytes.Repeat([]byte{0x61}, 40)}}}
	return ccachefmt.Write(f)
}

func ccacheFile(version int, hdr []ccachefmt.HeaderField, k1, k2 []byte) []byte {
	pr := ccachefmt.Principal{NameType: 1, Realm: "TEST.GOKRB5", Components: []string{"user1"}}
	sv := ccachefmt.Principal{NameType: 2, Realm: "TEST.GOKRB5", Components: []string{"krbtgt", "TEST.GOKRB5"}}
	s2 := ccachefmt.Principal{NameType: 2, Realm: "TEST.GOKRB5", Components: []string{"HTTP", "host.test.gokrb5"}}
	f := ccachefmt.CCache{Version: version, Header: hdr, Default: pr, Creds: []ccachefmt.Credential{
		{Client: pr, Server: sv, KeyType: 18, Key: k1, AuthTime: 1000, StartTime: 1000, EndTime: 90000, RenewTill: 0, Flags: 0x40e00000, Ticket: bytes.Repeat([]byte{0x61}, 40)},
		{Client: pr, Server: s2, KeyType: 17, Key: k2, AuthTime: 1000, StartTime: 1500, EndTime: 80000, RenewTill: 100000, Flags: 0x40a00000,
			Addresses: []ccachefmt.Address{{Type: 2, Data: []byte{10, 0, 0, 1}}}, AuthData: []ccachefmt.AuthData{{Type: 1, Data: []byte("ad")}}, Ticket: bytes.Repeat([]byte{0x61}, 48)}}}
	return ccachefmt.Write(f)
}

// basicAuthenticator: HTTP Basic credentials handed to service.KRB5BasicAuthenticator, which logs the user in with the
// password. Passwords containing colons, '@' and back-slashes (the characters the header syntax uses) stay passwords: no
// part of them reaches the wire in clear, the returned error, or the identity.
func basicAuthenticator(c *engine.Ctx) {
	var n int64
	for pi, pw := range []string{"Qv8tR3:mZ5#kL9wX2pB7n", "hT4:wq9ZxL2m:Rk7Pd3Vs", "Mx3@Kd8qW2zL5pRt9vB6", "Jn5\\\\Wq2xT8mK4zLp7Rd", "Zq7#kV9x%mW2$pL5-plain"} {
		for _, userForm := range []string{"%s@%s", "%s"} {
			o := cworld.DefaultOpts()
			o.Cred, o.PreAuth, o.PasswordOverride = "password", "required", pw
			x := newWorldFor(o, 0)
			x.secrets = append(x.secrets, newPasswordSecret("client password", pw))
			user := fmt.Sprintf(userForm, cworld.User, cworld.Realm)
			if userForm == "%s" {
				user = cworld.User
			}
			hdr := base64.StdEncoding.EncodeToString([]byte(user + ":" + pw))
			kt := keytab.New()
			svc := x.w.KDC.Principals["HTTP/host.test.gokrb5@"+cworld.Realm]
			if svc != nil {
				for _, k := range svc.Keys {
					kt.AddEntry("HTTP/host.test.gokrb5", cworld.Realm, "unused", time.Unix(1000, 0), uint8(k.KVNO), k.Etype)
					kt.Entries[len(kt.Entries)-1].Key.KeyValue = k.Value
				}
			}
			a := service.NewKRB5BasicAuthenticator(hdr, x.w.Config, service.NewSettings(kt, service.SName("HTTP/host.test.gokrb5"), service.DecodePAC(false)), client.NewSettings(client.DisablePAFXFAST(true)))
			var id interface {
				UserName() string
				Domain() string
			}
			var err error
			func() {
				defer func() { recover() }()
				i, _, e := a.Authenticate()
				err = e
				if i != nil {
					id = i
				}
			}()
			n++
			x.errOut("KRB5BasicAuthenticator.Authenticate", err)
			if id != nil {
				x.out("identity returned by the Basic authenticator", []byte(id.UserName()+"|"+id.Domain()))
			}
			x.harvest()
			x.dump()
			report(c, "basic", scan(x.surfaces, x.secrets), map[string]interface{}{"password_shape": pi, "user_form": userForm})
			c.Distinct(fmt.Sprintf("basic/%d/%s/%v", pi, userForm, err == nil))
		}
	}
	c.Add("evaluations", n)
}

// serviceRejects: every defect of the C01 catalogue presented to the service with a logger; errors and log lines
// must not contain the service keys, the ticket session key or anything else secret.
func serviceRejects(c *engine.Ctx) {
	w := apworld.NewWorld(78)
	kt := keytab.New()
	if err := kt.Unmarshal(w.Keytab); err != nil {
		engine.Fatal("keytab: %v", err)
	}
	var base []secret
	for _, e := range w.Entries {
		base = append(base, newKeySecret("keytab key", e.Key))
	}
	var n int64
	for _, et := range []int32{18, 17, 23, 16, 19, 20} {
		cat := append([]apworld.Defect{{Name: "none", Apply: func(*apworld.Case) {}}}, apworld.Catalogue(5*time.Minute)...)
		for _, d := range cat {
			cs := apworld.Base(et)
			d.Apply(&cs)
			m, err := w.Mint(cs)
			if err != nil {
				continue
			}
			vclock.Virtual(apworld.T0)
			service.VerifResetReplayCache()
			secrets := append(append([]secret{}, base...), newKeySecret("ticket session key", m.SessionKey))
			var logb bytes.Buffer
			var surfs []surface
			var ap messages.APReq
			if err := ap.Unmarshal(m.APReq); err != nil {
				continue
			}
			addr := types.HostAddress{AddrType: 2, Address: []byte{10, 0, 0, 1}}
			ok, creds, verr := service.VerifyAPREQ(&ap, service.NewSettings(kt, service.Logger(log.New(&logb, "", 0)), service.ClientAddress(addr), service.DecodePAC(true)))
			n++
			if verr != nil {
				surfs = append(surfs, surface{"error:VerifyAPREQ", []byte(verr.Error())}, surface{"error(%+v):VerifyAPREQ", []byte(fmt.Sprintf("%+v", verr))})
			}
			if ok && creds != nil {
				j, _ := creds.JSON()
				g, _ := creds.Marshal()
				surfs = append(surfs, surface{"identity JSON", []byte(j)}, surface{"identity gob", g})
			}
			surfs = append(surfs, surface{"service log", logb.Bytes()})
			// the AP-REQ re-encoded after verification (decrypted parts must not be serialised)
			if b, err := ap.Marshal(); err == nil {
				surfs = append(surfs, surface{"APReq.Marshal(after VerifyAPREQ)", b})
			}
			if b, err := ap.Ticket.Marshal(); err == nil {
				surfs = append(surfs, surface{"Ticket.Marshal(after VerifyAPREQ)", b})
			}
			report(c, "service", scan(surfs, secrets), map[string]interface{}{"etype": et, "defect": d.Name})
			c.Distinct("service/" + d.Name)
		}
	}
	c.Add("evaluations", n)
	c.Cov["service_presentations"] = n
}

// marshalAfterDecrypt: message types that carry secrets only encrypted, decrypted by gokrb5 and re-encoded.
func marshalAfterDecrypt(c *engine.Ctx) {
	var n int64
	for _, et := range []int32{18, 17, 23, 16, 19, 20} {
		p, _ := rcrypto.Get(et)
		mk := func(seed byte) []byte {
			s := make([]byte, p.SeedLen)
			for i := range s {
				s[i] = seed*31 + byte(i)*7 + 3
			}
			return rcrypto.RandomToKey(et, s)
		}
		replyKey, sessKey, subKey := mk(1), mk(2), mk(3)
		secrets := []secret{newKeySecret("long-term key (reply key)", replyKey), newKeySecret("session key", sessKey), newKeySecret("authenticator subkey", subKey)}
		now := apworld.T0
		conf := make([]byte, p.Conf)
		seal := func(key []byte, usage uint32, plain []byte) krbmsg.EncryptedData {
			ct, err := rcrypto.EncryptWithConfounder(et, key, usage, conf, plain)
			if err != nil {
				engine.Fatal("seal: %v", err)
			}
			return krbmsg.EncryptedData{EType: et, Cipher: ct}
		}
		cname := krbmsg.PrincipalName{Type: 1, Names: []string{"user1"}}
		sname := krbmsg.PrincipalName{Type: 2, Names: []string{"krbtgt", "TEST.GOKRB5"}}
		tkt := krbmsg.Ticket{VNO: 5, Realm: "TEST.GOKRB5", SName: sname, Enc: seal(replyKey, 2, krbmsg.EncTicketPart{Flags: 0x40000000, Key: krbmsg.EncryptionKey{Type: et, Value: sessKey}, CRealm: "TEST.GOKRB5", CName: cname, Transited: krbmsg.Transited{Contents: []byte{}}, AuthTime: now, EndTime: now.Add(time.Hour)}.Encode())}
		tktB := tkt.Encode()
		check := func(name string, b []byte, err error) {
			n++
			if err != nil || b == nil {
				return
			}
			report(c, "marshal", scan([]surface{{name, b}}, secrets), map[string]interface{}{"etype": et, "message": name})
			c.Distinct("marshal/" + name)
		}
		key := func(k []byte) types.EncryptionKey { return types.EncryptionKey{KeyType: et, KeyValue: k} }
		// Ticket
		var t messages.Ticket
		if err := t.Unmarshal(tktB); err == nil {
			if err := t.Decrypt(key(replyKey)); err == nil {
				b, err := t.Marshal()
				check("Ticket.Marshal(after Decrypt)", b, err)
			}
		}
		// KDC-REP (AS and TGS)
		enc := krbmsg.EncKDCRepPart{Key: krbmsg.EncryptionKey{Type: et, Value: sessKey}, LastReqs: []krbmsg.LastReq{{Type: 0, Value: now}}, Nonce: 7, Flags: 0x40000000, AuthTime: now, EndTime: now.Add(time.Hour), SRealm: "TEST.GOKRB5", SName: sname}
		for _, kind := range []string{"AS", "TGS"} {
			enc.App = map[string]int{"AS": krbmsg.AppEncASRepPart, "TGS": krbmsg.AppEncTGSRepPart}[kind]
			usage := map[string]uint32{"AS": 3, "TGS": 8}[kind]
			rep := krbmsg.KDCRep{App: map[string]int{"AS": krbmsg.AppASRep, "TGS": krbmsg.AppTGSRep}[kind], PVNO: 5, MsgType: map[string]int64{"AS": 11, "TGS": 13}[kind], CRealm: "TEST.GOKRB5", CName: cname, Ticket: tktB, Enc: seal(replyKey, usage, enc.Encode())}
			rb := rep.Encode()
			if kind == "AS" {
				var m messages.ASRep
				if err := m.Unmarshal(rb); err == nil {
					kt := keytab.New()
					ktb := keytabfmt.Write(2, []keytabfmt.Item{{Entry: &keytabfmt.Entry{Components: []string{"user1"}, Realm: "TEST.GOKRB5", NameType: 1, Timestamp: 1, KVNO8: 1, KeyType: uint16(et), Key: replyKey}}})
					kt.Unmarshal(ktb)
					cr := credentials.New("user1", "TEST.GOKRB5").WithKeytab(kt)
					if _, err := m.DecryptEncPart(cr); err == nil {
						b, err := m.Marshal()
						check("ASRep.Marshal(after DecryptEncPart)", b, err)
						tb, err := m.Ticket.Marshal()
						check("ASRep.Ticket.Marshal", tb, err)
					}
				}
			} else {
				var m messages.TGSRep
				if err := m.Unmarshal(rb); err == nil {
					if err := m.DecryptEncPart(key(replyKey)); err == nil {
						b, err := m.Marshal()
						check("TGSRep.Marshal(after DecryptEncPart)", b, err)
					}
				}
			}
		}
		// a KDC request carrying, as additional ticket, a ticket that was decrypted before (user-to-user, S4U2Proxy)
		var t3 messages.Ticket
		if err := t3.Unmarshal(tktB); err == nil {
			if err := t3.Decrypt(key(replyKey)); err == nil {
				body := messages.KDCReqBody{KDCOptions: types.NewKrbFlags(), Realm: "TEST.GOKRB5", SName: types.PrincipalName{NameType: 2, NameString: []string{"HTTP", "h"}},
					Till: now.Add(time.Hour), Nonce: 5, EType: []int32{et}, AdditionalTickets: []messages.Ticket{t3}}
				b, err := body.Marshal()
				check("KDCReqBody.Marshal(additional ticket decrypted before)", b, err)
				rv, err := messages.MarshalTicketSequence([]messages.Ticket{t3})
				check("MarshalTicketSequence(ticket decrypted before)", rv.FullBytes, err)
				if len(rv.FullBytes) == 0 {
					check("MarshalTicketSequence(ticket decrypted before).Bytes", rv.Bytes, err)
				}
			}
		}
		// KRB-PRIV
		priv := krbmsg.KRBPriv{PVNO: 5, MsgType: 21, Enc: seal(sessKey, 13, krbmsg.EncKrbPrivPart{UserData: append([]byte("new password: "), subKey...), SAddress: krbmsg.HostAddress{Type: 2, Addr: []byte{10, 0, 0, 1}}}.Encode())}
		var kp messages.KRBPriv
		if err := kp.Unmarshal(priv.Encode()); err == nil {
			if err := kp.DecryptEncPart(key(sessKey)); err == nil {
				b, err := kp.Marshal()
				check("KRBPriv.Marshal(after DecryptEncPart)", b, err)
			}
		}
		// AP-REQ built by gokrb5 itself from a ticket and key (client side), then encoded
		var t2 messages.Ticket
		if err := t2.Unmarshal(tktB); err == nil {
			auth, err := types.NewAuthenticator("TEST.GOKRB5", types.PrincipalName{NameType: 1, NameString: []string{"user1"}})
			if err == nil {
				auth.SubKey = key(subKey)
				ap, err := messages.NewAPReq(t2, key(sessKey), auth)
				if err == nil {
					b, err := ap.Marshal()
					check("APReq.Marshal(built by NewAPReq with a subkey)", b, err)
				}
			}
		}
	}
	c.Add("evaluations", n)
	c.Cov["marshal_cases"] = n
}

// Run is the check's entry point.
func Run(c *engine.Ctx) {
	c.Assume = append(c.Assume,
		"secrets are marker values: two marker passwords (one with quote / percent / brace / unicode characters), the long-term keys of every principal and realm of the simulated KDCs, every session key the KDCs issue, authenticator subkeys (recovered by the reference decoder), keytab and ccache keys; a leak is any 8-byte window of a key (10 characters of a password) raw, the corresponding hex (both cases, plain or space separated), base64 (std and url, all three alignments) or decimal-list (%v of a byte slice) window",
		"surfaces: Client.Print, Client.Diagnostics, Credentials.JSON, Credentials.Marshal (gob), Keytab.JSON, Config.JSON, client and service loggers, Error() and %+v of every returned error, everything sent to the KDCs and to the service, identity JSON / gob produced by the acceptor, and Marshal of Ticket / AS-REP / TGS-REP / KRB-PRIV / AP-REQ / SPNEGO token after gokrb5 decrypted or verified them. Keytab.String() is an explicit key listing (column 'Key') and plaintext types (Authenticator, EncKDCRepPart, EncTicketPart) carry keys by definition: neither is a surface")
	scannerSelfTest()
	sequences(c)
	tamperedReplies(c)
	fileErrors(c)
	serviceRejects(c)
	basicAuthenticator(c)
	marshalAfterDecrypt(c)
	st := map[string]interface{}{}
	for k, v := range OpStats {
		st[k] = map[string]int{"ok": v[0], "error": v[1]}
	}
	c.Cov["operation_outcomes"] = st
	for _, must := range []string{"login", "ticket", "spnego-roundtrip:InitSecContext", "change-password", "ticket-other-realm", "service-accept#1"} {
		if OpStats[must][0] == 0 {
			engine.Fatal("vacuous harness: operation %q never succeeded", must)
		}
	}
	for _, must := range []string{"login-wrong-password", "ticket-unknown-service", "kdc-unreachable-login", "tampered-reply-login:nonce", "tampered-reply-ticket:corrupt", "service-accept#2"} {
		if OpStats[must][1] == 0 {
			engine.Fatal("vacuous harness: operation %q never failed", must)
		}
	}
	c.Cov["rule"] = "every operation sequence up to depth 2 (3 thorough) after a login over the 15-operation alphabet x 5 configurations (password / keytab, pre-authentication none / required / assumed, rc4 only, renewable) with every surface scanned after every step; every reply perturbation of the C09 catalogue (40) on the AS and on the TGS exchange x 3 configurations; every truncation and 7-8 single-byte corruptions per offset of keytabs (v1, v2) and a ccache holding marker keys; every defect of the C01 catalogue x 6 etypes presented to the service with a logger; Marshal after decrypt of 8 message kinds x 6 etypes (incl. KDC request bodies and ticket sequences holding a ticket decrypted before). distinct = (configuration, last operation) / defect / message classes"
}
