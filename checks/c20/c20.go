// Package c20: keys and passwords never leak into diagnostics, errors, logs or
// encodings. Marker secrets are planted everywhere the library holds one; every
// operation sequence up to a depth over an alphabet of successful and failing
// operations is run on the real client and service, and after every step every
// output surface is searched for every marker in raw, hex, base64 and decimal
// form.
package c20

import (
	"bytes"
	"encoding/base64"
	"encoding/hex"
	"fmt"
	"log"
	"strings"
	"time"
	"unicode/utf16"

	"verif/checks/c04"
	"verif/checks/cworld"
	"verif/engine"
	"verif/ref/keytabfmt"
	"verif/ref/krbmsg"
	"verif/ref/rcrypto"
	"verif/ref/simkdc"

	"github.com/jcmturner/gokrb5/v8/client"
	"github.com/jcmturner/gokrb5/v8/credentials"
	"github.com/jcmturner/gokrb5/v8/keytab"
	"github.com/jcmturner/gokrb5/v8/service"
	"github.com/jcmturner/gokrb5/v8/spnego"
	"github.com/jcmturner/gokrb5/v8/zzverif/vclock"
	"github.com/jcmturner/gokrb5/v8/zzverif/vnet"
)

// ---- markers ----------------------------------------------------------------

type secret struct {
	name  string
	forms map[string][][]byte // form name -> byte patterns any of which is a leak
}

const window = 8

func windows(b []byte, n int) [][]byte {
	if len(b) <= n {
		return [][]byte{b}
	}
	var out [][]byte
	for i := 0; i+n <= len(b); i++ {
		out = append(out, b[i:i+n])
	}
	return out
}

func b64forms(b []byte, enc *base64.Encoding) [][]byte {
	var out [][]byte
	for a := 0; a < 3; a++ {
		e := enc.EncodeToString(append(make([]byte, a), b...))
		if a > 0 {
			e = e[4:] // the first group mixes in the padding bytes
		}
		e = strings.TrimRight(e, "=")
		if len(e) > 4 {
			e = e[:len(e)-4] // the last group depends on what follows
		}
		if len(e) >= 11 {
			out = append(out, windows([]byte(e), 11)...)
		}
	}
	return out
}

func decimalForm(b []byte) [][]byte {
	var out [][]byte
	for _, w := range windows(b, window) {
		var parts []string
		for _, x := range w {
			parts = append(parts, fmt.Sprint(int(x)))
		}
		out = append(out, []byte(strings.Join(parts, " ")), []byte(strings.Join(parts, ",")), []byte(strings.Join(parts, ", ")))
	}
	return out
}

func newKeySecret(name string, key []byte) secret {
	s := secret{name: name, forms: map[string][][]byte{}}
	if len(key) < window {
		return s
	}
	s.forms["raw"] = windows(key, window)
	h := hex.EncodeToString(key)
	s.forms["hex"] = append(windows([]byte(h), 2*window), windows([]byte(strings.ToUpper(h)), 2*window)...)
	var spaced []string
	for _, x := range key {
		spaced = append(spaced, fmt.Sprintf("%02x", x))
	}
	s.forms["hex-spaced"] = windows([]byte(strings.Join(spaced, " ")), 3*window-1)
	s.forms["base64"] = append(b64forms(key, base64.StdEncoding), b64forms(key, base64.URLEncoding)...)
	s.forms["decimal"] = decimalForm(key)
	return s
}

func newPasswordSecret(name, pw string) secret {
	s := newKeySecret(name, []byte(pw))
	// a password is text: any 10-byte window of it raw, and its UTF-16LE form (rc4 string-to-key input)
	s.forms["raw"] = windows([]byte(pw), 10)
	u := utf16.Encode([]rune(pw))
	var le []byte
	for _, x := range u {
		le = append(le, byte(x), byte(x>>8))
	}
	s.forms["utf16le"] = windows(le, 16)
	return s
}

type surface struct {
	name string
	data []byte
}

type leak struct {
	Secret, Form, Surface string
	Context               string
}

// scan searches every surface for every pattern of every secret in one pass per surface: patterns are indexed
// by their first 8 bytes.
func scan(surfs []surface, secrets []secret) []leak {
	type pat struct {
		b    []byte
		si   int
		form string
	}
	idx := map[[8]byte][]pat{}
	for si, sc := range secrets {
		for form, pats := range sc.forms {
			for _, p := range pats {
				if len(p) < 8 {
					continue
				}
				var k [8]byte
				copy(k[:], p)
				idx[k] = append(idx[k], pat{p, si, form})
			}
		}
	}
	var out []leak
	seenSurf := map[string]bool{}
	for _, sf := range surfs {
		if len(sf.data) < 8 || seenSurf[sf.name+"\x00"+string(sf.data)] {
			continue
		}
		seenSurf[sf.name+"\x00"+string(sf.data)] = true
		found := map[string]bool{}
		var k [8]byte
		for i := 0; i+8 <= len(sf.data); i++ {
			copy(k[:], sf.data[i:i+8])
			for _, p := range idx[k] {
				if i+len(p.b) <= len(sf.data) && bytes.Equal(sf.data[i:i+len(p.b)], p.b) {
					key := secrets[p.si].name + "|" + p.form
					if found[key] {
						continue
					}
					found[key] = true
					lo, hi := i-40, i+len(p.b)+20
					if lo < 0 {
						lo = 0
					}
					if hi > len(sf.data) {
						hi = len(sf.data)
					}
					out = append(out, leak{secrets[p.si].name, p.form, sf.name, fmt.Sprintf("%q", sf.data[lo:hi])})
				}
			}
		}
	}
	return out
}

// ---- the world ----------------------------------------------------------------

var markerPasswords = []string{"Zq7#kV9x%mW2$pL5-é世!", "s3cr3t \"Tok%s\\n{}<&>' 9fQ2",
	// a password that is not valid UTF-8 (a byte string typed under another encoding)
	"p\xffw\xfe-Kq93#xT!m\xc3(2Zr8"}

type world struct {
	w        *cworld.World
	clLog    bytes.Buffer
	svcLog   bytes.Buffer
	secrets  []secret
	surfaces []surface
	known    map[string]bool // secrets already registered (by value)
	svcKT    *keytab.Keytab
	newPw    string
}

func (x *world) addKey(name string, k []byte) {
	if len(k) < window || x.known[string(k)] {
		return
	}
	x.known[string(k)] = true
	x.secrets = append(x.secrets, newKeySecret(name, k))
}

func newWorldFor(o cworld.Opts, variant int) *world {
	vclock.Virtual(cworld.T0)
	vclock.AutoTick = 1000
	x := &world{known: map[string]bool{}}
	service.VerifResetReplayCache()
	o.PasswordOverride = markerPasswords[variant%len(markerPasswords)]
	o.Seed = int64(100 + variant)
	x.w = cworld.New(o)
	x.w.Client = x.w.NewClient(client.Logger(log.New(&x.clLog, "", 0)))
	if o.Cred == "keytab" {
		// the client's keytab also holds entries that are not for this login: another realm, the realm in another
		// case, another principal, an older kvno - all with marker keys
		var items []keytabfmt.Item
		add := func(princ []string, realm string, kvno int, et int32, key []byte) {
			kv := uint32(kvno)
			items = append(items, keytabfmt.Item{Entry: &keytabfmt.Entry{Components: princ, Realm: realm, NameType: 1, Timestamp: 1000, KVNO8: uint8(kvno), KVNO32: &kv, KeyType: uint16(et), Key: key}})
		}
		for _, k := range x.w.KDC.Principals[cworld.User+"@"+cworld.Realm].Keys {
			add([]string{cworld.User}, cworld.Realm, int(k.KVNO), k.Etype, k.Value)
		}
		for i, e := range []struct {
			princ []string
			realm string
			kvno  int
		}{{[]string{cworld.User}, "OTHER.GOKRB5", 2}, {[]string{cworld.User}, strings.ToLower(cworld.Realm), 2}, {[]string{"someoneelse"}, cworld.Realm, 2}, {[]string{cworld.User}, cworld.Realm, 1}, {[]string{"HTTP", "host.test.gokrb5"}, cworld.Realm, 2}} {
			k := x.w.KDC.RandKey(18)
			x.addKey(fmt.Sprintf("long-term key (client keytab entry %d not used for this login)", i), k)
			add(e.princ, e.realm, e.kvno, 18, k)
		}
		kt := keytab.New()
		if err := kt.Unmarshal(keytabfmt.Write(2, items)); err != nil {
			engine.FailValid("keytab.Unmarshal(client keytab)", err)
		}
		sets := []func(*client.Settings){client.DisablePAFXFAST(!o.FAST), client.Logger(log.New(&x.clLog, "", 0))}
		if o.PreAuth == "assumed" {
			sets = append(sets, client.AssumePreAuthentication(true))
		}
		x.w.Client = client.NewWithKeytab(cworld.User, cworld.Realm, kt, x.w.Config, sets...)
	}
	if o.Cred == "password" {
		x.secrets = append(x.secrets, newPasswordSecret("client password", o.PasswordOverride))
	}
	x.newPw = "N3w-" + o.PasswordOverride
	x.secrets = append(x.secrets, newPasswordSecret("new password (change-password)", x.newPw))
	x.secrets = append(x.secrets, newPasswordSecret("wrong password typed by a user", "Wr0ng-"+o.PasswordOverride))
	// long-term keys of every principal of every KDC
	for _, k := range x.w.AllKDCs() {
		for pn, p := range k.Principals {
			for _, key := range p.Keys {
				x.addKey("long-term key of "+pn, key.Value)
			}
		}
		x.addKey("krbtgt key of "+k.Realm, k.TGSKey.Value)
		for r, key := range k.CrossOut {
			x.addKey("cross-realm key "+k.Realm+"->"+r, key.Value)
		}
	}
	// the service's keytab (keys of HTTP/host.test.gokrb5 as the KDC holds them)
	var items []keytabfmt.Item
	for _, key := range x.w.KDC.Principals["HTTP/host.test.gokrb5@"+cworld.Realm].Keys {
		kv := uint32(key.KVNO)
		items = append(items, keytabfmt.Item{Entry: &keytabfmt.Entry{Components: []string{"HTTP", "host.test.gokrb5"}, Realm: cworld.Realm, NameType: 1, Timestamp: 1000, KVNO8: uint8(key.KVNO), KVNO32: &kv, KeyType: uint16(key.Etype), Key: key.Value}})
	}
	x.svcKT = keytab.New()
	if err := x.svcKT.Unmarshal(keytabfmt.Write(2, items)); err != nil {
		engine.FailValid("keytab.Unmarshal(service keytab)", err)
	}
	// kpasswd endpoint
	h := func(_, _ string, req []byte) []byte { return c04.KpasswdReply(x.w, req) }
	for _, n := range []string{"udp", "tcp"} {
		vnet.Register(n, "kdc1.test.gokrb5:464", &vnet.Endpoint{Behaviour: vnet.Answer, Handler: h})
	}
	return x
}

// harvest registers the session keys the KDCs have issued so far.
func (x *world) harvest() {
	for _, k := range x.w.AllKDCs() {
		for _, is := range k.Issued {
			x.addKey(fmt.Sprintf("session key issued for %s", strings.Join(is.SName, "/")), is.SessionKey)
		}
	}
}

func (x *world) out(name string, b []byte) { x.surfaces = append(x.surfaces, surface{name, b}) }

// OpStats counts per operation how often it succeeded / failed (evidence against vacuity).
var OpStats = map[string][2]int{}

func (x *world) errOut(name string, err error) {
	st := OpStats[name]
	if err == nil {
		st[0]++
	} else {
		st[1]++
	}
	OpStats[name] = st
	if err == nil {
		return
	}
	x.out("error:"+name, []byte(err.Error()))
	x.out("error(%+v):"+name, []byte(fmt.Sprintf("%+v", err)))
}

// subkeyOf recovers the authenticator subkey of an AP-REQ (reference decode) so that it can be searched for.
func (x *world) subkeyOf(apreq []byte) {
	ap, err := krbmsg.DecodeAPReq(apreq)
	if err != nil {
		return
	}
	for _, k := range x.w.AllKDCs() {
		for _, is := range k.Issued {
			if bytes.Equal(is.Ticket, ap.Ticket) {
				for _, usage := range []uint32{11, 7} {
					if _, ab, err := rcrypto.Decrypt(ap.Auth.EType, is.SessionKey, usage, ap.Auth.Cipher); err == nil {
						if a, err := krbmsg.DecodeAuthenticator(ab); err == nil && a.SubKey != nil {
							x.addKey("authenticator subkey", a.SubKey.Value)
						}
					}
				}
			}
		}
	}
}

var ops = []string{"login", "login-wrong-password", "ticket", "ticket-renewed-after-expiry", "ticket-unknown-service", "ticket-other-realm", "spnego-roundtrip", "spnego-replayed", "renewal-timer",
	"kdc-unreachable-login", "tampered-reply-login", "tampered-reply-ticket", "change-password", "times-beyond-json-range", "destroy"}

func (x *world) step(op string) {
	cl := x.w.Client
	switch op {
	case "login":
		x.errOut(op, cl.Login())
	case "login-wrong-password":
		c2 := client.NewWithPassword(cworld.User, cworld.Realm, "Wr0ng-"+x.w.Opts.PasswordOverride, x.w.Config, client.Logger(log.New(&x.clLog, "", 0)), client.DisablePAFXFAST(true))
		x.errOut(op, c2.Login())
		var b bytes.Buffer
		c2.Print(&b)
		c2.Diagnostics(&b)
		x.out("Client.Print+Diagnostics(wrong-password client)", b.Bytes())
	case "ticket", "ticket-unknown-service", "ticket-other-realm":
		spn := map[string]string{"ticket": "HTTP/host.test.gokrb5", "ticket-unknown-service": "HTTP/nosuch.test.gokrb5", "ticket-other-realm": "HTTP/host.other.gokrb5"}[op]
		tkt, _, err := cl.GetServiceTicket(spn)
		x.errOut(op, err)
		if err == nil {
			b, _ := tkt.Marshal()
			x.out("Ticket.Marshal(returned by GetServiceTicket)", b)
		}
	case "ticket-renewed-after-expiry":
		// a service ticket is obtained, time passes beyond its end (still renewable in the renewable configurations),
		// and it is asked for again: the client renews it (or gets a new one) and logs what it did
		_, _, err := cl.GetServiceTicket("HTTP/host2.test.gokrb5")
		x.errOut(op+":first", err)
		var end time.Time
		for _, e := range cl.VerifCache() {
			if e.SPN == "HTTP/host2.test.gokrb5" {
				end = e.EndTime
			}
		}
		if !end.IsZero() {
			vclock.Set(end.Add(time.Second))
		}
		tkt, _, err := cl.GetServiceTicket("HTTP/host2.test.gokrb5")
		x.errOut(op+":again", err)
		if err == nil {
			b, _ := tkt.Marshal()
			x.out("Ticket.Marshal(returned by GetServiceTicket)", b)
		}
	case "spnego-roundtrip", "spnego-replayed":
		sc := spnego.SPNEGOClient(cl, "HTTP/host.test.gokrb5")
		x.errOut(op+":AcquireCred", sc.AcquireCred())
		tok, err := sc.InitSecContext()
		x.errOut(op+":InitSecContext", err)
		if err != nil {
			return
		}
		tb, err := tok.Marshal()
		x.errOut(op+":token.Marshal", err)
		x.out("wire:SPNEGO token sent to the service", tb)
		x.harvest()
		if st, ok := tok.(*spnego.SPNEGOToken); ok && st.Init {
			if len(st.NegTokenInit.MechTokenBytes) > 17 {
				x.subkeyOf(st.NegTokenInit.MechTokenBytes[17:])
			}
		}
		n := 1
		if op == "spnego-replayed" {
			n = 2
		}
		for i := 0; i < n; i++ {
			var rt spnego.SPNEGOToken
			if err := rt.Unmarshal(tb); err != nil {
				x.errOut(op+":service Unmarshal", err)
				return
			}
			svc := spnego.SPNEGOService(x.svcKT, service.Logger(log.New(&x.svcLog, "", 0)), service.DecodePAC(false))
			ok, ctx, status := svc.AcceptSecContext(&rt)
			x.out("status:AcceptSecContext", []byte(fmt.Sprintf("%v %+v", ok, status)))
			st := OpStats[fmt.Sprintf("service-accept#%d", i+1)]
			if ok {
				st[0]++
			} else {
				st[1]++
			}
			OpStats[fmt.Sprintf("service-accept#%d", i+1)] = st
			if ctx != nil {
				if id, ok2 := ctx.Value("github.com/jcmturner/gokrb5/v8/ctxCredentials").(*credentials.Credentials); ok2 && id != nil {
					j, _ := id.JSON()
					x.out("service identity JSON", []byte(j))
					g, _ := id.Marshal()
					x.out("service identity gob (session store)", g)
				}
				x.out("context(%+v)", []byte(fmt.Sprintf("%+v", ctx)))
			}
			rb, _ := rt.Marshal()
			x.out("SPNEGOToken.Marshal(after the service verified it)", rb)
		}
	case "renewal-timer":
		now := vclock.Now()
		best := now
		for _, t := range vclock.PendingTimers() {
			if t.After(now) && (best.Equal(now) || t.Before(best)) {
				best = t
			}
		}
		vclock.Set(best)
	case "kdc-unreachable-login":
		saved := x.w.KDCAddr
		for _, a := range saved {
			for _, n := range []string{"udp", "tcp"} {
				vnet.Register(n, a, &vnet.Endpoint{Behaviour: vnet.Refuse})
			}
		}
		x.errOut(op, cl.Login())
		x.restoreKDC()
	case "tampered-reply-login", "tampered-reply-ticket":
		// the KDC's reply is sealed correctly but says something the client must refuse (wrong nonce), and a reply
		// whose enc-part is corrupted: both error paths format what they saw
		for _, mode := range []string{"nonce", "corrupt"} {
			mode := mode
			x.w.KDC.Perturb = func(r *simkdc.Reply) {
				if mode == "nonce" {
					r.Enc.Nonce++
				} else {
					r.PostSeal = func(ct []byte) []byte { ct[len(ct)/2] ^= 1; return ct }
				}
			}
			if op == "tampered-reply-login" {
				x.errOut(op+":"+mode, cl.Login())
			} else {
				_, _, err := cl.GetServiceTicket("HTTP/host2.test.gokrb5")
				x.errOut(op+":"+mode, err)
			}
			x.w.KDC.Perturb = nil
		}
	case "change-password":
		if x.w.Opts.Cred != "password" {
			return
		}
		_, err := cl.ChangePasswd(x.newPw)
		x.errOut(op, err)
	case "times-beyond-json-range":
		// values the API accepts and encoding/json refuses (years outside 0..9999): the JSON renderings behind
		// Print/Diagnostics fail, and whatever is shown instead is a diagnostic surface like any other
		far := time.Date(10000, 1, 1, 0, 0, 0, 0, time.UTC)
		cl.Credentials.SetValidUntil(far)
		cl.Credentials.SetAuthTime(time.Date(-1, 1, 1, 0, 0, 0, 0, time.UTC))
		if cl.Credentials.HasKeytab() {
			x.errOut(op, cl.Credentials.Keytab().AddEntry("other", cworld.Realm, "not-a-marker", far, 1, 17))
		}
	case "destroy":
		cl.Destroy()
	}
}

func (x *world) restoreKDC() {
	for _, a := range x.w.KDCAddr {
		for _, n := range []string{"udp", "tcp"} {
			k := x.w.KDC
			vnet.Register(n, a, &vnet.Endpoint{Behaviour: vnet.Answer, Handler: func(network, _ string, req []byte) []byte { return k.Handle(network, req) }})
		}
	}
}

// dump collects every diagnostic surface of the current state.
func (x *world) dump() {
	cl := x.w.Client
	var b bytes.Buffer
	cl.Print(&b)
	x.out("Client.Print", append([]byte{}, b.Bytes()...))
	b.Reset()
	x.errOut("Diagnostics", cl.Diagnostics(&b))
	x.out("Client.Diagnostics", append([]byte{}, b.Bytes()...))
	if j, err := cl.Credentials.JSON(); err == nil {
		x.out("Credentials.JSON", []byte(j))
	}
	if g, err := cl.Credentials.Marshal(); err == nil {
		x.out("Credentials.Marshal(gob)", g)
	}
	if cl.Credentials.HasKeytab() {
		if j, err := cl.Credentials.Keytab().JSON(); err == nil {
			x.out("Keytab.JSON", []byte(j))
		}
	}
	if j, err := x.w.Config.JSON(); err == nil {
		x.out("Config.JSON", []byte(j))
	}
	x.out("client log", append([]byte{}, x.clLog.Bytes()...))
	x.out("service log", append([]byte{}, x.svcLog.Bytes()...))
	// everything the client put on the wire to the KDCs
	var wire []byte
	for _, k := range x.w.AllKDCs() {
		for _, r := range k.Requests {
			wire = append(wire, r.Raw...)
			wire = append(wire, 0)
		}
	}
	x.out("wire:requests sent to the KDCs", wire)
}

func runSequence(o cworld.Opts, variant int, seq []string) (leaks []leak, nsurf int) {
	x := newWorldFor(o, variant)
	for _, op := range seq {
		x.step(op)
		x.harvest()
		x.dump()
	}
	func() {
		defer func() { recover() }()
		x.w.Client.Destroy()
	}()
	return scan(x.surfaces, x.secrets), len(x.surfaces)
}
