// Package c19: a PAC is accepted only with a valid server signature and is
// reported faithfully. PACs are assembled and signed by the independent
// ref/pac from enumerated attribute models (and the captured sample), handed
// to the real PAC processing directly and through service.VerifyAPREQ; every
// single-bit flip, buffer removal/duplication/order, wrong key and wrong
// declared checksum type is applied.
package c19

import (
	"bytes"
	"encoding/binary"
	"encoding/hex"
	"fmt"
	"io"
	"log"
	"math/rand"
	"strings"
	"time"

	"verif/checks/apworld"
	"verif/checks/c01"
	"verif/engine"
	"verif/ref"
	"verif/ref/der"
	"verif/ref/krbmsg"
	rpac "verif/ref/pac"
	"verif/ref/rcrypto"

	"github.com/jcmturner/gokrb5/v8/keytab"
	"github.com/jcmturner/gokrb5/v8/messages"
	"github.com/jcmturner/gokrb5/v8/pac"
	"github.com/jcmturner/gokrb5/v8/service"
	"github.com/jcmturner/gokrb5/v8/types"
	"github.com/jcmturner/gokrb5/v8/zzverif/vclock"
)

func safe(f func()) (p string) {
	defer func() {
		if r := recover(); r != nil {
			p = fmt.Sprint(r)
		}
	}()
	f()
	return ""
}

var sigTypes = []int32{-138, 15, 16, 19, 20}

func etypeOf(ck int32) int32 { e, _ := rcrypto.EtypeForCksum(ck); return e }

func keyOf(et int32, seed int64) []byte {
	r := rand.New(rand.NewSource(seed*31 + int64(et)))
	p, _ := rcrypto.Get(et)
	s := make([]byte, p.SeedLen)
	r.Read(s)
	return rcrypto.RandomToKey(et, s)
}

// models enumerates attribute models.
func models() []rpac.ValidationInfo {
	base := rpac.SampleGOKRB5()
	var out []rpac.ValidationInfo
	names := []string{"", "a", "user", strings.Repeat("n", 40), "üsér-\U0001D11E"}
	dom := *base.LogonDomainID
	res := rpac.SID{Revision: 1, Authority: 5, Sub: []uint32{21, 1, 2, 3}}
	for ni, n := range names {
		for g := 0; g <= 3; g++ {
			for x := 0; x <= 2; x++ {
				for _, rg := range []bool{false, true} {
					if (ni+g+x)%2 == 1 && rg {
						continue
					}
					v := base
					v.EffectiveName = rpac.Str{Value: n}
					v.FullName = rpac.Str{Value: "Full " + n}
					v.UserID = uint32(1000 + 17*ni + g)
					v.PrimaryGroupID = uint32(513 + x)
					v.LogonTime = rpac.FileTime(time.Date(2020+ni, time.Month(1+g), 2+x, 3, 4, 5, 600, time.UTC))
					v.PasswordLastSet = rpac.FileTime(time.Date(2019, 3, 4, 5, 6, 7, 0, time.UTC))
					v.Groups = nil
					for i := 0; i < g; i++ {
						v.Groups = append(v.Groups, rpac.Group{RID: uint32(2000 + i), Attributes: 7})
					}
					v.ExtraSIDs = nil
					for i := 0; i < x; i++ {
						v.ExtraSIDs = append(v.ExtraSIDs, rpac.ExtraSID{SID: rpac.SID{Revision: 1, Authority: 5, Sub: append(append([]uint32{}, dom.Sub...), uint32(3000+i))}, Attributes: 0x20000007})
					}
					v.ExtraSIDsNull = x == 0
					v.ResourceGroupDomainSID, v.ResourceGroups = nil, nil
					if rg {
						v.ResourceGroupDomainSID = &res
						v.ResourceGroups = []rpac.Group{{RID: 4000, Attributes: 0x20000007}, {RID: 2000, Attributes: 7}}
					}
					out = append(out, v)
				}
			}
		}
	}
	// extra SIDs and resource groups that repeat earlier group SIDs, at every position among distinct ones
	sidOf := func(rid uint32) rpac.SID {
		return rpac.SID{Revision: 1, Authority: 5, Sub: append(append([]uint32{}, dom.Sub...), rid)}
	}
	for _, pattern := range [][]uint32{{2000, 3000}, {3000, 2000}, {2000, 3000, 3001}, {3000, 2001, 3001}, {2000, 2001, 3000}, {3000, 3000, 3001}} {
		for _, rg := range []bool{false, true} {
			v := base
			v.EffectiveName, v.FullName = rpac.Str{Value: "dupuser"}, rpac.Str{Value: "Dup User"}
			v.Groups = []rpac.Group{{RID: 2000, Attributes: 7}, {RID: 2001, Attributes: 7}}
			v.ExtraSIDs = nil
			for _, rid := range pattern {
				v.ExtraSIDs = append(v.ExtraSIDs, rpac.ExtraSID{SID: sidOf(rid), Attributes: 7})
			}
			v.ResourceGroupDomainSID, v.ResourceGroups = nil, nil
			if rg {
				d := dom
				v.ResourceGroupDomainSID = &d // same domain: resource group RIDs may repeat group and extra SIDs
				v.ResourceGroups = []rpac.Group{{RID: 2001, Attributes: 7}, {RID: 4000, Attributes: 7}, {RID: 3000, Attributes: 7}, {RID: 4001, Attributes: 7}}
			}
			out = append(out, v)
		}
	}
	// user flag values without the extra-SIDs bit (0x20) on a structure that does encode extra SIDs and resource
	// groups: what is encoded (and signed) is what is reported, whatever the informational flag word says
	for _, fl := range []uint32{0, 0x1, 0x200, 0xffffffdf} {
		v := base
		v.EffectiveName, v.FullName = rpac.Str{Value: "flaguser"}, rpac.Str{Value: "Flag User"}
		v.UserFlags = fl
		v.Groups = []rpac.Group{{RID: 2000, Attributes: 7}}
		v.ExtraSIDs = []rpac.ExtraSID{{SID: sidOf(3000), Attributes: 7}, {SID: sidOf(3001), Attributes: 7}}
		d := dom
		v.ResourceGroupDomainSID = &d
		v.ResourceGroups = []rpac.Group{{RID: 4000, Attributes: 7}}
		out = append(out, v)
	}
	out = append(out, rpac.SampleGOKRB5(), rpac.SampleTrust())
	return out
}

type built struct {
	pac       []byte
	lay       rpac.Layout
	types     []uint32
	srvIdx    int
	kdcIdx    int
	sigType   int32
	srvKey    []byte
	model     rpac.ValidationInfo
	kdcSigOff int
	kdcSigLen int
	srvSigOff int
	srvSigLen int
}

// build assembles and signs a PAC with the given buffer order.
func build(v rpac.ValidationInfo, sigType int32, srvKey []byte, rodc *uint16, order []uint32, seed int64) built {
	kdcKey := keyOf(18, seed+99)
	data := map[uint32][]byte{
		rpac.TypeLogonInfo:  v.Encode(),
		rpac.TypeClientInfo: rpac.ClientInfo(v.LogonTime, v.EffectiveName.Value),
		rpac.TypeServerSig:  rpac.SigBuffer(sigType, rodc),
		rpac.TypeKDCSig:     rpac.SigBuffer(16, rodc),
		rpac.TypeUPNDNS:     upnDNS("user@test.gokrb5", "TEST.GOKRB5"),
		typeClientClaims:    clientClaims,
	}
	var bufs []rpac.Buffer
	b := built{sigType: sigType, srvKey: srvKey, model: v, srvIdx: -1, kdcIdx: -1}
	for i, t := range order {
		bufs = append(bufs, rpac.Buffer{Type: t, Data: data[t]})
		if t == rpac.TypeServerSig && b.srvIdx < 0 {
			b.srvIdx = i
		}
		if t == rpac.TypeKDCSig && b.kdcIdx < 0 {
			b.kdcIdx = i
		}
		b.types = append(b.types, t)
	}
	b.pac, b.lay = rpac.Assemble(bufs)
	if b.srvIdx >= 0 && b.kdcIdx >= 0 {
		if err := rpac.Sign(b.pac, b.lay, b.srvIdx, b.kdcIdx, sigType, etypeOf(sigType), srvKey, 16, 18, kdcKey); err != nil {
			engine.Fatal("sign: %v", err)
		}
		b.kdcSigOff, b.kdcSigLen = b.lay.Offsets[b.kdcIdx]+4, rpac.SigLen(16)
		b.srvSigOff, b.srvSigLen = b.lay.Offsets[b.srvIdx]+4, rpac.SigLen(sigType)
	} else if b.srvIdx >= 0 {
		// sign the server signature alone (KDC signature buffer missing)
		sig, _ := rcrypto.Checksum(etypeOf(sigType), srvKey, 17, b.pac)
		copy(b.pac[b.lay.Offsets[b.srvIdx]+4:], sig[:rpac.SigLen(sigType)])
	}
	return b
}

func upnDNS(upn, dns string) []byte {
	u := utf16le(upn)
	d := utf16le(dns)
	b := make([]byte, 16)
	binary.LittleEndian.PutUint16(b[0:], uint16(len(u)))
	binary.LittleEndian.PutUint16(b[2:], 16)
	binary.LittleEndian.PutUint16(b[4:], uint16(len(d)))
	binary.LittleEndian.PutUint16(b[6:], uint16(16+len(u)))
	binary.LittleEndian.PutUint32(b[8:], 0)
	b = append(b, u...)
	return append(b, d...)
}

func utf16le(s string) []byte {
	var out []byte
	for _, r := range s {
		out = append(out, byte(r), byte(r>>8))
	}
	return out
}

// typeClientClaims: a client claims buffer (type 13); its content is a well-formed CLAIMS_SET_METADATA taken as an
// input (one string claim), only so that buffers the library decodes stand before and between the four standard ones.
const typeClientClaims = 13

var clientClaims, _ = hex.DecodeString("01100800cccccccc000100000000000000000200d80000000400020000000000d8000000000000000000000000000000d800000001100800ccccccccc80000000000000000000200010000000400020000000000000000000000000001000000010000000100000008000200010000000c000200030003000100000010000200290000000000000029000000610064003a002f002f006500780074002f00730041004d004100630063006f0075006e0074004e0061006d0065003a0038003800640035006400390030003800350065006100350063003000630030000000000001000000140002000a000000000000000a00000074006500730074007500730065007200310000000000000000000000")

var stdOrder = []uint32{rpac.TypeLogonInfo, rpac.TypeClientInfo, rpac.TypeServerSig, rpac.TypeKDCSig}

type result struct {
	err   error
	panic string
	p     pac.PACType
}

func process(b []byte, etype int32, key []byte) result {
	var r result
	r.panic = safe(func() {
		if err := r.p.Unmarshal(append([]byte{}, b...)); err != nil {
			r.err = err
			return
		}
		r.err = r.p.ProcessPACInfoBuffers(types.EncryptionKey{KeyType: etype, KeyValue: key}, log.New(io.Discard, "", 0))
	})
	return r
}

// attrDiff compares the exposed attributes with the model.
func attrDiff(k *pac.KerbValidationInfo, v rpac.ValidationInfo) string {
	switch {
	case k == nil:
		return "no-validation-info"
	case k.EffectiveName.Value != v.EffectiveName.Value:
		return fmt.Sprintf("EffectiveName %q vs %q", k.EffectiveName.Value, v.EffectiveName.Value)
	case k.FullName.Value != v.FullName.Value:
		return fmt.Sprintf("FullName %q vs %q", k.FullName.Value, v.FullName.Value)
	case k.UserID != v.UserID:
		return fmt.Sprintf("UserID %d vs %d", k.UserID, v.UserID)
	case k.PrimaryGroupID != v.PrimaryGroupID:
		return fmt.Sprintf("PrimaryGroupID %d vs %d", k.PrimaryGroupID, v.PrimaryGroupID)
	case !k.LogOnTime.Time().Equal(rpac.FromFileTime(v.LogonTime)):
		return fmt.Sprintf("LogOnTime %v vs %v", k.LogOnTime.Time(), rpac.FromFileTime(v.LogonTime))
	case !k.PasswordLastSet.Time().Equal(rpac.FromFileTime(v.PasswordLastSet)):
		return "PasswordLastSet"
	case k.LogonServer.Value != v.LogonServer.Value || k.LogonDomainName.Value != v.LogonDomainName.Value:
		return "LogonServer/LogonDomainName"
	case k.LogonDomainID.String() != v.LogonDomainID.String():
		return fmt.Sprintf("LogonDomainID %s vs %s", k.LogonDomainID.String(), v.LogonDomainID.String())
	}
	got, want := k.GetGroupMembershipSIDs(), v.GroupSIDs()
	if strings.Join(got, ",") != strings.Join(want, ",") {
		return fmt.Sprintf("GroupSIDs %v vs %v", got, want)
	}
	return ""
}

// Run is the check's entry point.
func Run(c *engine.Ctx) {
	c.Assume = append(c.Assume,
		"PACs are assembled, NDR-encoded and signed by ref/pac, whose KERB_VALIDATION_INFO encoder reproduces the two captured samples byte for byte (checked on every run); checksums from ref/rcrypto",
		"not judged: bits of the KDC signature value (not covered by the server signature, not verifiable without the krbtgt key)",
		"bit-flip cases run in guarded worker subprocesses (6 GiB address-space limit, 30 s stall watchdog); a worker death or stall is attributed to the in-flight case and reported as a violation")
	gh, th := ref.PACSamples()
	if _, err := rpac.SelfTest(gh, th); err != nil {
		engine.Fatal("%v", err)
	}
	if _, err := rcrypto.SelfTest(); err != nil {
		engine.Fatal("%v", err)
	}
	var evals int64
	ms := models()
	rodcV := uint16(0x1234)
	// (1) every model x signature type x 2 keys x RODC: accepted, attributes equal; wrong key / wrong declared type rejected
	for mi, v := range ms {
		for _, st := range sigTypes {
			for ks := int64(0); ks < 2; ks++ {
				for _, rodc := range []*uint16{nil, &rodcV} {
					et := etypeOf(st)
					key := keyOf(et, c.Seed+ks)
					b := build(v, st, key, rodc, stdOrder, c.Seed)
					rec := map[string]interface{}{"model": mi, "sig_type": st, "rodc": rodc != nil, "pac": hex.EncodeToString(b.pac), "key": hex.EncodeToString(key)}
					evals++
					r := process(b.pac, et, key)
					if r.panic != "" || r.err != nil {
						c.Violate("valid", fmt.Sprintf("valid-rejected:sig%d", st), map[string]interface{}{"panic": r.panic, "err": fmt.Sprint(r.err)}, rec)
						continue
					}
					if d := attrDiff(r.p.KerbValidationInfo, v); d != "" {
						c.Violate("attributes", "attributes:"+strings.Fields(d)[0]+":"+nameClass(v.EffectiveName.Value), map[string]interface{}{"diff": d}, rec)
						continue
					}
					if r.p.ClientInfo == nil || r.p.ClientInfo.Name != v.EffectiveName.Value {
						c.Violate("attributes", "attributes:client-info-name:"+nameClass(v.EffectiveName.Value), nil, rec)
						continue
					}
					evals++
					if r2 := process(b.pac, et, keyOf(et, c.Seed+ks+7)); r2.panic != "" || r2.err == nil {
						c.Violate("negative", fmt.Sprintf("accepts-wrong-key:sig%d", st), map[string]interface{}{"panic": r2.panic}, rec)
						continue
					}
					for _, other := range sigTypes {
						if other == st {
							continue
						}
						evals++
						m := append([]byte{}, b.pac...)
						binary.LittleEndian.PutUint32(m[b.lay.Offsets[b.srvIdx]:], uint32(other))
						ok := keyOf(etypeOf(other), c.Seed)
						if len(ok) == len(key) {
							ok = key
						}
						if r3 := process(m, etypeOf(other), ok); r3.panic != "" || r3.err == nil {
							c.Violate("negative", fmt.Sprintf("accepts-other-declared-type:%d-as-%d", st, other), map[string]interface{}{"panic": r3.panic}, rec)
						}
					}
					// the signature computed with this key's own mechanism over a PAC that DECLARES another type of the same length
					for _, declared := range sigTypes {
						if declared == st || rpac.SigLen(declared) != rpac.SigLen(st) {
							continue
						}
						evals++
						bb := build(v, declared, keyOf(etypeOf(declared), c.Seed), rodc, stdOrder, c.Seed) // laid out with the declared type (its own signature is overwritten below)
						zero := append([]byte{}, bb.pac...)
						for i := 0; i < bb.srvSigLen; i++ {
							zero[bb.srvSigOff+i] = 0
						}
						for i := 0; i < bb.kdcSigLen; i++ {
							zero[bb.kdcSigOff+i] = 0
						}
						sig, _ := rcrypto.Checksum(et, key, 17, zero)
						copy(bb.pac[bb.srvSigOff:], sig[:bb.srvSigLen])
						if r4 := process(bb.pac, et, key); r4.panic != "" || r4.err == nil {
							c.Violate("negative", fmt.Sprintf("accepts-signature-of-type-%d-declared-as-%d", st, declared), map[string]interface{}{"panic": r4.panic}, rec)
						}
					}
					c.Distinct(fmt.Sprintf("valid/%d/%d/%d/%v", mi, st, ks, rodc != nil))
				}
			}
		}
	}
	c.Sample(map[string]interface{}{"model": ms[7], "sig_type": 16, "mutations": "every single-bit flip, buffer removal/duplication/every order, wrong key, other declared type"})

	// (2) every single-bit flip of every byte, for a few models and every signature type, and of the captured PAC:
	// run in guarded worker subprocesses (a flipped size or count may ask for gigabytes or crash the process)
	tier := "quick"
	if c.Thorough() {
		tier = "thorough"
	}
	args := []string{fmt.Sprint(c.Seed), tier}
	done := c.RunGuarded(engine.GuardSpec{Worker: "c19flip", Args: args, Describe: func(idx int) interface{} {
		fc := flipCases(args)
		ci, bit := fc.locate(idx)
		return map[string]interface{}{"pac": hex.EncodeToString(fc.combos[ci].pac), "bit": bit, "what": fc.combos[ci].what}
	}})
	evals += done
	c.Cov["bitflip_cases"] = done
	// (3) buffer order, removal, duplication (re-signed)
	v := ms[9]
	for _, st := range []int32{16, -138, 20} {
		et := etypeOf(st)
		key := keyOf(et, c.Seed)
		five := append(append([]uint32{}, stdOrder...), rpac.TypeUPNDNS)
		withClaims := append(append([]uint32{}, stdOrder...), typeClientClaims)
		for _, set := range [][]uint32{five, withClaims} {
			permute(set, func(order []uint32) {
				evals++
				b := build(v, st, key, nil, order, c.Seed)
				r := process(b.pac, et, key)
				rec := map[string]interface{}{"order": fmt.Sprint(order), "sig_type": st}
				if r.panic != "" || r.err != nil {
					c.Violate("order", "rejects-permuted-buffer-order", map[string]interface{}{"panic": r.panic, "err": fmt.Sprint(r.err)}, rec)
					return
				}
				if d := attrDiff(r.p.KerbValidationInfo, v); d != "" {
					c.Violate("order", "attributes-differ-under-permuted-order", map[string]interface{}{"diff": d}, rec)
					return
				}
				c.Distinct("order/" + fmt.Sprint(order))
			})
		}
		for drop := range stdOrder {
			var order []uint32
			for i, t := range stdOrder {
				if i != drop {
					order = append(order, t)
				}
			}
			evals++
			b := build(v, st, key, nil, order, c.Seed)
			r := process(b.pac, et, key)
			rec := map[string]interface{}{"removed_buffer_type": stdOrder[drop], "sig_type": st}
			if r.panic != "" {
				c.Violate("removal", fmt.Sprintf("panic:missing-buffer-%d", stdOrder[drop]), map[string]interface{}{"panic": r.panic}, rec)
			} else if r.err == nil {
				c.Violate("removal", fmt.Sprintf("accepts-pac-without-buffer-%d", stdOrder[drop]), nil, rec)
			} else {
				c.Distinct(fmt.Sprintf("removal/%d/%d", st, stdOrder[drop]))
			}
		}
		for dup := range stdOrder {
			order := append(append([]uint32{}, stdOrder...), stdOrder[dup])
			evals++
			b := build(v, st, key, nil, order, c.Seed)
			r := process(b.pac, et, key)
			rec := map[string]interface{}{"duplicated_buffer_type": stdOrder[dup], "sig_type": st}
			if r.panic != "" {
				c.Violate("duplication", fmt.Sprintf("panic:duplicated-buffer-%d", stdOrder[dup]), map[string]interface{}{"panic": r.panic}, rec)
			} else if r.err == nil {
				if d := attrDiff(r.p.KerbValidationInfo, v); d != "" {
					c.Violate("duplication", "attributes-differ-with-duplicated-buffer", map[string]interface{}{"diff": d}, rec)
				}
			}
			// a duplicated signature buffer leaves the second copy's value non-zero in the signed data of the
			// reference construction; whether such a PAC verifies is not settled by the statement: not judged
		}
		// empty PAC and PAC with only signatures
		for _, order := range [][]uint32{{}, {rpac.TypeServerSig, rpac.TypeKDCSig}} {
			evals++
			b := build(v, st, key, nil, order, c.Seed)
			if r := process(b.pac, et, key); r.panic != "" || r.err == nil {
				c.Violate("removal", "accepts-or-panics-on-pac-without-mandatory-buffers", map[string]interface{}{"panic": r.panic}, map[string]interface{}{"order": fmt.Sprint(order)})
			}
		}
	}
	// (4) the captured PAC with its real key: accepted; each bit of the signed data flipped: rejected
	captured(c, &evals)
	// (5) through the ticket: VerifyAPREQ with the PAC in the authorization data
	throughTicket(c, ms, &evals)
	duplicatesAndPadding(c, ms, &evals)
	undeclaredTypes(c, ms, &evals)
	reusedValue(c, ms, &evals)

	c.Add("evaluations", evals)
	c.Add("states", evals)
	c.Add("transitions", evals)
	c.Add("traces_validated_against_impl", evals)
	c.Cov["attribute_models"] = len(ms)
	c.Cov["rule"] = "attribute models (5 name shapes x 0-3 groups x 0-2 extra SIDs x resource groups + 2 captured samples) x 5 signature types x 2 keys x RODC id present/absent: accepted with equal attributes, wrong key and every other declared type rejected; every single-bit flip of every byte of selected PACs per signature type; all 120 orders of five buffers, removal and duplication of each buffer; the captured PAC; the same through Ticket.GetPACType / VerifyAPREQ per etype; server signatures declaring every checksum type in -200..200 (+ extremes) outside the supported five with value lengths {0,1,12,16,20,24} under a key of every etype: rejected; one PACType value processing two PACs in turn (all ordered pairs of 4 models x 2 types, second PAC complete / without each mandatory buffer): the second result is the second PAC's or an error. distinct = accepted (model,type,key,rodc) cells, (type, region) rejections, orders"
}

func panicSite(p string) string {
	if i := strings.Index(p, "\n"); i > 0 {
		p = p[:i]
	}
	p = strings.TrimPrefix(p, "runtime error: ")
	if i := strings.Index(p, "["); i > 0 {
		p = strings.TrimSpace(p[:i])
	}
	return strings.ReplaceAll(p, " ", "-")
}

func region(b built, by int) string {
	n := len(b.types)
	switch {
	case by < 4:
		return "cbuffers"
	case by < 8:
		return "version"
	case by < 8+16*n:
		f := (by - 8) % 16
		switch {
		case f < 4:
			return "table-type"
		case f < 8:
			return "table-size"
		}
		return "table-offset"
	}
	for i, off := range b.lay.Offsets {
		if by >= off && by < off+b.lay.Sizes[i] {
			switch b.types[i] {
			case rpac.TypeLogonInfo:
				return "logon-info"
			case rpac.TypeClientInfo:
				return "client-info"
			case rpac.TypeServerSig:
				if by < off+4 {
					return "server-sig-type"
				}
				if by < off+4+b.srvSigLen {
					return "server-sig-value"
				}
				return "server-sig-rodc"
			case rpac.TypeKDCSig:
				if by < off+4 {
					return "kdc-sig-type"
				}
				return "kdc-sig-rodc"
			}
			return fmt.Sprintf("buffer-%d", b.types[i])
		}
	}
	return "padding"
}

func permute(a []uint32, f func([]uint32)) {
	var rec func(k int)
	rec = func(k int) {
		if k == len(a) {
			f(append([]uint32{}, a...))
			return
		}
		for i := k; i < len(a); i++ {
			a[k], a[i] = a[i], a[k]
			rec(k + 1)
			a[k], a[i] = a[i], a[k]
		}
	}
	rec(0)
}

func captured(c *engine.Ctx, evals *int64) {
	ph, kh := ref.PACSampleFull()
	pb, _ := hex.DecodeString(ph)
	kb, _ := hex.DecodeString(kh)
	kt := keytab.New()
	if err := kt.Unmarshal(kb); err != nil {
		engine.FailValid("keytab.Unmarshal(sample keytab)", err)
	}
	pn, _ := types.ParseSPNString("sysHTTP")
	key, _, err := kt.GetEncryptionKey(pn, "TEST.GOKRB5", 2, 18)
	if err != nil {
		engine.FailValid("Keytab.GetEncryptionKey(sample key)", err)
	}
	*evals++
	r := process(pb, 18, key.KeyValue)
	if r.panic != "" || r.err != nil {
		c.Violate("captured", "captured-pac-rejected", map[string]interface{}{"panic": r.panic, "err": fmt.Sprint(r.err)}, nil)
		return
	}
	if d := attrDiff(r.p.KerbValidationInfo, rpac.SampleGOKRB5()); d != "" {
		c.Violate("captured", "captured-pac-attributes", map[string]interface{}{"diff": d}, nil)
	}
	c.Distinct("captured")
}

func throughTicket(c *engine.Ctx, ms []rpac.ValidationInfo, evals *int64) {
	w := apworld.NewWorld(c.Seed)
	kt := keytab.New()
	if err := kt.Unmarshal(w.Keytab); err != nil {
		engine.FailValid("keytab.Unmarshal(model keytab)", err)
	}
	vclock.Virtual(apworld.T0)
	for _, et := range []int32{rcrypto.AES128, rcrypto.AES256, rcrypto.A128S2, rcrypto.A256S2, rcrypto.RC4} {
		p, _ := rcrypto.Get(et)
		svcKey, _ := w.Lookup([]string{"HTTP", apworld.SvcHost}, apworld.Realm, 2, et)
		for mi, v := range []rpac.ValidationInfo{ms[9], ms[len(ms)-1]} {
			for _, variant := range []string{"valid", "bad-signature", "signed-with-other-key", "missing-client-info", "pac-decoding-off",
				// damage that makes the PAC fail while its header / buffer table is read (before any signature is looked at)
				"buffer-count-exceeds-data", "cut-inside-header", "cut-inside-buffer-table", "buffer-offset-beyond-data", "empty-pac",
				// a keytab-principal override: ticket and PAC keys come from the override principal's entry, whatever the
				// ticket's clear-text sname says (here a name the keytab does not hold)
				"valid-under-override-unknown-sname", "bad-signature-under-override-unknown-sname",
				// a ticket issued under the older key version the keytab still holds: its PAC is signed with that version's
				// key; one signed with the newest version's key is not this ticket's PAC
				"valid-older-kvno", "signed-with-newest-kvno-key-ticket-of-older-kvno"} {
				key := svcKey
				if variant == "signed-with-other-key" {
					key = keyOf(et, c.Seed+5)
				}
				olderKey, _ := w.Lookup([]string{"HTTP", apworld.SvcHost}, apworld.Realm, 1, et)
				if variant == "valid-older-kvno" {
					key = olderKey
				}
				// distinct times, so that one reported in place of another shows
				v.LogoffTime, v.KickOffTime = rpac.FileTime(apworld.T0.Add(3*time.Hour)), rpac.FileTime(apworld.T0.Add(5*time.Hour))
				v.PasswordLastSet, v.PasswordCanChange = rpac.FileTime(apworld.T0.Add(-72*time.Hour)), rpac.FileTime(apworld.T0.Add(-48*time.Hour))
				order := stdOrder
				if variant == "missing-client-info" {
					order = []uint32{rpac.TypeLogonInfo, rpac.TypeServerSig, rpac.TypeKDCSig}
				}
				b := build(v, p.CksumType, key, nil, order, c.Seed)
				if variant == "bad-signature" || variant == "bad-signature-under-override-unknown-sname" {
					b.pac[b.srvSigOff] ^= 1
				}
				switch variant {
				case "buffer-count-exceeds-data":
					b.pac[2] = 0x40 // cBuffers += 0x400000
				case "cut-inside-header":
					b.pac = b.pac[:5]
				case "cut-inside-buffer-table":
					b.pac = b.pac[:8+16+7]
				case "buffer-offset-beyond-data":
					b.pac[8+8+2] = 0x7f // offset of the first buffer += 0x7f0000
				case "empty-pac":
					b.pac = []byte{}
				}
				inner := krbmsg.EncodeAuthData([]krbmsg.AuthDataEntry{{Type: 128, Data: b.pac}})
				cs := apworld.Base(et)
				cs.AuthzData = []krbmsg.AuthDataEntry{{Type: 1, Data: inner}}
				cs.AuthzLabel = "pac:" + variant
				if strings.Contains(variant, "older-kvno") {
					cs.TktKVNO, cs.TktKeyOf = 1, "svc1"
				}
				override := strings.Contains(variant, "under-override")
				if override {
					cs.TktSName = []string{"HTTP", "nosuch.test.gokrb5"}
				}
				m, err := w.Mint(cs)
				if err != nil {
					engine.Fatal("mint: %v", err)
				}
				set := apworld.Settings{DecodePAC: variant != "pac-decoding-off"}
				if override {
					set.Override = apworld.Account
				}
				st := c01.ToServiceSettings(kt, set)
				service.VerifResetReplayCache()
				*evals++
				var ok bool
				var verr error
				var ad struct {
					eff, full, dom, srv, domid string
					uid, gid                   int
					sids                       []string
					user                       string
					logon, logoff, pwset       time.Time
				}
				rec := map[string]interface{}{"etype": et, "model": mi, "variant": variant}
				if pn := safe(func() {
					vclock.Set(apworld.T0)
					var a messages.APReq
					if verr = a.Unmarshal(m.APReq); verr != nil {
						return
					}
					var creds interface {
						UserName() string
					}
					okk, cr, e := service.VerifyAPREQ(&a, st)
					ok, verr = okk, e
					if okk && cr != nil {
						creds = cr
						g := cr.GetADCredentials()
						ad.eff, ad.full, ad.dom, ad.srv, ad.domid, ad.uid, ad.gid, ad.sids = g.EffectiveName, g.FullName, g.LogonDomainName, g.LogonServer, g.LogonDomainID, g.UserID, g.PrimaryGroupID, g.GroupMembershipSIDs
						ad.user = creds.UserName()
						ad.logon, ad.logoff, ad.pwset = g.LogOnTime, g.LogOffTime, g.PasswordLastSet
					}
				}); pn != "" {
					c.Violate("ticket", "panic:through-ticket:"+variant, map[string]interface{}{"panic": pn}, rec)
					continue
				}
				wantOK := variant == "valid" || variant == "pac-decoding-off" || variant == "valid-under-override-unknown-sname" || variant == "valid-older-kvno"
				if ok != wantOK {
					c.Violate("ticket", fmt.Sprintf("through-ticket:%s:accepted=%v", variant, ok), map[string]interface{}{"err": fmt.Sprint(verr)}, rec)
					continue
				}
				if variant == "valid" || variant == "valid-under-override-unknown-sname" || variant == "valid-older-kvno" {
					if !ad.logon.Equal(rpac.FromFileTime(v.LogonTime)) || !ad.logoff.Equal(rpac.FromFileTime(v.LogoffTime)) || !ad.pwset.Equal(rpac.FromFileTime(v.PasswordLastSet)) {
						c.Violate("ticket", "through-ticket:ad-credentials-differ:times", map[string]interface{}{"logon": ad.logon, "logoff": ad.logoff, "password_last_set": ad.pwset,
							"want_logon": rpac.FromFileTime(v.LogonTime), "want_logoff": rpac.FromFileTime(v.LogoffTime), "want_password_last_set": rpac.FromFileTime(v.PasswordLastSet)}, rec)
						continue
					}
					if ad.eff != v.EffectiveName.Value || ad.full != v.FullName.Value || ad.uid != int(v.UserID) || ad.gid != int(v.PrimaryGroupID) || ad.dom != v.LogonDomainName.Value ||
						ad.srv != v.LogonServer.Value || ad.domid != v.LogonDomainID.String() || strings.Join(ad.sids, ",") != strings.Join(v.GroupSIDs(), ",") {
						c.Violate("ticket", "through-ticket:ad-credentials-differ", map[string]interface{}{"got": fmt.Sprintf("%+v", ad), "want_sids": v.GroupSIDs()}, rec)
						continue
					}
				}
				if variant == "pac-decoding-off" && (ad.eff != "" || len(ad.sids) != 0) {
					c.Violate("ticket", "through-ticket:pac-decoded-although-disabled", nil, rec)
					continue
				}
				c.Distinct(fmt.Sprintf("ticket/%d/%d/%s", et, mi, variant))
			}
		}
	}
	_ = der.Seq
	_ = bytes.Equal
}

// ---- guarded bit-flip worker -------------------------------------------

type flipCombo struct {
	what           string
	pac            []byte
	et             int32
	key            []byte
	skipOff, skipN int // KDC signature value: not judged
	b              *built
	st             int32
}

type flipSet struct {
	combos []flipCombo
	cum    []int // cumulative bit counts
}

var flipCache *flipSet

func flipCases(args []string) *flipSet {
	if flipCache != nil {
		return flipCache
	}
	var seed int64
	fmt.Sscan(args[0], &seed)
	thorough := args[1] == "thorough"
	ms := models()
	fs := &flipSet{}
	flipModels := []int{0, 9, len(ms) - 2, len(ms) - 1}
	if thorough {
		flipModels = nil
		for i := 0; i < len(ms); i += 5 {
			flipModels = append(flipModels, i)
		}
	}
	rodcV := uint16(0x1234)
	for _, mi := range flipModels {
		for _, st := range sigTypes {
			et := etypeOf(st)
			key := keyOf(et, seed)
			for _, rodc := range []*uint16{nil, &rodcV} {
				if rodc != nil && st != 16 {
					continue
				}
				b := build(ms[mi], st, key, rodc, stdOrder, seed)
				fs.combos = append(fs.combos, flipCombo{what: fmt.Sprintf("model %d sig type %d rodc %v", mi, st, rodc != nil), pac: b.pac, et: et, key: key, skipOff: b.kdcSigOff, skipN: b.kdcSigLen, b: &b, st: st})
			}
		}
	}
	// the captured PAC with its real key
	ph, kh := ref.PACSampleFull()
	pb, _ := hex.DecodeString(ph)
	kb, _ := hex.DecodeString(kh)
	kt := keytab.New()
	if err := kt.Unmarshal(kb); err == nil {
		pn, _ := types.ParseSPNString("sysHTTP")
		if key, _, err := kt.GetEncryptionKey(pn, "TEST.GOKRB5", 2, 18); err == nil {
			n := int(binary.LittleEndian.Uint32(pb))
			kdcOff, kdcLen := -1, 0
			for i := 0; i < n; i++ {
				if binary.LittleEndian.Uint32(pb[8+16*i:]) == rpac.TypeKDCSig {
					kdcOff = int(binary.LittleEndian.Uint64(pb[8+16*i+8:])) + 4
					kdcLen = rpac.SigLen(int32(binary.LittleEndian.Uint32(pb[kdcOff-4:])))
				}
			}
			fs.combos = append(fs.combos, flipCombo{what: "captured PAC (testdata.MarshaledPAC_AD_WIN2K_PAC)", pac: pb, et: 18, key: key.KeyValue, skipOff: kdcOff, skipN: kdcLen, st: 16})
		}
	}
	total := 0
	for _, cb := range fs.combos {
		total += len(cb.pac) * 8
		fs.cum = append(fs.cum, total)
	}
	flipCache = fs
	return fs
}

func (fs *flipSet) locate(idx int) (combo, bit int) {
	prev := 0
	for i, cnt := range fs.cum {
		if idx < cnt {
			return i, idx - prev
		}
		prev = cnt
	}
	return len(fs.combos) - 1, 0
}

func init() {
	engine.RegisterWorker("c19flip", engine.WorkerFunc{
		N: func(args []string) int { fs := flipCases(args); return fs.cum[len(fs.cum)-1] },
		Run: func(args []string, idx int, r engine.Reporter) {
			fs := flipCases(args)
			ci, bit := fs.locate(idx)
			cb := fs.combos[ci]
			by := bit / 8
			if by >= cb.skipOff && by < cb.skipOff+cb.skipN {
				return // KDC signature value: not judged
			}
			m := append([]byte{}, cb.pac...)
			m[by] ^= 1 << uint(bit%8)
			reg := "captured"
			if cb.b != nil {
				reg = region(*cb.b, by)
			}
			res := process(m, cb.et, cb.key)
			rec := map[string]interface{}{"what": cb.what, "bit": bit, "region": reg, "pac": hex.EncodeToString(cb.pac), "key": hex.EncodeToString(cb.key)}
			if res.panic != "" {
				r.Violate("bitflip", "panic:"+panicSite(res.panic)+":"+reg, map[string]interface{}{"panic": res.panic}, rec)
				return
			}
			if res.err == nil {
				r.Violate("bitflip", fmt.Sprintf("accepts-bitflip:%s:sig%d", reg, cb.st), nil, rec)
				return
			}
			r.Distinct(fmt.Sprintf("flip/%d/%s", cb.st, reg))
		},
	})
}

func nameClass(n string) string {
	cl := "ascii-name"
	for _, r := range n {
		if r > 0xffff {
			return "supplementary-plane-name"
		}
		if r > 0x7f {
			cl = "bmp-name"
		}
	}
	return cl
}

// duplicatesAndPadding: (a) a PAC that carries a second server- and KDC-signature buffer. Only the first of each type
// is a signature (its value is zeroed for the computation); the later ones are ordinary signed data, so every bit of
// them is covered. (b) a client-info buffer that is longer than its name (trailing bytes): the name reported is the
// NameLength bytes that are encoded, nothing more.
// undeclaredTypes: a server signature that declares a checksum type other than the supported ones can never be
// "the signature computed with the service's key for the declared type" when its value is empty or all zero,
// whatever key the service holds; such a PAC (whose content is otherwise well-formed) must be refused.
func undeclaredTypes(c *engine.Ctx, ms []rpac.ValidationInfo, evals *int64) {
	v := ms[0]
	supported := map[int32]bool{}
	for _, t := range sigTypes {
		supported[t] = true
	}
	var types32 []int32
	for t := int32(-200); t <= 200; t++ {
		types32 = append(types32, t)
	}
	types32 = append(types32, -2147483648, 2147483647, 0x7fff, -0x8000, 65536+16, 256+16, -138+65536, 1<<24|16)
	for _, declared := range types32 {
		if supported[declared] {
			continue
		}
		for _, n := range []int{0, 1, 12, 16, 20, 24} {
			sigBuf := make([]byte, 4+n)
			sigBuf[0], sigBuf[1], sigBuf[2], sigBuf[3] = byte(declared), byte(declared>>8), byte(declared>>16), byte(declared>>24)
			bufs := []rpac.Buffer{{Type: rpac.TypeLogonInfo, Data: v.Encode()}, {Type: rpac.TypeClientInfo, Data: rpac.ClientInfo(v.LogonTime, v.EffectiveName.Value)},
				{Type: rpac.TypeServerSig, Data: sigBuf}, {Type: rpac.TypeKDCSig, Data: rpac.SigBuffer(16, nil)}}
			pb, _ := rpac.Assemble(bufs)
			for _, et := range rcrypto.Etypes {
				key := keyOf(et, c.Seed+5)
				*evals++
				r := process(pb, et, key)
				rec := map[string]interface{}{"declared_type": declared, "signature_value_bytes": n, "service_key_etype": et}
				cls := "other"
				if n == 0 {
					cls = "empty-value"
				}
				if r.panic != "" {
					c.Violate("undeclared", fmt.Sprintf("panic:unsupported-declared-type:%s:%s", cls, panicSite(r.panic)), map[string]interface{}{"panic": r.panic}, rec)
				} else if r.err == nil {
					c.Violate("undeclared", fmt.Sprintf("accepts-unsigned-pac:declared-type-%d:%s", declared, cls), nil, rec)
				}
			}
		}
		c.Distinct(fmt.Sprintf("undeclared/%d", declared))
	}
}

// reusedValue: one pac.PACType value used for two PACs in turn. Whatever the library makes of the reuse, a
// successful second result has to be the second PAC's: its attributes, its mandatory buffers, its signature.
func reusedValue(c *engine.Ctx, ms []rpac.ValidationInfo, evals *int64) {
	pick := []rpac.ValidationInfo{ms[0], ms[1], ms[len(ms)/2], ms[len(ms)-1]}
	for _, st := range []int32{16, -138} {
		et := etypeOf(st)
		key := keyOf(et, c.Seed+7)
		for ia, a := range pick {
			for ib, b := range pick {
				orders := map[string][]uint32{
					"complete":            {rpac.TypeLogonInfo, rpac.TypeClientInfo, rpac.TypeServerSig, rpac.TypeKDCSig},
					"without-logon-info":  {rpac.TypeClientInfo, rpac.TypeServerSig, rpac.TypeKDCSig},
					"without-client-info": {rpac.TypeLogonInfo, rpac.TypeServerSig, rpac.TypeKDCSig},
				}
				for name, order := range orders {
					ba := build(a, st, key, nil, []uint32{rpac.TypeLogonInfo, rpac.TypeClientInfo, rpac.TypeServerSig, rpac.TypeKDCSig, rpac.TypeUPNDNS}, c.Seed)
					bb := build(b, st, key, nil, order, c.Seed)
					rec := map[string]interface{}{"signature_type": st, "first_model": ia, "second_model": ib, "second_pac": name}
					*evals++
					var p pac.PACType
					var err1, err2 error
					k := types.EncryptionKey{KeyType: et, KeyValue: key}
					pn := safe(func() {
						if err1 = p.Unmarshal(append([]byte{}, ba.pac...)); err1 == nil {
							err1 = p.ProcessPACInfoBuffers(k, log.New(io.Discard, "", 0))
						}
						if err2 = p.Unmarshal(append([]byte{}, bb.pac...)); err2 == nil {
							err2 = p.ProcessPACInfoBuffers(k, log.New(io.Discard, "", 0))
						}
					})
					switch {
					case pn != "":
						c.Violate("reuse", "panic:reused-pactype:"+panicSite(pn), map[string]interface{}{"panic": pn}, rec)
					case err1 != nil:
						c.Violate("reuse", "rejects-genuine:first-pac-of-a-reused-value", map[string]interface{}{"err": err1.Error()}, rec)
					case err2 != nil:
						// refusing the reuse (or the incomplete PAC) is fine
						c.Distinct("reuse/refused/" + name)
					case name != "complete":
						c.Violate("reuse", "accepts-pac-"+name+":reused-pactype", nil, rec)
					case p.KerbValidationInfo == nil:
						c.Violate("reuse", "no-attributes-after-success:reused-pactype", nil, rec)
					default:
						if d := attrDiff(p.KerbValidationInfo, b); d != "" {
							c.Violate("reuse", "attributes-of-an-earlier-pac:reused-pactype", map[string]interface{}{"diff": d}, rec)
						} else {
							c.Distinct("reuse/second-pac-reported/" + name)
						}
					}
				}
			}
		}
	}
}

func duplicatesAndPadding(c *engine.Ctx, ms []rpac.ValidationInfo, evals *int64) {
	v := ms[0]
	for _, sigType := range []int32{15, 16, -138, 19, 20} {
		et := etypeOf(sigType)
		key := keyOf(et, c.Seed+3)
		kdcKey := keyOf(18, c.Seed+98)
		// (a)
		order := []uint32{rpac.TypeLogonInfo, rpac.TypeClientInfo, rpac.TypeServerSig, rpac.TypeKDCSig, rpac.TypeServerSig, rpac.TypeKDCSig}
		var bufs []rpac.Buffer
		for _, t := range order {
			var d []byte
			switch t {
			case rpac.TypeLogonInfo:
				d = v.Encode()
			case rpac.TypeClientInfo:
				d = rpac.ClientInfo(v.LogonTime, v.EffectiveName.Value)
			case rpac.TypeServerSig:
				d = rpac.SigBuffer(sigType, nil)
			case rpac.TypeKDCSig:
				d = rpac.SigBuffer(16, nil)
			}
			bufs = append(bufs, rpac.Buffer{Type: t, Data: d})
		}
		pb, lay := rpac.Assemble(bufs)
		// the duplicates carry non-zero bytes where a signature value would be
		for _, idx := range []int{4, 5} {
			for k := 4; k < lay.Sizes[idx]; k++ {
				pb[lay.Offsets[idx]+k] = byte(0xA0 + k)
			}
		}
		if err := rpac.Sign(pb, lay, 2, 3, sigType, et, key, 16, 18, kdcKey); err != nil {
			engine.Fatal("sign: %v", err)
		}
		rec := map[string]interface{}{"signature_type": sigType, "what": "second server- and KDC-signature buffer"}
		// the same PAC signed over data in which the later buffers' values were blanked as well: that is not the
		// PAC with (only) the two signature fields zeroed, so the signature does not match and it must be refused
		{
			wrong := append([]byte{}, pb...)
			for _, idx := range []int{2, 3, 4, 5} {
				for k := 4; k < lay.Sizes[idx]; k++ {
					wrong[lay.Offsets[idx]+k] = 0
				}
			}
			sig, err := rcrypto.Checksum(et, key, 17, wrong)
			if err != nil {
				engine.Fatal("checksum: %v", err)
			}
			forged := append([]byte{}, pb...)
			copy(forged[lay.Offsets[2]+4:lay.Offsets[2]+4+rpac.SigLen(sigType)], sig)
			*evals++
			if rr := process(forged, et, key); rr.err == nil && rr.panic == "" {
				c.Violate("duplicates", fmt.Sprintf("accepts-signature-over-other-data:later-signature-buffers-blanked:sig%d", sigType), nil, rec)
			}
		}
		*evals++
		r := process(pb, et, key)
		if r.panic != "" {
			c.Violate("duplicates", "panic:duplicate-signature-buffers", map[string]interface{}{"panic": r.panic}, rec)
			continue
		}
		if r.err != nil {
			// the property does not say whether a PAC with repeated signature buffers is acceptable: not judged
			c.Add("not_judged", 1)
			c.Note("PAC with repeated signature buffers (sig type %d) rejected: %v", sigType, r.err)
		} else {
			for _, idx := range []int{4, 5} {
				for bit := 0; bit < lay.Sizes[idx]*8; bit++ {
					m := append([]byte{}, pb...)
					m[lay.Offsets[idx]+bit/8] ^= 1 << uint(7-bit%8)
					*evals++
					if rr := process(m, et, key); rr.err == nil && rr.panic == "" {
						c.Violate("duplicates", fmt.Sprintf("accepts-flip-in-signed-data:duplicate-signature-buffer:sig%d", sigType), map[string]interface{}{"buffer": idx, "bit": bit}, rec)
						break
					}
				}
			}
			c.Distinct(fmt.Sprintf("dup-sig/%d", sigType))
		}
		// (b)
		for _, extra := range [][]byte{{0, 0}, {'-', 0, 'a', 0, 'd', 0, 'm', 0, 'i', 0, 'n', 0}, {0xff}, make([]byte, 8)} {
			ci := append(rpac.ClientInfo(v.LogonTime, v.EffectiveName.Value), extra...)
			bufs := []rpac.Buffer{{Type: rpac.TypeLogonInfo, Data: v.Encode()}, {Type: rpac.TypeClientInfo, Data: ci}, {Type: rpac.TypeServerSig, Data: rpac.SigBuffer(sigType, nil)}, {Type: rpac.TypeKDCSig, Data: rpac.SigBuffer(16, nil)}}
			pb, lay := rpac.Assemble(bufs)
			if err := rpac.Sign(pb, lay, 2, 3, sigType, et, key, 16, 18, kdcKey); err != nil {
				engine.Fatal("sign: %v", err)
			}
			rec := map[string]interface{}{"signature_type": sigType, "client_info_trailing_bytes": len(extra)}
			*evals++
			r := process(pb, et, key)
			switch {
			case r.panic != "":
				c.Violate("padding", "panic:client-info-with-trailing-bytes", map[string]interface{}{"panic": r.panic}, rec)
			case r.err != nil:
				c.Add("not_judged", 1) // statement silent on whether trailing bytes are acceptable
			case r.p.ClientInfo == nil || r.p.ClientInfo.Name != v.EffectiveName.Value:
				got := ""
				if r.p.ClientInfo != nil {
					got = r.p.ClientInfo.Name
				}
				c.Violate("padding", "attributes:client-info-name:buffer-longer-than-name", map[string]interface{}{"got": got, "want": v.EffectiveName.Value}, rec)
			default:
				c.Distinct(fmt.Sprintf("ci-pad/%d/%d", sigType, len(extra)))
			}
		}
	}
}
