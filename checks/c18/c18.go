// Package c18: the SPNEGO HTTP client authenticates once, replays the body and
// terminates. The real spnego.Client.Do runs over a scripted
// http.RoundTripper; the Kerberos client behind it talks to the simulated KDC.
// Every server script (word over the response alphabet up to a length,
// followed by a constant tail) is enumerated; an independent acceptor holding
// the service key judges every Authorization token.
package c18

import (
	"bytes"
	"encoding/base64"
	"errors"
	"fmt"
	"io"
	"net/http"
	"strings"
	"time"

	"verif/checks/cworld"
	"verif/engine"
	"verif/ref/der"
	"verif/ref/krbmsg"
	"verif/ref/rcrypto"

	"github.com/jcmturner/gokrb5/v8/spnego"
	"github.com/jcmturner/gokrb5/v8/zzverif/vclock"
	"github.com/jcmturner/gokrb5/v8/zzverif/vnet"
)

// response alphabet
const (
	r200 = iota
	r401Neg
	r401NegReject
	r401Basic
	r302Same
	r302Other
	r500
	nResp
)

var respNames = []string{"200", "401-negotiate", "401-negotiate+reject-token", "401-basic", "302-same-host", "302-other-host", "500"}

const maxRequests = 64 // the transport fails the run beyond this many requests (non-termination is observed, not waited for)

type sentReq struct {
	Method string
	URL    string
	Auth   string
	Body   []byte
	Host   string
}

type scripted struct {
	word    []int
	tail    int
	consume string // "all" | "half" | "none": how much of a request body the server reads before it answers
	reqs    []sentReq
}

func (s *scripted) at(i int) int {
	if i < len(s.word) {
		return s.word[i]
	}
	return s.tail
}

func (s *scripted) RoundTrip(r *http.Request) (*http.Response, error) {
	if len(s.reqs) >= maxRequests {
		return nil, errors.New("harness: request horizon reached")
	}
	var body []byte
	if r.Body != nil {
		consume := s.consume
		if x := s.at(len(s.reqs)); x == r200 || x == r500 {
			consume = "all" // a server that processes the request reads all of it; only challenges and redirects may answer early
		}
		switch consume {
		case "all":
			body, _ = io.ReadAll(r.Body)
		case "half":
			n := int(r.ContentLength / 2)
			body = make([]byte, n)
			io.ReadFull(r.Body, body)
		}
		r.Body.Close()
	}
	i := len(s.reqs)
	s.reqs = append(s.reqs, sentReq{Method: r.Method, URL: r.URL.String(), Auth: r.Header.Get("Authorization"), Body: body, Host: r.Host})
	resp := &http.Response{Proto: "HTTP/1.1", ProtoMajor: 1, ProtoMinor: 1, Header: http.Header{}, Request: r}
	bodyText := fmt.Sprintf("response %d (%s)", i, respNames[s.at(i)])
	switch s.at(i) {
	case r200:
		resp.StatusCode = 200
	case r401Neg:
		resp.StatusCode = 401
		resp.Header.Set("WWW-Authenticate", "Negotiate")
	case r401NegReject:
		resp.StatusCode = 401
		resp.Header.Set("WWW-Authenticate", "Negotiate oQcwBaADCgEC")
	case r401Basic:
		resp.StatusCode = 401
		resp.Header.Set("WWW-Authenticate", `Basic realm="x"`)
	case r302Same:
		resp.StatusCode = 302
		resp.Header.Set("Location", fmt.Sprintf("http://host.test.gokrb5/next%d", i))
	case r302Other:
		resp.StatusCode = 302
		resp.Header.Set("Location", fmt.Sprintf("http://host2.test.gokrb5/next%d", i))
	case r500:
		resp.StatusCode = 500
	}
	resp.Status = fmt.Sprintf("%d %s", resp.StatusCode, http.StatusText(resp.StatusCode))
	resp.Body = io.NopCloser(strings.NewReader(bodyText))
	resp.ContentLength = int64(len(bodyText))
	return resp, nil
}

var (
	oidKRB5   = []int{1, 2, 840, 113554, 1, 2, 2}
	oidSPNEGO = []int{1, 3, 6, 1, 5, 5, 2}
)

func sameOID(a, b []int) bool {
	if len(a) != len(b) {
		return false
	}
	for i := range a {
		if a[i] != b[i] {
			return false
		}
	}
	return true
}

// accept is the independent acceptor: it holds the KDC database (hence the
// service keys) and verifies an Authorization header value for the SPN.
func accept(w *cworld.World, header string, spn string, now time.Time) error {
	if !strings.HasPrefix(header, "Negotiate ") {
		return fmt.Errorf("no Negotiate authorization header (%q)", trunc(header))
	}
	raw, err := base64.StdEncoding.DecodeString(strings.TrimPrefix(header, "Negotiate "))
	if err != nil {
		return fmt.Errorf("bad base64: %v", err)
	}
	n, err := der.Parse(raw)
	if err != nil {
		return fmt.Errorf("token is not DER: %v", err)
	}
	if !n.Is(der.App, 0, true) || len(n.Children) != 2 {
		return errors.New("token is not a GSS InitialContextToken")
	}
	oid, err := n.Children[0].AsOID()
	if err != nil || !sameOID(oid, oidSPNEGO) {
		return fmt.Errorf("outer mechanism is not SPNEGO: %v", oid)
	}
	nt := n.Children[1]
	if !nt.Is(der.Ctx, 0, true) || len(nt.Children) != 1 {
		return errors.New("not a NegTokenInit")
	}
	seq := nt.Children[0]
	mt := seq.Field(0)
	if mt == nil || len(mt.Children) == 0 {
		return errors.New("empty mechTypes")
	}
	first, err := mt.Children[0].AsOID()
	if err != nil || !sameOID(first, oidKRB5) {
		return fmt.Errorf("first mechanism is not Kerberos 5: %v", first)
	}
	tokN := seq.Field(2)
	if tokN == nil {
		return errors.New("no mechToken")
	}
	tok, err := tokN.AsOctets()
	if err != nil {
		return err
	}
	kn, rest, err := der.ParsePrefix(tok)
	if err != nil || len(rest) != 0 || !kn.Is(der.App, 0, true) {
		return errors.New("mechToken is not a GSS token")
	}
	// content: OID, then TOK_ID and the AP-REQ (not DER-wrapped together)
	on, after, err := der.ParsePrefix(kn.Content)
	if err != nil {
		return err
	}
	if o, err := on.AsOID(); err != nil || !sameOID(o, oidKRB5) {
		return errors.New("mechToken OID is not Kerberos 5")
	}
	if len(after) < 2 || after[0] != 1 || after[1] != 0 {
		return errors.New("TOK_ID is not KRB_AP_REQ")
	}
	ap, err := krbmsg.DecodeAPReq(after[2:])
	if err != nil {
		return fmt.Errorf("AP-REQ: %v", err)
	}
	if ap.PVNO != 5 || ap.MsgType != 14 {
		return errors.New("AP-REQ pvno/msg-type")
	}
	tkt, err := krbmsg.DecodeTicket(ap.Ticket)
	if err != nil {
		return fmt.Errorf("ticket: %v", err)
	}
	if strings.Join(tkt.SName.Names, "/") != spn {
		return fmt.Errorf("ticket is for %v, intended service principal is %s", tkt.SName.Names, spn)
	}
	var key []byte
	for _, k := range w.AllKDCs() {
		if p, ok := k.Principals[spn+"@"+tkt.Realm]; ok {
			for _, kk := range p.Keys {
				if kk.Etype == tkt.Enc.EType {
					key = kk.Value
				}
			}
		}
	}
	if key == nil {
		return fmt.Errorf("no service key for %s etype %d", spn, tkt.Enc.EType)
	}
	_, etb, err := rcrypto.Decrypt(tkt.Enc.EType, key, 2, tkt.Enc.Cipher)
	if err != nil {
		return fmt.Errorf("ticket does not decrypt under the service key: %v", err)
	}
	etp, err := krbmsg.DecodeEncTicketPart(trimDER(etb))
	if err != nil {
		return fmt.Errorf("EncTicketPart: %v", err)
	}
	if now.Before(etp.AuthTime.Add(-5*time.Minute)) || !now.Before(etp.EndTime) {
		return errors.New("ticket not valid now")
	}
	_, ab, err := rcrypto.Decrypt(ap.Auth.EType, etp.Key.Value, 11, ap.Auth.Cipher)
	if err != nil {
		return fmt.Errorf("authenticator does not decrypt under the session key (usage 11): %v", err)
	}
	auth, err := krbmsg.DecodeAuthenticator(trimDER(ab))
	if err != nil {
		return fmt.Errorf("authenticator: %v", err)
	}
	if !auth.CName.SameName(etp.CName) || auth.CRealm != etp.CRealm {
		return errors.New("authenticator client differs from the ticket's")
	}
	at := auth.CTime.Add(time.Duration(auth.Cusec) * time.Microsecond)
	if d := now.Sub(at); d > 5*time.Minute || -d > 5*time.Minute {
		return errors.New("authenticator outside the clock skew")
	}
	lastAuthID = fmt.Sprintf("%v@%s %d.%06d", auth.CName.Names, auth.CRealm, auth.CTime.Unix(), auth.Cusec)
	// RFC 4121 4.1.1: checksum type 0x8003, at least 24 bytes, Lgth = 16
	if auth.Cksum == nil || auth.Cksum.Type != 0x8003 || len(auth.Cksum.Sum) < 24 || auth.Cksum.Sum[0] != 16 || auth.Cksum.Sum[1] != 0 || auth.Cksum.Sum[2] != 0 || auth.Cksum.Sum[3] != 0 {
		return errors.New("authenticator lacks the RFC 4121 0x8003 checksum")
	}
	return nil
}

// lastAuthID: (client, ctime, cusec) of the authenticator accept() looked at last - what an RFC 4120 replay cache keys on.
var lastAuthID string

func trimDER(b []byte) []byte {
	if n, _, err := der.ParsePrefix(b); err == nil {
		return n.Full
	}
	return b
}

func trunc(s string) string {
	if len(s) > 80 {
		return s[:80] + "..."
	}
	return s
}

type runCfg struct {
	Word    []int  `json:"word"`
	Tail    int    `json:"tail"`
	Method  string `json:"method"`
	BodyLen int    `json:"body_len"`
	Consume string `json:"server_reads_body"`
	SPN     string `json:"spn"` // "" = derived from the URL
	Etype   int32  `json:"etype"`
	CNAME   string `json:"cname"`
	// URLHost: how the start URL names the host ("" = host.test.gokrb5): with a port, as an absolute name (trailing
	// dot), both. The service principal derived from it is HTTP/host.test.gokrb5 in every case.
	URLHost string `json:"url_host,omitempty"`
	// CNAMEFails: the resolver has no canonical name to offer (lookup error); the name in the URL is used
	CNAMEFails bool `json:"cname_lookup_fails,omitempty"`
	// PriorGiveUp: the same spnego.Client has been used before for a call that ended at the attempt limit (a server
	// that only ever challenges)
	PriorGiveUp bool `json:"client_used_before_for_a_call_that_gave_up,omitempty"`
	// Piecewise: the body comes from a reader that hands out at most 1000 octets per Read, with ContentLength declared
	Piecewise bool `json:"body_reader_delivers_in_pieces,omitempty"`
}

// pieces hands out its data at most n octets per Read.
type pieces struct {
	b []byte
	n int
}

func (p *pieces) Read(out []byte) (int, error) {
	if len(p.b) == 0 {
		return 0, io.EOF
	}
	k := p.n
	if k > len(p.b) {
		k = len(p.b)
	}
	if k > len(out) {
		k = len(out)
	}
	copy(out, p.b[:k])
	p.b = p.b[k:]
	return k, nil
}

// hostOfURL: the host name a URL-derived service principal is made of (no port, no trailing dot).
func hostOfURL(u string) string {
	h := strings.Split(strings.TrimPrefix(u, "http://"), "/")[0]
	if i := strings.LastIndex(h, ":"); i >= 0 {
		h = h[:i]
	}
	return strings.ToLower(strings.TrimSuffix(h, "."))
}

func (rc runCfg) script() string {
	var s []string
	for _, x := range rc.Word {
		s = append(s, respNames[x])
	}
	return strings.Join(s, ",") + " | then always " + respNames[rc.Tail]
}

// runOne executes one configuration and judges it; returns violation key and detail.
func runOne(rc runCfg) (string, map[string]interface{}, string) {
	vclock.Virtual(cworld.T0)
	vclock.AutoTick = time.Microsecond // two readings of the clock are never equal, as on a real machine
	o := cworld.DefaultOpts()
	o.ETypes = []int32{rc.Etype}
	w := cworld.New(o)
	if rc.CNAME != "" {
		vnet.SetCNAME("www.test.gokrb5", rc.CNAME)
	}
	if rc.CNAMEFails {
		vnet.CNAMEErr = errors.New("lookup: no such host")
	}
	sc := &scripted{word: rc.Word, tail: rc.Tail, consume: rc.Consume}
	hc := spnego.NewClient(w.Client, &http.Client{Transport: sc}, rc.SPN)
	url := "http://host.test.gokrb5/start"
	if rc.CNAME != "" {
		url = "http://www.test.gokrb5/start"
	}
	if rc.URLHost != "" {
		url = "http://" + rc.URLHost + "/start"
	}
	body := make([]byte, rc.BodyLen)
	for i := range body {
		body[i] = byte(i*7 + i/251)
	}
	var rdr io.Reader
	if rc.BodyLen > 0 || rc.Method == "POST" {
		rdr = bytes.NewReader(body)
		if rc.Piecewise {
			rdr = &pieces{b: append([]byte{}, body...), n: 1000}
		}
	}
	req, err := http.NewRequest(rc.Method, url, rdr)
	if err != nil {
		return "harness", map[string]interface{}{"err": err.Error()}, ""
	}
	if rc.Piecewise {
		req.ContentLength = int64(len(body))
	}
	if rc.PriorGiveUp {
		// an earlier call on the same client against a server that challenges for ever; its outcome is not this run's subject
		sc.word, sc.tail = nil, r401Neg
		if r0, e0 := http.NewRequest("GET", url, nil); e0 == nil {
			func() {
				defer func() { recover() }()
				if resp0, err0 := hc.Do(r0); err0 == nil && resp0 != nil && resp0.Body != nil {
					resp0.Body.Close()
				}
			}()
		}
		sc.word, sc.tail, sc.reqs = rc.Word, rc.Tail, nil
	}
	var resp *http.Response
	var derr error
	pn := ""
	func() {
		defer func() {
			if r := recover(); r != nil {
				pn = fmt.Sprint(r)
			}
		}()
		resp, derr = hc.Do(req)
	}()
	detail := map[string]interface{}{"requests": len(sc.reqs), "script": rc.script()}
	if pn != "" {
		detail["panic"] = pn
		return "panic:Do", detail, ""
	}
	// bounded number of requests
	if len(sc.reqs) > 32 {
		return "unbounded-requests:tail-" + respNames[rc.Tail], detail, ""
	}
	// the result is the last scripted response or an error
	if derr == nil {
		if resp == nil {
			return "nil-response-without-error", detail, ""
		}
		last := len(sc.reqs) - 1
		wantStatus := map[int]int{r200: 200, r401Neg: 401, r401NegReject: 401, r401Basic: 401, r302Same: 302, r302Other: 302, r500: 500}[sc.at(last)]
		b, _ := io.ReadAll(resp.Body)
		if resp.StatusCode != wantStatus || !strings.HasPrefix(string(b), fmt.Sprintf("response %d ", last)) {
			detail["status"], detail["body"] = resp.StatusCode, trunc(string(b))
			return "result-is-not-the-servers-final-response", detail, ""
		}
	}
	// after a bare 401 Negotiate the next request to the same URL must authenticate acceptably and resend the body intact
	outcome := "err"
	if derr == nil {
		outcome = fmt.Sprint(resp.StatusCode)
	}
	for i := 0; i+1 < len(sc.reqs); i++ {
		if sc.at(i) != r401Neg {
			continue
		}
		a, b := sc.reqs[i], sc.reqs[i+1]
		if a.URL != b.URL || a.Method != b.Method {
			detail["step"] = i
			return "retry-after-challenge-goes-elsewhere", detail, ""
		}
		spn := rc.SPN
		if spn == "" {
			host := hostOfURL(a.URL)
			if rc.CNAME != "" && host == "www.test.gokrb5" {
				host = strings.ToLower(strings.TrimSuffix(rc.CNAME, "."))
			}
			spn = "HTTP/" + host
		}
		if err := accept(w, b.Auth, spn, vclock.Now()); err != nil {
			detail["step"], detail["acceptor"] = i+1, err.Error()
			return "token-not-acceptable:" + spnKind(rc), detail, ""
		}
		// the body the server reads on the retry must be the original one, in full when it reads in full
		if a.Method == rc.Method && a.URL == url && rc.BodyLen > 0 {
			full := sc.at(i+1) == r200 || sc.at(i+1) == r500 || rc.Consume == "all"
			if full && !bytes.Equal(b.Body, body) {
				detail["step"], detail["got_len"], detail["want_len"] = i+1, len(b.Body), len(body)
				return "body-not-replayed-intact:first-attempt-read-" + rc.Consume, detail, ""
			}
		}
	}
	// the first challenge of the call must be answered (the client may give up on later ones, that is what bounds it)
	for i := 0; i < len(sc.reqs); i++ {
		if sc.at(i) == r401Neg {
			if i+1 >= len(sc.reqs) {
				detail["step"], detail["outcome"], detail["err"] = i, outcome, fmt.Sprint(derr)
				return "first-challenge-not-answered:" + spnKind(rc), detail, ""
			}
			break
		}
	}
	// every request that carries a Negotiate token - also one sent after a redirect - carries a token that the
	// acceptor of the host it goes to accepts, and never the token of an earlier request again (an acceptor
	// with a replay cache refuses a repeated authenticator)
	seenTok := map[string]int{}
	seenAuth := map[string]int{}
	for j, rq := range sc.reqs {
		if rq.Auth == "" {
			continue
		}
		if k, dup := seenTok[rq.Auth]; dup {
			detail["step"], detail["same_as_request"] = j, k
			return "token-of-an-earlier-request-sent-again", detail, ""
		}
		seenTok[rq.Auth] = j
		spn := rc.SPN
		if spn == "" {
			host := hostOfURL(rq.URL)
			if rc.CNAME != "" && host == "www.test.gokrb5" {
				host = strings.ToLower(strings.TrimSuffix(rc.CNAME, "."))
			}
			spn = "HTTP/" + host
		}
		if err := accept(w, rq.Auth, spn, vclock.Now()); err != nil {
			detail["step"], detail["acceptor"] = j, err.Error()
			return "token-not-acceptable-at-its-destination:" + spnKind(rc), detail, ""
		}
		// two tokens of one call never carry the same (client, ctime, cusec): an acceptor's replay cache would refuse
		// the second (the clock moves by a microsecond per reading, so the library has distinct instants to draw on)
		if k, dup := seenAuth[spn+" "+lastAuthID]; dup {
			detail["step"], detail["same_as_request"], detail["authenticator"] = j, k, lastAuthID
			return "authenticator-time-of-an-earlier-request-used-again", detail, ""
		}
		seenAuth[spn+" "+lastAuthID] = j
	}
	// an unanswered challenge at the end must end in an error or the 401 itself, never in silence
	return "", detail, fmt.Sprintf("%d/%s", len(sc.reqs), outcome)
}

func spnKind(rc runCfg) string {
	if rc.SPN != "" {
		return "explicit-spn"
	}
	if rc.CNAME != "" {
		return "url-derived-spn-with-cname"
	}
	return "url-derived-spn"
}

// ---- enumeration (guarded, sharded) --------------------------------------

func scriptCount(maxLen int) int {
	n, p := 0, 1
	for l := 0; l <= maxLen; l++ {
		n += p
		p *= nResp
	}
	return n * nResp
}

func scriptAt(idx, maxLen int) ([]int, int) {
	tail := idx % nResp
	idx /= nResp
	p := 1
	for l := 0; l <= maxLen; l++ {
		if idx < p {
			w := make([]int, l)
			for i := l - 1; i >= 0; i-- {
				w[i] = idx % nResp
				idx /= nResp
			}
			return w, tail
		}
		idx -= p
		p *= nResp
	}
	return nil, tail
}

func matrix() []runCfg {
	var out []runCfg
	for l := 0; l <= 2; l++ {
		for idx := 0; idx < scriptCount(2); idx++ {
			w, t := scriptAt(idx, 2)
			if len(w) != l {
				continue
			}
			for _, m := range []string{"GET", "HEAD", "POST"} {
				for _, bl := range []int{0, 1, 65536, 1 << 20} {
					if m != "POST" && bl > 0 {
						continue
					}
					if bl == 1<<20 && l == 2 {
						continue
					}
					for _, spn := range []string{"HTTP/host.test.gokrb5", ""} {
						out = append(out, runCfg{Word: w, Tail: t, Method: m, BodyLen: bl, Consume: "all", SPN: spn, Etype: 18})
					}
				}
			}
		}
	}
	// etypes, CNAME canonicalisation, partial body consumption on the challenge-then-success scripts
	for _, et := range rcrypto.Etypes {
		for _, cn := range []string{"", "Host.Test.GOKRB5.", "host2.test.gokrb5."} {
			for _, cons := range []string{"all", "half", "none"} {
				for _, w := range [][]int{{r401Neg}, {r401Neg, r401Neg}, {r302Same, r401Neg}, {r401Neg, r302Same}, {r401Basic}, {r401NegReject}} {
					for _, bl := range []int{0, 1000, 65536} {
						spn := ""
						if cn == "" {
							spn = "HTTP/host.test.gokrb5"
						}
						out = append(out, runCfg{Word: w, Tail: r200, Method: "POST", BodyLen: bl, Consume: cons, SPN: spn, Etype: et, CNAME: cn})
					}
				}
			}
		}
	}
	// spellings of the host in the URL when the service principal is derived from it
	for _, uh := range []string{"host.test.gokrb5:8080", "host.test.gokrb5.", "host.test.gokrb5.:8080", "HOST.Test.gokrb5", "host.test.gokrb5:80"} {
		for _, w := range [][]int{{r401Neg}, {r401Neg, r401Neg}, {r302Same, r401Neg}} {
			out = append(out, runCfg{Word: w, Tail: r200, Method: "GET", Consume: "all", SPN: "", Etype: 18, URLHost: uh})
			if uh == strings.ToLower(uh) {
				// (which case the principal takes when the URL's host is not lower case and no canonical name is to be had
				// is not the property's business)
				out = append(out, runCfg{Word: w, Tail: r200, Method: "GET", Consume: "all", SPN: "", Etype: 18, URLHost: uh, CNAMEFails: true})
			}
		}
	}
	for _, w := range [][]int{{r401Neg}, {r302Same, r401Neg}} {
		out = append(out, runCfg{Word: w, Tail: r200, Method: "GET", Consume: "all", SPN: "", Etype: 18, CNAMEFails: true})
	}
	// a client that has given up once before; bodies delivered in pieces by their reader
	for _, w := range [][]int{{r401Neg}, {r401Neg, r401Neg}, {r200}, {r302Same, r401Neg}} {
		for _, spn := range []string{"HTTP/host.test.gokrb5", ""} {
			out = append(out, runCfg{Word: w, Tail: r200, Method: "GET", Consume: "all", SPN: spn, Etype: 18, PriorGiveUp: true})
			for _, cons := range []string{"all", "half", "none"} {
				for _, bl := range []int{999, 1000, 1001, 65536} {
					out = append(out, runCfg{Word: w, Tail: r200, Method: "POST", BodyLen: bl, Consume: cons, SPN: spn, Etype: 18, Piecewise: true})
				}
				// a body on a method that usually has none, from a reader the transport cannot rewind by itself
				for _, m := range []string{"GET", "DELETE"} {
					out = append(out, runCfg{Word: w, Tail: r200, Method: m, BodyLen: 1001, Consume: cons, SPN: spn, Etype: 18, Piecewise: true})
				}
			}
		}
	}
	return out
}

func maxLenFor(args []string) int {
	if len(args) > 0 && args[0] == "thorough" {
		return 5
	}
	return 4
}

func init() {
	engine.RegisterWorker("c18scripts", engine.WorkerFunc{
		N: func(args []string) int { return scriptCount(maxLenFor(args)) + len(matrix()) },
		Run: func(args []string, idx int, r engine.Reporter) {
			ml := maxLenFor(args)
			var rc runCfg
			if idx < scriptCount(ml) {
				w, t := scriptAt(idx, ml)
				rc = runCfg{Word: w, Tail: t, Method: "POST", BodyLen: 33, Consume: "all", SPN: "HTTP/host.test.gokrb5", Etype: 18}
			} else {
				rc = matrix()[idx-scriptCount(ml)]
			}
			key, detail, oc := runOne(rc)
			if key != "" {
				r.Violate("scripts", key, detail, rc)
				return
			}
			r.Distinct(fmt.Sprintf("%s/%s/%s", respNames[rc.Tail], rc.Method, oc))
			if idx%5000 == 7 {
				r.Sample(map[string]interface{}{"config": rc, "script": rc.script(), "outcome": oc})
			}
		},
	})
}

// Run is the check's entry point.
func Run(c *engine.Ctx) {
	c.Assume = append(c.Assume,
		"the HTTP server is a scripted http.RoundTripper (the real net/http client, redirect logic included, sits between gokrb5 and it); the Kerberos client talks to ref/simkdc over the in-memory network; virtual clock",
		"the acceptor is independent of gokrb5: strict DER, reference message decoders and crypto, the KDC's key database; it demands SPNEGO with Kerberos first, a ticket for the intended SPN that decrypts under the service key, an authenticator under usage 11 matching the ticket within skew, and the RFC 4121 0x8003 checksum",
		"non-termination is observed by a request horizon of 64 in the transport, not waited for; a run counts as unbounded above 32 requests")
	tier := "quick"
	if c.Thorough() {
		tier = "thorough"
	}
	args := []string{tier}
	done := c.RunGuarded(engine.GuardSpec{Worker: "c18scripts", Args: args, Stall: 120 * time.Second, Describe: func(idx int) interface{} { return idx }})
	c.Add("evaluations", done)
	c.Add("states", done)
	c.Add("transitions", done)
	c.Add("traces_validated_against_impl", done)
	c.Cov["script_max_length"] = maxLenFor(args)
	c.Cov["scripts"] = scriptCount(maxLenFor(args))
	c.Cov["matrix_cases"] = len(matrix())
	c.Cov["rule"] = "every server script = word of length <= 4 (5 thorough) over {200, 401 bare Negotiate, 401 Negotiate+reject token, 401 Basic, 302 same host, 302 other host, 500} followed by each constant tail, with POST and a 33-byte body; plus every script of length <= 2 x method {GET, HEAD, POST} x body {0, 1, 64 KiB, 1 MiB} x SPN {explicit, URL-derived}; plus etype(6) x CNAME {none, mixed-case canonical name, other host} x server reads {all, half, none} of the body x 6 challenge scripts x 3 body sizes. distinct = (tail, method, requests/outcome) classes"
}
