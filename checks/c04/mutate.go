package c04

import (
	"verif/ref/der"
)

// A family enumerates the mutants of one seed; mutants are produced one at a time by index so that a worker can
// locate a case without materialising the whole family.
type family struct {
	name  string
	count func(seed []byte, thorough bool) int
	make  func(seed []byte, thorough bool, i int) []byte
}

var substQuick = []int{0x00, 0x01, 0x7f, 0x80, 0xff, -1, -2, -3, -4, 0x30, 0x04} // negatives: b^1, b^0x80, b+1, b-1

func substValue(orig byte, k int, thorough bool) byte {
	if thorough {
		v := byte(k)
		if v >= orig {
			v++
		}
		return v
	}
	switch substQuick[k] {
	case -1:
		return orig ^ 1
	case -2:
		return orig ^ 0x80
	case -3:
		return orig + 1
	case -4:
		return orig - 1
	}
	return byte(substQuick[k])
}

func nSubst(thorough bool) int {
	if thorough {
		return 255
	}
	return len(substQuick)
}

var famPrefix = family{"prefix",
	func(s []byte, _ bool) int { return len(s) },
	func(s []byte, _ bool, i int) []byte { return append([]byte{}, s[:i]...) }}

var famSubst = family{"substitute",
	func(s []byte, t bool) int { return len(s) * nSubst(t) },
	func(s []byte, t bool, i int) []byte {
		m := append([]byte{}, s...)
		p, k := i/nSubst(t), i%nSubst(t)
		m[p] = substValue(s[p], k, t)
		return m
	}}

// integer windows for binary formats: widths 1,2,4,8 at every offset, both byte orders
var winVals = []uint64{0, 1, 0x7f, 0x80, 0xff, 0x7fff, 0x8000, 0xffff, 0x7fffffff, 0x80000000, 0xffffffff, 0x7fffffffffffffff, 0xffffffffffffffff, 0xfffffffffffffff0}
var winWidths = []int{2, 4, 8}

var famWindow = family{"int-window",
	func(s []byte, _ bool) int { return len(s) * len(winWidths) * len(winVals) * 2 },
	func(s []byte, _ bool, i int) []byte {
		m := append([]byte{}, s...)
		le := i%2 == 1
		i /= 2
		v := winVals[i%len(winVals)]
		i /= len(winVals)
		w := winWidths[i%len(winWidths)]
		p := i / len(winWidths)
		for k := 0; k < w && p+k < len(m); k++ {
			if le {
				m[p+k] = byte(v >> (8 * uint(k)))
			} else {
				m[p+k] = byte(v >> (8 * uint(w-1-k)))
			}
		}
		return m
	}}

// DER length fields: every length octet group of the (tolerantly walked) seed replaced by a set of encodings
type lenSite struct{ off, n, val int }

func lenSites(b []byte, base int, depth int, out *[]lenSite) {
	for p := 0; p+2 <= len(b) && depth < 40; {
		start := p
		constructed := b[p]&0x20 != 0
		tag := b[p] & 0x1f
		universal := b[p]>>6 == 0
		p++
		if tag == 31 {
			for p < len(b) && b[p]&0x80 != 0 {
				p++
			}
			p++
		}
		if p >= len(b) {
			return
		}
		lo := p
		l := int(b[p])
		p++
		if l > 0x80 {
			nb := l & 0x7f
			if nb > 4 || p+nb > len(b) {
				return
			}
			l = 0
			for i := 0; i < nb; i++ {
				l = l<<8 | int(b[p+i])
			}
			p += nb
		} else if l == 0x80 {
			return
		}
		if p+l > len(b) {
			return
		}
		*out = append(*out, lenSite{base + lo, p - lo, l})
		if constructed {
			lenSites(b[p:p+l], base+p, depth+1, out)
		} else if universal && tag == 4 && l >= 2 && (b[p] == 0x30 || b[p]&0xe0 == 0x60 || b[p]&0xe0 == 0xa0) {
			lenSites(b[p:p+l], base+p, depth+1, out) // OCTET STRING wrapping DER
		}
		_ = start
		p += l
	}
}

func lenRepl(val int) [][]byte {
	enc := func(n int) []byte { return der.Len(n) }
	out := [][]byte{{0x00}, {0x01}, {0x7f}, {0x80}, {0x81, 0x00}, {0x81, 0xff}, {0x82, 0xff, 0xff}, {0x83, 0xff, 0xff, 0xff},
		{0x84, 0x7f, 0xff, 0xff, 0xff}, {0x84, 0xff, 0xff, 0xff, 0xff}, {0x85, 0x01, 0x00, 0x00, 0x00, 0x00}, {0x88, 0x7f, 0xff, 0xff, 0xff, 0xff, 0xff, 0xff, 0xff},
		{0x88, 0xff, 0xff, 0xff, 0xff, 0xff, 0xff, 0xff, 0xff}, {0x89, 1, 0, 0, 0, 0, 0, 0, 0, 0}, {0xff}}
	if val > 0 {
		out = append(out, enc(val-1))
	}
	out = append(out, enc(val+1), enc(val+128), enc(val*2+2))
	return out
}

const nLenRepl = 19

var famLen = family{"length-field",
	func(s []byte, _ bool) int {
		var sites []lenSite
		lenSites(s, 0, 0, &sites)
		return len(sites) * nLenRepl
	},
	func(s []byte, _ bool, i int) []byte {
		var sites []lenSite
		lenSites(s, 0, 0, &sites)
		st := sites[i/nLenRepl]
		rs := lenRepl(st.val)
		k := i % nLenRepl
		if k >= len(rs) {
			k = len(rs) - 1
		}
		m := append([]byte{}, s[:st.off]...)
		m = append(m, rs[k]...)
		return append(m, s[st.off+st.n:]...)
	}}

// ---- structural DER mutations with consistent lengths ---------------------

type mnode struct {
	hdr     byte // identifier octet (low-tag form only; high tags are kept as primitives)
	content []byte
	kids    []*mnode
	wrapped bool // OCTET STRING whose content is DER (kids hold it)
	cons    bool
	raw     bool // content is emitted as it is even for a constructed identifier (truncated inner structure)
}

func toTree(b []byte, depth int) ([]*mnode, bool) {
	var out []*mnode
	for len(b) > 0 {
		n, rest, err := der.ParsePrefix(b)
		if err != nil || n.Tag >= 31 {
			return nil, false
		}
		m := &mnode{hdr: b[0], content: n.Content, cons: n.Constructed}
		if n.Constructed && depth < 30 {
			k, ok := toTree(n.Content, depth+1)
			if !ok {
				return nil, false
			}
			m.kids = k
		} else if !n.Constructed && n.Class == 0 && n.Tag == 4 && len(n.Content) >= 2 && depth < 30 {
			if k, ok := toTree(n.Content, depth+1); ok && len(k) > 0 {
				m.kids, m.wrapped = k, true
			}
		}
		out = append(out, m)
		b = rest
	}
	return out, true
}

func (m *mnode) enc() []byte {
	c := m.content
	if (m.cons || m.wrapped) && !m.raw {
		c = nil
		for _, k := range m.kids {
			c = append(c, k.enc()...)
		}
	}
	out := append([]byte{m.hdr}, der.Len(len(c))...)
	return append(out, c...)
}

func flatten(ns []*mnode, parent *mnode, out *[]struct{ n, p *mnode }) {
	for _, n := range ns {
		*out = append(*out, struct{ n, p *mnode }{n, parent})
		if n.cons || n.wrapped {
			flatten(n.kids, n, out)
		}
	}
}

var primRepl = [][]byte{{}, {0x00}, {0xff}, {0x7f}, {0x80}, {0xff, 0xff, 0xff, 0xff, 0xff}, {0, 0, 0, 0, 0, 0, 0, 0, 0}, {0x80, 0, 0, 0, 0}, {0x7f, 0xff, 0xff, 0xff, 0xff, 0xff, 0xff, 0xff}}

const treeOps = 8 // empty, drop, duplicate, keep-first-kid, tag+1, tag-1, toggle-constructed, replace-with-NULL

// truncOps: the element keeps its header and position, its content is cut to 1, 2, 3, 4 bytes or loses its last 1, 2
// bytes, and every enclosing length is recomputed: the outer structure stays well-formed while the inner one ends
// in the middle of a header or a value (what a prefix of the whole message cannot produce)
var truncOps = []int{1, 2, 3, 4, -1, -2}

func treeOpsFor() int { return treeOps + len(primRepl) + len(truncOps) }

func treeMutant(seed []byte, i int) []byte {
	roots, ok := toTree(seed, 0)
	if !ok {
		return nil
	}
	var flat []struct{ n, p *mnode }
	flatten(roots, nil, &flat)
	per := treeOpsFor()
	if i/per >= len(flat) {
		return nil
	}
	t := flat[i/per]
	op := i % per
	n, p := t.n, t.p
	siblings := &roots
	if p != nil {
		siblings = &p.kids
	}
	idx := 0
	for k, s := range *siblings {
		if s == n {
			idx = k
		}
	}
	switch {
	case op == 0:
		n.kids, n.content = nil, nil
	case op == 1:
		*siblings = append(append([]*mnode{}, (*siblings)[:idx]...), (*siblings)[idx+1:]...)
	case op == 2:
		ns := append([]*mnode{}, (*siblings)[:idx+1]...)
		ns = append(ns, n)
		*siblings = append(ns, (*siblings)[idx+1:]...)
	case op == 3:
		if len(n.kids) > 1 {
			n.kids = n.kids[:1]
		} else {
			return nil
		}
	case op == 4:
		n.hdr = n.hdr&0xe0 | (n.hdr+1)&0x1f
	case op == 5:
		n.hdr = n.hdr&0xe0 | (n.hdr-1)&0x1f
	case op == 6:
		if n.cons {
			// constructed -> primitive with the same bytes
			c := []byte{}
			for _, k := range n.kids {
				c = append(c, k.enc()...)
			}
			n.cons, n.kids, n.content, n.hdr = false, nil, c, n.hdr&^0x20
		} else {
			n.hdr |= 0x20
			n.cons, n.wrapped, n.kids = true, false, nil
			if k, ok := toTree(n.content, 0); ok {
				n.kids = k
			} else {
				return nil
			}
		}
	case op == 7:
		n.hdr, n.cons, n.wrapped, n.kids, n.content = 0x05, false, false, nil, nil
	case op >= treeOps+len(primRepl):
		c := n.content
		if n.cons || n.wrapped {
			c = nil
			for _, k := range n.kids {
				c = append(c, k.enc()...)
			}
		}
		k := truncOps[op-treeOps-len(primRepl)]
		if k < 0 {
			k = len(c) + k
		}
		if k <= 0 || k >= len(c) {
			return nil
		}
		// keep the identifier octet (constructed bit included); the content is now raw bytes
		n.raw, n.content, n.kids = true, append([]byte{}, c[:k]...), nil
	default:
		if n.cons {
			return nil
		}
		n.wrapped, n.kids, n.content = false, nil, primRepl[op-treeOps]
	}
	var out []byte
	for _, r := range roots {
		out = append(out, r.enc()...)
	}
	return out
}

var famTree = family{"structure",
	func(s []byte, _ bool) int {
		roots, ok := toTree(s, 0)
		if !ok {
			return 0
		}
		var flat []struct{ n, p *mnode }
		flatten(roots, nil, &flat)
		return len(flat) * treeOpsFor()
	},
	func(s []byte, _ bool, i int) []byte { return treeMutant(s, i) }}

// deep nesting: the seed's first identifier octet repeated as constructed wrappers, and plain nested SEQUENCEs
var deepDepths = []int{100, 1000, 10000, 100000}

var famDeep = family{"deep-nesting",
	func(s []byte, _ bool) int { return len(deepDepths) * 3 },
	func(s []byte, _ bool, i int) []byte {
		d := deepDepths[i/3]
		var out []byte
		switch i % 3 {
		case 0: // properly nested with correct lengths (sizes computed inside out, bytes written outside in)
			sizes := make([]int, 0, d+1) // sizes[k]: total size of the element at nesting level d-k
			total := 2
			sizes = append(sizes, total)
			for k := 0; k < d; k++ {
				total = 1 + len(der.Len(total)) + total
				sizes = append(sizes, total)
			}
			out = make([]byte, 0, total+8)
			if len(s) > 0 {
				out = append(append(out, s[0]), der.Len(total)...)
			}
			for k := d; k >= 1; k-- {
				out = append(append(out, 0x30), der.Len(sizes[k-1])...)
			}
			return append(out, 0x30, 0x00)
		case 1: // headers only claiming a long content (indefinite-looking nest, 2 bytes per level)
			for k := 0; k < d; k++ {
				out = append(out, 0x30, 0x84, 0x7f, 0xff, 0xff, 0xff)
			}
			return out
		default: // context tags
			for k := 0; k < d; k++ {
				out = append(out, 0xa0, 0x80)
			}
			return out
		}
	}}

// all byte strings of length 0, 1, 2 (and 3 in the thorough tier for cheap entry points)
func smallCount(maxLen int) int {
	n, p := 0, 1
	for l := 0; l <= maxLen; l++ {
		n += p
		p *= 256
	}
	return n
}

func smallString(i int) []byte {
	p := 1
	for l := 0; ; l++ {
		if i < p {
			b := make([]byte, l)
			for k := l - 1; k >= 0; k-- {
				b[k] = byte(i)
				i >>= 8
			}
			return b
		}
		i -= p
		p *= 256
	}
}

// text mutations
var textAlphabet = []byte{'{', '}', '=', '[', ']', '\n', ' ', '#', '*', 0, '\t', ';', '.', ':', '/', '@', '"', '\\', '\r', 0xff}

var famTextSubst = family{"char-substitute",
	func(s []byte, _ bool) int { return len(s) * len(textAlphabet) },
	func(s []byte, _ bool, i int) []byte {
		m := append([]byte{}, s...)
		m[i/len(textAlphabet)] = textAlphabet[i%len(textAlphabet)]
		return m
	}}

var famTextInsert = family{"char-insert",
	func(s []byte, _ bool) int { return (len(s) + 1) * len(textAlphabet) },
	func(s []byte, _ bool, i int) []byte {
		p := i / len(textAlphabet)
		m := append([]byte{}, s[:p]...)
		m = append(m, textAlphabet[i%len(textAlphabet)])
		return append(m, s[p:]...)
	}}

func lines(s []byte) [][2]int {
	var out [][2]int
	st := 0
	for i, c := range s {
		if c == '\n' {
			out = append(out, [2]int{st, i + 1})
			st = i + 1
		}
	}
	if st < len(s) {
		out = append(out, [2]int{st, len(s)})
	}
	return out
}

var famLine = family{"line-drop-dup-swap",
	func(s []byte, _ bool) int { return len(lines(s)) * 3 },
	func(s []byte, _ bool, i int) []byte {
		ls := lines(s)
		l := ls[i/3]
		switch i % 3 {
		case 0:
			return append(append([]byte{}, s[:l[0]]...), s[l[1]:]...)
		case 1:
			m := append([]byte{}, s[:l[1]]...)
			m = append(m, s[l[0]:l[1]]...)
			return append(m, s[l[1]:]...)
		default:
			// move the line to the top
			m := append([]byte{}, s[l[0]:l[1]]...)
			m = append(m, s[:l[0]]...)
			return append(m, s[l[1]:]...)
		}
	}}
