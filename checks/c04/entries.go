package c04

import (
	"encoding/hex"
	"fmt"
	"os"
	"time"

	"verif/checks/apworld"
	"verif/checks/c03"
	"verif/engine"
	"verif/ref/der"
	"verif/ref/krbmsg"
	rpac "verif/ref/pac"

	"github.com/jcmturner/gofork/encoding/asn1"
	"github.com/jcmturner/gokrb5/v8/config"
	"github.com/jcmturner/gokrb5/v8/credentials"
	"github.com/jcmturner/gokrb5/v8/crypto"
	"github.com/jcmturner/gokrb5/v8/gssapi"
	"github.com/jcmturner/gokrb5/v8/kadmin"
	"github.com/jcmturner/gokrb5/v8/keytab"
	"github.com/jcmturner/gokrb5/v8/messages"
	"github.com/jcmturner/gokrb5/v8/pac"
	"github.com/jcmturner/gokrb5/v8/spnego"
	"github.com/jcmturner/gokrb5/v8/test/testdata"
	"github.com/jcmturner/gokrb5/v8/types"
)

func getenv(k string) string { return os.Getenv(k) }

func hx(s ...string) [][]byte {
	var out [][]byte
	for _, x := range s {
		b, err := hex.DecodeString(x)
		if err != nil {
			engine.Fatal("bad hex seed: %v", err)
		}
		out = append(out, b)
	}
	return out
}

func flags(f *asn1.BitString) {
	for i := 0; i < 40; i++ {
		types.IsFlagSet(f, i)
	}
}

func pname(p types.PrincipalName) {
	_ = p.PrincipalNameString()
	_ = p.GetSalt("R")
	_ = p.Equal(p)
}

func padata(pas types.PADataSequence) {
	for _, t := range []int32{2, 11, 19, 136, 0} {
		pas.Contains(t)
	}
	for i := range pas {
		pas[i].GetETypeInfo()
		pas[i].GetETypeInfo2()
	}
	// what the client does with pre-authentication hints
	for _, et := range []int32{18, 23} {
		crypto.GetKeyFromPassword("pw", types.PrincipalName{NameType: 1, NameString: []string{"u"}}, "R", et, pas)
	}
}

func authz(ad types.AuthorizationData) {
	for _, e := range ad {
		if e.ADType == 1 {
			var in types.AuthorizationData
			in.Unmarshal(e.ADData)
		}
	}
}

// lastErr is the error of the entry point's primary call on the current input (set through note); used to make
// sure that every seed is a VALID input of its entry point, so that the mutations explore what lies behind a
// successful decode.
var lastErr error

func note(err error) error {
	if err != nil && lastErr == nil {
		lastErr = err
	}
	return err
}

// seedsMayFail lists entry points whose seeds are deliberately not all valid for every call the entry makes.
var seedsMayFail = map[string]bool{
	"pac.other-NDR-buffers.Unmarshal": true, // one validation-info buffer fed to five other NDR decoders
	"pac.ClientClaimsInfo.Unmarshal":  true, // claims seeds fed to the device-claims decoder too
	"types.ETypeInfoEntry.Unmarshal":  true, // one seed, two entry types
	"types.PAEncTSEnc.Unmarshal":      true, // one seed, three types
	"gssapi.WrapToken.Unmarshal":      true, // initiator and acceptor direction on the same token
	"gssapi.MICToken.Unmarshal":       true,
}

var registryBuilt bool

// withFlows: the decoder worker does not build (or run) the client and service flows at all.
var withFlows = true

func buildRegistry() {
	if registryBuilt {
		return
	}
	registryBuilt = true
	td := func(s ...string) [][]byte { return hx(s...) }
	kt := keytab.New()
	ktb, _ := hex.DecodeString(testdata.KEYTAB_SYSHTTP_TEST_GOKRB5)
	kt.Unmarshal(ktb)
	key18 := types.EncryptionKey{KeyType: 18, KeyValue: make([]byte, 32)}
	key17 := types.EncryptionKey{KeyType: 17, KeyValue: make([]byte, 16)}
	key23 := types.EncryptionKey{KeyType: 23, KeyValue: make([]byte, 16)}

	// ---- messages
	register(&entry{name: "messages.Ticket.Unmarshal", kind: "der", small: 3, seeds: td(testdata.MarshaledKRB5ticket), run: func(b []byte) {
		var t messages.Ticket
		if note(t.Unmarshal(b)) == nil {
			pname(t.SName)
			t.Marshal()
			t.DecryptEncPart(kt, nil)
			t.GetPACType(kt, nil, nil)
		}
	}})
	register(&entry{name: "messages.EncTicketPart.Unmarshal", kind: "der", small: 3, seeds: td(testdata.MarshaledKRB5enc_tkt_part, testdata.MarshaledKRB5enc_tkt_partOptionalsNULL), run: func(b []byte) {
		var t messages.EncTicketPart
		if note(t.Unmarshal(b)) == nil {
			flags(&t.Flags)
			pname(t.CName)
			authz(t.AuthorizationData)
			tk := messages.Ticket{DecryptedEncPart: t}
			tk.Valid(time.Minute)
			tk.GetPACType(kt, nil, nil)
		}
	}})
	register(&entry{name: "messages.ASRep.Unmarshal", kind: "der", seeds: td(testdata.MarshaledKRB5as_rep, testdata.MarshaledKRB5as_repOptionalsNULL), run: func(b []byte) {
		var m messages.ASRep
		if note(m.Unmarshal(b)) == nil {
			pname(m.CName)
			padata(m.PAData)
			m.DecryptEncPart(credentials.New("u", "R").WithPassword("pw"))
			m.Marshal()
		}
	}})
	register(&entry{name: "messages.TGSRep.Unmarshal", kind: "der", seeds: td(testdata.MarshaledKRB5tgs_rep, testdata.MarshaledKRB5tgs_repOptionalsNULL), run: func(b []byte) {
		var m messages.TGSRep
		if note(m.Unmarshal(b)) == nil {
			pname(m.CName)
			m.DecryptEncPart(key18)
			m.Marshal()
		}
	}})
	register(&entry{name: "messages.EncKDCRepPart.Unmarshal", kind: "der", small: 3, seeds: td(testdata.MarshaledKRB5enc_kdc_rep_part, testdata.MarshaledKRB5enc_kdc_rep_partOptionalsNULL), run: func(b []byte) {
		var m messages.EncKDCRepPart
		if note(m.Unmarshal(b)) == nil {
			flags(&m.Flags)
			pname(m.SName)
			padata(m.EncPAData)
			m.Marshal()
		}
	}})
	register(&entry{name: "messages.APReq.Unmarshal", kind: "der", seeds: td(testdata.MarshaledKRB5ap_req), run: func(b []byte) {
		var m messages.APReq
		if note(m.Unmarshal(b)) == nil {
			flags(&m.APOptions)
			pname(m.Ticket.SName)
			m.Verify(kt, time.Minute, types.HostAddress{}, nil)
			m.Marshal()
		}
	}})
	register(&entry{name: "messages.APRep.Unmarshal", kind: "der", small: 3, seeds: td(testdata.MarshaledKRB5ap_rep), run: func(b []byte) {
		var m messages.APRep
		note(m.Unmarshal(b))
	}})
	register(&entry{name: "messages.EncAPRepPart.Unmarshal", kind: "der", small: 3, seeds: td(testdata.MarshaledKRB5ap_rep_enc_part, testdata.MarshaledKRB5ap_rep_enc_partOptionalsNULL), run: func(b []byte) {
		var m messages.EncAPRepPart
		note(m.Unmarshal(b))
	}})
	register(&entry{name: "messages.ASReq.Unmarshal", kind: "der", seeds: td(testdata.MarshaledKRB5as_req, testdata.MarshaledKRB5as_reqOptionalsNULLexceptsecond_ticket, testdata.MarshaledKRB5as_reqOptionalsNULLexceptserver), run: func(b []byte) {
		var m messages.ASReq
		if note(m.Unmarshal(b)) == nil {
			flags(&m.ReqBody.KDCOptions)
			pname(m.ReqBody.CName)
			pname(m.ReqBody.SName)
			padata(m.PAData)
			m.Marshal()
		}
	}})
	register(&entry{name: "messages.TGSReq.Unmarshal", kind: "der", seeds: td(testdata.MarshaledKRB5tgs_req, testdata.MarshaledKRB5tgs_reqOptionalsNULLexceptsecond_ticket, testdata.MarshaledKRB5tgs_reqOptionalsNULLexceptserver), run: func(b []byte) {
		var m messages.TGSReq
		if note(m.Unmarshal(b)) == nil {
			flags(&m.ReqBody.KDCOptions)
			m.Marshal()
		}
	}})
	register(&entry{name: "messages.KDCReqBody.Unmarshal", kind: "der", seeds: td(testdata.MarshaledKRB5kdc_req_body, testdata.MarshaledKRB5kdc_req_bodyOptionalsNULLexceptsecond_ticket, testdata.MarshaledKRB5kdc_req_bodyOptionalsNULLexceptserver), run: func(b []byte) {
		var m messages.KDCReqBody
		if note(m.Unmarshal(b)) == nil {
			flags(&m.KDCOptions)
			m.Marshal()
		}
	}})
	register(&entry{name: "messages.KRBError.Unmarshal", kind: "der", small: 3, seeds: td(testdata.MarshaledKRB5error, testdata.MarshaledKRB5errorOptionalsNULL), run: func(b []byte) {
		var m messages.KRBError
		if note(m.Unmarshal(b)) == nil {
			_ = m.Error()
			pname(m.SName)
			var pas types.PADataSequence
			if pas.Unmarshal(m.EData) == nil {
				padata(pas)
			}
			m.Marshal()
		}
	}})
	register(&entry{name: "messages.KRBPriv.Unmarshal", kind: "der", small: 3, seeds: td(testdata.MarshaledKRB5priv), run: func(b []byte) {
		var m messages.KRBPriv
		if note(m.Unmarshal(b)) == nil {
			m.DecryptEncPart(key18)
		}
	}})
	register(&entry{name: "messages.EncKrbPrivPart.Unmarshal", kind: "der", small: 3, seeds: td(testdata.MarshaledKRB5enc_priv_part, testdata.MarshaledKRB5enc_priv_partOptionalsNULL), run: func(b []byte) {
		var m messages.EncKrbPrivPart
		note(m.Unmarshal(b))
	}})
	register(&entry{name: "messages.KRBSafe.Unmarshal", kind: "der", small: 3, seeds: td(testdata.MarshaledKRB5safe, testdata.MarshaledKRB5safeOptionalsNULL), run: func(b []byte) {
		var m messages.KRBSafe
		note(m.Unmarshal(b))
	}})
	register(&entry{name: "messages.KRBCred.Unmarshal", kind: "der", seeds: td(testdata.MarshaledKRB5cred), run: func(b []byte) {
		var m messages.KRBCred
		if note(m.Unmarshal(b)) == nil {
			m.DecryptEncPart(key18)
		}
	}})
	register(&entry{name: "messages.EncKrbCredPart.Unmarshal", kind: "der", seeds: td(testdata.MarshaledKRB5enc_cred_part, testdata.MarshaledKRB5enc_cred_partOptionalsNULL), run: func(b []byte) {
		var m messages.EncKrbCredPart
		note(m.Unmarshal(b))
	}})

	// ---- types
	register(&entry{name: "types.Authenticator.Unmarshal", kind: "der", small: 3, seeds: td(testdata.MarshaledKRB5authenticator, testdata.MarshaledKRB5authenticatorOptionalsNULL, testdata.MarshaledKRB5authenticatorOptionalsEmpty), run: func(b []byte) {
		var m types.Authenticator
		if note(m.Unmarshal(b)) == nil {
			pname(m.CName)
			authz(m.AuthorizationData)
			m.Marshal()
		}
	}})
	register(&entry{name: "types.AuthorizationData.Unmarshal", kind: "der", small: 3, seeds: td(testdata.MarshaledKRB5authorization_data, testdata.MarshaledPAC_AuthorizationData_GOKRB5), run: func(b []byte) {
		var m types.AuthorizationData
		if note(m.Unmarshal(b)) == nil {
			authz(m)
			tk := messages.Ticket{DecryptedEncPart: messages.EncTicketPart{AuthorizationData: m}}
			tk.GetPACType(kt, nil, nil)
		}
	}})
	register(&entry{name: "types.AuthorizationDataEntry.Unmarshal", kind: "der", small: 3, seeds: td("300fa003020101a1080406666f6f626172"), run: func(b []byte) {
		var m types.AuthorizationDataEntry
		note(m.Unmarshal(b))
	}})
	register(&entry{name: "types.ADKDCIssued.Unmarshal", kind: "der", small: 3, seeds: td(testdata.MarshaledKRB5ad_kdcissued), run: func(b []byte) {
		var m types.ADKDCIssued
		note(m.Unmarshal(b))
	}})
	register(&entry{name: "types.TypedDataSequence.Unmarshal", kind: "der", small: 3, seeds: td(testdata.MarshaledKRB5typed_data), run: func(b []byte) {
		var m types.TypedDataSequence
		note(m.Unmarshal(b))
	}})
	register(&entry{name: "types.EncryptedData.Unmarshal", kind: "der", small: 3, seeds: td(testdata.MarshaledKRB5enc_data, testdata.MarshaledKRB5enc_dataMSBSetkvno, testdata.MarshaledKRB5enc_dataKVNONegOne), run: func(b []byte) {
		var m types.EncryptedData
		if note(m.Unmarshal(b)) == nil {
			for _, k := range []types.EncryptionKey{key18, key17, key23} {
				crypto.DecryptEncPart(m, k, 3)
			}
			m.Marshal()
		}
	}})
	register(&entry{name: "types.EncryptionKey.Unmarshal", kind: "der", small: 3, seeds: td(testdata.MarshaledKRB5keyblock), run: func(b []byte) {
		var m types.EncryptionKey
		if note(m.Unmarshal(b)) == nil {
			// a key of attacker-chosen type and length used as a key
			crypto.DecryptMessage(make([]byte, 64), m, 3)
			crypto.GetEncryptedData([]byte("x"), m, 3, 0)
		}
	}})
	register(&entry{name: "types.Checksum.Unmarshal", kind: "der", small: 3, seeds: td("300ea003020101a10704053132333435"), run: func(b []byte) {
		var m types.Checksum
		note(m.Unmarshal(b))
	}})
	register(&entry{name: "types.PADataSequence.Unmarshal", kind: "der", small: 3, seeds: append(td(testdata.MarshaledKRB5padata_sequence, testdata.MarshaledKRB5padataSequenceEmpty), paSeeds()...), run: func(b []byte) {
		var m types.PADataSequence
		if note(m.Unmarshal(b)) == nil {
			padata(m)
		}
	}})
	register(&entry{name: "types.PAData.Unmarshal", kind: "der", small: 3, seeds: td("3010a10302010da209040770612d64617461"), run: func(b []byte) {
		var m types.PAData
		if note(m.Unmarshal(b)) == nil {
			padata(types.PADataSequence{m})
		}
	}})
	register(&entry{name: "types.ETypeInfo.Unmarshal", kind: "der", small: 3, seeds: td(testdata.MarshaledKRB5etype_info, testdata.MarshaledKRB5etype_infoOnly1, testdata.MarshaledKRB5etype_infoNoInfo), run: func(b []byte) {
		var m types.ETypeInfo
		if note(m.Unmarshal(b)) == nil {
			padata(types.PADataSequence{{PADataType: 11, PADataValue: b}})
		}
	}})
	register(&entry{name: "types.ETypeInfo2.Unmarshal", kind: "der", small: 3, seeds: td(testdata.MarshaledKRB5etype_info2, testdata.MarshaledKRB5etype_info2Only1), run: func(b []byte) {
		var m types.ETypeInfo2
		if note(m.Unmarshal(b)) == nil {
			padata(types.PADataSequence{{PADataType: 19, PADataValue: b}})
		}
	}})
	register(&entry{name: "types.ETypeInfoEntry.Unmarshal", kind: "der", small: 3, seeds: td("3014a003020100a10d040b4d6f72746f6e2773202330"), run: func(b []byte) {
		var m types.ETypeInfoEntry
		note(m.Unmarshal(b))
		var m2 types.ETypeInfo2Entry
		note(m2.Unmarshal(b))
	}})
	register(&entry{name: "types.PAEncTSEnc.Unmarshal", kind: "der", small: 3, seeds: td(testdata.MarshaledKRB5pa_enc_ts, testdata.MarshaledKRB5pa_enc_tsNoUsec), run: func(b []byte) {
		var m types.PAEncTSEnc
		note(m.Unmarshal(b))
		var m2 types.PAEncTimestamp
		note(m2.Unmarshal(b))
		var m3 types.PAReqEncPARep
		note(m3.Unmarshal(b))
	}})

	// ---- spnego / gssapi
	w := apworld.NewWorld(41)
	mint := func(et int32) apworld.Minted {
		m, err := w.Mint(apworld.Base(et))
		if err != nil {
			engine.Fatal("mint: %v", err)
		}
		return m
	}
	m18 := mint(18)
	krbTok := c03.KRB5Tok([]byte{1, 0}, m18.APReq)
	negInit := c03.NegInit([][]int{c03.OIDKRB5}, krbTok, true)
	negInitBare := c03.NegInit([][]int{c03.OIDMSKRB5, c03.OIDKRB5}, krbTok, false)
	negResp := c03.NegResp(0, c03.OIDKRB5, c03.KRB5Tok([]byte{2, 0}, hx(testdata.MarshaledKRB5ap_rep)[0]))
	krbErrTok := c03.KRB5Tok([]byte{3, 0}, hx(testdata.MarshaledKRB5error)[0])
	register(&entry{name: "spnego.SPNEGOToken.Unmarshal", kind: "der", seeds: [][]byte{negInit, negResp}, run: func(b []byte) {
		var t spnego.SPNEGOToken
		if note(t.Unmarshal(b)) == nil {
			t.Marshal()
		}
	}})
	register(&entry{name: "spnego.UnmarshalNegToken", kind: "der", small: 3, seeds: [][]byte{negInitBare, negResp}, run: func(b []byte) {
		_, v, err := spnego.UnmarshalNegToken(b)
		if err == nil {
			switch x := v.(type) {
			case spnego.NegTokenInit:
				x.Marshal()
			case spnego.NegTokenResp:
				x.Marshal()
				_ = x.State()
			}
		}
	}})
	register(&entry{name: "spnego.NegTokenInit.Unmarshal", kind: "der", small: 3, seeds: [][]byte{negInitBare}, run: func(b []byte) {
		var t spnego.NegTokenInit
		note(t.Unmarshal(b))
	}})
	register(&entry{name: "spnego.NegTokenResp.Unmarshal", kind: "der", small: 3, seeds: [][]byte{negResp}, run: func(b []byte) {
		var t spnego.NegTokenResp
		if note(t.Unmarshal(b)) == nil {
			_ = t.State()
		}
	}})
	register(&entry{name: "spnego.KRB5Token.Unmarshal", kind: "der", seeds: [][]byte{krbTok, c03.KRB5Tok([]byte{2, 0}, hx(testdata.MarshaledKRB5ap_rep)[0]), krbErrTok}, run: func(b []byte) {
		var t spnego.KRB5Token
		if note(t.Unmarshal(b)) == nil {
			t.IsAPReq()
			t.IsAPRep()
			t.IsKRBError()
			t.Marshal()
		}
	}})
	wrapSeed := func() [][]byte {
		wt, err := gssapi.NewInitiatorWrapToken([]byte("payload bytes"), key17)
		if err != nil {
			engine.FailValid("gssapi.NewInitiatorWrapToken", err)
		}
		b, _ := wt.Marshal()
		return [][]byte{b, hx("050401ff000c000000000000575e85d601010000853b728d5268525a1386c19f")[0]}
	}
	register(&entry{name: "gssapi.WrapToken.Unmarshal", kind: "bin", small: 3, seeds: wrapSeed(), run: func(b []byte) {
		for _, acc := range []bool{true, false} {
			var t gssapi.WrapToken
			if note(t.Unmarshal(b, acc)) == nil {
				t.Verify(key17, 24)
				t.Verify(key23, 22)
				t.Marshal()
			}
		}
	}})
	micSeed := func() [][]byte {
		mt, err := gssapi.NewInitiatorMICToken([]byte("payload bytes"), key17)
		if err != nil {
			engine.FailValid("gssapi.NewInitiatorMICToken", err)
		}
		b, _ := mt.Marshal()
		return [][]byte{b}
	}
	register(&entry{name: "gssapi.MICToken.Unmarshal", kind: "bin", small: 3, seeds: micSeed(), run: func(b []byte) {
		for _, acc := range []bool{true, false} {
			var t gssapi.MICToken
			if note(t.Unmarshal(b, acc)) == nil {
				t.Verify(key17, 25)
				t.Marshal()
			}
		}
	}})

	// ---- PAC
	pacKey := func() types.EncryptionKey {
		k, _, _ := kt.GetEncryptionKey(types.PrincipalName{NameType: 1, NameString: []string{"sysHTTP"}}, "TEST.GOKRB5", 2, 18)
		return k
	}()
	register(&entry{name: "pac.PACType.Unmarshal+Process", kind: "bin", seeds: td(testdata.MarshaledPAC_AD_WIN2K_PAC), run: func(b []byte) {
		var p pac.PACType
		if note(p.Unmarshal(b)) == nil {
			p.ProcessPACInfoBuffers(pacKey, nil)
		}
	}})
	// the same with the signatures recomputed over the mutated bytes: what a holder of the service key can present
	register(&entry{name: "pac.PACType.Process(resigned)", kind: "bin", seeds: td(testdata.MarshaledPAC_AD_WIN2K_PAC), run: func(b []byte) {
		rs := rpac.Resign(b, pacKey.KeyType, pacKey.KeyValue)
		var p pac.PACType
		if p.Unmarshal(rs) == nil {
			p.ProcessPACInfoBuffers(pacKey, nil)
		}
	}})
	register(&entry{name: "pac.KerbValidationInfo.Unmarshal", kind: "bin", seeds: td(testdata.MarshaledPAC_Kerb_Validation_Info, testdata.MarshaledPAC_Kerb_Validation_Info_Trust, testdata.MarshaledPAC_Kerb_Validation_Info_MS), run: func(b []byte) {
		var k pac.KerbValidationInfo
		if note(k.Unmarshal(b)) == nil {
			k.GetGroupMembershipSIDs()
		}
	}})
	register(&entry{name: "pac.ClientInfo.Unmarshal", kind: "bin", small: 3, seeds: td(testdata.MarshaledPAC_Client_Info), run: func(b []byte) {
		var k pac.ClientInfo
		note(k.Unmarshal(b))
	}})
	register(&entry{name: "pac.UPNDNSInfo.Unmarshal", kind: "bin", small: 3, seeds: td(testdata.MarshaledPAC_UPN_DNS_Info), run: func(b []byte) {
		var k pac.UPNDNSInfo
		note(k.Unmarshal(b))
	}})
	// a UPN_DNS_INFO buffer larger than 64 KiB (16-bit offsets and lengths whose sum exceeds 16 bits)
	bigUPN := func() []byte {
		b := make([]byte, 140000)
		b[0], b[1] = 0x40, 0x9c // UPN length 40000
		b[2], b[3] = 16, 0      // UPN offset
		b[4], b[5] = 0x20, 0x4e // DNS domain length 20000
		b[6], b[7] = 0x50, 0x9c // DNS domain offset 40016
		for i := 16; i < len(b); i += 2 {
			b[i] = 'a'
		}
		return b
	}()
	register(&entry{name: "pac.UPNDNSInfo.Unmarshal(buffer over 64 KiB)", kind: "bin", small: 1, header: 16, budget: 4 << 20, seeds: [][]byte{bigUPN}, run: func(b []byte) {
		var k pac.UPNDNSInfo
		note(k.Unmarshal(b))
	}})
	register(&entry{name: "pac.SignatureData.Unmarshal", kind: "bin", small: 3, seeds: td(testdata.MarshaledPAC_Server_Signature, testdata.MarshaledPAC_KDC_Signature), run: func(b []byte) {
		var k pac.SignatureData
		_, serr := k.Unmarshal(b)
		note(serr)
	}})
	register(&entry{name: "pac.ClientClaimsInfo.Unmarshal", kind: "bin", seeds: td(testdata.MarshaledPAC_ClientClaimsInfoStr, testdata.MarshaledPAC_ClientClaimsInfoInt, testdata.MarshaledPAC_ClientClaimsInfoMulti, testdata.MarshaledPAC_ClientClaimsInfo_XPRESS_HUFF), run: func(b []byte) {
		var k pac.ClientClaimsInfo
		note(k.Unmarshal(b))
		var d pac.DeviceClaimsInfo
		note(d.Unmarshal(b))
	}})
	register(&entry{name: "pac.other-NDR-buffers.Unmarshal", kind: "bin", seeds: td(testdata.MarshaledPAC_Kerb_Validation_Info), run: func(b []byte) {
		var a pac.S4UDelegationInfo
		note(a.Unmarshal(b))
		var d pac.DeviceInfo
		note(d.Unmarshal(b))
		var c pac.CredentialData
		note(c.Unmarshal(b))
		var n pac.NTLMSupplementalCred
		note(n.Unmarshal(b))
		var s pac.SECPKGSupplementalCred
		note(s.Unmarshal(b))
		var ci pac.CredentialsInfo
		note(ci.Unmarshal(b, key18))
	}})

	// ---- files
	register(&entry{name: "keytab.Keytab.Unmarshal", kind: "bin", small: 3, seeds: append(td(testdata.KEYTAB_SYSHTTP_TEST_GOKRB5, testdata.KEYTAB_SYSHTTP_RESDOM_GOKRB5), w.Keytab), run: func(b []byte) {
		k := keytab.New()
		if note(k.Unmarshal(b)) == nil {
			k.GetEncryptionKey(types.PrincipalName{NameType: 1, NameString: []string{"sysHTTP"}}, "TEST.GOKRB5", 0, 18)
			_ = k.String()
			k.JSON()
			k.Marshal()
		}
	}})
	register(&entry{name: "credentials.CCache.Unmarshal", kind: "bin", small: 3, seeds: td(testdata.CCACHE_TEST), run: func(b []byte) {
		var c credentials.CCache
		if note(c.Unmarshal(b)) == nil {
			p := c.GetClientPrincipalName()
			pname(p)
			c.GetClientRealm()
			c.GetClientCredentials()
			c.Contains(p)
			c.GetEntry(p)
			c.GetEntries()
		}
	}})
	credSeed := func() [][]byte {
		c := credentials.New("user", "REALM").WithPassword("pw")
		c.AddAuthzAttribute("S-1-5-21-1")
		b, err := c.Marshal()
		if err != nil {
			engine.FailValid("Credentials.Marshal", err)
		}
		return [][]byte{b}
	}
	register(&entry{name: "credentials.Credentials.Unmarshal", kind: "bin", seeds: credSeed(), run: func(b []byte) {
		var c credentials.Credentials
		if note(c.Unmarshal(b)) == nil {
			c.JSON()
			c.AuthzAttributes()
		}
	}})
	// the error form of a kpasswd reply: AP-REP length 0 followed by a KRB-ERROR whose e-data holds the result
	kpErr := func() []byte {
		ke := krbmsg.KRBError{PVNO: 5, MsgType: 30, STime: time.Unix(1700000000, 0).UTC(), Code: 60, Realm: "TEST.GOKRB5", SName: krbmsg.PrincipalName{Type: 2, Names: []string{"kadmin", "changepw"}}, EData: append([]byte{0, 3}, []byte("auth error")...)}.Encode()
		total := 6 + len(ke)
		return append([]byte{byte(total >> 8), byte(total), 0, 1, 0, 0}, ke...)
	}()
	register(&entry{name: "kadmin.Reply.Unmarshal", kind: "bin", small: 3, seeds: append(td(testdata.MarshaledKpasswd_Rep), kpErr), run: func(b []byte) {
		var r kadmin.Reply
		if note(r.Unmarshal(b)) == nil {
			r.Decrypt(key18)
		}
	}})
	for _, cs := range []string{confSeed, confSeed2} {
		// the seeds must load completely, or the mutations of their later sections would never be reached
		if cfg, err := config.NewFromString(cs); err != nil {
			if _, unsupported := err.(config.UnsupportedDirective); !unsupported {
				engine.FailValid("config.NewFromString(C04 seed configuration)", err)
			}
		} else if len(cfg.Realms) == 0 || len(cfg.DomainRealm) == 0 && cs == confSeed {
			engine.FailValid("config.NewFromString(C04 seed configuration)", fmt.Errorf("sections missing after load: %d realms, %d domain mappings", len(cfg.Realms), len(cfg.DomainRealm)))
		}
	}
	register(&entry{name: "config.NewFromString", kind: "text", seeds: [][]byte{[]byte(confSeed), []byte(confSeed2)}, run: func(b []byte) {
		c, err := config.NewFromString(string(b))
		if err == nil && c != nil {
			c.ResolveRealm("host.test.gokrb5")
			c.GetKDCs("TEST.GOKRB5", false)
			c.GetKpasswdServers("TEST.GOKRB5", true)
			c.JSON()
		}
	}})
	register(&entry{name: "types.ParseSPNString+NewPrincipalName", kind: "text", small: 3, seeds: [][]byte{[]byte("HTTP/host.test.gokrb5@TEST.GOKRB5"), []byte("user")}, run: func(b []byte) {
		p, _ := types.ParseSPNString(string(b))
		pname(p)
		pname(types.NewPrincipalName(1, string(b)))
		types.GetHostAddress(string(b))
	}})
	for _, e := range registry {
		if seedsMayFail[e.name] {
			continue
		}
		for i, sd := range e.seeds {
			lastErr = nil
			func() {
				defer func() { recover() }()
				e.run(sd)
			}()
			if lastErr != nil {
				engine.FailValid(fmt.Sprintf("C04 seed %d of %s", i, e.name), lastErr)
			}
		}
	}
	registerCrypto()
	if withFlows {
		registerFlows()
	}
}

func paSeeds() [][]byte {
	// PA-DATA sequences as a KDC sends them in e-data: ETYPE-INFO2 / ETYPE-INFO with and without salt and s2kparams
	salt := "TEST.GOKRB5user1"
	return [][]byte{
		krbmsg.EncodeMethodData([]krbmsg.PAData{{Type: 19, Value: krbmsg.EncodeETypeInfo2([]krbmsg.ETypeInfo2Entry{{EType: 18, Salt: &salt}})}}),
		krbmsg.EncodeMethodData([]krbmsg.PAData{{Type: 19, Value: krbmsg.EncodeETypeInfo2([]krbmsg.ETypeInfo2Entry{{EType: 18, Salt: &salt, Params: []byte{0, 0, 0x10, 0}}, {EType: 17}})}, {Type: 2, Value: []byte{}}}),
		krbmsg.EncodeMethodData([]krbmsg.PAData{{Type: 19, Value: krbmsg.EncodeETypeInfo2(nil)}, {Type: 11, Value: []byte{0x30, 0x00}}, {Type: 2, Value: []byte{}}}),
		krbmsg.EncodeMethodData([]krbmsg.PAData{{Type: 11, Value: der.Seq(der.Seq(der.Explicit(0, der.Int(23)), der.Explicit(1, der.Octets([]byte{}))))}, {Type: 3, Value: []byte("salt")}}),
	}
}

const confSeed = `[libdefaults]
  default_realm = TEST.GOKRB5
  dns_lookup_realm = false
  dns_lookup_kdc = false
  ticket_lifetime = 24h
  renew_lifetime = 7d
  forwardable = yes
  default_tkt_enctypes = aes256-cts-hmac-sha1-96 aes128-cts-hmac-sha1-96
  default_tgs_enctypes = aes256-cts-hmac-sha1-96
  permitted_enctypes = aes256-cts rc4-hmac
  udp_preference_limit = 1465
  kdc_timesync = 1
  clockskew = 300
  preferred_preauth_types = 17, 16, 15, 14

[realms]
 TEST.GOKRB5 = {
  kdc = 10.80.88.88:88
  kdc = kdc2.test.gokrb5
  admin_server = 10.80.88.88:749
  default_domain = test.gokrb5
  kpasswd_server = 10.80.88.88:464
  auth_to_local = RULE:[2:$1](johndoe)s/^.*$/guest/
  auth_to_local = DEFAULT
  auth_to_local_names = {
   guest = nobody
  }
 }
 RESDOM.GOKRB5 = {
  kdc = [2001:db8::1]:88
  master_kdc = 10.80.88.99
 }

[domain_realm]
 .test.gokrb5 = TEST.GOKRB5
 test.gokrb5 = TEST.GOKRB5
 .resdom.gokrb5 = RESDOM.GOKRB5

[appdefaults]
 pam = {
  debug = false
 }
`

const confSeed2 = "[libdefaults]\n default_realm = A\n kdc_default_options = 0x00000010\n rdns = true\n ccache_type = 4\n default_keytab_name = FILE:/etc/krb5.keytab\n k5login_authoritative = true\n[realms]\nA = {\n kdc = a:88 *\n}\n"
