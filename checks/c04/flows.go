package c04

import (
	mrand "math/rand"
	"sync"
	"time"

	"verif/checks/apworld"
	"verif/checks/c03"
	"verif/checks/cworld"
	"verif/engine"
	"verif/ref/der"
	"verif/ref/krbmsg"
	"verif/ref/rcrypto"
	"verif/ref/simkdc"

	"github.com/jcmturner/gokrb5/v8/client"
	"github.com/jcmturner/gokrb5/v8/config"
	"github.com/jcmturner/gokrb5/v8/crypto"
	"github.com/jcmturner/gokrb5/v8/keytab"
	"github.com/jcmturner/gokrb5/v8/messages"
	"github.com/jcmturner/gokrb5/v8/service"
	"github.com/jcmturner/gokrb5/v8/spnego"
	"github.com/jcmturner/gokrb5/v8/test/testdata"
	"github.com/jcmturner/gokrb5/v8/types"
	"github.com/jcmturner/gokrb5/v8/zzverif/vclock"
	"github.com/jcmturner/gokrb5/v8/zzverif/vcrand"
	"github.com/jcmturner/gokrb5/v8/zzverif/vnet"
	"github.com/jcmturner/gokrb5/v8/zzverif/vrand"
)

func registerCrypto() {
	for _, et := range []int32{17, 18, 19, 20, 16, 23} {
		et := et
		p, _ := rcrypto.Get(et)
		key := make([]byte, p.KeyLen)
		for i := range key {
			key[i] = byte(i*7 + 1)
		}
		ct, err := rcrypto.EncryptWithConfounder(et, key, 3, make([]byte, p.Conf), []byte("twenty bytes of text"))
		if err != nil {
			engine.Fatal("crypto seed: %v", err)
		}
		k := types.EncryptionKey{KeyType: et, KeyValue: key}
		register(&entry{name: "crypto.DecryptMessage/etype-" + itoa(int(et)), kind: "bin", seeds: [][]byte{ct}, run: func(b []byte) {
			crypto.DecryptMessage(b, k, 3)
			e, _ := crypto.GetEtype(et)
			e.VerifyChecksum(key, []byte("data"), b, 3)
		}})
	}
}

func itoa(i int) string {
	if i == 0 {
		return "0"
	}
	s := ""
	for ; i > 0; i /= 10 {
		s = string(rune('0'+i%10)) + s
	}
	return s
}

// ---- client flows -----------------------------------------------------------

type flow struct {
	name      string
	opts      cworld.Opts
	replaceAt int    // index of the KDC request whose reply is replaced
	layer     string // "outer": whole reply; "enc": the sealed enc-part plaintext; "tcp": the raw TCP stream; "kpasswd": the kpasswd reply
	op        func(w *cworld.World)
	kind      string
}

// runFlow executes one deterministic run of the flow; when in is nil nothing is replaced and the bytes that would
// have been replaced are returned (seed capture).
func runFlow(f *flow, in []byte, replace bool) (captured []byte) {
	vclock.Virtual(cworld.T0)
	vclock.AutoTick = time.Microsecond // two clock readings are never equal, as with a real clock
	vcrand.Fix(mrand.New(mrand.NewSource(7)))
	vrand.Script(nil)
	vnet.Reset()
	w := cworld.New(f.opts)
	n := 0
	var mu sync.Mutex // the simulated KDC is a sequential object; a renewal goroutine may call in concurrently
	wrap := func(network string, req []byte) []byte {
		mu.Lock()
		defer mu.Unlock()
		idx := n
		n++
		if idx == f.replaceAt && f.layer == "enc" {
			w.KDC.Perturb = func(r *simkdc.Reply) {
				captured = r.Enc.Encode()
				if replace {
					r.RawEnc = in
				}
			}
			defer func() { w.KDC.Perturb = nil }()
		}
		rep := w.KDC.Handle(network, req)
		if idx == f.replaceAt && (f.layer == "outer" || f.layer == "tcp") {
			captured = rep
			if replace {
				return in
			}
		}
		return rep
	}
	for _, a := range w.KDCAddr {
		vnet.Register("udp", a, &vnet.Endpoint{Behaviour: vnet.Answer, Handler: func(network, _ string, req []byte) []byte { return wrap(network, req) }})
		if f.layer == "tcp" {
			vnet.Register("tcp", a, &vnet.Endpoint{Behaviour: vnet.Answer, RawTCP: func(stream []byte) []byte {
				req := stream
				if len(req) >= 4 {
					req = req[4:]
				}
				idx := n
				rep := wrap("tcp", req)
				full := append([]byte{byte(len(rep) >> 24), byte(len(rep) >> 16), byte(len(rep) >> 8), byte(len(rep))}, rep...)
				if idx == f.replaceAt {
					captured = full
					if replace {
						return in
					}
				}
				return full
			}})
		} else {
			vnet.Register("tcp", a, &vnet.Endpoint{Behaviour: vnet.Answer, Handler: func(network, _ string, req []byte) []byte { return wrap(network, req) }})
		}
	}
	if f.layer == "kpasswd" {
		h := func(_, _ string, req []byte) []byte {
			rep := kpasswdReply(w, req)
			captured = rep
			if replace {
				return in
			}
			return rep
		}
		for _, n := range []string{"udp", "tcp"} {
			vnet.Register(n, "kdc1.test.gokrb5:464", &vnet.Endpoint{Behaviour: vnet.Answer, Handler: h})
		}
	}
	vnet.MaxDials = 400 // no operation of any flow needs more than a few dozen connections
	func() {
		defer func() {
			// clean up also when the operation is cut short (the panic, Runaway included, is the worker's to judge)
			if p := recover(); p != nil {
				func() {
					defer func() { recover() }()
					vnet.MaxDials = 0
					w.Client.Destroy()
				}()
				vcrand.Fix(nil)
				panic(p)
			}
		}()
		f.op(w)
	}()
	vnet.MaxDials = 0
	func() {
		defer func() { recover() }()
		w.Client.Destroy()
	}()
	vcrand.Fix(nil)
	return captured
}

// kpasswdReply answers a change-password request the way a kpasswd server would (RFC 3244): AP-REP + KRB-PRIV
// carrying result code 0, protected with the subkey of the request's authenticator.
func kpasswdReply(w *cworld.World, req []byte) []byte { return KpasswdReply(w, req) }

// KpasswdReply is exported for C20.
func KpasswdReply(w *cworld.World, req []byte) []byte {
	fail := []byte{0, 6, 0, 1, 0, 0}
	if len(req) < 6 {
		return fail
	}
	apLen := int(req[4])<<8 | int(req[5])
	if 6+apLen > len(req) {
		return fail
	}
	ap, err := krbmsg.DecodeAPReq(req[6 : 6+apLen])
	if err != nil {
		return fail
	}
	tkt, err := krbmsg.DecodeTicket(ap.Ticket)
	if err != nil {
		return fail
	}
	skey := w.KeyOf("kadmin", "changepw")
	_, etpb, err := rcrypto.Decrypt(tkt.Enc.EType, skey, 2, tkt.Enc.Cipher)
	if err != nil {
		return fail
	}
	etp, err := krbmsg.DecodeEncTicketPart(etpb)
	if err != nil {
		return fail
	}
	_, ab, err := rcrypto.Decrypt(ap.Auth.EType, etp.Key.Value, 11, ap.Auth.Cipher)
	if err != nil {
		return fail
	}
	auth, err := krbmsg.DecodeAuthenticator(ab)
	if err != nil || auth.SubKey == nil {
		return fail
	}
	now := vclock.Now()
	erp := krbmsg.EncAPRepPart{CTime: auth.CTime, Cusec: auth.Cusec}
	ect, _ := rcrypto.EncryptWithConfounder(etp.Key.Type, etp.Key.Value, 12, make([]byte, 16), erp.Encode())
	aprep := krbmsg.APRep{PVNO: 5, MsgType: 15, Enc: krbmsg.EncryptedData{EType: etp.Key.Type, Cipher: ect}}.Encode()
	usec := int64(0)
	epp := krbmsg.EncKrbPrivPart{UserData: append([]byte{0, 0}, []byte("Password changed")...), Timestamp: krbmsg.Tm(now.Truncate(time.Second)), Usec: &usec,
		SAddress: krbmsg.HostAddress{Type: 2, Addr: []byte{10, 0, 0, 1}}}
	pct, _ := rcrypto.EncryptWithConfounder(auth.SubKey.Type, auth.SubKey.Value, 13, make([]byte, 16), epp.Encode())
	priv := krbmsg.KRBPriv{PVNO: 5, MsgType: 21, Enc: krbmsg.EncryptedData{EType: auth.SubKey.Type, Cipher: pct}}.Encode()
	total := 6 + len(aprep) + len(priv)
	out := []byte{byte(total >> 8), byte(total), 0, 1, byte(len(aprep) >> 8), byte(len(aprep))}
	out = append(out, aprep...)
	return append(out, priv...)
}

func registerFlows() {
	login := func(w *cworld.World) { w.Client.Login() }
	ticket := func(w *cworld.World) {
		if w.Client.Login() == nil {
			w.Client.GetServiceTicket("HTTP/host.test.gokrb5")
		}
	}
	base := cworld.DefaultOpts()
	pa := base
	pa.PreAuth = "required"
	pw := pa
	pw.Cred = "password"
	tcp := base
	tcp.UDPLimit = 1
	// KDCs that refer the client on for ever (home -> R1 -> R2 -> R3 -> R1 ...): the mutated reply is the first referral
	cyc := base
	cyc.Canonicalize, cyc.ChainRealms, cyc.ChainCycle = true, 3, true
	ticketChain := func(w *cworld.World) {
		if w.Client.Login() == nil {
			w.Client.GetServiceTicket("HTTP/host.chain.gokrb5")
		}
	}
	flows := []*flow{
		{name: "client.GetServiceTicket(referral TGS-REP, KDCs referring in a cycle)", opts: cyc, replaceAt: 1, layer: "outer", op: ticketChain, kind: "der"},
		{name: "client.Login(AS-REP)", opts: base, replaceAt: 0, layer: "outer", op: login, kind: "der"},
		{name: "client.Login(KRB-ERROR preauth-required, keytab)", opts: pa, replaceAt: 0, layer: "outer", op: login, kind: "der"},
		{name: "client.Login(KRB-ERROR preauth-required, password)", opts: pw, replaceAt: 0, layer: "outer", op: login, kind: "der"},
		{name: "client.Login(AS-REP after preauth)", opts: pa, replaceAt: 1, layer: "outer", op: login, kind: "der"},
		{name: "client.Login(sealed EncASRepPart)", opts: base, replaceAt: 0, layer: "enc", op: login, kind: "der"},
		{name: "client.GetServiceTicket(TGS-REP)", opts: base, replaceAt: 1, layer: "outer", op: ticket, kind: "der"},
		{name: "client.GetServiceTicket(sealed EncTGSRepPart)", opts: base, replaceAt: 1, layer: "enc", op: ticket, kind: "der"},
		{name: "client.Login(TCP stream)", opts: tcp, replaceAt: 0, layer: "tcp", op: login, kind: "bin"},
		{name: "client.ChangePasswd(kpasswd reply)", opts: pw, replaceAt: -1, layer: "kpasswd", op: func(w *cworld.World) { w.Client.ChangePasswd("newpassword1") }, kind: "bin"},
	}
	for _, f := range flows {
		f := f
		var seed []byte
		var seedPanic interface{}
		func() {
			defer func() { seedPanic = recover() }()
			seed = runFlow(f, nil, false)
		}()
		if seedPanic != nil {
			// the unmodified flow does not complete: the entry replays it, so that the worker reports it for what it is
			register(&entry{name: f.name, kind: f.kind, costly: true, budget: 8 << 20, seeds: [][]byte{{0x30, 0x00}}, run: func(b []byte) { runFlow(f, nil, false) }})
			continue
		}
		if len(seed) == 0 {
			engine.Fatal("flow %s: nothing captured to mutate", f.name)
		}
		seeds := [][]byte{seed}
		if f.layer == "tcp" {
			seeds = [][]byte{seed[:12]} // the length prefix and the first bytes; the body is the AS-REP flow's business
			full := seed
			register(&entry{name: f.name, kind: "bin", costly: true, budget: 8 << 20, seeds: seeds, run: func(b []byte) {
				runFlow(f, append(append([]byte{}, b...), full[12:]...), true)
			}})
			continue
		}
		register(&entry{name: f.name, kind: f.kind, costly: true, budget: 8 << 20, seeds: seeds, run: func(b []byte) { runFlow(f, b, true) }})
	}
	registerServiceFlows()
	// a configuration text (the part of krb5.conf the AS exchange reads) parsed and then used by a client that assumes
	// pre-authentication: what the parser lets through has to be safe for the code that consumes it. No KDC is
	// reachable; the exchange ends at the first connection attempt.
	confSeedSmall := "[libdefaults]\n default_realm = TEST.GOKRB5\n dns_lookup_kdc = false\n default_tkt_enctypes = aes256-cts-hmac-sha1-96 aes128-cts-hmac-sha1-96\n" +
		" preferred_preauth_types = 18, 17\n ticket_lifetime = 10h\n renew_lifetime = 1d\n forwardable = yes\n udp_preference_limit = 1\n noaddresses = true\n" +
		"[realms]\n TEST.GOKRB5 = {\n  kdc = kdc1.test.gokrb5:88\n }\n[domain_realm]\n .test.gokrb5 = TEST.GOKRB5\n"
	loginKT := keytab.New() // keys for every etype a mutated configuration may select (no string-to-key per input)
	for _, et := range []int32{17, 18, 23, 16, 19, 20} {
		for _, realm := range []string{"TEST.GOKRB5"} {
			loginKT.AddEntry("user1", realm, "x", time.Unix(1000, 0), 1, et)
		}
	}
	register(&entry{name: "config.NewFromString + client.Login(assumed pre-authentication)", kind: "text", costly: true, budget: 8 << 20, seeds: [][]byte{[]byte(confSeedSmall)}, run: func(b []byte) {
		cfg, err := config.NewFromString(string(b))
		if err != nil || cfg == nil {
			if _, ok := err.(config.UnsupportedDirective); !ok || cfg == nil {
				return
			}
		}
		vclock.Virtual(cworld.T0)
		vnet.Reset()
		vnet.MaxDials = 50
		defer func() { vnet.MaxDials = 0 }()
		cl := client.NewWithKeytab("user1", "TEST.GOKRB5", loginKT, cfg, client.AssumePreAuthentication(true), client.DisablePAFXFAST(true))
		cl.Login()
		cl.GetServiceTicket("HTTP/host.test.gokrb5")
		cl.Destroy()
	}})
}

// ---- service flows ----------------------------------------------------------

func registerServiceFlows() {
	w := apworld.NewWorld(43)
	kt := keytab.New()
	if err := kt.Unmarshal(w.Keytab); err != nil {
		engine.FailValid("keytab.Unmarshal(service keytab)", err)
	}
	pacBytes := hx(testdata.MarshaledPAC_AD_WIN2K_PAC)[0]
	withPAC := apworld.Base(18)
	withPAC.AuthzData = []krbmsg.AuthDataEntry{{Type: 1, Data: der.Seq(der.Seq(der.Explicit(0, der.Int(128)), der.Explicit(1, der.Octets(pacBytes))))}}
	plain := apworld.Base(17)
	addr := types.HostAddress{AddrType: 2, Address: []byte{10, 0, 0, 1}}
	verify := func(c apworld.Case) {
		vclock.Virtual(apworld.T0)
		service.VerifResetReplayCache()
		m, err := w.Mint(c)
		if err != nil {
			return
		}
		var ap messages.APReq
		if ap.Unmarshal(m.APReq) != nil {
			return
		}
		service.VerifyAPREQ(&ap, service.NewSettings(kt, service.DecodePAC(true), service.ClientAddress(addr)))
	}
	for _, sc := range []struct {
		name string
		c    apworld.Case
	}{{"with-PAC", withPAC}, {"plain", plain}} {
		sc := sc
		m, err := w.Mint(sc.c)
		if err != nil {
			engine.Fatal("mint: %v", err)
		}
		register(&entry{name: "service.VerifyAPREQ(sealed EncTicketPart, " + sc.name + ")", kind: "der", costly: true, budget: 4 << 20, seeds: [][]byte{m.ETP}, run: func(b []byte) {
			c := sc.c
			c.RawETP = append([]byte{}, b...)
			if len(b) == 0 {
				c.RawETP = []byte{}
			}
			verify(c)
		}})
		register(&entry{name: "service.VerifyAPREQ(sealed Authenticator, " + sc.name + ")", kind: "der", costly: true, budget: 4 << 20, seeds: [][]byte{m.Auth}, run: func(b []byte) {
			c := sc.c
			c.RawAuth = append([]byte{}, b...)
			if len(b) == 0 {
				c.RawAuth = []byte{}
			}
			verify(c)
		}})
	}
	// the acceptor on whole tokens
	m18, _ := w.Mint(apworld.Base(18))
	tok := c03.NegInit([][]int{c03.OIDKRB5}, c03.KRB5Tok([]byte{1, 0}, m18.APReq), true)
	register(&entry{name: "spnego.SPNEGO.AcceptSecContext(token)", kind: "der", costly: true, budget: 4 << 20, seeds: [][]byte{tok}, run: func(b []byte) {
		vclock.Virtual(apworld.T0)
		service.VerifResetReplayCache()
		var t spnego.SPNEGOToken
		if t.Unmarshal(b) != nil {
			return
		}
		spnego.SPNEGOService(kt, service.DecodePAC(true)).AcceptSecContext(&t)
	}})
	// HTTP Basic header value for the Kerberos basic authenticator (KDC unreachable: the login fails after parsing)
	cfg, err := config.NewFromString("[libdefaults]\n default_realm = TEST.GOKRB5\n dns_lookup_kdc = false\n[realms]\n TEST.GOKRB5 = {\n  kdc = nowhere.test.gokrb5:88\n }\n")
	if err != nil {
		engine.FailValid("config.NewFromString(valid configuration)", err)
	}
	register(&entry{name: "service.KRB5BasicAuthenticator.Authenticate(header)", kind: "text", costly: true, budget: 4 << 20,
		seeds: [][]byte{[]byte("Basic dXNlcjFAVEVTVC5HT0tSQjU6cGFzc3dvcmQ="), []byte("Basic VEVTVFx1c2VyMTpwYXNzd29yZA==")}, run: func(b []byte) {
			vnet.Reset()
			a := service.NewKRB5BasicAuthenticator(string(b), cfg, service.NewSettings(kt), client.NewSettings())
			a.Authenticate()
		}})
}
