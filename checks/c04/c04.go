// Package c04: no input makes a decoder or verifier panic, hang or allocate
// without bound. Bounded-exhaustive enumeration of mutation families around
// valid seeds (and of all very short inputs) for every function that consumes
// outside bytes, executed in guarded worker subprocesses so that fatal errors,
// stalls and memory blow-ups are attributed to the exact input.
package c04

import (
	"fmt"
	"runtime/debug"
	"runtime/metrics"
	"strings"
	"time"

	"verif/engine"
)

type entry struct {
	name   string
	kind   string // "der", "bin", "text"
	seeds  [][]byte
	run    func(in []byte)
	costly bool // a flow through client or service (hundreds of microseconds): fewer substitution values, no 2-byte sweep
	small  int  // all byte strings up to this length are run (default 2; cheap entries 3 in the thorough tier)
	budget int  // allocation allowance in bytes on top of 1 MiB + 4096 per input byte (flows)
}

var registry []*entry

func register(e *entry) { registry = append(registry, e) }

func families(e *entry) []family {
	switch e.kind {
	case "der":
		return []family{famPrefix, famSubst, famLen, famTree, famDeep}
	case "bin":
		return []family{famPrefix, famSubst, famWindow}
	case "text":
		return []family{famPrefix, famTextSubst, famTextInsert, famLine}
	}
	return nil
}

// batch = one (entry, seed, family, chunk) or one slice of the small-string sweep
type batch struct {
	e      *entry
	seed   int
	fam    *family
	lo, hi int
	small  bool
}

const chunk = 20000

var batchCache = map[bool][]batch{}

func batches(thorough bool) []batch {
	if b, ok := batchCache[thorough]; ok {
		return b
	}
	buildRegistry()
	var out []batch
	for _, e := range registry {
		for si, s := range e.seeds {
			for _, f := range families(e) {
				f := f
				n := f.count(s, thorough && !e.costly)
				for lo := 0; lo < n; lo += chunk {
					hi := lo + chunk
					if hi > n {
						hi = n
					}
					out = append(out, batch{e: e, seed: si, fam: &f, lo: lo, hi: hi})
				}
			}
		}
		ml := e.small
		if ml == 0 {
			ml = 2
			if e.costly {
				ml = 1
			}
		}
		if ml == 3 && !thorough {
			ml = 2
		}
		n := smallCount(ml)
		for lo := 0; lo < n; lo += 4 * chunk {
			hi := lo + 4*chunk
			if hi > n {
				hi = n
			}
			out = append(out, batch{e: e, lo: lo, hi: hi, small: true})
		}
	}
	batchCache[thorough] = out
	return out
}

var allocSample = []metrics.Sample{{Name: "/gc/heap/allocs:bytes"}}

func allocated() uint64 {
	metrics.Read(allocSample)
	return allocSample[0].Value.Uint64()
}

// panicSite extracts the innermost non-runtime function from a panic stack.
func panicSite(stack string) string {
	lines := strings.Split(stack, "\n")
	seenPanic := false
	for _, l := range lines {
		if strings.HasPrefix(l, "panic(") {
			seenPanic = true
			continue
		}
		if !seenPanic || strings.HasPrefix(l, "\t") || strings.HasPrefix(l, "runtime.") || l == "" {
			continue
		}
		fn := l
		if i := strings.LastIndex(fn, "("); i > 0 {
			fn = fn[:i]
		}
		fn = strings.TrimPrefix(fn, "github.com/jcmturner/gokrb5/v8/")
		fn = strings.TrimPrefix(fn, "github.com/jcmturner/")
		return fn
	}
	return "unknown"
}

func runOne(e *entry, in []byte, r engine.Reporter, what func() interface{}) {
	engine.Inflight(e.name, in)
	a0 := allocated()
	t0 := time.Now()
	var pval interface{}
	var stack string
	func() {
		defer func() {
			if p := recover(); p != nil {
				pval, stack = p, string(debug.Stack())
			}
		}()
		e.run(in)
	}()
	dt := time.Since(t0)
	da := allocated() - a0
	rec := func() interface{} {
		return map[string]interface{}{"entry": e.name, "input_hex": fmt.Sprintf("%x", in), "mutation": what()}
	}
	if pval != nil {
		if len(stack) > 3000 {
			stack = stack[:3000]
		}
		r.Violate("inputs", "panic:"+e.name+":"+panicSite(stack), map[string]interface{}{"panic": fmt.Sprint(pval), "stack": stack}, rec())
		return
	}
	allow := uint64(1<<20 + 4096*len(in) + e.budget)
	for retry := 0; retry < 2 && da > allow; retry++ {
		// one-off initialisation (lazily built tables, reflection caches) or a background goroutine may have been
		// charged to this call: only an allocation that repeats counts
		a1 := allocated()
		func() {
			defer func() { recover() }()
			e.run(in)
		}()
		if d := allocated() - a1; d < da {
			da = d
		}
	}
	if da > allow {
		r.Violate("inputs", "allocation:"+e.name, map[string]interface{}{"allocated_bytes": da, "input_bytes": len(in), "allowance": allow}, rec())
	}
	if dt > 3*time.Second {
		r.Violate("inputs", "slow:"+e.name, map[string]interface{}{"seconds": dt.Seconds(), "input_bytes": len(in)}, rec())
	}
}

func init() {
	engine.RegisterWorker("c04", engine.WorkerFunc{
		N: func(args []string) int { return len(batches(args[0] == "thorough")) },
		Run: func(args []string, idx int, r engine.Reporter) {
			thorough := args[0] == "thorough"
			b := batches(thorough)[idx]
			if len(args) > 1 && args[1] != "" && !strings.HasPrefix(b.e.name, args[1]) {
				return
			}
			last := time.Now()
			n := 0
			for i := b.lo; i < b.hi; i++ {
				if i%64 == 0 && time.Since(last) > 2*time.Second {
					last = time.Now()
					r.Heartbeat()
				}
				var in []byte
				var what func() interface{}
				if b.small {
					in = smallString(i)
					what = func() interface{} { return "all-short-inputs" }
				} else {
					in = b.fam.make(b.e.seeds[b.seed], thorough && !b.e.costly, i)
					if in == nil {
						continue
					}
					fi := i
					what = func() interface{} {
						return map[string]interface{}{"family": b.fam.name, "seed": b.seed, "index": fi}
					}
				}
				runOne(b.e, in, r, what)
				n++
			}
			fam := "short"
			if !b.small {
				fam = b.fam.name
			}
			r.Add("evaluations", int64(n))
			r.Add("inputs:"+b.e.name, int64(n))
			r.Add("family:"+fam, int64(n))
		},
	})
}

// Run is the check's entry point.
func Run(c *engine.Ctx) {
	c.Assume = append(c.Assume,
		"inputs are the valid seeds (MIT reference encodings and captured samples shipped as test data, messages minted by the reference models) and everything one deviation away from them in the listed families, plus all byte strings of length <= 2; values several deviations away from a valid message and longer than 3 bytes are outside the bound",
		"allocation is measured as heap bytes allocated during the call (runtime/metrics) against 1 MiB + 4096 bytes per input byte; a call longer than 3 s counts as a hang; fatal errors and stalls are caught by running in worker subprocesses under RLIMIT_AS with the in-flight input recorded")
	tier := "quick"
	if c.Thorough() {
		tier = "thorough"
	}
	bs := batches(c.Thorough())
	done := c.RunGuarded(engine.GuardSpec{Worker: "c04", Args: []string{tier, envOnly()}, MemKB: 3 << 20, Stall: 40 * time.Second,
		Describe: func(idx int) interface{} {
			b := bs[idx]
			return map[string]interface{}{"entry": b.e.name, "seed": b.seed, "small": b.small, "from": b.lo, "to": b.hi}
		}})
	per := map[string]interface{}{}
	for _, e := range registry {
		per[e.name] = map[string]interface{}{"kind": e.kind, "seeds": len(e.seeds), "inputs": c.Counter("inputs:" + e.name)}
		c.Distinct("entry:" + e.name)
	}
	c.Cov["entry_points"] = per
	c.Cov["batches"] = len(bs)
	c.Cov["batches_completed"] = done
	c.Cov["rule"] = "per entry point and seed: every prefix; every single-byte substitution (11 values per position in the quick tier, all 255 in the thorough tier); DER: every length field replaced by 19 encodings (0, 1, n-1, n+1, 0x7f, indefinite, long forms up to 2^64), every structural edit of every element with consistent lengths (emptied, dropped, duplicated, only first child, tag +/-1, constructed<->primitive, NULL, 9 primitive contents), nesting to depth 100..100000; binary formats: every 2/4/8-byte window at every offset set to 14 boundary values in both byte orders; text: every single-character substitution / insertion over a 20-character alphabet, every line dropped / duplicated / moved; plus all byte strings of length <= 2 (<= 1 for flows, <= 3 for cheap decoders in the thorough tier). distinct = entry points"
}

func envOnly() string { return getenv("VERIF_C04_ONLY") }
