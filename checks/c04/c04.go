// Package c04: no input makes a decoder or verifier panic, hang or allocate
// without bound. Bounded-exhaustive enumeration of mutation families around
// valid seeds (and of all very short inputs) for every function that consumes
// outside bytes, executed in guarded worker subprocesses so that fatal errors,
// stalls and memory blow-ups are attributed to the exact input.
package c04

import (
	"fmt"
	"github.com/jcmturner/gokrb5/v8/zzverif/vnet"
	"os"
	"runtime"
	"runtime/debug"
	"runtime/metrics"
	"strings"
	"syscall"
	"time"

	"verif/engine"

	"github.com/jcmturner/gokrb5/v8/zzverif/vpbkdf2"
)

type entry struct {
	name   string
	kind   string // "der", "bin", "text"
	seeds  [][]byte
	run    func(in []byte)
	costly bool // a flow through client or service (hundreds of microseconds): fewer substitution values, no 2-byte sweep
	small  int  // all byte strings up to this length are run (default 2; cheap entries 3 in the thorough tier)
	budget int  // allocation allowance in bytes on top of 1 MiB + 4096 per input byte (flows)
	header int  // when > 0: only the first header bytes of each seed are mutated, the rest is appended unchanged (large seeds)

	base    uint64 // bytes allocated by a valid seed (measured once per worker process, after a warm-up run)
	hasBase bool
}

// baseline runs every seed twice (warm-up, then measured) and keeps the largest allocation of a valid input.
func (e *entry) baseline() uint64 {
	if e.hasBase {
		return e.base
	}
	e.hasBase = true
	for _, s := range e.seeds {
		for pass := 0; pass < 2; pass++ {
			a0 := allocated()
			func() {
				defer func() { recover() }()
				e.run(s)
			}()
			if d := allocated() - a0; pass == 1 && d > e.base {
				e.base = d
			}
		}
	}
	return e.base
}

// profileTotals snapshots allocated bytes per allocation stack (memory profile at rate 1).
func profileTotals() map[[32]uintptr]int64 {
	runtime.GC()
	runtime.GC()
	n, _ := runtime.MemProfile(nil, true)
	recs := make([]runtime.MemProfileRecord, n+64)
	n, ok := runtime.MemProfile(recs, true)
	out := map[[32]uintptr]int64{}
	if !ok {
		return out
	}
	for _, r := range recs[:n] {
		out[r.Stack0] += r.AllocBytes
	}
	return out
}

// topAllocSite names the innermost non-runtime, non-reflect function of the stack that allocated most since before.
func topAllocSite(before map[[32]uintptr]int64) string {
	after := profileTotals()
	var best [32]uintptr
	var bestN int64
	for k, v := range after {
		if d := v - before[k]; d > bestN {
			best, bestN = k, d
		}
	}
	if bestN == 0 {
		return "unknown"
	}
	n := 0
	for n < len(best) && best[n] != 0 {
		n++
	}
	frames := runtime.CallersFrames(best[:n])
	for {
		f, more := frames.Next()
		fn := f.Function
		if fn != "" && !strings.HasPrefix(fn, "runtime.") && !strings.HasPrefix(fn, "reflect.") {
			fn = strings.TrimPrefix(fn, "github.com/jcmturner/gokrb5/v8/")
			return strings.TrimPrefix(fn, "github.com/jcmturner/")
		}
		if !more {
			break
		}
	}
	return "unknown"
}

func cpuSeconds() float64 {
	var ru syscall.Rusage
	syscall.Getrusage(syscall.RUSAGE_SELF, &ru)
	return float64(ru.Utime.Sec+ru.Stime.Sec) + float64(ru.Utime.Usec+ru.Stime.Usec)/1e6
}

// settle waits (briefly) until goroutines started by a flow have ended, so that their allocations and any
// failure of theirs are charged to the input that started them.
func settle(baseline int) {
	for i := 0; i < 2000 && runtime.NumGoroutine() > baseline; i++ {
		if i < 100 {
			runtime.Gosched()
		} else {
			time.Sleep(50 * time.Microsecond)
		}
	}
}

var registry []*entry

func register(e *entry) { registry = append(registry, e) }

func families(e *entry) []family {
	switch e.kind {
	case "der":
		return []family{famPrefix, famSubst, famLen, famTree, famDeep}
	case "bin":
		return []family{famPrefix, famSubst, famWindow}
	case "text":
		return []family{famPrefix, famTextSubst, famTextInsert, famLine}
	}
	return nil
}

// batch = one (entry, seed, family, chunk) or one slice of the small-string sweep
type batch struct {
	e      *entry
	seed   int
	fam    *family
	lo, hi int
	small  bool
}

const chunk = 20000

var batchCache = map[bool][]batch{}

func batches(thorough bool) []batch {
	if b, ok := batchCache[thorough]; ok {
		return b
	}
	buildRegistry()
	var out []batch
	for _, e := range registry {
		for si, s := range e.seeds {
			for _, f := range families(e) {
				f := f
				if e.header > 0 && e.header < len(s) {
					s = s[:e.header]
				}
				n := f.count(s, thorough && !e.costly)
				for lo := 0; lo < n; lo += chunk {
					hi := lo + chunk
					if hi > n {
						hi = n
					}
					out = append(out, batch{e: e, seed: si, fam: &f, lo: lo, hi: hi})
				}
			}
		}
		ml := e.small
		if ml == 0 {
			ml = 2
			if e.costly {
				ml = 1
			}
		}
		if ml == 3 && !thorough {
			ml = 2
		}
		n := smallCount(ml)
		for lo := 0; lo < n; lo += 4 * chunk {
			hi := lo + 4*chunk
			if hi > n {
				hi = n
			}
			out = append(out, batch{e: e, lo: lo, hi: hi, small: true})
		}
	}
	batchCache[thorough] = out
	return out
}

var allocSample = []metrics.Sample{{Name: "/gc/heap/allocs:bytes"}}

func allocated() uint64 {
	metrics.Read(allocSample)
	return allocSample[0].Value.Uint64()
}

// panicSite extracts the innermost non-runtime function from a panic stack.
func panicSite(stack string) string {
	lines := strings.Split(stack, "\n")
	seenPanic := false
	for _, l := range lines {
		if strings.HasPrefix(l, "panic(") {
			seenPanic = true
			continue
		}
		if !seenPanic || strings.HasPrefix(l, "\t") || strings.HasPrefix(l, "runtime.") || l == "" {
			continue
		}
		fn := l
		if i := strings.LastIndex(fn, "("); i > 0 {
			fn = fn[:i]
		}
		fn = strings.TrimPrefix(fn, "github.com/jcmturner/gokrb5/v8/")
		fn = strings.TrimPrefix(fn, "github.com/jcmturner/")
		return fn
	}
	return "unknown"
}

func runOne(e *entry, sub int, in []byte, r engine.Reporter, what func() interface{}) {
	engine.InflightAt(e.name, sub, in)
	base := e.baseline()
	g0 := runtime.NumGoroutine()
	a0 := allocated()
	c0 := cpuSeconds()
	var pval interface{}
	var stack string
	func() {
		defer func() {
			if p := recover(); p != nil {
				pval, stack = p, string(debug.Stack())
			}
		}()
		e.run(in)
	}()
	if e.costly {
		settle(g0)
	}
	dc := cpuSeconds() - c0
	da := allocated() - a0
	rec := func() interface{} {
		return map[string]interface{}{"entry": e.name, "input_hex": fmt.Sprintf("%x", in), "mutation": what()}
	}
	if pval != nil {
		if len(stack) > 3000 {
			stack = stack[:3000]
		}
		if rw, ok := pval.(vnet.Runaway); ok {
			r.Violate("inputs", "does-not-terminate:"+e.name+":unbounded-exchanges", map[string]interface{}{"what": rw.String()}, rec())
			return
		}
		r.Violate("inputs", "panic:"+e.name+":"+panicSite(stack), map[string]interface{}{"panic": fmt.Sprint(pval), "stack": stack}, rec())
		return
	}
	allow := uint64(1<<20+4096*len(in)+e.budget) + 8*base
	site := "unknown"
	if da > allow {
		// The cheap counter is flushed in bursts (per-P statistics), so a burst may have been charged to this
		// call: measure again, exactly (ReadMemStats flushes all caches), and only that measurement counts.
		var m0, m1 runtime.MemStats
		old := runtime.MemProfileRate
		runtime.MemProfileRate = 1
		before := profileTotals()
		runtime.ReadMemStats(&m0)
		func() {
			defer func() { recover() }()
			e.run(in)
		}()
		if e.costly {
			settle(g0)
		}
		runtime.ReadMemStats(&m1)
		runtime.MemProfileRate = old
		da = m1.TotalAlloc - m0.TotalAlloc
		if da > allow {
			site = topAllocSite(before)
		}
	}
	if da > allow && getenv("VERIF_C04_DEBUG") != "" {
		buf := make([]byte, 1<<16)
		n := runtime.Stack(buf, true)
		os.WriteFile(fmt.Sprintf("/tmp/c04debug.%d.%s", os.Getpid(), strings.ReplaceAll(e.name, "/", "_")), []byte(fmt.Sprintf("ALLOC-DEBUG %s %d bytes input %x\n%s\n", e.name, da, in, buf[:n])), 0o644)
	}
	if da > allow {
		r.Violate("inputs", "allocation:"+e.name+":"+site, map[string]interface{}{"allocated_bytes": da, "input_bytes": len(in), "allowance": allow, "valid_seed_allocates": base}, rec())
	}
	if dc > 20 {
		r.Violate("inputs", "cpu-time:"+e.name, map[string]interface{}{"process_cpu_seconds": dc, "input_bytes": len(in)}, rec())
	}
}

func workerFor(flows bool) engine.WorkerFunc {
	sel := func(thorough bool) []batch {
		withFlows = flows
		var out []batch
		for _, b := range batches(thorough) {
			if b.e.costly == flows {
				out = append(out, b)
			}
		}
		return out
	}
	return engine.WorkerFunc{
		N: func(args []string) int { return len(sel(args[0] == "thorough")) },
		Run: func(args []string, idx int, r engine.Reporter) {
			thorough := args[0] == "thorough"
			vpbkdf2.Cap = 1 << 17
			b := sel(thorough)[idx]
			if len(args) > 1 && args[1] != "" && !strings.HasPrefix(b.e.name, args[1]) {
				return
			}
			last := time.Now()
			n := 0
			start := b.lo
			if rs := engine.ResumeSub(idx); rs > start {
				start = rs
			}
			for i := start; i < b.hi; i++ {
				if time.Since(last) > 2*time.Second {
					last = time.Now()
					r.Heartbeat()
				}
				var in []byte
				var what func() interface{}
				if b.small {
					in = smallString(i)
					what = func() interface{} { return "all-short-inputs" }
				} else {
					sd := b.e.seeds[b.seed]
					if b.e.header > 0 && b.e.header < len(sd) {
						in = b.fam.make(sd[:b.e.header], thorough && !b.e.costly, i)
						if in != nil {
							in = append(in, sd[b.e.header:]...)
						}
					} else {
						in = b.fam.make(sd, thorough && !b.e.costly, i)
					}
					if in == nil {
						continue
					}
					fi := i
					what = func() interface{} {
						return map[string]interface{}{"family": b.fam.name, "seed": b.seed, "index": fi}
					}
				}
				runOne(b.e, i, in, r, what)
				n++
			}
			fam := "short"
			if !b.small {
				fam = b.fam.name
			}
			r.Add("evaluations", int64(n))
			r.Add("inputs:"+b.e.name, int64(n))
			r.Add("family:"+fam, int64(n))
			r.Add("pbkdf2_iteration_counts_abstracted", vpbkdf2.Abstracted)
			vpbkdf2.Abstracted = 0
		},
	}
}

func init() {
	engine.RegisterWorker("c04", workerFor(false))
	engine.RegisterWorker("c04flow", workerFor(true))
}

// Run is the check's entry point.
func Run(c *engine.Ctx) {
	c.Assume = append(c.Assume,
		"inputs are the valid seeds (MIT reference encodings and captured samples shipped as test data, messages minted by the reference models) and everything one deviation away from them in the listed families, plus all byte strings of length <= 2; values several deviations away from a valid message and longer than 3 bytes are outside the bound",
		"allocation is measured as heap bytes allocated during the call (runtime/metrics, repeated before it counts) against 1 MiB + 4096 bytes per input byte + 8 x what a valid seed of the same entry point allocates; more than 20 s of process CPU time for one input, or a worker silent for 60 s, counts as a hang; fatal errors and stalls are caught by running in worker subprocesses under RLIMIT_AS (4 GiB of address space) with the in-flight input recorded and the case resumed after it",
		"PBKDF2 derivations asked to run more than 131072 iterations are abstracted (counted, dummy key returned): their cost is linear in a 32-bit count chosen by the peer, they terminate, and the property does not bound CPU time; decoders and flows are run in separate worker processes so that goroutines started by a flow cannot be charged to a decoder")
	tier := "quick"
	if c.Thorough() {
		tier = "thorough"
	}
	bs := batches(c.Thorough())
	var done int64
	for _, wk := range []struct {
		name  string
		flows bool
	}{{"c04", false}, {"c04flow", true}} {
		var mine []batch
		for _, b := range bs {
			if b.e.costly == wk.flows {
				mine = append(mine, b)
			}
		}
		done += c.RunGuarded(engine.GuardSpec{Worker: wk.name, Args: []string{tier, envOnly()}, MemKB: 4 << 20, Stall: 60 * time.Second, MaxDeathsPerKey: 3,
			Describe: func(idx int) interface{} {
				b := mine[idx]
				return map[string]interface{}{"entry": b.e.name, "seed": b.seed, "small": b.small, "from": b.lo, "to": b.hi}
			}})
	}
	per := map[string]interface{}{}
	for _, e := range registry {
		per[e.name] = map[string]interface{}{"kind": e.kind, "seeds": len(e.seeds), "inputs": c.Counter("inputs:" + e.name)}
		c.Distinct("entry:" + e.name)
	}
	c.Cov["entry_points"] = per
	c.Cov["batches"] = len(bs)
	c.Cov["batches_completed"] = done
	c.Cov["rule"] = "per entry point and seed: every prefix; every single-byte substitution (11 values per position in the quick tier, all 255 in the thorough tier); DER: every length field replaced by 19 encodings (0, 1, n-1, n+1, 0x7f, indefinite, long forms up to 2^64), every structural edit of every element with consistent lengths (emptied, dropped, duplicated, only first child, tag +/-1, constructed<->primitive, NULL, 9 primitive contents), nesting to depth 100..100000; binary formats: every 2/4/8-byte window at every offset set to 14 boundary values in both byte orders; text: every single-character substitution / insertion over a 20-character alphabet, every line dropped / duplicated / moved; plus all byte strings of length <= 2 (<= 1 for flows, <= 3 for cheap decoders in the thorough tier). distinct = entry points"
}

func envOnly() string { return getenv("VERIF_C04_ONLY") }
