// Package c14: keytab files round-trip and key lookup returns only a matching
// key. Files are rendered by the independent writer ref/keytabfmt from an
// enumerated entry alphabet (both versions, holes, optional 32-bit kvno),
// parsed by gokrb5 and compared field by field; marshalled output is read
// back by the independent reader; lookups are compared with a model filter.
package c14

import (
	"bytes"
	"fmt"
	"math/rand"
	"strings"
	"time"

	"verif/engine"
	"verif/ref/keytabfmt"
	"verif/ref/rcrypto"

	"github.com/jcmturner/gokrb5/v8/keytab"
	"github.com/jcmturner/gokrb5/v8/types"
)

func u32p(v uint32) *uint32 { return &v }

type kv struct {
	k8  uint8
	k32 *uint32
}

func entryAlphabet(r *rand.Rand) []keytabfmt.Entry {
	comps := [][]string{{}, {"a"}, {"HTTP", "h.example.com"}, {"a", "b", "c", "d"}, {""}, {strings.Repeat("x", 300)}}
	realms := []string{"R.COM", "OTHER.COM", ""}
	etypes := []uint16{17, 18, 23, 99, 0xFF79}
	kvnos := []kv{{1, nil}, {2, u32p(2)}, {255, u32p(256)}, {0, u32p(0xffffffff)}, {5, u32p(0)},
		// key version 0, and 8-bit versions with the top bit set, with the 32-bit field absent / zero / set
		{0, nil}, {0, u32p(0)}, {127, nil}, {128, nil}, {255, nil}, {128, u32p(0)}, {200, u32p(200)}, {1, u32p(0x80000000)}}
	tss := []uint32{0, 1, 0x7fffffff, 0x80000000, 0xffffffff}
	var out []keytabfmt.Entry
	for _, c := range comps {
		for _, rl := range realms {
			for _, et := range etypes {
				for _, k := range kvnos {
					for _, ts := range tss {
						kl := 16
						if et == 18 {
							kl = 32
						}
						if et == 99 {
							kl = 1
						}
						key := make([]byte, kl)
						r.Read(key)
						out = append(out, keytabfmt.Entry{Components: c, Realm: rl, NameType: 1 + uint32(len(c)), Timestamp: ts, KVNO8: k.k8, KVNO32: k.k32, KeyType: et, Key: key})
					}
				}
			}
		}
	}
	return out
}

type holePattern struct {
	name string
	f    func(es []keytabfmt.Entry) []keytabfmt.Item
}

func holePatterns() []holePattern {
	items := func(es []keytabfmt.Entry) []keytabfmt.Item {
		var it []keytabfmt.Item
		for i := range es {
			it = append(it, keytabfmt.Item{Entry: &es[i]})
		}
		return it
	}
	return []holePattern{
		{"none", items},
		{"hole-before", func(es []keytabfmt.Entry) []keytabfmt.Item { return append([]keytabfmt.Item{{Hole: 37}}, items(es)...) }},
		{"hole-between", func(es []keytabfmt.Entry) []keytabfmt.Item {
			it := items(es)
			var out []keytabfmt.Item
			for i, x := range it {
				if i > 0 {
					out = append(out, keytabfmt.Item{Hole: 11 + i})
				}
				out = append(out, x)
			}
			return out
		}},
		{"hole-after", func(es []keytabfmt.Entry) []keytabfmt.Item { return append(items(es), keytabfmt.Item{Hole: 64}) }},
		{"two-holes-after", func(es []keytabfmt.Entry) []keytabfmt.Item {
			return append(items(es), keytabfmt.Item{Hole: 4}, keytabfmt.Item{Hole: 9})
		}},
	}
}

type gEntry struct {
	Realm    string
	Comps    []string
	NameType int32
	TS       uint32
	KVNO8    uint8
	KVNO     uint32
	KeyType  int32
	Key      []byte
}

func fromGokrb5(kt *keytab.Keytab) []gEntry {
	var out []gEntry
	for _, e := range kt.Entries {
		c := e.Principal.Components
		if c == nil {
			c = []string{}
		}
		out = append(out, gEntry{e.Principal.Realm, c, e.Principal.NameType, uint32(e.Timestamp.Unix()), e.KVNO8, e.KVNO, e.Key.KeyType, e.Key.KeyValue})
	}
	return out
}

func fromModel(version int, es []keytabfmt.Entry) []gEntry {
	var out []gEntry
	for _, e := range es {
		nt := int32(e.NameType)
		if version == 1 {
			nt = 0
		}
		c := e.Components
		if c == nil {
			c = []string{}
		}
		out = append(out, gEntry{e.Realm, c, nt, e.Timestamp, e.KVNO8, e.KVNO(), int32(int16(e.KeyType)), e.Key})
	}
	return out
}

func diff(a, b []gEntry, ignoreNameType bool) string {
	if len(a) != len(b) {
		return fmt.Sprintf("entry count %d vs %d", len(a), len(b))
	}
	for i := range a {
		x, y := a[i], b[i]
		switch {
		case x.Realm != y.Realm:
			return fmt.Sprintf("entry %d realm %q vs %q", i, x.Realm, y.Realm)
		case strings.Join(x.Comps, "\x00") != strings.Join(y.Comps, "\x00") || len(x.Comps) != len(y.Comps):
			return fmt.Sprintf("entry %d components %q vs %q", i, x.Comps, y.Comps)
		case !ignoreNameType && x.NameType != y.NameType:
			return fmt.Sprintf("entry %d name type %d vs %d", i, x.NameType, y.NameType)
		case x.TS != y.TS:
			return fmt.Sprintf("entry %d timestamp %d vs %d", i, x.TS, y.TS)
		case x.KVNO8 != y.KVNO8:
			return fmt.Sprintf("entry %d kvno8 %d vs %d", i, x.KVNO8, y.KVNO8)
		case x.KVNO != y.KVNO:
			return fmt.Sprintf("entry %d kvno %d vs %d", i, x.KVNO, y.KVNO)
		case x.KeyType != y.KeyType:
			return fmt.Sprintf("entry %d key type %d vs %d", i, x.KeyType, y.KeyType)
		case !bytes.Equal(x.Key, y.Key):
			return fmt.Sprintf("entry %d key bytes differ", i)
		}
	}
	return ""
}

func firstWord(s string) string {
	f := strings.Fields(s)
	if len(f) >= 3 {
		return strings.Join(f[2:3], "")
	}
	return s
}

type caseRec struct {
	Version int               `json:"version"`
	Holes   string            `json:"holes"`
	Entries []keytabfmt.Entry `json:"entries"`
	File    string            `json:"file_hex,omitempty"`
}

// Run is the check's entry point.
func Run(c *engine.Ctx) {
	c.Assume = append(c.Assume,
		"keytab files are rendered and re-read by ref/keytabfmt, written from the MIT file-format document (v1 native little-endian and realm counted among components; v2 big-endian with name type; optional trailing 32-bit kvno; holes)",
		"timestamps are compared modulo 2^32; key type compared as a sign-extended 16-bit value; key bytes seeded")
	r := rand.New(rand.NewSource(c.Seed))
	alpha := entryAlphabet(r)
	hp := holePatterns()
	var evals int64

	checkFile := func(version int, holes holePattern, es []keytabfmt.Entry) {
		file := keytabfmt.Write(version, holes.f(es))
		rec := caseRec{Version: version, Holes: holes.name, Entries: es}
		evals++
		// sanity: the reference reader reads back what the reference writer wrote
		if v, back, err := keytabfmt.Read(file); err != nil || v != version || diff(fromModel(version, back), fromModel(version, es), false) != "" {
			engine.Fatal("reference keytab reader/writer disagree: %v", err)
		}
		kt := keytab.New()
		var err error
		// the parser gets its own buffer, which the caller reuses right afterwards (as when the next file is read through
		// it): what was parsed must not depend on the buffer any more
		inbuf := append([]byte{}, file...)
		if pn := safe(func() { err = kt.Unmarshal(inbuf) }); pn != "" {
			c.Violate("parse", "parse:panic", map[string]interface{}{"panic": pn}, rec)
			return
		}
		for i := range inbuf {
			inbuf[i] = 0xEE
		}
		if err != nil {
			c.Violate("parse", fmt.Sprintf("parse:v%d:error:%s", version, holes.name), map[string]interface{}{"err": trunc(err.Error())}, rec)
			return
		}
		want := fromModel(version, es)
		if d := diff(fromGokrb5(kt), want, false); d != "" {
			c.Violate("parse", fmt.Sprintf("parse:v%d:%s:%s", version, holes.name, firstWord(d)), map[string]interface{}{"diff": d}, rec)
			return
		}
		// round trip through gokrb5's writer, read by the reference reader and by gokrb5
		var out []byte
		if pn := safe(func() { out, err = kt.Marshal() }); pn != "" || err != nil {
			c.Violate("roundtrip", "marshal:error", map[string]interface{}{"panic": pn, "err": fmt.Sprint(err)}, rec)
			return
		}
		v2, back, rerr := keytabfmt.Read(out)
		if rerr != nil || v2 != version {
			c.Violate("roundtrip", fmt.Sprintf("roundtrip:v%d:reference-cannot-read", version), map[string]interface{}{"err": fmt.Sprint(rerr), "version": v2}, rec)
			return
		}
		if d := diff(fromModel(version, back), want, false); d != "" {
			c.Violate("roundtrip", fmt.Sprintf("roundtrip:v%d:%s", version, firstWord(d)), map[string]interface{}{"diff": d, "read_by": "reference"}, rec)
			return
		}
		kt2 := keytab.New()
		if err := kt2.Unmarshal(out); err != nil {
			c.Violate("roundtrip", fmt.Sprintf("roundtrip:v%d:gokrb5-cannot-reread", version), map[string]interface{}{"err": trunc(err.Error())}, rec)
			return
		}
		if d := diff(fromGokrb5(kt2), want, false); d != "" {
			c.Violate("roundtrip", fmt.Sprintf("roundtrip:v%d:%s", version, firstWord(d)), map[string]interface{}{"diff": d, "read_by": "gokrb5"}, rec)
			return
		}
		c.Distinct(fmt.Sprintf("f/%d/%s/%d/%d", version, holes.name, len(es), len(file)))
	}

	// (1) every single-entry keytab over the full alphabet x version x hole pattern
	for _, e := range alpha {
		for v := 1; v <= 2; v++ {
			for _, h := range hp {
				checkFile(v, h, []keytabfmt.Entry{e})
			}
		}
	}
	// (2) empty keytab, all ordered pairs over a 14-entry sub-alphabet, all sequences up to 6 over a 3-entry one
	for v := 1; v <= 2; v++ {
		for _, h := range hp {
			checkFile(v, h, nil)
		}
	}
	var sub []keytabfmt.Entry
	for i := 0; i < len(alpha); i += len(alpha)/14 + 1 {
		sub = append(sub, alpha[i])
	}
	for _, a := range sub {
		for _, b := range sub {
			for v := 1; v <= 2; v++ {
				for _, h := range hp {
					checkFile(v, h, []keytabfmt.Entry{a, b})
				}
			}
		}
	}
	tri := []keytabfmt.Entry{alpha[201], alpha[777], alpha[1500]}
	maxSeq := 6
	if c.Thorough() {
		maxSeq = 8
	}
	var rec func(cur []keytabfmt.Entry)
	rec = func(cur []keytabfmt.Entry) {
		if len(cur) >= 3 {
			for v := 1; v <= 2; v++ {
				checkFile(v, hp[len(cur)%len(hp)], cur)
			}
		}
		if len(cur) == maxSeq {
			return
		}
		for _, e := range tri {
			rec(append(append([]keytabfmt.Entry{}, cur...), e))
		}
	}
	rec(nil)
	c.Sample(map[string]interface{}{"version": 1, "holes": "hole-between", "entries": []keytabfmt.Entry{sub[1], sub[2]}})

	lookups(c, r, &evals)
	addEntry(c, &evals)

	c.Add("evaluations", evals)
	c.Add("states", evals)
	c.Add("transitions", evals)
	c.Add("traces_validated_against_impl", evals)
	c.Cov["entry_alphabet"] = len(alpha)
	c.Cov["rule"] = "files: every single-entry keytab over the full entry alphabet (6 principals x 3 realms x 5 etypes x 13 kvno shapes (incl. version 0 and 8-bit versions >= 128 with the 32-bit field absent / zero / set) x 5 timestamps = 5850) x version {1,2} x 5 hole patterns; all ordered pairs over a 14-entry sub-alphabet; all sequences of length 3..6 (8 thorough) over a 3-entry alphabet; lookups: every query of the near-miss product against every 1-3 entry keytab of a lookup alphabet; AddEntry for six etypes. distinct = distinct (version, holes, count, size) file shapes parsed and round-tripped, and distinct lookup outcomes"
}

func trunc(s string) string {
	if len(s) > 200 {
		return s[:200] + "..."
	}
	return s
}

func safe(f func()) (p string) {
	defer func() {
		if r := recover(); r != nil {
			p = fmt.Sprint(r)
		}
	}()
	f()
	return ""
}

// ---- lookups -----------------------------------------------------------

func lookups(c *engine.Ctx, r *rand.Rand, evals *int64) {
	mk := func(comps []string, realm string, et uint16, k kv, ts uint32) keytabfmt.Entry {
		key := make([]byte, 16)
		r.Read(key)
		return keytabfmt.Entry{Components: comps, Realm: realm, NameType: 1, Timestamp: ts, KVNO8: k.k8, KVNO32: k.k32, KeyType: et, Key: key}
	}
	P := []string{"HTTP", "h"}
	la := []keytabfmt.Entry{
		mk(P, "R.COM", 18, kv{1, nil}, 100),
		mk(P, "R.COM", 18, kv{2, u32p(2)}, 200),
		mk(P, "R.COM", 18, kv{3, u32p(3)}, 150), // higher kvno, older timestamp
		mk(P, "R.COM", 17, kv{2, u32p(2)}, 300),
		mk(P, "OTHER.COM", 18, kv{2, u32p(2)}, 400),
		mk([]string{"HTTP"}, "R.COM", 18, kv{2, u32p(2)}, 500),
		mk([]string{"HTTP", "h", "x"}, "R.COM", 18, kv{2, u32p(2)}, 600),
		mk([]string{"HTTP", "g"}, "R.COM", 18, kv{2, u32p(2)}, 700),
		mk(P, "R.COM", 18, kv{0, u32p(300)}, 50), // 32-bit kvno only
		mk(P, "R.COM", 18, kv{2, u32p(2)}, 200),  // duplicate criteria, same timestamp, other key
		// names that render to the same text as another split of components / realm
		mk([]string{"HTTP/h"}, "R.COM", 18, kv{2, u32p(2)}, 800),
		mk([]string{}, "R.COM", 18, kv{2, u32p(2)}, 810),
		mk([]string{"svc"}, "B@R.COM", 18, kv{2, u32p(2)}, 820),
		mk([]string{""}, "R.COM", 18, kv{2, u32p(2)}, 830),
		// key version 0 (the only rc4 entries: a lookup for "any version" must find them) and 8-bit versions >= 128
		mk(P, "R.COM", 23, kv{0, nil}, 900),
		mk(P, "OTHER.COM", 23, kv{0, u32p(0)}, 910),
		mk(P, "R.COM", 17, kv{200, nil}, 920),
		// same criteria as the second entry, newer timestamp, other key: whatever the file order, the newest entry
		// with the required kvno is the one returned (GetEncryptionKey's documented rule)
		mk(P, "R.COM", 18, kv{2, u32p(2)}, 250),
	}
	type query struct {
		princ []string
		realm string
		kvno  int
		et    int32
	}
	var qs []query
	for _, p := range [][]string{P, {"HTTP"}, {"HTTP", "h", "x"}, {"HTTP", "g"}, {"http", "h"}, {}, {"HTTP/h"}, {""}, {"svc@B"}, {"svc"}, {"HTTP", "h/x"}, {"", ""}} {
		for _, rl := range []string{"R.COM", "OTHER.COM", "r.com", "", "B@R.COM"} {
			for _, k := range []int{0, 1, 2, 3, 4, 300, 256, 200} {
				for _, et := range []int32{18, 17, 23} {
					qs = append(qs, query{p, rl, k, et})
				}
			}
		}
	}
	// every keytab of 1..3 entries (ordered, no repetition) over the lookup alphabet
	var kts [][]keytabfmt.Entry
	n := len(la)
	for i := 0; i < n; i++ {
		kts = append(kts, []keytabfmt.Entry{la[i]})
		for j := 0; j < n; j++ {
			if j == i {
				continue
			}
			kts = append(kts, []keytabfmt.Entry{la[i], la[j]})
			for k := 0; k < n; k++ {
				if k == i || k == j || !c.Thorough() && (i+j+k)%3 != 0 {
					continue
				}
				kts = append(kts, []keytabfmt.Entry{la[i], la[j], la[k]})
			}
		}
	}
	kts = append(kts, la)
	for _, es := range kts {
		var items []keytabfmt.Item
		for i := range es {
			items = append(items, keytabfmt.Item{Entry: &es[i]})
		}
		kt := keytab.New()
		if err := kt.Unmarshal(keytabfmt.Write(2, items)); err != nil {
			engine.FailValid("keytab.Unmarshal(lookup keytab)", err)
		}
		for _, q := range qs {
			*evals++
			// model filter
			var match []keytabfmt.Entry
			var maxTS uint32
			for _, e := range es {
				if e.Realm != q.realm || int32(int16(e.KeyType)) != q.et || len(e.Components) != len(q.princ) {
					continue
				}
				same := true
				for i := range q.princ {
					if q.princ[i] != e.Components[i] {
						same = false
					}
				}
				if !same || (q.kvno != 0 && e.KVNO() != uint32(q.kvno)) {
					continue
				}
				match = append(match, e)
				if e.Timestamp > maxTS {
					maxTS = e.Timestamp
				}
			}
			rec := map[string]interface{}{"entries": es, "query": fmt.Sprintf("%v@%s kvno=%d etype=%d", q.princ, q.realm, q.kvno, q.et)}
			var key types.EncryptionKey
			var kvno int
			var err error
			if pn := safe(func() {
				key, kvno, err = kt.GetEncryptionKey(types.PrincipalName{NameType: 1, NameString: q.princ}, q.realm, q.kvno, q.et)
			}); pn != "" {
				c.Violate("lookup", "lookup:panic", map[string]interface{}{"panic": pn}, rec)
				continue
			}
			if len(match) == 0 {
				if err == nil {
					c.Violate("lookup", "lookup:returns-key-without-match:"+nearMiss(es, q.princ, q.realm, q.kvno, q.et), map[string]interface{}{"returned_kvno": kvno}, rec)
				} else {
					c.Distinct("lookup/none/" + nearMiss(es, q.princ, q.realm, q.kvno, q.et))
				}
				continue
			}
			if err != nil {
				c.Violate("lookup", "lookup:fails-although-entry-matches", map[string]interface{}{"err": trunc(err.Error())}, rec)
				continue
			}
			ok := false
			for _, e := range match {
				if e.Timestamp == maxTS && bytes.Equal(e.Key, key.KeyValue) && int(e.KVNO()) == kvno && key.KeyType == q.et {
					ok = true
				}
			}
			if !ok {
				which := "not-a-matching-entry"
				for _, e := range match {
					if bytes.Equal(e.Key, key.KeyValue) {
						which = "not-the-newest"
					}
				}
				c.Violate("lookup", "lookup:wrong-entry:"+which, map[string]interface{}{"returned_kvno": kvno}, rec)
				continue
			}
			c.Distinct(fmt.Sprintf("lookup/hit/%d/%d", len(match), q.kvno))
		}
	}
}

// nearMiss classifies why nothing matches (for violation keys).
func nearMiss(es []keytabfmt.Entry, p []string, realm string, kvno int, et int32) string {
	cl := "nothing-close"
	for _, e := range es {
		samep := len(e.Components) == len(p)
		if samep {
			for i := range p {
				if p[i] != e.Components[i] {
					samep = false
				}
			}
		}
		sr, se, sk := e.Realm == realm, int32(int16(e.KeyType)) == et, kvno == 0 || e.KVNO() == uint32(kvno)
		switch {
		case samep && sr && se && !sk:
			return "other-kvno"
		case samep && sr && !se && sk:
			cl = "other-etype"
		case samep && !sr && se && sk:
			cl = "other-realm"
		case !samep && sr && se && sk:
			cl = "other-principal"
		}
	}
	return cl
}

func addEntry(c *engine.Ctx, evals *int64) {
	ts := time.Unix(1700000000, 0)
	for _, et := range rcrypto.Etypes {
		for _, pr := range []string{"user", "HTTP/www.example.org"} {
			*evals++
			kt := keytab.New()
			rec := map[string]interface{}{"etype": et, "principal": pr}
			if err := kt.AddEntry(pr, "EXAMPLE.ORG", "hello123", ts, 7, et); err != nil {
				c.Violate("addentry", fmt.Sprintf("addentry:et%d:error", et), map[string]interface{}{"err": err.Error()}, rec)
				continue
			}
			b, err := kt.Marshal()
			if err != nil {
				c.Violate("addentry", fmt.Sprintf("addentry:et%d:marshal", et), map[string]interface{}{"err": err.Error()}, rec)
				continue
			}
			_, es, rerr := keytabfmt.Read(b)
			comps := strings.Split(pr, "/")
			want, _ := rcrypto.StringToKey(et, "hello123", "EXAMPLE.ORG"+strings.Join(comps, ""), nil)
			if rerr != nil || len(es) != 1 || es[0].Realm != "EXAMPLE.ORG" || strings.Join(es[0].Components, "/") != pr || es[0].KVNO() != 7 ||
				int32(int16(es[0].KeyType)) != et || !bytes.Equal(es[0].Key, want) || es[0].Timestamp != 1700000000 {
				c.Violate("addentry", fmt.Sprintf("addentry:et%d:file-differs", et), map[string]interface{}{"err": fmt.Sprint(rerr), "entries": es}, rec)
				continue
			}
			c.Distinct(fmt.Sprintf("addentry/%d/%s", et, pr))
		}
	}
}
