package c13

import (
	"github.com/jcmturner/gokrb5/v8/crypto"
	"github.com/jcmturner/gokrb5/v8/types"
)

func cryptoDecrypt(ed types.EncryptedData, key types.EncryptionKey, usage uint32) ([]byte, error) {
	return crypto.DecryptEncPart(ed, key, usage)
}
