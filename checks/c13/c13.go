// Package c13: Kerberos and SPNEGO messages survive encode/decode and match
// the RFC ASN.1. Values are generated on the reference side (ref/krbmsg,
// strict DER), encoded by the reference and fed to gokrb5's Unmarshal; the
// re-encoding by gokrb5's Marshal must reproduce the bytes exactly (so an
// independent decoder extracts the same field values), also after the object
// was decrypted or verified in between.
package c13

import (
	"bytes"
	"encoding/hex"
	"fmt"
	"strings"
	"time"

	"verif/checks/apworld"
	"verif/engine"
	"verif/ref"
	"verif/ref/der"
	"verif/ref/krbmsg"
	"verif/ref/rcrypto"

	"github.com/jcmturner/gofork/encoding/asn1"
	"github.com/jcmturner/gokrb5/v8/asn1tools"
	"github.com/jcmturner/gokrb5/v8/config"
	"github.com/jcmturner/gokrb5/v8/credentials"
	"github.com/jcmturner/gokrb5/v8/kadmin"
	"github.com/jcmturner/gokrb5/v8/keytab"
	"github.com/jcmturner/gokrb5/v8/messages"
	"github.com/jcmturner/gokrb5/v8/service"
	"github.com/jcmturner/gokrb5/v8/spnego"
	"github.com/jcmturner/gokrb5/v8/types"
	"github.com/jcmturner/gokrb5/v8/zzverif/vclock"
)

func safe(f func()) (p string) {
	defer func() {
		if r := recover(); r != nil {
			p = fmt.Sprint(r)
		}
	}()
	f()
	return ""
}

var t0 = time.Date(1994, 6, 10, 6, 3, 17, 0, time.UTC)

type variant[T any] struct {
	name  string
	apply func(v *T)
}

var evals int64

// sweep enumerates the baseline, every single variant and (optionally) every
// pair of variants, and checks decode -> re-encode == original bytes.
func sweep[T any](c *engine.Ctx, typ string, base func() T, vars []variant[T], enc func(T) []byte, rt func(b []byte) ([]byte, error), pairs bool) {
	one := func(names []string, v T) {
		b := enc(v)
		evals++
		var b2 []byte
		var err error
		rec := map[string]interface{}{"type": typ, "variants": names, "reference_encoding": hexTrunc(b)}
		if pn := safe(func() { b2, err = rt(b) }); pn != "" {
			c.Violate("roundtrip", fmt.Sprintf("%s:panic", typ), map[string]interface{}{"panic": pn, "variants": names}, rec)
			return
		}
		if err != nil {
			c.Violate("roundtrip", fmt.Sprintf("%s:cannot-decode-or-encode:%s", typ, strings.Join(names, "+")), map[string]interface{}{"err": trunc(err.Error())}, rec)
			return
		}
		if !bytes.Equal(b, b2) {
			c.Violate("roundtrip", fmt.Sprintf("%s:reencoding-differs:%s", typ, strings.Join(names, "+")), map[string]interface{}{"gokrb5_encoding": hexTrunc(b2), "first_difference_at": firstDiff(b, b2), "len_ref": len(b), "len_gokrb5": len(b2)}, rec)
			return
		}
		c.Distinct(typ + "/" + strings.Join(names, "+"))
	}
	one(nil, base())
	for _, a := range vars {
		v := base()
		a.apply(&v)
		one([]string{a.name}, v)
	}
	if pairs {
		for i, a := range vars {
			for _, b := range vars[i+1:] {
				if strings.SplitN(a.name, "=", 2)[0] == strings.SplitN(b.name, "=", 2)[0] {
					continue // two values for the same field
				}
				v := base()
				a.apply(&v)
				b.apply(&v)
				one([]string{a.name, b.name}, v)
			}
		}
	}
}

func hexTrunc(b []byte) string {
	if len(b) > 300 {
		return hex.EncodeToString(b[:300]) + fmt.Sprintf("...(%d bytes)", len(b))
	}
	return hex.EncodeToString(b)
}

func trunc(s string) string {
	if len(s) > 300 {
		return s[:300] + "..."
	}
	return s
}

func firstDiff(a, b []byte) int {
	for i := 0; i < len(a) && i < len(b); i++ {
		if a[i] != b[i] {
			return i
		}
	}
	if len(a) != len(b) {
		if len(a) < len(b) {
			return len(a)
		}
		return len(b)
	}
	return -1
}

// ---- value domains -------------------------------------------------------

var int32s = []int64{1, -1, 127, 128, 255, 256, 2147483647, -2147483648}
var strLens = []int{0, 1, 127, 128, 255, 256, 65535, 65536}

func strOf(n int) string { return strings.Repeat("s", n) }

func names(n int) []string {
	out := []string{}
	for i := 0; i < n; i++ {
		out = append(out, fmt.Sprintf("comp%d", i))
	}
	return out
}

func principalVariants[T any](field string, get func(v *T) *krbmsg.PrincipalName) []variant[T] {
	var out []variant[T]
	for n := 0; n <= 4; n++ {
		n := n
		out = append(out, variant[T]{fmt.Sprintf("%s=components-%d", field, n), func(v *T) { get(v).Names = names(n) }})
	}
	for _, t := range []int64{0, 1, 2, 3, 10, -1, 2147483647} {
		t := t
		out = append(out, variant[T]{fmt.Sprintf("%s-type=%d", field, t), func(v *T) { get(v).Type = int32(t) }})
	}
	for _, l := range []int{0, 128, 65536} {
		l := l
		out = append(out, variant[T]{fmt.Sprintf("%s=component-len-%d", field, l), func(v *T) { get(v).Names = []string{"x", strOf(l)} }})
	}
	return out
}

func flagVariants[T any](field string, set func(v *T, f uint32)) []variant[T] {
	var out []variant[T]
	for bit := 0; bit < 32; bit++ {
		bit := bit
		out = append(out, variant[T]{fmt.Sprintf("%s=bit-%d", field, bit), func(v *T) { set(v, 1<<uint(31-bit)) }})
	}
	out = append(out, variant[T]{field + "=all-ones", func(v *T) { set(v, 0xffffffff) }}, variant[T]{field + "=zero", func(v *T) { set(v, 0) }})
	return out
}

func encDataVariants[T any](field string, get func(v *T) *krbmsg.EncryptedData) []variant[T] {
	var out []variant[T]
	for _, e := range int32s {
		e := e
		out = append(out, variant[T]{fmt.Sprintf("%s-etype=%d", field, e), func(v *T) { get(v).EType = int32(e) }})
	}
	out = append(out, variant[T]{field + "-kvno=absent", func(v *T) { get(v).KVNO = nil }})
	for _, k := range []int64{1, 255, 256, 2147483647, -1, -16777216} {
		k := k
		out = append(out, variant[T]{fmt.Sprintf("%s-kvno=%d", field, k), func(v *T) { get(v).KVNO = krbmsg.I64(k) }})
	}
	for _, l := range strLens {
		l := l
		out = append(out, variant[T]{fmt.Sprintf("%s-cipher=len-%d", field, l), func(v *T) { get(v).Cipher = bytes.Repeat([]byte{0xC1}, l) }})
	}
	return out
}

func baseEncData() krbmsg.EncryptedData {
	return krbmsg.EncryptedData{EType: 18, KVNO: krbmsg.I64(5), Cipher: []byte("krbASN.1 test message")}
}

func baseTicket() krbmsg.Ticket {
	return krbmsg.Ticket{VNO: 5, Realm: "ATHENA.MIT.EDU", SName: krbmsg.PrincipalName{Type: 1, Names: []string{"hftsai", "extra"}}, Enc: baseEncData()}
}

func ticketN(i int) []byte {
	t := baseTicket()
	t.Realm = fmt.Sprintf("REALM%d.EXAMPLE", i)
	t.Enc.Cipher = bytes.Repeat([]byte{byte(i + 1)}, 20+100*i)
	// consecutive tickets differ in which optional fields they carry, so that state carried over from one decoded
	// ticket to the next shows up in the re-encoding
	if i%2 == 1 {
		t.Enc.KVNO = nil
	} else {
		t.Enc.KVNO = krbmsg.I64(int64(3 + i))
	}
	return t.Encode()
}

// Run is the check's entry point.
func Run(c *engine.Ctx) {
	c.Assume = append(c.Assume,
		"the reference encoder/decoder ref/krbmsg + ref/der reproduces the MIT krb5 reference encodings byte for byte (checked on every run)",
		"generated values avoid optional fields transmitted with a zero or empty value, as the property allows; message-type fields keep the value the decoder insists on")
	if n, err := krbmsg.SelfTest(ref.MITVectors()); err != nil {
		engine.Fatal("%v", err)
	} else {
		c.Cov["reference_mit_vectors_ok"] = n
	}
	evals = 0
	pairs := true

	// 1. Ticket
	{
		vars := append(principalVariants("sname", func(v *krbmsg.Ticket) *krbmsg.PrincipalName { return &v.SName }),
			encDataVariants("enc-part", func(v *krbmsg.Ticket) *krbmsg.EncryptedData { return &v.Enc })...)
		for _, l := range strLens {
			l := l
			vars = append(vars, variant[krbmsg.Ticket]{fmt.Sprintf("realm=len-%d", l), func(v *krbmsg.Ticket) { v.Realm = strOf(l) }})
		}
		for _, n := range []int64{0, 1, 4, 255, 256, -1} {
			n := n
			vars = append(vars, variant[krbmsg.Ticket]{fmt.Sprintf("tkt-vno=%d", n), func(v *krbmsg.Ticket) { v.VNO = n }})
		}
		sweep(c, "Ticket", baseTicket, vars, func(v krbmsg.Ticket) []byte { return v.Encode() }, func(b []byte) ([]byte, error) {
			var t messages.Ticket
			if err := t.Unmarshal(b); err != nil {
				return nil, err
			}
			return t.Marshal()
		}, pairs)
	}
	// 2. Authenticator
	{
		base := func() krbmsg.Authenticator {
			return krbmsg.Authenticator{VNO: 5, CRealm: "ATHENA.MIT.EDU", CName: krbmsg.PrincipalName{Type: 1, Names: []string{"hftsai"}}, Cusec: 123456, CTime: t0}
		}
		vars := principalVariants("cname", func(v *krbmsg.Authenticator) *krbmsg.PrincipalName { return &v.CName })
		vars = append(vars,
			variant[krbmsg.Authenticator]{"cksum=present", func(v *krbmsg.Authenticator) {
				v.Cksum = &krbmsg.Checksum{Type: 32771, Sum: bytes.Repeat([]byte{1}, 24)}
			}},
			variant[krbmsg.Authenticator]{"cksum=negative-type", func(v *krbmsg.Authenticator) {
				v.Cksum = &krbmsg.Checksum{Type: -138, Sum: bytes.Repeat([]byte{1}, 16)}
			}},
			variant[krbmsg.Authenticator]{"subkey=present", func(v *krbmsg.Authenticator) {
				v.SubKey = &krbmsg.EncryptionKey{Type: 18, Value: bytes.Repeat([]byte{7}, 32)}
			}},
			variant[krbmsg.Authenticator]{"authdata=2-entries", func(v *krbmsg.Authenticator) {
				v.AuthData = []krbmsg.AuthDataEntry{{Type: 1, Data: []byte("foobar")}, {Type: -17, Data: []byte("x")}}
			}},
			variant[krbmsg.Authenticator]{"cusec=999999", func(v *krbmsg.Authenticator) { v.Cusec = 999999 }},
			variant[krbmsg.Authenticator]{"cusec=0", func(v *krbmsg.Authenticator) { v.Cusec = 0 }},
			variant[krbmsg.Authenticator]{"ctime=2038", func(v *krbmsg.Authenticator) { v.CTime = time.Date(2038, 1, 19, 3, 14, 8, 0, time.UTC) }},
			variant[krbmsg.Authenticator]{"ctime=1970", func(v *krbmsg.Authenticator) { v.CTime = time.Unix(0, 0).UTC() }},
		)
		for _, s := range []int64{1, 127, 128, 0x3fffffff, 2147483647, 2147483648, 4294967295} {
			s := s
			vars = append(vars, variant[krbmsg.Authenticator]{fmt.Sprintf("seq-number=%d", s), func(v *krbmsg.Authenticator) { v.SeqNum = krbmsg.I64(s) }})
		}
		for _, l := range strLens {
			l := l
			vars = append(vars, variant[krbmsg.Authenticator]{fmt.Sprintf("crealm=len-%d", l), func(v *krbmsg.Authenticator) { v.CRealm = strOf(l) }})
		}
		sweep(c, "Authenticator", base, vars, func(v krbmsg.Authenticator) []byte { return v.Encode() }, func(b []byte) ([]byte, error) {
			var a types.Authenticator
			if err := a.Unmarshal(b); err != nil {
				return nil, err
			}
			return a.Marshal()
		}, pairs)
	}
	// 3. EncryptedData
	sweep(c, "EncryptedData", baseEncData, encDataVariants("ed", func(v *krbmsg.EncryptedData) *krbmsg.EncryptedData { return v }),
		func(v krbmsg.EncryptedData) []byte { return v.Encode() }, func(b []byte) ([]byte, error) {
			var e types.EncryptedData
			if err := e.Unmarshal(b); err != nil {
				return nil, err
			}
			return e.Marshal()
		}, pairs)
	// 4-6. KDC-REQ-BODY, AS-REQ, TGS-REQ
	{
		baseBody := func() krbmsg.KDCReqBody {
			return krbmsg.KDCReqBody{KDCOptions: 0x40810010, CName: &krbmsg.PrincipalName{Type: 1, Names: []string{"hftsai", "extra"}}, Realm: "ATHENA.MIT.EDU",
				SName: &krbmsg.PrincipalName{Type: 2, Names: []string{"krbtgt", "ATHENA.MIT.EDU"}}, Till: t0.Add(24 * time.Hour), Nonce: 42, ETypes: []int32{18, 17}}
		}
		bodyVars := func() []variant[krbmsg.KDCReqBody] {
			vars := flagVariants("kdc-options", func(v *krbmsg.KDCReqBody, f uint32) { v.KDCOptions = f })
			vars = append(vars, principalVariants("cname", func(v *krbmsg.KDCReqBody) *krbmsg.PrincipalName { return v.CName })...)
			vars = append(vars, principalVariants("sname", func(v *krbmsg.KDCReqBody) *krbmsg.PrincipalName { return v.SName })...)
			vars = append(vars,
				variant[krbmsg.KDCReqBody]{"cname-field=absent", func(v *krbmsg.KDCReqBody) { v.CName = nil }},
				variant[krbmsg.KDCReqBody]{"sname-field=absent", func(v *krbmsg.KDCReqBody) { v.SName = nil }},
				variant[krbmsg.KDCReqBody]{"from=present", func(v *krbmsg.KDCReqBody) { v.From = krbmsg.Tm(t0) }},
				variant[krbmsg.KDCReqBody]{"rtime=present", func(v *krbmsg.KDCReqBody) { v.RTime = krbmsg.Tm(t0.Add(7 * 24 * time.Hour)) }},
				variant[krbmsg.KDCReqBody]{"addresses=2", func(v *krbmsg.KDCReqBody) {
					v.Addresses = []krbmsg.HostAddress{{Type: 2, Addr: []byte{18, 208, 0, 35}}, {Type: 24, Addr: bytes.Repeat([]byte{0xfe}, 16)}}
				}},
				variant[krbmsg.KDCReqBody]{"enc-authorization-data=present", func(v *krbmsg.KDCReqBody) { e := baseEncData(); v.EncAuthData = &e }},
				variant[krbmsg.KDCReqBody]{"etype=one", func(v *krbmsg.KDCReqBody) { v.ETypes = []int32{23} }},
				variant[krbmsg.KDCReqBody]{"etype=many-and-negative", func(v *krbmsg.KDCReqBody) { v.ETypes = []int32{18, 17, 20, 19, 16, 23, -133, 24, 2147483647} }},
				variant[krbmsg.KDCReqBody]{"etype=empty", func(v *krbmsg.KDCReqBody) { v.ETypes = nil }},
			)
			for n := 1; n <= 3; n++ {
				n := n
				vars = append(vars, variant[krbmsg.KDCReqBody]{fmt.Sprintf("additional-tickets=%d", n), func(v *krbmsg.KDCReqBody) {
					v.AddTickets = [][]byte{}
					for i := 0; i < n; i++ {
						v.AddTickets = append(v.AddTickets, ticketN(i))
					}
				}})
			}
			for _, nn := range []int64{0, 1, 127, 128, 255, 256, 32767, 32768, 65535, 65536, 2147483647, 2147483648, 4294967295, -1, -128, -129, -32768, -32769, -2147483648} {
				nn := nn
				vars = append(vars, variant[krbmsg.KDCReqBody]{fmt.Sprintf("nonce=%d", nn), func(v *krbmsg.KDCReqBody) { v.Nonce = nn }})
			}
			for _, l := range strLens {
				l := l
				vars = append(vars, variant[krbmsg.KDCReqBody]{fmt.Sprintf("realm=len-%d", l), func(v *krbmsg.KDCReqBody) { v.Realm = strOf(l) }})
			}
			return vars
		}
		sweep(c, "KDC-REQ-BODY", baseBody, bodyVars(), func(v krbmsg.KDCReqBody) []byte { return v.Encode() }, func(b []byte) ([]byte, error) {
			var k messages.KDCReqBody
			if err := k.Unmarshal(b); err != nil {
				return nil, err
			}
			return k.Marshal()
		}, pairs)
		for _, app := range []int{krbmsg.AppASReq, krbmsg.AppTGSReq} {
			app := app
			name, mt := "AS-REQ", int64(10)
			if app == krbmsg.AppTGSReq {
				name, mt = "TGS-REQ", 12
			}
			base := func() krbmsg.KDCReq { return krbmsg.KDCReq{App: app, PVNO: 5, MsgType: mt, Body: baseBody()} }
			var vars []variant[krbmsg.KDCReq]
			for _, bv := range bodyVars() {
				bv := bv
				if strings.Contains(bv.name, "bit-") && !strings.HasSuffix(bv.name, "bit-0") && !strings.HasSuffix(bv.name, "bit-31") {
					continue
				}
				vars = append(vars, variant[krbmsg.KDCReq]{"body." + bv.name, func(v *krbmsg.KDCReq) { bv.apply(&v.Body) }})
			}
			vars = append(vars,
				variant[krbmsg.KDCReq]{"padata=2", func(v *krbmsg.KDCReq) {
					v.PAData = []krbmsg.PAData{{Type: 2, Value: []byte("pa-data")}, {Type: 128, Value: bytes.Repeat([]byte{9}, 200)}}
				}},
				variant[krbmsg.KDCReq]{"padata=negative-type-empty-value", func(v *krbmsg.KDCReq) { v.PAData = []krbmsg.PAData{{Type: -5, Value: []byte{}}} }},
				variant[krbmsg.KDCReq]{"pvno=4", func(v *krbmsg.KDCReq) { v.PVNO = 4 }},
			)
			sweep(c, name, base, vars, func(v krbmsg.KDCReq) []byte { return v.Encode() }, func(b []byte) ([]byte, error) {
				if app == krbmsg.AppASReq {
					var k messages.ASReq
					if err := k.Unmarshal(b); err != nil {
						return nil, err
					}
					return k.Marshal()
				}
				var k messages.TGSReq
				if err := k.Unmarshal(b); err != nil {
					return nil, err
				}
				return k.Marshal()
			}, false)
		}
	}
	// 7-8. AS-REP, TGS-REP
	for _, app := range []int{krbmsg.AppASRep, krbmsg.AppTGSRep} {
		app := app
		name, mt := "AS-REP", int64(11)
		if app == krbmsg.AppTGSRep {
			name, mt = "TGS-REP", 13
		}
		base := func() krbmsg.KDCRep {
			return krbmsg.KDCRep{App: app, PVNO: 5, MsgType: mt, CRealm: "ATHENA.MIT.EDU", CName: krbmsg.PrincipalName{Type: 1, Names: []string{"hftsai"}}, Ticket: baseTicket().Encode(), Enc: baseEncData()}
		}
		vars := principalVariants("cname", func(v *krbmsg.KDCRep) *krbmsg.PrincipalName { return &v.CName })
		vars = append(vars, encDataVariants("enc-part", func(v *krbmsg.KDCRep) *krbmsg.EncryptedData { return &v.Enc })...)
		vars = append(vars,
			variant[krbmsg.KDCRep]{"padata=2", func(v *krbmsg.KDCRep) {
				v.PAData = []krbmsg.PAData{{Type: 19, Value: []byte("etype-info2")}, {Type: 3, Value: []byte("salt")}}
			}},
			variant[krbmsg.KDCRep]{"ticket=other", func(v *krbmsg.KDCRep) { v.Ticket = ticketN(2) }},
		)
		for _, l := range strLens {
			l := l
			vars = append(vars, variant[krbmsg.KDCRep]{fmt.Sprintf("crealm=len-%d", l), func(v *krbmsg.KDCRep) { v.CRealm = strOf(l) }})
		}
		sweep(c, name, base, vars, func(v krbmsg.KDCRep) []byte { return v.Encode() }, func(b []byte) ([]byte, error) {
			if app == krbmsg.AppASRep {
				var k messages.ASRep
				if err := k.Unmarshal(b); err != nil {
					return nil, err
				}
				return k.Marshal()
			}
			var k messages.TGSRep
			if err := k.Unmarshal(b); err != nil {
				return nil, err
			}
			return k.Marshal()
		}, pairs)
	}
	// 9. EncKDCRepPart (AS form, application tag 25)
	{
		base := func() krbmsg.EncKDCRepPart {
			return krbmsg.EncKDCRepPart{App: krbmsg.AppEncASRepPart, Key: krbmsg.EncryptionKey{Type: 18, Value: bytes.Repeat([]byte{3}, 32)},
				LastReqs: []krbmsg.LastReq{{Type: -5, Value: t0}}, Nonce: 42, Flags: 0x40e10000, AuthTime: t0, EndTime: t0.Add(10 * time.Hour), SRealm: "ATHENA.MIT.EDU",
				SName: krbmsg.PrincipalName{Type: 2, Names: []string{"krbtgt", "ATHENA.MIT.EDU"}}}
		}
		vars := flagVariants("flags", func(v *krbmsg.EncKDCRepPart, f uint32) { v.Flags = f })
		vars = append(vars, principalVariants("sname", func(v *krbmsg.EncKDCRepPart) *krbmsg.PrincipalName { return &v.SName })...)
		vars = append(vars,
			variant[krbmsg.EncKDCRepPart]{"key-expiration=present", func(v *krbmsg.EncKDCRepPart) { v.KeyExp = krbmsg.Tm(t0.Add(time.Hour)) }},
			variant[krbmsg.EncKDCRepPart]{"starttime=present", func(v *krbmsg.EncKDCRepPart) { v.StartTime = krbmsg.Tm(t0.Add(time.Minute)) }},
			variant[krbmsg.EncKDCRepPart]{"renew-till=present", func(v *krbmsg.EncKDCRepPart) { v.RenewTill = krbmsg.Tm(t0.Add(100 * time.Hour)) }},
			variant[krbmsg.EncKDCRepPart]{"caddr=2", func(v *krbmsg.EncKDCRepPart) {
				v.CAddr = []krbmsg.HostAddress{{Type: 2, Addr: []byte{1, 2, 3, 4}}, {Type: 2, Addr: []byte{5, 6, 7, 8}}}
			}},
			variant[krbmsg.EncKDCRepPart]{"encrypted-pa-data=1", func(v *krbmsg.EncKDCRepPart) { v.EncPA = []krbmsg.PAData{{Type: 149, Value: []byte("x")}} }},
			variant[krbmsg.EncKDCRepPart]{"last-req=empty", func(v *krbmsg.EncKDCRepPart) { v.LastReqs = nil }},
			variant[krbmsg.EncKDCRepPart]{"last-req=3", func(v *krbmsg.EncKDCRepPart) {
				v.LastReqs = []krbmsg.LastReq{{Type: 0, Value: t0}, {Type: 6, Value: t0.Add(time.Second)}, {Type: 2147483647, Value: t0}}
			}},
			variant[krbmsg.EncKDCRepPart]{"key=rc4", func(v *krbmsg.EncKDCRepPart) {
				v.Key = krbmsg.EncryptionKey{Type: 23, Value: bytes.Repeat([]byte{1}, 16)}
			}},
		)
		for _, nn := range []int64{0, 127, 128, 255, 256, 65535, 65536, 2147483647, 2147483648, 4294967295, -1, -128, -129, -32769, -2147483648} {
			nn := nn
			vars = append(vars, variant[krbmsg.EncKDCRepPart]{fmt.Sprintf("nonce=%d", nn), func(v *krbmsg.EncKDCRepPart) { v.Nonce = nn }})
		}
		rt := func(b []byte) ([]byte, error) {
			var e messages.EncKDCRepPart
			if err := e.Unmarshal(b); err != nil {
				return nil, err
			}
			return e.Marshal()
		}
		sweep(c, "EncKDCRepPart", base, vars, func(v krbmsg.EncKDCRepPart) []byte { return v.Encode() }, rt, pairs)
		// the TGS form (application tag 26) decodes; its re-encoding is reported separately
		tg := base()
		tg.App = krbmsg.AppEncTGSRepPart
		b := tg.Encode()
		evals++
		if b2, err := rt(b); err != nil {
			c.Violate("roundtrip", "EncTGSRepPart:cannot-decode", map[string]interface{}{"err": trunc(err.Error())}, map[string]interface{}{"reference_encoding": hexTrunc(b)})
		} else if !bytes.Equal(b, b2) {
			c.Violate("roundtrip", "EncTGSRepPart:reencoded-with-application-tag-25", map[string]interface{}{"first_difference_at": firstDiff(b, b2), "gokrb5_first_byte": fmt.Sprintf("%02x", b2[0]), "original_first_byte": fmt.Sprintf("%02x", b[0])}, map[string]interface{}{"reference_encoding": hexTrunc(b)})
		}
	}
	// 10. AP-REQ
	{
		base := func() krbmsg.APReq {
			return krbmsg.APReq{PVNO: 5, MsgType: 14, APOptions: 0, Ticket: baseTicket().Encode(), Auth: baseEncData()}
		}
		vars := flagVariants("ap-options", func(v *krbmsg.APReq, f uint32) { v.APOptions = f })
		vars = append(vars, encDataVariants("authenticator", func(v *krbmsg.APReq) *krbmsg.EncryptedData { return &v.Auth })...)
		vars = append(vars, variant[krbmsg.APReq]{"ticket=other", func(v *krbmsg.APReq) { v.Ticket = ticketN(1) }})
		sweep(c, "AP-REQ", base, vars, func(v krbmsg.APReq) []byte { return v.Encode() }, func(b []byte) ([]byte, error) {
			var a messages.APReq
			if err := a.Unmarshal(b); err != nil {
				return nil, err
			}
			return a.Marshal()
		}, pairs)
	}
	// 11. KRB-ERROR
	{
		base := func() krbmsg.KRBError {
			return krbmsg.KRBError{PVNO: 5, MsgType: 30, STime: t0, Susec: 123456, Code: 60, Realm: "ATHENA.MIT.EDU", SName: krbmsg.PrincipalName{Type: 1, Names: []string{"hftsai", "extra"}}}
		}
		vars := principalVariants("sname", func(v *krbmsg.KRBError) *krbmsg.PrincipalName { return &v.SName })
		vars = append(vars,
			variant[krbmsg.KRBError]{"ctime=present", func(v *krbmsg.KRBError) { v.CTime = krbmsg.Tm(t0) }},
			variant[krbmsg.KRBError]{"cusec=present", func(v *krbmsg.KRBError) { v.Cusec = krbmsg.I64(123456) }},
			variant[krbmsg.KRBError]{"crealm=present", func(v *krbmsg.KRBError) { v.CRealm = krbmsg.Str("ATHENA.MIT.EDU") }},
			variant[krbmsg.KRBError]{"cname=present", func(v *krbmsg.KRBError) { v.CName = &krbmsg.PrincipalName{Type: 1, Names: []string{"hftsai"}} }},
			variant[krbmsg.KRBError]{"e-text=present", func(v *krbmsg.KRBError) { v.EText = krbmsg.Str("krb5data") }},
			variant[krbmsg.KRBError]{"e-text=len-65536", func(v *krbmsg.KRBError) { v.EText = krbmsg.Str(strOf(65536)) }},
			variant[krbmsg.KRBError]{"e-data=present", func(v *krbmsg.KRBError) { v.EData = []byte("krb5data") }},
			variant[krbmsg.KRBError]{"e-data=len-300", func(v *krbmsg.KRBError) { v.EData = bytes.Repeat([]byte{0x30}, 300) }},
			variant[krbmsg.KRBError]{"susec=0", func(v *krbmsg.KRBError) { v.Susec = 0 }},
			variant[krbmsg.KRBError]{"susec=999999", func(v *krbmsg.KRBError) { v.Susec = 999999 }},
		)
		for _, code := range []int64{0, 6, 24, 25, 52, 68, 127, 128, 255, 256, -1, 2147483647} {
			code := code
			vars = append(vars, variant[krbmsg.KRBError]{fmt.Sprintf("error-code=%d", code), func(v *krbmsg.KRBError) { v.Code = int32(code) }})
		}
		for _, l := range strLens {
			l := l
			vars = append(vars, variant[krbmsg.KRBError]{fmt.Sprintf("realm=len-%d", l), func(v *krbmsg.KRBError) { v.Realm = strOf(l) }})
		}
		sweep(c, "KRB-ERROR", base, vars, func(v krbmsg.KRBError) []byte { return v.Encode() }, func(b []byte) ([]byte, error) {
			var k messages.KRBError
			if err := k.Unmarshal(b); err != nil {
				return nil, err
			}
			return k.Marshal()
		}, pairs)
	}
	// 12. KRB-PRIV
	sweep(c, "KRB-PRIV", func() krbmsg.KRBPriv { return krbmsg.KRBPriv{PVNO: 5, MsgType: 21, Enc: baseEncData()} },
		encDataVariants("enc-part", func(v *krbmsg.KRBPriv) *krbmsg.EncryptedData { return &v.Enc }),
		func(v krbmsg.KRBPriv) []byte { return v.Encode() }, func(b []byte) ([]byte, error) {
			var k messages.KRBPriv
			if err := k.Unmarshal(b); err != nil {
				return nil, err
			}
			return k.Marshal()
		}, pairs)

	changePasswdData(c)
	spnegoTokens(c)
	afterDecrypt(c)
	constructed(c)
	lengthHelpers(c)

	c.Add("evaluations", evals)
	c.Add("states", evals)
	c.Add("transitions", evals)
	c.Add("traces_validated_against_impl", evals)
	c.Sample(map[string]interface{}{"type": "KDC-REQ-BODY", "variants": []string{"additional-tickets=3", "nonce=4294967295"}, "check": "gokrb5 Unmarshal then Marshal reproduces the reference encoding byte for byte"})
	c.Cov["rule"] = "per message type: reference-encoded baseline, every single field variant and every pair of variants of different fields (optionals present/absent, integers at 8/16/32-bit boundaries and negative, 0-4 name components, string lengths {0,1,127,128,255,256,65535,65536}, every flag bit, 0-3 additional tickets) decoded and re-encoded by gokrb5; the same after decrypt/verify for each etype; values built with gokrb5's own constructors decoded by the strict reference decoder; all lengths 0..2^24 for the length-octet helpers. distinct = (type, variant set) cases reproduced byte for byte"
}

// 13. ChangePasswdData (encode only in gokrb5): compare with the reference encoding
func changePasswdData(c *engine.Ctx) {
	for _, pw := range []string{"newpassword", "", "p", strOf(127), strOf(128), strOf(65536)} {
		for _, withTarg := range []int{0, 1, 2, 4} {
			for _, realm := range []string{"", "EXAMPLE.COM", strOf(200)} {
				evals++
				var items [][]byte
				items = append(items, der.Explicit(0, der.Octets([]byte(pw))))
				g := kadmin.ChangePasswdData{NewPasswd: []byte(pw), TargRealm: realm}
				if withTarg > 0 {
					pn := krbmsg.PrincipalName{Type: 1, Names: names(withTarg)}
					items = append(items, der.Explicit(1, pn.Encode()))
					g.TargName = types.PrincipalName{NameType: 1, NameString: names(withTarg)}
				}
				if realm != "" {
					items = append(items, der.Explicit(2, der.GeneralString(realm)))
				}
				want := der.Seq(items...)
				got, err := g.Marshal()
				rec := map[string]interface{}{"passwd_len": len(pw), "targ_components": withTarg, "realm_len": len(realm)}
				if err != nil || !bytes.Equal(got, want) {
					c.Violate("roundtrip", "ChangePasswdData:encoding-differs", map[string]interface{}{"err": fmt.Sprint(err), "gokrb5": hexTrunc(got), "reference": hexTrunc(want)}, rec)
					continue
				}
				c.Distinct(fmt.Sprintf("ChangePasswdData/%d/%d/%d", len(pw), withTarg, len(realm)))
			}
		}
	}
}

var oidKRB5 = []int{1, 2, 840, 113554, 1, 2, 2}
var oidMSKRB5 = []int{1, 2, 840, 48018, 1, 2, 2}
var oidSPNEGO = []int{1, 3, 6, 1, 5, 5, 2}
var oidNTLM = []int{1, 3, 6, 1, 4, 1, 311, 2, 2, 10}

// 14-17. NegTokenInit, NegTokenResp, SPNEGO framing, KRB5 mech token framing
func spnegoTokens(c *engine.Ctx) {
	apreq := krbmsg.APReq{PVNO: 5, MsgType: 14, Ticket: baseTicket().Encode(), Auth: baseEncData()}.Encode()
	krb5tok := func(tokID []byte, inner []byte) []byte {
		return der.TLV(der.App, true, 0, append(append(der.OID(oidKRB5...), tokID...), inner...))
	}
	type initModel struct {
		mechs [][]int
		flags []byte // nil: absent; else bit string bytes (7 bits used => 1 unused)
		token []byte
		mic   []byte
	}
	encInit := func(m initModel) []byte {
		var ms [][]byte
		for _, o := range m.mechs {
			ms = append(ms, der.OID(o...))
		}
		items := [][]byte{der.Explicit(0, der.Seq(ms...))}
		if m.flags != nil {
			items = append(items, der.Explicit(1, der.BitString(m.flags, 1)))
		}
		if m.token != nil {
			items = append(items, der.Explicit(2, der.Octets(m.token)))
		}
		if m.mic != nil {
			items = append(items, der.Explicit(3, der.Octets(m.mic)))
		}
		return der.TLV(der.Ctx, true, 0, der.Seq(items...))
	}
	tok := krb5tok([]byte{1, 0}, apreq)
	var inits []initModel
	for _, mechs := range [][][]int{{oidKRB5}, {oidMSKRB5, oidKRB5}, {oidKRB5, oidNTLM}, {oidNTLM}, {oidKRB5, oidMSKRB5, oidNTLM, oidSPNEGO}} {
		for _, fl := range [][]byte{nil, {0x40}, {0xfe}} {
			for _, t := range [][]byte{nil, tok, bytes.Repeat([]byte{0x55}, 70000)} {
				for _, mic := range [][]byte{nil, bytes.Repeat([]byte{1}, 28)} {
					inits = append(inits, initModel{mechs, fl, t, mic})
				}
			}
		}
	}
	for i, m := range inits {
		b := encInit(m)
		evals++
		rec := map[string]interface{}{"type": "NegTokenInit", "index": i, "mechs": len(m.mechs), "req_flags": m.flags != nil, "mech_token_len": len(m.token), "mic": m.mic != nil, "reference_encoding": hexTrunc(b)}
		var n spnego.NegTokenInit
		var b2 []byte
		var err error
		if pn := safe(func() {
			if err = n.Unmarshal(b); err == nil {
				b2, err = n.Marshal()
			}
		}); pn != "" || err != nil {
			c.Violate("roundtrip", "NegTokenInit:cannot-decode-or-encode", map[string]interface{}{"panic": pn, "err": fmt.Sprint(err)}, rec)
			continue
		}
		if !bytes.Equal(b, b2) {
			c.Violate("roundtrip", "NegTokenInit:reencoding-differs", map[string]interface{}{"first_difference_at": firstDiff(b, b2), "gokrb5_encoding": hexTrunc(b2)}, rec)
			continue
		}
		// SPNEGO InitialContextToken framing around it
		framed := der.TLV(der.App, true, 0, append(der.OID(oidSPNEGO...), b...))
		evals++
		var s spnego.SPNEGOToken
		var f2 []byte
		if pn := safe(func() {
			if err = s.Unmarshal(framed); err == nil {
				f2, err = s.Marshal()
			}
		}); pn != "" || err != nil || !s.Init || s.Resp {
			c.Violate("roundtrip", "SPNEGOToken(init):cannot-decode-or-encode", map[string]interface{}{"panic": pn, "err": fmt.Sprint(err)}, rec)
			continue
		}
		if !bytes.Equal(framed, f2) {
			c.Violate("roundtrip", "SPNEGOToken(init):reencoding-differs", map[string]interface{}{"first_difference_at": firstDiff(framed, f2)}, rec)
			continue
		}
		c.Distinct(fmt.Sprintf("NegTokenInit/%d", i))
	}
	// NegTokenResp
	for _, st := range []int64{0, 1, 2, 3} {
		for _, mech := range [][]int{nil, oidKRB5, oidMSKRB5} {
			for _, t := range [][]byte{nil, tok, bytes.Repeat([]byte{0x66}, 300)} {
				for _, mic := range [][]byte{nil, bytes.Repeat([]byte{2}, 28)} {
					items := [][]byte{der.Explicit(0, der.Enumerated(st))}
					if mech != nil {
						items = append(items, der.Explicit(1, der.OID(mech...)))
					}
					if t != nil {
						items = append(items, der.Explicit(2, der.Octets(t)))
					}
					if mic != nil {
						items = append(items, der.Explicit(3, der.Octets(mic)))
					}
					b := der.TLV(der.Ctx, true, 1, der.Seq(items...))
					evals++
					rec := map[string]interface{}{"type": "NegTokenResp", "neg_state": st, "supported_mech": mech, "response_token_len": len(t), "mic": mic != nil, "reference_encoding": hexTrunc(b)}
					var n spnego.NegTokenResp
					var b2 []byte
					var err error
					if pn := safe(func() {
						if err = n.Unmarshal(b); err == nil {
							b2, err = n.Marshal()
						}
					}); pn != "" || err != nil {
						c.Violate("roundtrip", "NegTokenResp:cannot-decode-or-encode", map[string]interface{}{"panic": pn, "err": fmt.Sprint(err)}, rec)
						continue
					}
					if !bytes.Equal(b, b2) {
						c.Violate("roundtrip", "NegTokenResp:reencoding-differs", map[string]interface{}{"first_difference_at": firstDiff(b, b2), "gokrb5_encoding": hexTrunc(b2)}, rec)
						continue
					}
					var s spnego.SPNEGOToken
					var f2 []byte
					if pn := safe(func() {
						if err = s.Unmarshal(b); err == nil {
							f2, err = s.Marshal()
						}
					}); pn != "" || err != nil || !s.Resp || !bytes.Equal(f2, b) {
						c.Violate("roundtrip", "SPNEGOToken(resp):roundtrip", map[string]interface{}{"panic": pn, "err": fmt.Sprint(err)}, rec)
						continue
					}
					c.Distinct(fmt.Sprintf("NegTokenResp/%d/%v/%d/%v", st, mech, len(t), mic != nil))
				}
			}
		}
	}
	// KRB5 mech token framing (AP-REQ form is the one gokrb5 can encode)
	for i, inner := range [][]byte{apreq, krbmsg.APReq{PVNO: 5, MsgType: 14, APOptions: 0x20000000, Ticket: ticketN(2), Auth: krbmsg.EncryptedData{EType: 23, Cipher: bytes.Repeat([]byte{3}, 70000)}}.Encode()} {
		b := krb5tok([]byte{1, 0}, inner)
		evals++
		var k spnego.KRB5Token
		var b2 []byte
		var err error
		rec := map[string]interface{}{"type": "KRB5Token", "index": i, "reference_encoding": hexTrunc(b)}
		if pn := safe(func() {
			if err = k.Unmarshal(b); err == nil {
				b2, err = k.Marshal()
			}
		}); pn != "" || err != nil {
			c.Violate("roundtrip", "KRB5Token:cannot-decode-or-encode", map[string]interface{}{"panic": pn, "err": fmt.Sprint(err)}, rec)
			continue
		}
		if !bytes.Equal(b, b2) {
			c.Violate("roundtrip", "KRB5Token:reencoding-differs", map[string]interface{}{"first_difference_at": firstDiff(b, b2)}, rec)
			continue
		}
		c.Distinct(fmt.Sprintf("KRB5Token/%d", i))
	}
}

// (4) re-encoding after the object was decrypted / verified in between
func afterDecrypt(c *engine.Ctx) {
	w := apworld.NewWorld(c.Seed)
	kt := keytab.New()
	if err := kt.Unmarshal(w.Keytab); err != nil {
		engine.FailValid("keytab.Unmarshal(model keytab)", err)
	}
	vclock.Virtual(apworld.T0)
	for _, et := range rcrypto.Etypes {
		for _, kvno := range []int{2, 0} { // the ticket's kvno field present / omitted
			cs := apworld.Base(et)
			cs.TktKVNO = kvno
			m, err := w.Mint(cs)
			if err != nil {
				engine.Fatal("mint: %v", err)
			}
			key, _ := w.Lookup([]string{"HTTP", apworld.SvcHost}, apworld.Realm, 2, et)
			rec := map[string]interface{}{"etype": et, "ticket_kvno_field": kvno}
			// Ticket: Unmarshal, DecryptEncPart through the keytab, Marshal
			evals++
			var tk messages.Ticket
			if err := tk.Unmarshal(m.Ticket); err == nil {
				if err := tk.DecryptEncPart(kt, nil); err != nil {
					c.Violate("afterdecrypt", "Ticket:decrypt-through-keytab", map[string]interface{}{"err": err.Error()}, rec)
				} else if b2, err := tk.Marshal(); err != nil || !bytes.Equal(b2, m.Ticket) {
					c.Violate("afterdecrypt", "Ticket:reencoding-after-DecryptEncPart-differs", map[string]interface{}{"err": fmt.Sprint(err), "len_original": len(m.Ticket), "len_reencoded": len(b2)}, rec)
				} else {
					c.Distinct(fmt.Sprintf("after/Ticket-keytab/%d/%d", et, kvno))
				}
			}
			// AP-REQ through service.VerifyAPREQ, then Marshal
			evals++
			var sa messages.APReq
			if err := sa.Unmarshal(m.APReq); err == nil {
				service.VerifResetReplayCache()
				if ok, _, err := service.VerifyAPREQ(&sa, service.NewSettings(kt, service.DecodePAC(false))); !ok || err != nil {
					c.Violate("afterdecrypt", "AP-REQ:VerifyAPREQ", map[string]interface{}{"err": fmt.Sprint(err)}, rec)
				} else if b2, err := sa.Marshal(); err != nil || !bytes.Equal(b2, m.APReq) {
					c.Violate("afterdecrypt", "AP-REQ:reencoding-after-VerifyAPREQ-differs", map[string]interface{}{"err": fmt.Sprint(err), "len_original": len(m.APReq), "len_reencoded": len(b2)}, rec)
				} else {
					c.Distinct(fmt.Sprintf("after/AP-REQ-service/%d/%d", et, kvno))
				}
				service.VerifResetReplayCache()
			}
			// Ticket: Unmarshal, Decrypt, Marshal
			evals++
			var t messages.Ticket
			if err := t.Unmarshal(m.Ticket); err != nil {
				c.Violate("afterdecrypt", "Ticket:unmarshal", map[string]interface{}{"err": err.Error()}, rec)
				continue
			}
			if err := t.Decrypt(types.EncryptionKey{KeyType: et, KeyValue: key}); err != nil {
				c.Violate("afterdecrypt", "Ticket:decrypt", map[string]interface{}{"err": err.Error()}, rec)
				continue
			}
			b2, err := t.Marshal()
			if err != nil || !bytes.Equal(b2, m.Ticket) {
				c.Violate("afterdecrypt", "Ticket:reencoding-after-Decrypt-differs", map[string]interface{}{"err": fmt.Sprint(err), "len_original": len(m.Ticket), "len_reencoded": len(b2), "contains_session_key": bytes.Contains(b2, m.SessionKey)}, rec)
			} else {
				c.Distinct(fmt.Sprintf("after/Ticket/%d", et))
			}
			// AP-REQ: Unmarshal, Verify, Marshal
			evals++
			var a messages.APReq
			if err := a.Unmarshal(m.APReq); err != nil {
				c.Violate("afterdecrypt", "AP-REQ:unmarshal", map[string]interface{}{"err": err.Error()}, rec)
				continue
			}
			if ok, err := a.Verify(kt, 5*time.Minute, types.HostAddress{}, nil); !ok || err != nil {
				c.Violate("afterdecrypt", "AP-REQ:verify", map[string]interface{}{"err": fmt.Sprint(err)}, rec)
				continue
			}
			b2, err = a.Marshal()
			if err != nil || !bytes.Equal(b2, m.APReq) {
				c.Violate("afterdecrypt", "AP-REQ:reencoding-after-Verify-differs", map[string]interface{}{"err": fmt.Sprint(err), "len_original": len(m.APReq), "len_reencoded": len(b2), "contains_session_key": bytes.Contains(b2, m.SessionKey)}, rec)
			} else {
				c.Distinct(fmt.Sprintf("after/AP-REQ/%d", et))
			}
			// AS-REP / TGS-REP: Unmarshal, DecryptEncPart, Marshal
			for _, app := range []int{krbmsg.AppASRep, krbmsg.AppTGSRep} {
				evals++
				ckey := w.RandKey(et)
				encApp, mt, usage, name := krbmsg.AppEncASRepPart, int64(11), uint32(3), "AS-REP"
				if app == krbmsg.AppTGSRep {
					encApp, mt, usage, name = krbmsg.AppEncTGSRepPart, 13, 8, "TGS-REP"
				}
				part := krbmsg.EncKDCRepPart{App: encApp, Key: krbmsg.EncryptionKey{Type: et, Value: m.SessionKey}, LastReqs: []krbmsg.LastReq{{Type: 0, Value: apworld.T0}}, Nonce: 77, Flags: 0x40800000,
					AuthTime: apworld.T0, StartTime: krbmsg.Tm(apworld.T0), EndTime: apworld.T0.Add(8 * time.Hour), SRealm: apworld.Realm, SName: krbmsg.PrincipalName{Type: 3, Names: []string{"HTTP", apworld.SvcHost}}}
				p, _ := rcrypto.Get(et)
				ct, err := rcrypto.EncryptWithConfounder(et, ckey, usage, make([]byte, p.Conf), part.Encode())
				if err != nil {
					engine.Fatal("encrypt: %v", err)
				}
				rep := krbmsg.KDCRep{App: app, PVNO: 5, MsgType: mt, CRealm: apworld.Realm, CName: krbmsg.PrincipalName{Type: 1, Names: []string{"user1"}}, Ticket: m.Ticket, Enc: krbmsg.EncryptedData{EType: et, KVNO: krbmsg.I64(1), Cipher: ct}}
				rb := rep.Encode()
				gkey := types.EncryptionKey{KeyType: et, KeyValue: ckey}
				var out []byte
				var derr error
				if app == krbmsg.AppASRep {
					var k messages.ASRep
					if derr = k.Unmarshal(rb); derr == nil {
						// decrypt with the key directly (credentials are exercised in C09)
						var pt []byte
						pt, derr = cryptoDecrypt(k.EncPart, gkey, usage)
						if derr == nil {
							derr = k.DecryptedEncPart.Unmarshal(pt)
						}
						if derr == nil {
							out, derr = k.Marshal()
						}
					}
				} else {
					var k messages.TGSRep
					if derr = k.Unmarshal(rb); derr == nil {
						if derr = k.DecryptEncPart(gkey); derr == nil {
							out, derr = k.Marshal()
						}
					}
				}
				if derr != nil {
					c.Violate("afterdecrypt", name+":decrypt", map[string]interface{}{"err": derr.Error()}, rec)
					continue
				}
				if !bytes.Equal(out, rb) {
					c.Violate("afterdecrypt", name+":reencoding-after-DecryptEncPart-differs", map[string]interface{}{"len_original": len(rb), "len_reencoded": len(out), "contains_session_key": bytes.Contains(out, m.SessionKey)}, rec)
				} else {
					c.Distinct(fmt.Sprintf("after/%s/%d", name, et))
				}
			}
			// AS-REP decrypted through password credentials, with key-derivation hints among its padata in an order that
			// is not ascending by type (and an unrelated element): Unmarshal, DecryptEncPart(credentials), Marshal
			for pi, patypes := range [][]int32{{19, 3}, {19, 11, 3}, {136, 19, 2}, {19}} {
				evals++
				salt := "salt-of-user1"
				var params []byte
				if et != rcrypto.DES3 && et != rcrypto.RC4 {
					params = []byte{0, 0, 0, 9}
				}
				pkey, err := rcrypto.StringToKey(et, "pass-w0rd", salt, params)
				if err != nil {
					engine.Fatal("string-to-key: %v", err)
				}
				part := krbmsg.EncKDCRepPart{App: krbmsg.AppEncASRepPart, Key: krbmsg.EncryptionKey{Type: et, Value: m.SessionKey}, LastReqs: []krbmsg.LastReq{{Type: 0, Value: apworld.T0}}, Nonce: 78, Flags: 0x40800000,
					AuthTime: apworld.T0, StartTime: krbmsg.Tm(apworld.T0), EndTime: apworld.T0.Add(8 * time.Hour), SRealm: apworld.Realm, SName: krbmsg.PrincipalName{Type: 2, Names: []string{"krbtgt", apworld.Realm}}}
				p, _ := rcrypto.Get(et)
				ct, err := rcrypto.EncryptWithConfounder(et, pkey, 3, make([]byte, p.Conf), part.Encode())
				if err != nil {
					engine.Fatal("encrypt: %v", err)
				}
				var pas []krbmsg.PAData
				for _, t := range patypes {
					switch t {
					case 19:
						pas = append(pas, krbmsg.PAData{Type: 19, Value: krbmsg.EncodeETypeInfo2([]krbmsg.ETypeInfo2Entry{{EType: et, Salt: &salt, Params: params}})})
					case 11:
						pas = append(pas, krbmsg.PAData{Type: 11, Value: der.Seq(der.Seq(der.Explicit(0, der.Int(int64(et))), der.Explicit(1, der.Octets([]byte("other-salt")))))})
					case 3:
						pas = append(pas, krbmsg.PAData{Type: 3, Value: []byte("yet-another-salt")})
					default:
						pas = append(pas, krbmsg.PAData{Type: t, Value: []byte{0x30, 0x00}})
					}
				}
				rep := krbmsg.KDCRep{App: krbmsg.AppASRep, PVNO: 5, MsgType: 11, PAData: pas, CRealm: apworld.Realm, CName: krbmsg.PrincipalName{Type: 1, Names: []string{"user1"}}, Ticket: m.Ticket, Enc: krbmsg.EncryptedData{EType: et, Cipher: ct}}
				rb := rep.Encode()
				prec := map[string]interface{}{"etype": et, "padata_types": patypes}
				var k messages.ASRep
				var out []byte
				derr := k.Unmarshal(rb)
				if derr == nil {
					_, derr = k.DecryptEncPart(credentials.New("user1", apworld.Realm).WithPassword("pass-w0rd"))
				}
				if derr == nil {
					out, derr = k.Marshal()
				}
				switch {
				case derr != nil:
					c.Violate("afterdecrypt", "AS-REP:decrypt-through-password-credentials", map[string]interface{}{"err": derr.Error()}, prec)
				case !bytes.Equal(out, rb):
					c.Violate("afterdecrypt", "AS-REP:reencoding-after-DecryptEncPart(password)-differs", map[string]interface{}{"first_difference_at": firstDiff(out, rb), "len_original": len(rb), "len_reencoded": len(out)}, prec)
				default:
					c.Distinct(fmt.Sprintf("after/AS-REP-password/%d/%d", et, pi))
				}
			}
			// KRB-PRIV: Unmarshal, DecryptEncPart, Marshal
			evals++
			pp := krbmsg.EncKrbPrivPart{UserData: []byte("secret user data"), Timestamp: krbmsg.Tm(apworld.T0), Usec: krbmsg.I64(5), SeqNum: krbmsg.I64(9), SAddress: apworld.AddrMatch}
			pr, _ := rcrypto.Get(et)
			pct, _ := rcrypto.EncryptWithConfounder(et, m.SessionKey, 13, make([]byte, pr.Conf), pp.Encode())
			pb := krbmsg.KRBPriv{PVNO: 5, MsgType: 21, Enc: krbmsg.EncryptedData{EType: et, Cipher: pct}}.Encode()
			var kp messages.KRBPriv
			if err := kp.Unmarshal(pb); err != nil {
				c.Violate("afterdecrypt", "KRB-PRIV:unmarshal", map[string]interface{}{"err": err.Error()}, rec)
				continue
			}
			if err := kp.DecryptEncPart(types.EncryptionKey{KeyType: et, KeyValue: m.SessionKey}); err != nil {
				c.Violate("afterdecrypt", "KRB-PRIV:decrypt", map[string]interface{}{"err": err.Error()}, rec)
				continue
			}
			if string(kp.DecryptedEncPart.UserData) != "secret user data" {
				c.Violate("afterdecrypt", "KRB-PRIV:wrong-user-data", nil, rec)
			}
			b2, err = kp.Marshal()
			if err != nil || !bytes.Equal(b2, pb) {
				c.Violate("afterdecrypt", "KRB-PRIV:reencoding-after-DecryptEncPart-differs", map[string]interface{}{"err": fmt.Sprint(err), "len_original": len(pb), "len_reencoded": len(b2)}, rec)
			} else {
				c.Distinct(fmt.Sprintf("after/KRB-PRIV/%d", et))
			}
		}
	}
}

// (3) values built with gokrb5's own constructors, decoded by the strict reference decoder
func constructed(c *engine.Ctx) {
	// flag numbering: SetFlag(i) must produce KerberosFlags bit i (RFC 4120 5.2.8: bit 0 is the most significant bit)
	for i := 0; i < 32; i++ {
		evals++
		f := types.NewKrbFlags()
		types.SetFlag(&f, i)
		body := messages.KDCReqBody{KDCOptions: f, Realm: "R", Till: t0, Nonce: 1, EType: []int32{18}}
		b, err := body.Marshal()
		rec := map[string]interface{}{"flag": i}
		if err != nil {
			c.Violate("constructed", "flags:marshal", map[string]interface{}{"err": err.Error()}, rec)
			continue
		}
		rb, derr := krbmsg.DecodeKDCReqBody(b)
		if derr != nil || rb.KDCOptions != 1<<uint(31-i) {
			c.Violate("constructed", "flags:bit-numbering", map[string]interface{}{"err": fmt.Sprint(derr), "decoded": fmt.Sprintf("%08x", rb.KDCOptions)}, rec)
			continue
		}
		if !types.IsFlagSet(&f, i) {
			c.Violate("constructed", "flags:IsFlagSet", nil, rec)
			continue
		}
		for j := 0; j < 32; j++ {
			if j != i && types.IsFlagSet(&f, j) {
				c.Violate("constructed", "flags:IsFlagSet-other-bit", map[string]interface{}{"other": j}, rec)
			}
		}
		types.UnsetFlag(&f, i)
		if types.IsFlagSet(&f, i) || !bytes.Equal(f.Bytes, []byte{0, 0, 0, 0}) {
			c.Violate("constructed", "flags:UnsetFlag", nil, rec)
			continue
		}
		c.Distinct(fmt.Sprintf("flag/%d", i))
	}
	// the same starting from bit strings shorter than four octets (the zero value included) and longer ones:
	// KerberosFlags ::= BIT STRING (SIZE (32..MAX)), so SetFlag has to deliver at least 32 bits with bit i set
	for n := 0; n <= 5; n++ {
		for i := 0; i < 32; i++ {
			evals++
			f := asn1.BitString{Bytes: make([]byte, n), BitLength: 8 * n}
			if n == 0 {
				f = asn1.BitString{}
			}
			rec := map[string]interface{}{"flag": i, "starting_octets": n}
			if pn := safe(func() { types.SetFlag(&f, i) }); pn != "" {
				c.Violate("constructed", "flags:SetFlag-panic:short-bit-string", map[string]interface{}{"panic": pn}, rec)
				continue
			}
			body := messages.KDCReqBody{KDCOptions: f, Realm: "R", Till: t0, Nonce: 1, EType: []int32{18}}
			b, err := body.Marshal()
			if err != nil {
				c.Violate("constructed", "flags:marshal:short-bit-string", map[string]interface{}{"err": err.Error()}, rec)
				continue
			}
			rb, derr := krbmsg.DecodeKDCReqBody(b)
			switch {
			case f.BitLength < 32 || len(f.Bytes)*8 < f.BitLength:
				c.Violate("constructed", "flags:fewer-than-32-bits:short-bit-string", map[string]interface{}{"bit_length": f.BitLength, "octets": len(f.Bytes)}, rec)
			case derr != nil || rb.KDCOptions != 1<<uint(31-i):
				c.Violate("constructed", "flags:bit-numbering:short-bit-string", map[string]interface{}{"err": fmt.Sprint(derr), "decoded": fmt.Sprintf("%08x", rb.KDCOptions)}, rec)
			case !types.IsFlagSet(&f, i):
				c.Violate("constructed", "flags:IsFlagSet:short-bit-string", nil, rec)
			default:
				var back messages.KDCReqBody
				if err := back.Unmarshal(b); err != nil || !types.IsFlagSet(&back.KDCOptions, i) {
					c.Violate("constructed", "flags:lost-in-own-round-trip:short-bit-string", map[string]interface{}{"err": fmt.Sprint(err)}, rec)
				} else {
					c.Distinct(fmt.Sprintf("flag-short/%d/%d", n, i))
				}
			}
		}
	}
	constructorsInLocalZone(c)
	changedAfterDecode(c)
	// NewKRBError / KRBError built by hand
	evals++
	ke := messages.NewKRBError(types.PrincipalName{NameType: 2, NameString: []string{"krbtgt", "R"}}, "R", 25, "preauth required")
	if b, err := ke.Marshal(); err != nil {
		c.Violate("constructed", "KRBError:marshal", map[string]interface{}{"err": err.Error()}, nil)
	} else if r, derr := krbmsg.DecodeKRBError(b); derr != nil || r.Code != 25 || r.Realm != "R" || r.EText == nil || *r.EText != "preauth required" || r.PVNO != 5 || r.MsgType != 30 {
		c.Violate("constructed", "KRBError:not-conformant", map[string]interface{}{"err": fmt.Sprint(derr), "encoding": hexTrunc(b)}, nil)
	}
	// MarshalTicketSequence with 0..3 tickets inside a body
	for n := 0; n <= 3; n++ {
		evals++
		var tk []messages.Ticket
		for i := 0; i < n; i++ {
			var t messages.Ticket
			if err := t.Unmarshal(ticketN(i)); err != nil {
				engine.FailValid("ticket construction", err)
			}
			tk = append(tk, t)
		}
		body := messages.KDCReqBody{KDCOptions: types.NewKrbFlags(), Realm: "R", Till: t0, Nonce: 1, EType: []int32{18}, AdditionalTickets: tk}
		b, err := body.Marshal()
		if err != nil {
			c.Violate("constructed", "additional-tickets:marshal", map[string]interface{}{"err": err.Error()}, map[string]interface{}{"tickets": n})
			continue
		}
		rb, derr := krbmsg.DecodeKDCReqBody(b)
		if derr != nil || len(rb.AddTickets) != n {
			c.Violate("constructed", "additional-tickets:not-conformant", map[string]interface{}{"err": fmt.Sprint(derr), "decoded_tickets": len(rb.AddTickets)}, map[string]interface{}{"tickets": n})
			continue
		}
		for i := range rb.AddTickets {
			if !bytes.Equal(rb.AddTickets[i], ticketN(i)) {
				c.Violate("constructed", "additional-tickets:ticket-bytes-differ", nil, map[string]interface{}{"tickets": n, "index": i})
			}
		}
		c.Distinct(fmt.Sprintf("addtkts/%d", n))
	}
	// application-tag helper for every tag 0..30 and content lengths at the length-octet boundaries
	for tag := 0; tag <= 30; tag++ {
		for _, l := range []int{0, 1, 127, 128, 255, 256, 65535, 65536} {
			evals++
			content := bytes.Repeat([]byte{0x04}, l)
			got := asn1tools.AddASNAppTag(content, tag)
			want := der.TLV(der.App, true, tag, content)
			if !bytes.Equal(got, want) {
				c.Violate("constructed", "AddASNAppTag:differs", map[string]interface{}{"tag": tag, "len": l}, nil)
			}
		}
	}
	_ = asn1.BitString{}
}

// changedAfterDecode: a decoded message is a value like any other - after its ticket has been replaced or edited,
// encoding it yields the new content (decode, change, encode, decode), for the messages that carry a ticket.
func changedAfterDecode(c *engine.Ctx) {
	var other messages.Ticket
	if err := other.Unmarshal(ticketN(1)); err != nil {
		engine.FailValid("ticket construction", err)
	}
	type tc struct {
		name   string
		change func(t *messages.Ticket)
		want   func() []byte
	}
	edited := func(f func(t *krbmsg.Ticket)) func() []byte {
		return func() []byte {
			t := baseTicket()
			t.Realm = "REALM0.EXAMPLE"
			t.Enc.Cipher = bytes.Repeat([]byte{1}, 20)
			t.Enc.KVNO = krbmsg.I64(3)
			f(&t)
			return t.Encode()
		}
	}
	if !bytes.Equal(edited(func(t *krbmsg.Ticket) {})(), ticketN(0)) {
		engine.Fatal("changedAfterDecode: the edited-ticket model is out of step with ticketN(0)")
	}
	cases := []tc{
		{"ticket-replaced", func(t *messages.Ticket) { *t = other }, func() []byte { return ticketN(1) }},
		{"ticket-realm-edited", func(t *messages.Ticket) { t.Realm = "EDITED.EXAMPLE" }, edited(func(t *krbmsg.Ticket) { t.Realm = "EDITED.EXAMPLE" })},
		{"ticket-kvno-edited", func(t *messages.Ticket) { t.EncPart.KVNO = 77 }, edited(func(t *krbmsg.Ticket) { t.Enc.KVNO = krbmsg.I64(77) })},
		{"ticket-sname-edited", func(t *messages.Ticket) { t.SName.NameString = []string{"svc"} }, edited(func(t *krbmsg.Ticket) { t.SName.Names = []string{"svc"} })},
	}
	for _, cs := range cases {
		for _, msg := range []string{"AP-REQ", "AS-REP", "TGS-REP"} {
			evals++
			rec := map[string]interface{}{"message": msg, "change": cs.name}
			var b2 []byte
			var err error
			var got []byte
			switch msg {
			case "AP-REQ":
				orig := krbmsg.APReq{PVNO: 5, MsgType: 14, Ticket: ticketN(0), Auth: baseEncData()}.Encode()
				var a messages.APReq
				if err = a.Unmarshal(orig); err != nil {
					engine.FailValid("AP-REQ decode", err)
				}
				cs.change(&a.Ticket)
				if b2, err = a.Marshal(); err == nil {
					var r krbmsg.APReq
					if r, err = krbmsg.DecodeAPReq(b2); err == nil {
						got = r.Ticket
					}
				}
			default:
				app, mt := krbmsg.AppASRep, int64(11)
				if msg == "TGS-REP" {
					app, mt = krbmsg.AppTGSRep, 13
				}
				orig := krbmsg.KDCRep{App: app, PVNO: 5, MsgType: mt, CRealm: "R.COM", CName: krbmsg.PrincipalName{Type: 1, Names: []string{"user1"}}, Ticket: ticketN(0), Enc: baseEncData()}.Encode()
				var f *messages.KDCRepFields
				var as messages.ASRep
				var tgs messages.TGSRep
				if msg == "AS-REP" {
					err, f = as.Unmarshal(orig), &as.KDCRepFields
				} else {
					err, f = tgs.Unmarshal(orig), &tgs.KDCRepFields
				}
				if err != nil {
					engine.FailValid(msg+" decode", err)
				}
				cs.change(&f.Ticket)
				if msg == "AS-REP" {
					b2, err = as.Marshal()
				} else {
					b2, err = tgs.Marshal()
				}
				if err == nil {
					var r krbmsg.KDCRep
					if r, err = krbmsg.DecodeKDCRep(b2); err == nil {
						got = r.Ticket
					}
				}
			}
			switch {
			case err != nil:
				c.Violate("changed", "changed-after-decode:"+msg+":error", map[string]interface{}{"err": err.Error()}, rec)
			case !bytes.Equal(got, cs.want()):
				c.Violate("changed", "changed-after-decode:"+msg+":encoding-carries-other-ticket", map[string]interface{}{"first_difference_at": firstDiff(got, cs.want())}, rec)
			default:
				c.Distinct("changed/" + msg + "/" + cs.name)
			}
		}
	}
}

// shortKDCOptions sets kdc_default_options as a krb5.conf with the given (short) value yields it.
func shortKDCOptions(cf *config.Config, v string) {
	x, err := config.NewFromString("[libdefaults]\n default_realm = R.COM\n kdc_default_options = " + v + "\n")
	if err != nil {
		engine.FailValid("krb5.conf with kdc_default_options = "+v, err)
	}
	cf.LibDefaults.KDCDefaultOptions = x.LibDefaults.KDCDefaultOptions
}

// constructorsInLocalZone: the messages gokrb5 builds itself (request constructors, authenticator, pre-authentication
// timestamp, KRB-ERROR), built while the machine's local zone is not UTC, must decode with the strict reference
// decoder: every KerberosTime in the 15-character UTC form, flags of 32 bits, right tags.
func constructorsInLocalZone(c *engine.Ctx) {
	vclock.Virtual(apworld.T0)
	defer vclock.Virtual(apworld.T0)
	now := vclock.Now()
	near := func(t time.Time, want time.Time) bool {
		d := t.Sub(want)
		return d > -2*time.Second && d < 2*time.Second
	}
	cname := types.PrincipalName{NameType: 1, NameString: []string{"user1"}}
	sname := types.PrincipalName{NameType: 2, NameString: []string{"HTTP", "host.r.com"}}
	var tgt messages.Ticket
	if err := tgt.Unmarshal(ticketN(0)); err != nil {
		engine.FailValid("ticket construction", err)
	}
	for ci, mk := range []func(*config.Config){
		func(cf *config.Config) {},
		func(cf *config.Config) { cf.LibDefaults.RenewLifetime = time.Hour; cf.LibDefaults.Forwardable = true },
		func(cf *config.Config) {
			cf.LibDefaults.TicketLifetime = 10 * time.Minute
			cf.LibDefaults.Proxiable = true
			cf.LibDefaults.Canonicalize = true
		},
		// kdc_default_options written with fewer than four octets, and no option that sets a flag afterwards: the
		// request still carries KerberosFlags of at least 32 bits
		func(cf *config.Config) { shortKDCOptions(cf, "0x10") },
		func(cf *config.Config) { shortKDCOptions(cf, "0x0001") },
		func(cf *config.Config) { shortKDCOptions(cf, "0x000000"); cf.LibDefaults.RenewLifetime = time.Hour },
	} {
		cfg := config.New()
		cfg.LibDefaults.DefaultRealm = "R.COM"
		cfg.LibDefaults.NoAddresses = true
		mk(cfg)
		rec := map[string]interface{}{"configuration": ci, "local_zone": vclock.Zone.String()}
		check := func(name string, b []byte, err error, app int) {
			evals++
			if err != nil {
				c.Violate("constructed", "constructor:"+name+":error", map[string]interface{}{"err": err.Error()}, rec)
				return
			}
			r, derr := krbmsg.DecodeKDCReq(b)
			switch {
			case derr != nil:
				c.Violate("constructed", "constructor:"+name+":not-conformant", map[string]interface{}{"err": derr.Error(), "encoding": hexTrunc(b)}, rec)
			case r.App != app || r.PVNO != 5:
				c.Violate("constructed", "constructor:"+name+":wrong-tag-or-pvno", nil, rec)
			case !near(r.Body.Till, now.Add(cfg.LibDefaults.TicketLifetime)):
				c.Violate("constructed", "constructor:"+name+":till", map[string]interface{}{"till": r.Body.Till.String(), "now": now.UTC().String()}, rec)
			case cfg.LibDefaults.RenewLifetime > 0 && (r.Body.RTime == nil || !near(*r.Body.RTime, now.Add(cfg.LibDefaults.RenewLifetime))):
				c.Violate("constructed", "constructor:"+name+":rtime", nil, rec)
			default:
				c.Distinct(fmt.Sprintf("constructor/%s/%d", name, ci))
			}
		}
		as, err := messages.NewASReqForTGT("R.COM", cfg, cname)
		var b []byte
		if err == nil {
			b, err = as.Marshal()
		}
		check("NewASReqForTGT", b, err, krbmsg.AppASReq)
		as, err = messages.NewASReqForChgPasswd("R.COM", cfg, cname)
		if err == nil {
			b, err = as.Marshal()
		}
		check("NewASReqForChgPasswd", b, err, krbmsg.AppASReq)
		for _, et := range []int32{18, 23} {
			p, _ := rcrypto.Get(et)
			sk := types.EncryptionKey{KeyType: et, KeyValue: bytes.Repeat([]byte{7}, p.KeyLen)}
			for _, renewal := range []bool{false, true} {
				tr, err := messages.NewTGSReq(cname, "R.COM", cfg, tgt, sk, sname, renewal)
				if err == nil {
					b, err = tr.Marshal()
				}
				check(fmt.Sprintf("NewTGSReq(renewal=%v)", renewal), b, err, krbmsg.AppTGSReq)
			}
			// authenticator + AP-REQ
			evals++
			auth, err := types.NewAuthenticator("R.COM", cname)
			if err != nil {
				c.Violate("constructed", "constructor:NewAuthenticator:error", map[string]interface{}{"err": err.Error()}, rec)
				continue
			}
			ap, err := messages.NewAPReq(tgt, sk, auth)
			if err == nil {
				b, err = ap.Marshal()
			}
			if err != nil {
				c.Violate("constructed", "constructor:NewAPReq:error", map[string]interface{}{"err": err.Error()}, rec)
				continue
			}
			rap, derr := krbmsg.DecodeAPReq(b)
			if derr != nil {
				c.Violate("constructed", "constructor:NewAPReq:not-conformant", map[string]interface{}{"err": derr.Error()}, rec)
				continue
			}
			_, pt, derr := rcrypto.Decrypt(et, sk.KeyValue, 11, rap.Auth.Cipher)
			if derr == nil {
				var ra krbmsg.Authenticator
				ra, derr = krbmsg.DecodeAuthenticator(pt)
				if derr == nil && !near(ra.CTime, now) {
					derr = fmt.Errorf("ctime %v is not the current instant %v", ra.CTime, now.UTC())
				}
			}
			if derr != nil {
				c.Violate("constructed", "constructor:NewAuthenticator:not-conformant", map[string]interface{}{"err": derr.Error()}, rec)
			} else {
				c.Distinct(fmt.Sprintf("constructor/authenticator/%d/%d", et, ci))
			}
		}
	}
	// values built by the constructors are independent of each other: setting an AP option on one AP-REQ (as the SPNEGO
	// token constructor does in place) changes neither an AP-REQ built earlier nor one built later
	{
		evals++
		p, _ := rcrypto.Get(18)
		sk := types.EncryptionKey{KeyType: 18, KeyValue: bytes.Repeat([]byte{9}, p.KeyLen)}
		mk := func() (messages.APReq, []byte, error) {
			auth, err := types.NewAuthenticator("R.COM", cname)
			if err != nil {
				return messages.APReq{}, nil, err
			}
			ap, err := messages.NewAPReq(tgt, sk, auth)
			if err != nil {
				return ap, nil, err
			}
			b, err := ap.Marshal()
			return ap, b, err
		}
		ap1, b1, e1 := mk()
		ap2, _, e2 := mk()
		if e1 != nil || e2 != nil {
			c.Violate("constructed", "constructor:NewAPReq:error", map[string]interface{}{"err": fmt.Sprint(e1, e2)}, nil)
		} else {
			types.SetFlag(&ap2.APOptions, 2) // mutual-required on the second value only
			b1again, _ := ap1.Marshal()
			_, b3, _ := mk()
			r3, derr := krbmsg.DecodeAPReq(b3)
			switch {
			case !bytes.Equal(b1, b1again):
				c.Violate("constructed", "constructor:NewAPReq:values-share-state:earlier-value-changed", map[string]interface{}{"first_difference_at": firstDiff(b1, b1again)}, nil)
			case derr != nil || r3.APOptions != 0:
				c.Violate("constructed", "constructor:NewAPReq:values-share-state:later-value-carries-the-option", map[string]interface{}{"err": fmt.Sprint(derr), "ap_options": fmt.Sprintf("%08x", r3.APOptions)}, nil)
			default:
				c.Distinct("constructor/ap-req-independent")
			}
		}
		// the same for kdc-options of two requests built one after the other
		cfg := config.New()
		cfg.LibDefaults.DefaultRealm, cfg.LibDefaults.NoAddresses = "R.COM", true
		a1, ea := messages.NewASReqForTGT("R.COM", cfg, cname)
		a2, eb := messages.NewASReqForTGT("R.COM", cfg, cname)
		if ea == nil && eb == nil {
			ba, _ := a1.Marshal()
			types.SetFlag(&a2.ReqBody.KDCOptions, 1)
			ba2, _ := a1.Marshal()
			if !bytes.Equal(ba, ba2) {
				c.Violate("constructed", "constructor:NewASReq:values-share-state:earlier-value-changed", map[string]interface{}{"first_difference_at": firstDiff(ba, ba2)}, nil)
			} else {
				c.Distinct("constructor/as-req-independent")
			}
		}
	}
	// pre-authentication timestamp and KRB-ERROR
	evals++
	if b, err := types.GetPAEncTSEncAsnMarshalled(); err != nil {
		c.Violate("constructed", "constructor:PA-ENC-TS-ENC:error", map[string]interface{}{"err": err.Error()}, nil)
	} else if ts, derr := krbmsg.DecodePAEncTSEnc(b); derr != nil || !near(ts.Timestamp, now) {
		c.Violate("constructed", "constructor:PA-ENC-TS-ENC:not-conformant", map[string]interface{}{"err": fmt.Sprint(derr), "encoding": hexTrunc(b)}, map[string]interface{}{"local_zone": vclock.Zone.String()})
	} else {
		c.Distinct("constructor/pa-enc-ts-enc")
	}
	evals++
	ke := messages.NewKRBError(types.PrincipalName{NameType: 2, NameString: []string{"krbtgt", "R"}}, "R", 25, "x")
	if b, err := ke.Marshal(); err != nil {
		c.Violate("constructed", "constructor:NewKRBError:error", map[string]interface{}{"err": err.Error()}, nil)
	} else if r, derr := krbmsg.DecodeKRBError(b); derr != nil || !near(r.STime, now) {
		c.Violate("constructed", "constructor:NewKRBError:not-conformant", map[string]interface{}{"err": fmt.Sprint(derr), "encoding": hexTrunc(b)}, map[string]interface{}{"local_zone": vclock.Zone.String()})
	} else {
		c.Distinct("constructor/krb-error")
	}
}

// (5) the length-octet helpers for every length 0..2^24
func lengthHelpers(c *engine.Ctx) {
	max := 1 << 24
	bad := 0
	for l := 0; l <= max; l++ {
		want := der.Len(l)
		got := asn1tools.MarshalLengthBytes(l)
		if !bytes.Equal(got, want) {
			if bad == 0 {
				c.Violate("length", "MarshalLengthBytes:differs", map[string]interface{}{"len": l, "got": hex.EncodeToString(got), "want": hex.EncodeToString(want)}, map[string]interface{}{"len": l})
			}
			bad++
			continue
		}
		hdr := append([]byte{0x30}, want...)
		if asn1tools.GetLengthFromASN(hdr) != l || asn1tools.GetNumberBytesInLengthHeader(hdr) != len(want) {
			if bad == 0 {
				c.Violate("length", "GetLengthFromASN:differs", map[string]interface{}{"len": l, "got": asn1tools.GetLengthFromASN(hdr), "header_bytes": asn1tools.GetNumberBytesInLengthHeader(hdr)}, map[string]interface{}{"len": l})
			}
			bad++
		}
	}
	evals += int64(max + 1)
	c.Cov["length_helper_values"] = max + 1
	c.Distinct("length-helpers")
}
