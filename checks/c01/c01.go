// Package c01: a service accepts an AP-REQ exactly when RFC 4120 3.2.3 (as
// the property states it) says so, and reports the identity sealed in the
// ticket. Requests are minted by the reference; every single defect and every
// pair of defects of the catalogue is applied under the enumerated settings.
package c01

import (
	"fmt"
	"strings"
	"time"

	"verif/checks/apworld"
	"verif/engine"
	"verif/ref"
	"verif/ref/krbmsg"
	"verif/ref/rcrypto"

	"github.com/jcmturner/gokrb5/v8/credentials"
	"github.com/jcmturner/gokrb5/v8/keytab"
	"github.com/jcmturner/gokrb5/v8/messages"
	"github.com/jcmturner/gokrb5/v8/service"
	"github.com/jcmturner/gokrb5/v8/types"
	"github.com/jcmturner/gokrb5/v8/zzverif/vclock"
)

// ToServiceSettings builds gokrb5 settings from the model settings.
func ToServiceSettings(kt *keytab.Keytab, s apworld.Settings) *service.Settings {
	opts := []func(*service.Settings){service.DecodePAC(s.DecodePAC), service.RequireHostAddr(s.RequireHostAddr)}
	if s.Skew != 0 {
		opts = append(opts, service.MaxClockSkew(s.Skew))
	}
	if s.ClientAddr != nil {
		opts = append(opts, service.ClientAddress(types.HostAddress{AddrType: s.ClientAddr.Type, Address: s.ClientAddr.Addr}))
	}
	if s.Override != "" {
		opts = append(opts, service.KeytabPrincipal(s.Override))
	}
	return service.NewSettings(kt, opts...)
}

// Outcome of one presentation to the real code.
type Outcome struct {
	OK        bool
	Err       string
	Panic     string
	UserName  string
	Domain    string
	CName     string
	ValidTill time.Time
	DecodeErr string
}

// Present unmarshals and verifies the AP-REQ bytes at the virtual instant now.
func Present(apreq []byte, st *service.Settings, now time.Time) (o Outcome) {
	vclock.Set(now)
	defer func() {
		if r := recover(); r != nil {
			o.Panic = fmt.Sprint(r)
		}
	}()
	var a messages.APReq
	if err := a.Unmarshal(apreq); err != nil {
		o.DecodeErr = err.Error()
		o.Err = err.Error()
		return
	}
	ok, creds, err := service.VerifyAPREQ(&a, st)
	o.OK = ok
	if err != nil {
		o.Err = err.Error()
	}
	if ok && creds != nil {
		fill(&o, creds)
	}
	return
}

func fill(o *Outcome, c *credentials.Credentials) {
	o.UserName = c.UserName()
	o.Domain = c.Domain()
	o.CName = c.CName().PrincipalNameString()
	o.ValidTill = c.ValidUntil()
}

func settingsSpace() []apworld.Settings {
	var out []apworld.Settings
	for _, skew := range []time.Duration{0, time.Second, time.Hour, 500 * time.Millisecond, 2500 * time.Millisecond} {
		for _, rha := range []bool{false, true} {
			for _, ca := range []*krbmsg.HostAddress{nil, &apworld.AddrMatch, &apworld.AddrOther} {
				for _, ov := range []string{"", apworld.Account, "HTTP/" + apworld.OtherHost} {
					for _, pac := range []bool{true, false} {
						out = append(out, apworld.Settings{Skew: skew, RequireHostAddr: rha, ClientAddr: ca, Override: ov, DecodePAC: pac})
					}
				}
			}
		}
	}
	return out
}

type caseRec struct {
	Case     apworld.Case     `json:"case"`
	Settings apworld.Settings `json:"settings"`
	Defects  []string         `json:"defects"`
}

// Run is the check's entry point.
func Run(c *engine.Ctx) {
	c.Assume = append(c.Assume,
		"AP-REQs are minted by ref/krbmsg + ref/rcrypto (validated against MIT encodings and RFC vectors on every run), the service keytab by ref/keytabfmt; gokrb5 only parses and verifies",
		"virtual clock; the replay cache singleton is reset between cases",
		"expected verdict computed from the case description by the predicate apworld.Expect transcribed from the property statement (inclusive boundaries); cases the statement does not settle are listed under not_judged")
	if _, err := rcrypto.SelfTest(); err != nil {
		engine.Fatal("%v", err)
	}
	if _, err := krbmsg.SelfTest(ref.MITVectors()); err != nil {
		engine.Fatal("%v", err)
	}
	w := apworld.NewWorld(c.Seed)
	kt := keytab.New()
	if err := kt.Unmarshal(w.Keytab); err != nil {
		engine.FailValid("keytab.Unmarshal(model keytab)", err)
	}
	vclock.Virtual(apworld.T0)
	sets := settingsSpace()
	notJudged := map[string]int{}
	reasons := map[string]int{}
	var evals int64

	run := func(cs apworld.Case, s apworld.Settings, names []string) {
		m, err := w.Mint(cs)
		if err != nil {
			engine.Fatal("mint: %v", err)
		}
		st := ToServiceSettings(kt, s)
		service.VerifResetReplayCache()
		now := apworld.T0.Add(cs.NowNudge)
		rec := caseRec{cs, s, names}
		replayed := false
		if cs.Twice {
			first := Present(m.APReq, st, now)
			exp1 := w.Expect(cs, s, false)
			if first.Panic != "" {
				c.Violate("verify", "panic:"+panicSite(first.Panic), map[string]interface{}{"panic": first.Panic, "defects": names}, rec)
				return
			}
			if exp1.Judged && first.OK != exp1.Accept {
				c.Violate("verify", verdictKey(exp1, first, names), map[string]interface{}{"expected": exp1, "got": first, "presentation": 1}, rec)
				return
			}
			replayed = first.OK
		}
		got := Present(m.APReq, st, now)
		evals++
		exp := w.Expect(cs, s, replayed)
		if got.Panic != "" {
			c.Violate("verify", "panic:"+panicSite(got.Panic), map[string]interface{}{"panic": got.Panic, "defects": names}, rec)
			return
		}
		if !exp.Judged {
			notJudged[exp.Why]++
			return
		}
		if got.OK != exp.Accept {
			c.Violate("verify", verdictKey(exp, got, names), map[string]interface{}{"expected": exp, "got": got}, rec)
			return
		}
		if got.OK {
			wantUser := strings.Join(cs.CName, "/")
			if got.UserName != wantUser || got.CName != wantUser || got.Domain != cs.CRealm || !got.ValidTill.Equal(m.EndTime) {
				c.Violate("identity", "identity:"+identityField(got, wantUser, cs.CRealm, m.EndTime), map[string]interface{}{"got": got, "want_user": wantUser, "want_realm": cs.CRealm, "want_valid_until": m.EndTime}, rec)
				return
			}
		}
		reasons[exp.Reason]++
		c.Distinct(fmt.Sprintf("%d/%s/%s", cs.Etype, exp.Reason, strings.Join(names, "+")))
	}

	defIdx := 0
	for si, s := range sets {
		if s.Skew == 0 && !s.RequireHostAddr && s.ClientAddr == &apworld.AddrMatch && s.Override == "" && s.DecodePAC {
			defIdx = si
		}
	}
	for _, et := range rcrypto.Etypes {
		for si, s := range sets {
			cat := apworld.Catalogue(s.EffSkew())
			// no defect and every single defect under every combination of settings
			run(apworld.Base(et), s, nil)
			for _, d := range cat {
				cs := apworld.Base(et)
				d.Apply(&cs)
				run(cs, s, []string{d.Name})
			}
			// every pair: under the default settings in the quick tier, under all settings in the thorough tier
			if c.Thorough() || si == defIdx || si == 0 {
				for i := range cat {
					for j := i + 1; j < len(cat); j++ {
						cs := apworld.Base(et)
						cat[i].Apply(&cs)
						cat[j].Apply(&cs)
						run(cs, s, []string{cat[i].Name, cat[j].Name})
					}
				}
			}
			if c.Expired() {
				c.Capped(fmt.Sprintf("budget reached at etype %d settings %d", et, si))
				break
			}
		}
	}
	c.Add("evaluations", evals)
	c.Add("states", evals)
	c.Add("transitions", evals)
	c.Add("traces_validated_against_impl", evals)
	c.Cov["expected_reason_histogram"] = reasons
	c.Cov["not_judged"] = notJudged
	c.Cov["settings_combinations"] = len(sets)
	c.Cov["catalogue_size"] = len(apworld.Catalogue(time.Minute))
	b := apworld.Base(18)
	apworld.Catalogue(5 * time.Minute)[49].Apply(&b)
	c.Sample(map[string]interface{}{"case": b, "settings": sets[defIdx], "defects": []string{apworld.Catalogue(5 * time.Minute)[49].Name}})
	c.Cov["rule"] = "etype(6) x settings (3 skews x require-host-addr x client address {none,matching,other} x keytab principal override {none,right,wrong} x PAC decoding = 108) x {valid, each single catalogue defect}; every pair of defects under two settings (quick) or all settings (thorough); distinct = (etype, expected reason, defect set) classes whose verdict and reported identity matched"
}

func panicSite(p string) string {
	if i := strings.Index(p, "\n"); i > 0 {
		p = p[:i]
	}
	return p
}

func verdictKey(exp apworld.Verdict, got Outcome, names []string) string {
	if exp.Accept {
		return "rejects-valid:" + strings.Join(names, "+")
	}
	return "accepts:" + exp.Reason
}

func identityField(got Outcome, user, realm string, end time.Time) string {
	switch {
	case got.Domain != realm:
		return "realm-not-from-ticket"
	case got.UserName != user || got.CName != user:
		return "name-not-from-ticket"
	case !got.ValidTill.Equal(end):
		return "expiry-not-from-ticket"
	}
	return "other"
}
