package c09

import (
	"fmt"

	"verif/checks/cworld"
	"verif/engine"
	"verif/ref/krbmsg"
	"verif/ref/simkdc"

	"github.com/jcmturner/gokrb5/v8/messages"
	"github.com/jcmturner/gokrb5/v8/types"
	"github.com/jcmturner/gokrb5/v8/zzverif/vclock"
)

// apiLevel drives ASRep.Verify directly with a request that carries addresses
// (the configured client never sends any because noaddresses is set).
func apiLevel(c *engine.Ctx, evals *int64) {
	req := []krbmsg.HostAddress{{Type: 2, Addr: []byte{10, 0, 0, 1}}, {Type: 2, Addr: []byte{10, 0, 0, 2}}}
	cases := []struct {
		name  string
		caddr []krbmsg.HostAddress
		want  string
	}{
		{"equal", req, "accept"},
		{"reordered", []krbmsg.HostAddress{req[1], req[0]}, "accept"},
		{"superset", append(append([]krbmsg.HostAddress{}, req...), krbmsg.HostAddress{Type: 2, Addr: []byte{10, 0, 0, 3}}), "reject"},
		{"disjoint", []krbmsg.HostAddress{{Type: 2, Addr: []byte{192, 168, 0, 1}}}, "reject"},
		{"same-length-one-replaced", []krbmsg.HostAddress{req[0], {Type: 2, Addr: []byte{10, 0, 0, 9}}}, "reject"},
		{"same-length-both-replaced", []krbmsg.HostAddress{{Type: 2, Addr: []byte{10, 0, 0, 8}}, {Type: 2, Addr: []byte{10, 0, 0, 9}}}, "reject"},
		{"subset", []krbmsg.HostAddress{req[0]}, "reject"},
		{"duplicated-entry", []krbmsg.HostAddress{req[0], req[0]}, "reject"},
		{"other-type-same-bytes", []krbmsg.HostAddress{{Type: 24, Addr: []byte{10, 0, 0, 1}}, req[1]}, "reject"},
	}
	for _, et := range []int32{18, 23} {
		for _, cs := range cases {
			o := cworld.DefaultOpts()
			o.ETypes = []int32{et}
			vclock.Set(cworld.T0)
			w := cworld.New(o)
			w.KDC.Expect.Check = false
			asReq, err := messages.NewASReqForTGT(cworld.Realm, w.Config, types.PrincipalName{NameType: 1, NameString: []string{cworld.User}})
			if err != nil {
				engine.FailValid("messages.NewASReqForTGT", err)
			}
			asReq.ReqBody.Addresses = []types.HostAddress{{AddrType: 2, Address: []byte{10, 0, 0, 1}}, {AddrType: 2, Address: []byte{10, 0, 0, 2}}}
			b, err := asReq.Marshal()
			if err != nil {
				engine.FailValid("ASReq.Marshal", err)
			}
			caddr := cs.caddr
			w.KDC.Perturb = func(r *simkdc.Reply) { r.Enc.CAddr = caddr }
			rb := w.KDC.Handle("tcp", b)
			*evals++
			rec := map[string]interface{}{"etype": et, "reply_caddr": cs.name}
			var rep messages.ASRep
			var ok bool
			var verr error
			pn := safe(func() {
				if verr = rep.Unmarshal(rb); verr == nil {
					ok, verr = rep.Verify(w.Config, w.Client.Credentials, asReq)
				}
			})
			switch {
			case pn != "":
				c.Violate("api", "panic:ASRep.Verify:addresses", map[string]interface{}{"panic": pn}, rec)
			case cs.want == "accept" && !ok:
				c.Violate("api", "ASRep.Verify-rejects-genuine-addresses:"+cs.name, map[string]interface{}{"err": fmt.Sprint(verr)}, rec)
			case cs.want == "reject" && ok:
				c.Violate("api", "ASRep.Verify-accepts-addresses:"+cs.name, nil, rec)
			default:
				c.Distinct(fmt.Sprintf("api/%d/%s", et, cs.name))
			}
		}
	}
}
