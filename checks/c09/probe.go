package c09

import (
	"fmt"

	"verif/checks/cworld"
	"verif/engine"

	"github.com/jcmturner/gokrb5/v8/zzverif/vclock"
)

// Run is the check's entry point (probe version).
func Run(c *engine.Ctx) {
	vclock.Virtual(cworld.T0)
	for _, cred := range []string{"keytab", "password"} {
		for _, et := range []int32{18, 17, 23, 16, 19, 20} {
			for _, pa := range []string{"none", "required", "assumed"} {
				o := cworld.DefaultOpts()
				o.Cred, o.ETypes, o.PreAuth = cred, []int32{et}, pa
				w := cworld.New(o)
				err := w.Client.Login()
				var terr error
				if err == nil {
					_, _, terr = w.Client.GetServiceTicket("HTTP/host.test.gokrb5")
				}
				fmt.Printf("%s et%d pa=%s login=%v ticket=%v violations=%v reqs=%d\n", cred, et, pa, err, terr, w.Violations(), len(w.KDC.Requests))
			}
		}
	}
	c.Add("evaluations", 1)
	c.Add("states", 1)
	c.Add("transitions", 1)
	c.Distinct("a")
	c.Distinct("b")
	c.Sample("probe")
}
