// Package c09: the client accepts a KDC reply only if it answers the request
// it sent. The real Client.Login / GetServiceTicket run over the in-memory
// network against the simulated KDC in adversary mode: one field of the reply
// is perturbed per case, for each etype, credential kind and exchange; every
// KRB-ERROR code is sent; stale replies are replayed.
package c09

import (
	"bytes"
	"fmt"
	"github.com/jcmturner/gokrb5/v8/client"
	"regexp"
	"strings"
	"time"

	"verif/checks/cworld"
	"verif/engine"
	"verif/ref/krbmsg"
	"verif/ref/rcrypto"
	"verif/ref/simkdc"

	"github.com/jcmturner/gokrb5/v8/messages"
	"github.com/jcmturner/gokrb5/v8/zzverif/vclock"
	"github.com/jcmturner/gokrb5/v8/zzverif/vnet"
)

func safe(f func()) (p string) {
	defer func() {
		if r := recover(); r != nil {
			p = fmt.Sprint(r)
		}
	}()
	f()
	return ""
}

const skew = 5 * time.Minute

type pert struct {
	name  string
	apply func(r *simkdc.Reply, et int32, w *cworld.World)
	as    string // expectation for AS replies: "reject" | "accept" | "nj" (not judged) | "" (not applicable)
	tgs   string
}

func otherUsage(et int32, usage uint32) uint32 {
	if et == rcrypto.RC4 {
		return 2 // 3, 8 and 9 are aliases for rc4 (RFC 4757)
	}
	if usage == 3 {
		return 8
	}
	return 3
}

func otherEtype(et int32) int32 {
	if et == 18 {
		return 17
	}
	return 18
}

func perturbations(et int32, bits []int) []pert {
	ps := []pert{
		{"none", func(r *simkdc.Reply, et int32, w *cworld.World) {}, "accept", "accept"},
		{"nonce+1", func(r *simkdc.Reply, et int32, w *cworld.World) { r.Enc.Nonce++ }, "reject", "reject"},
		{"nonce-1", func(r *simkdc.Reply, et int32, w *cworld.World) { r.Enc.Nonce-- }, "reject", "reject"},
		{"nonce-zero", func(r *simkdc.Reply, et int32, w *cworld.World) { r.Enc.Nonce = 0 }, "reject", "reject"},
		{"cname-component-changed", func(r *simkdc.Reply, et int32, w *cworld.World) { r.Rep.CName.Names = []string{"otheruser"} }, "reject", "reject"},
		{"cname-component-added", func(r *simkdc.Reply, et int32, w *cworld.World) {
			r.Rep.CName.Names = append(append([]string{}, r.Rep.CName.Names...), "admin")
		}, "reject", "reject"},
		{"cname-empty", func(r *simkdc.Reply, et int32, w *cworld.World) { r.Rep.CName.Names = []string{} }, "reject", "reject"},
		{"cname-type-only", func(r *simkdc.Reply, et int32, w *cworld.World) { r.Rep.CName.Type = 10 }, "accept", "accept"},
		{"crealm-changed", func(r *simkdc.Reply, et int32, w *cworld.World) { r.Rep.CRealm = "EVIL.REALM" }, "reject", "nj"},
		{"enc-sname-changed", func(r *simkdc.Reply, et int32, w *cworld.World) {
			r.Enc.SName.Names = append([]string{"evil"}, r.Enc.SName.Names[1:]...)
		}, "reject", "nj"},
		{"enc-sname-component-added", func(r *simkdc.Reply, et int32, w *cworld.World) {
			r.Enc.SName.Names = append(append([]string{}, r.Enc.SName.Names...), "x")
		}, "reject", "nj"},
		{"enc-srealm-changed", func(r *simkdc.Reply, et int32, w *cworld.World) { r.Enc.SRealm = "EVIL.REALM" }, "reject", "nj"},
		{"enc-srealm-lower-case", func(r *simkdc.Reply, et int32, w *cworld.World) { r.Enc.SRealm = strings.ToLower(r.Enc.SRealm) }, "nj", "nj"},
		{"enc-sname-upper-case", func(r *simkdc.Reply, et int32, w *cworld.World) {
			var n []string
			for _, x := range r.Enc.SName.Names {
				n = append(n, strings.ToUpper(x))
			}
			r.Enc.SName.Names = n
		}, "nj", "nj"},
		{"enc-key-of-other-etype", func(r *simkdc.Reply, et int32, w *cworld.World) { r.Enc.Key.Type = otherEtype(r.Enc.Key.Type) }, "nj", "nj"},
		{"enc-endtime-in-the-past", func(r *simkdc.Reply, et int32, w *cworld.World) { r.Enc.EndTime = r.Enc.AuthTime.Add(-time.Hour) }, "nj", "nj"},
		{"ticket-realm-changed", func(r *simkdc.Reply, et int32, w *cworld.World) { r.Ticket.Realm = "EVIL.REALM" }, "nj", "nj"},
		{"caddr-added-none-requested", func(r *simkdc.Reply, et int32, w *cworld.World) {
			r.Enc.CAddr = []krbmsg.HostAddress{{Type: 2, Addr: []byte{10, 0, 0, 9}}}
		}, "nj", "nj"},
		{"kdc-time-plus-skew", func(r *simkdc.Reply, et int32, w *cworld.World) { setTimes(r, skew) }, "accept", "accept"},
		{"kdc-time-minus-skew", func(r *simkdc.Reply, et int32, w *cworld.World) { setTimes(r, -skew) }, "accept", "accept"},
		{"kdc-time-plus-skew-1s", func(r *simkdc.Reply, et int32, w *cworld.World) { setTimes(r, skew+time.Second) }, "reject", "reject"},
		{"kdc-time-minus-skew-1s", func(r *simkdc.Reply, et int32, w *cworld.World) { setTimes(r, -skew-time.Second) }, "reject", "reject"},
		{"enc-part-under-random-key", func(r *simkdc.Reply, et int32, w *cworld.World) { r.EncKey = w.KDC.RandKey(r.EncEtype) }, "reject", "reject"},
		{"enc-part-under-service-key", func(r *simkdc.Reply, et int32, w *cworld.World) {
			p := w.KDC.Principals["HTTP/host2.test.gokrb5@"+cworld.Realm]
			for _, k := range p.Keys {
				if k.Etype == r.EncEtype {
					r.EncKey = k.Value
				}
			}
		}, "reject", "reject"},
		{"enc-part-other-usage", func(r *simkdc.Reply, et int32, w *cworld.World) { r.EncUsage = otherUsage(r.EncEtype, r.EncUsage) }, "reject", "reject"},
		{"enc-part-usage-ticket", func(r *simkdc.Reply, et int32, w *cworld.World) { r.EncUsage = 2 }, "reject", "reject"},
		// the sub-key usage although the request had no sub-key (rc4 treats 8 and 9 alike, RFC 4757)
		{"enc-part-usage-9-without-subkey", func(r *simkdc.Reply, et int32, w *cworld.World) { r.EncUsage = 9 }, map[bool]string{true: "nj", false: "reject"}[et == rcrypto.RC4], map[bool]string{true: "nj", false: "reject"}[et == rcrypto.RC4]},
		{"enc-part-usage-8-for-as", func(r *simkdc.Reply, et int32, w *cworld.World) {
			if r.Exchange == "AS" {
				r.EncUsage = 8
			}
		}, map[bool]string{true: "nj", false: "reject"}[et == rcrypto.RC4], "accept"},
		{"enc-part-etype-label", func(r *simkdc.Reply, et int32, w *cworld.World) {
			r.Rep.Enc = krbmsg.EncryptedData{EType: otherEtype(r.EncEtype), Cipher: []byte{}}
		}, "nj", "nj"},
		{"msg-type-of-other-exchange", func(r *simkdc.Reply, et int32, w *cworld.World) { r.Rep.MsgType = 24 - r.Rep.MsgType }, "reject", "reject"},
		{"msg-type-99", func(r *simkdc.Reply, et int32, w *cworld.World) { r.Rep.MsgType = 99 }, "reject", "reject"},
		{"application-tag-of-other-exchange", func(r *simkdc.Reply, et int32, w *cworld.World) { r.Rep.App = 24 - r.Rep.App }, "reject", "reject"},
		{"truncate-1", func(r *simkdc.Reply, et int32, w *cworld.World) {
			r.PostSeal = func(ct []byte) []byte { return ct[:len(ct)-1] }
		}, "reject", "reject"},
		{"truncate-to-10", func(r *simkdc.Reply, et int32, w *cworld.World) {
			r.PostSeal = func(ct []byte) []byte { return ct[:10] }
		}, "reject", "reject"},
		{"empty-cipher", func(r *simkdc.Reply, et int32, w *cworld.World) {
			r.PostSeal = func(ct []byte) []byte { return []byte{} }
		}, "reject", "reject"},
		{"append-16", func(r *simkdc.Reply, et int32, w *cworld.World) {
			r.PostSeal = func(ct []byte) []byte { return append(ct, make([]byte, 16)...) }
		}, "reject", "reject"},
		{"enc-part-application-tag-swapped-25-26", func(r *simkdc.Reply, et int32, w *cworld.World) { r.Enc.App = 51 - r.Enc.App }, "accept", "accept"},
		{"whole-reply-truncated", func(r *simkdc.Reply, et int32, w *cworld.World) { r.Raw = []byte{0x6b, 0x03, 0x30, 0x01, 0x00} }, "reject", "reject"},
		{"empty-reply", func(r *simkdc.Reply, et int32, w *cworld.World) { r.Raw = []byte{} }, "reject", "reject"},
	}
	// a reply whose enc-part decrypts (right key, right usage, intact integrity tag) but whose plaintext is not a
	// complete EncKDCRepPart: cut at an offset (all offsets when the dense bit set is asked for), or carrying another
	// application tag
	cuts := []int{0, 1, 2, 5, 17, 40, 41, 64, -3, -1}
	if len(bits) > 16 {
		cuts = cuts[:0]
		for k := 0; k < 300; k++ {
			cuts = append(cuts, k)
		}
	}
	// des3 pads the plaintext to the block size with zero bytes: a cut of a few bytes inside the final string is made
	// up by the padding and yields a complete EncKDCRepPart with another sname, which is not this family's subject
	cutWant := "reject"
	if et == rcrypto.DES3 {
		cutWant = "nj"
	}
	for _, k := range cuts {
		k := k
		ps = append(ps, pert{fmt.Sprintf("enc-part-plaintext-cut-%d", k), func(r *simkdc.Reply, et int32, w *cworld.World) {
			plain := r.Enc.Encode()
			j := k
			if j < 0 {
				j = len(plain) + j
			}
			r.RawEnc = append([]byte{}, plain[:j%len(plain)]...)
		}, cutWant, cutWant})
	}
	for _, tag := range []int{27, 30, 3} {
		tag := tag
		ps = append(ps, pert{fmt.Sprintf("enc-part-application-tag-%d", tag), func(r *simkdc.Reply, et int32, w *cworld.World) { r.Enc.App = tag }, "reject", "reject"})
	}
	ps = append(ps, pert{"enc-part-plaintext-garbage", func(r *simkdc.Reply, et int32, w *cworld.World) {
		plain := r.Enc.Encode()
		for i := len(plain) / 2; i < len(plain); i++ {
			plain[i] = 0xff
		}
		r.RawEnc = plain
	}, "reject", "reject"})
	for _, i := range bits {
		i := i
		ps = append(ps, pert{fmt.Sprintf("cipher-bit-%d", i), func(r *simkdc.Reply, et int32, w *cworld.World) {
			r.PostSeal = func(ct []byte) []byte {
				j := i
				if j < 0 {
					j = len(ct)*8 + j
				}
				ct[j/8] ^= 1 << uint(7-j%8)
				return ct
			}
		}, "reject", "reject"})
	}
	return ps
}

// setTimes moves the KDC time the client checks: authtime for AS replies; both authtime and starttime for TGS replies.
func setTimes(r *simkdc.Reply, d time.Duration) {
	t := vclock.Now().Add(d).Truncate(time.Second)
	r.Enc.AuthTime = t
	if r.Exchange == "TGS" {
		r.Enc.StartTime = &t
	}
}

type caseRec struct {
	Opts     cworld.Opts `json:"opts"`
	Exchange string      `json:"exchange"`
	Pert     string      `json:"perturbation"`
}

// Run is the check's entry point.
func Run(c *engine.Ctx) {
	c.Assume = append(c.Assume,
		"the KDC is ref/simkdc (reference encoder + crypto); replies are perturbed before sealing, so that each perturbed reply is otherwise genuine",
		"virtual clock and in-memory network; not judged (statement silent): crealm / sname / srealm of TGS replies, the ticket's clear-text realm, the unauthenticated etype label of the enc-part, caddr in a reply when none were requested")
	vclock.Virtual(cworld.T0)
	var evals int64
	const spn = "HTTP/host.test.gokrb5"
	allBits := func() []int {
		var b []int
		for i := 0; i < 128; i++ {
			b = append(b, i)
		}
		for i := 1; i <= 128; i++ {
			b = append(b, -i)
		}
		return b
	}()
	for _, et := range rcrypto.Etypes {
		for _, cred := range []string{"keytab", "password"} {
			for _, exch := range []string{"AS", "AS+PA", "TGS"} {
				bits := []int{0, 7, 64, -1, -8, -100}
				if et == 18 && cred == "keytab" || c.Thorough() {
					bits = allBits
				}
				// world variants (two etypes only): every exchange forced onto TCP by RESPONSE_TOO_BIG over UDP; a
				// two-component client principal whose keytab also holds a newer sibling/<instance> entry
				variants := []string{""}
				if et == 18 || et == 23 {
					variants = []string{"", "udp-too-big", "user-instance", "canonicalize", "forwardable-proxiable", "advertised-salt", "canonicalize+advertised-salt", "requested-addresses"}
				}
				for _, variant := range variants {
					if strings.Contains(variant, "advertised-salt") && cred != "password" {
						continue
					}
					perts := perturbations(et, bits)
					if variant != "" {
						perts = perturbations(et, []int{0, -1})
					}
					if variant == "requested-addresses" {
						// noaddresses = false: the requests carry addresses and the genuine replies repeat them; a reply
						// naming an address that was not requested is outside the bounds wherever it stands in the list
						perts = addressPerturbations()
					}
					if variant == "user-instance" && cred == "keytab" && exch != "TGS" {
						perts = append(perts, pert{"enc-part-under-sibling-principal-key", func(r *simkdc.Reply, et int32, w *cworld.World) {
							for _, k := range w.SiblingKeys {
								if k.Etype == r.EncEtype {
									r.EncKey = k.Value
								}
							}
						}, "reject", ""})
					}
					for _, p := range perts {
						o := cworld.DefaultOpts()
						o.Cred, o.ETypes = cred, []int32{et}
						o.UDPTooBig = variant == "udp-too-big"
						if variant == "user-instance" {
							o.UserInstance = "client.test.gokrb5"
						}
						// options that change the request (kdc-options) must not change what is demanded of the reply; a KDC that
						// always advertises the salt makes the reply key independent of the reply's crealm/cname
						o.Canonicalize = strings.Contains(variant, "canonicalize")
						if variant == "forwardable-proxiable" {
							o.Forwardable, o.Proxiable = true, true
						}
						if strings.Contains(variant, "advertised-salt") {
							salt := "an explicit salt, advertised in every reply"
							o.Salt = &salt
						}
						if variant == "requested-addresses" {
							o.ExtraAddresses = []string{"10.1.2.3", "10.1.2.4"}
						}
						if exch == "AS+PA" {
							o.PreAuth = "required"
						}
						vclock.Set(cworld.T0)
						w := cworld.New(o)
						rec := caseRec{o, exch, p.name}
						want := p.as
						if exch == "TGS" {
							want = p.tgs
						}
						hook := func(r *simkdc.Reply) {
							if (exch == "TGS") == (r.Exchange == "TGS") {
								p.apply(r, et, w)
							}
						}
						var err, prelude error
						pn := safe(func() {
							if exch == "TGS" {
								if e := w.Client.Login(); e != nil {
									prelude = e
									return
								}
								w.KDC.Perturb = hook
								_, _, err = w.Client.GetServiceTicket(spn)
							} else {
								w.KDC.Perturb = hook
								err = w.Client.Login()
							}
						})
						evals++
						cl := classOf(p.name)
						if prelude != nil {
							c.Violate("perturb", "rejects-genuine:AS:login-before-the-TGS-exchange", map[string]interface{}{"err": trunc(prelude.Error()), "etype": et, "cred": cred}, rec)
							continue
						}
						if pn != "" {
							c.Violate("perturb", fmt.Sprintf("panic:%s:%s", exch, cl), map[string]interface{}{"panic": pn}, rec)
							continue
						}
						sessions, cache := w.Client.VerifSessions(), w.Client.VerifCache()
						switch want {
						case "reject":
							if err == nil {
								c.Violate("perturb", fmt.Sprintf("accepts:%s:%s", exch, cl), map[string]interface{}{"etype": et, "cred": cred}, rec)
								continue
							}
							if exch != "TGS" && len(sessions) != 0 {
								c.Violate("perturb", fmt.Sprintf("session-created-although-rejected:%s:%s", exch, cl), nil, rec)
								continue
							}
							if exch == "TGS" && len(cache) != 0 {
								c.Violate("perturb", fmt.Sprintf("ticket-cached-although-rejected:%s", cl), nil, rec)
								continue
							}
						case "accept":
							if err != nil {
								c.Violate("perturb", fmt.Sprintf("rejects-genuine:%s:%s", exch, cl), map[string]interface{}{"err": trunc(err.Error()), "etype": et, "cred": cred}, rec)
								continue
							}
							if d := matchesIssueLog(w, exch, spn, sessions, cache); d != "" {
								c.Violate("perturb", fmt.Sprintf("state-differs-from-issue-log:%s:%s", exch, cl), map[string]interface{}{"diff": d}, rec)
								continue
							}
						default:
							c.Add("not_judged", 1)
						}
						if v := w.Violations(); len(v) > 0 {
							// request validation belongs to C10; recorded here only as a note
							c.Add("request_validation_notes", int64(len(v)))
						}
						c.Distinct(fmt.Sprintf("%d/%s/%s/%s/%s/%v", et, cred, exch, variant, cl, err == nil))
					}
				}
			}
		}
	}
	c.Sample(caseRec{cworld.DefaultOpts(), "TGS", "nonce+1"})
	staleReplies(c, &evals)
	referralReplies(c, &evals)
	krbErrors(c, &evals)
	apiLevel(c, &evals)
	c.Add("evaluations", evals)
	c.Add("states", evals)
	c.Add("transitions", evals)
	c.Add("traces_validated_against_impl", evals)
	c.Cov["rule"] = "etype(6) x credential {keytab,password} x exchange {AS, AS after PREAUTH_REQUIRED, TGS} x world variant {plain; for etypes 18/23 also: UDP answers RESPONSE_TOO_BIG, two-component principal with sibling keytab entry, canonicalize, forwardable+proxiable, explicit advertised salt (password), requests carrying addresses (noaddresses = false, two extra_addresses) with reply address lists {reordered, foreign only / first / middle / last / replacing, first entry under another type}} x perturbation (field perturbations, enc-part plaintext cut at every offset (etype 18/keytab) or 10 sample offsets, foreign enc-part application tags + ciphertext bit flips: all bits of the first and last 16 bytes for etype 18/keytab, 6 sample bits elsewhere); stale replies; KRB-ERROR codes 0..100 and 3 unassigned for AS and TGS; ASRep.Verify with requested addresses. distinct = (etype, credential, exchange, perturbation class, accepted?) cells whose outcome matched"
}

var digits = regexp.MustCompile(`-?\d+$`)

// addressPerturbations: reply address lists for requests that carried addresses (at least the two configured extras).
func addressPerturbations() []pert {
	foreign := krbmsg.HostAddress{Type: 2, Addr: []byte{192, 168, 77, 9}}
	cp := func(l []krbmsg.HostAddress) []krbmsg.HostAddress { return append([]krbmsg.HostAddress{}, l...) }
	return []pert{
		{"none", func(r *simkdc.Reply, et int32, w *cworld.World) {}, "accept", "accept"},
		{"caddr-reordered", func(r *simkdc.Reply, et int32, w *cworld.World) {
			l := cp(r.Enc.CAddr)
			for i, j := 0, len(l)-1; i < j; i, j = i+1, j-1 {
				l[i], l[j] = l[j], l[i]
			}
			r.Enc.CAddr = l
		}, "accept", "accept"},
		{"caddr-foreign-only", func(r *simkdc.Reply, et int32, w *cworld.World) { r.Enc.CAddr = []krbmsg.HostAddress{foreign} }, "reject", "reject"},
		{"caddr-foreign-first", func(r *simkdc.Reply, et int32, w *cworld.World) {
			r.Enc.CAddr = append([]krbmsg.HostAddress{foreign}, r.Enc.CAddr...)
		}, "reject", "reject"},
		{"caddr-foreign-last", func(r *simkdc.Reply, et int32, w *cworld.World) { r.Enc.CAddr = append(cp(r.Enc.CAddr), foreign) }, "reject", "reject"},
		{"caddr-foreign-middle", func(r *simkdc.Reply, et int32, w *cworld.World) {
			l := cp(r.Enc.CAddr)
			if len(l) < 2 {
				engine.FailValid("requested-addresses world", fmt.Errorf("reply carries %d addresses, want at least 2", len(l)))
			}
			r.Enc.CAddr = append(append(cp(l[:1]), foreign), l[1:]...)
		}, "reject", "reject"},
		{"caddr-foreign-replaces-first", func(r *simkdc.Reply, et int32, w *cworld.World) {
			l := cp(r.Enc.CAddr)
			l[0] = foreign
			r.Enc.CAddr = l
		}, "reject", "reject"},
		{"caddr-first-under-other-type", func(r *simkdc.Reply, et int32, w *cworld.World) {
			l := cp(r.Enc.CAddr)
			l[0] = krbmsg.HostAddress{Type: 20, Addr: l[0].Addr}
			r.Enc.CAddr = l
		}, "reject", "reject"},
	}
}

func classOf(name string) string {
	if strings.HasPrefix(name, "cipher-bit-") {
		return "cipher-bit"
	}
	if strings.HasPrefix(name, "enc-part-plaintext-cut-") {
		return "enc-part-plaintext-cut"
	}
	return name
}

func trunc(s string) string {
	if len(s) > 300 {
		return s[:300] + "..."
	}
	return s
}

// matchesIssueLog: after an accepted exchange the client's state is what the KDC issued.
func matchesIssueLog(w *cworld.World, exch, spn string, sessions interface{}, cache interface{}) string {
	if client.VerifMinimal {
		return "" // the client's private state is not visible from this tree (see shim/exports-min)
	}
	if exch != "TGS" {
		ss := w.Client.VerifSessions()
		if len(ss) != 1 || ss[0].Realm != cworld.Realm {
			return fmt.Sprintf("sessions %+v", ss)
		}
		last := w.KDC.Issued[len(w.KDC.Issued)-1]
		if !bytes.Equal(ss[0].SessionKey.KeyValue, last.SessionKey) || !ss[0].EndTime.Equal(last.End) {
			return "session key or end time differs from the issued TGT"
		}
		return ""
	}
	cc := w.Client.VerifCache()
	last := w.KDC.Issued[len(w.KDC.Issued)-1]
	if len(cc) != 1 || cc[0].SPN != spn {
		return fmt.Sprintf("cache holds %d entries", len(cc))
	}
	if !bytes.Equal(cc[0].Ticket, last.Ticket) || !bytes.Equal(cc[0].SessionKey.KeyValue, last.SessionKey) || cc[0].SessionKey.KeyType != last.KeyEtype || !cc[0].EndTime.Equal(last.End) {
		return "cached ticket, key or end time differs from the issued one"
	}
	return ""
}

// referralReplies: the service lives in another realm reached through a referral (home KDC refers to R1 with a
// cross-realm TGT). The reply of R1's KDC to the follow-up request is the genuine one or perturbed; the key it has
// to be sealed with is the session key of the referral TGT, not the home TGT's.
func referralReplies(c *engine.Ctx, evals *int64) {
	const spn = "HTTP/host.chain.gokrb5"
	for _, et := range []int32{18, 23, 17} {
		perts := perturbations(et, []int{0, -1})
		perts = append(perts, pert{"enc-part-under-home-tgt-session-key", func(r *simkdc.Reply, et int32, w *cworld.World) {
			for _, is := range w.KDC.Issued {
				if is.Exchange == "AS" {
					r.EncKey, r.EncEtype = is.SessionKey, is.KeyEtype
				}
			}
		}, "", "reject"})
		for _, p := range perts {
			if p.tgs == "" {
				continue
			}
			o := cworld.DefaultOpts()
			o.ETypes, o.Canonicalize, o.ChainRealms = []int32{et}, true, 1
			vclock.Set(cworld.T0)
			w := cworld.New(o)
			rec := caseRec{o, "TGS after a referral", p.name}
			var err, prelude error
			var tb, keyv []byte
			pn := safe(func() {
				if e := w.Client.Login(); e != nil {
					prelude = e
					return
				}
				w.Chain[0].Perturb = func(r *simkdc.Reply) {
					if r.Exchange == "TGS" {
						p.apply(r, et, w)
					}
				}
				tkt, key, e := w.Client.GetServiceTicket(spn)
				err = e
				if e == nil {
					tb, _ = tkt.Marshal()
					keyv = key.KeyValue
				}
			})
			*evals++
			cl := classOf(p.name)
			switch {
			case prelude != nil:
				c.Violate("referral", "rejects-genuine:AS:login-before-the-TGS-exchange", map[string]interface{}{"err": trunc(prelude.Error())}, rec)
			case pn != "":
				c.Violate("referral", "panic:TGS-after-referral:"+cl, map[string]interface{}{"panic": pn}, rec)
			case p.tgs == "reject" && err == nil:
				c.Violate("referral", "accepts:TGS-after-referral:"+cl, map[string]interface{}{"etype": et}, rec)
			case p.tgs == "accept" && err != nil:
				c.Violate("referral", "rejects-genuine:TGS-after-referral:"+cl, map[string]interface{}{"err": trunc(err.Error()), "etype": et}, rec)
			case p.tgs == "accept":
				ok := false
				for _, is := range w.Chain[0].Issued {
					if bytes.Equal(is.Ticket, tb) && bytes.Equal(is.SessionKey, keyv) {
						ok = true
					}
				}
				if !ok {
					c.Violate("referral", "state-differs-from-issue-log:TGS-after-referral:"+cl, nil, rec)
				} else {
					c.Distinct(fmt.Sprintf("referral/%d/%s/accepted", et, cl))
				}
			default:
				c.Distinct(fmt.Sprintf("referral/%d/%s/%v", et, cl, err == nil))
			}
		}
	}
}

// staleReplies: the reply to an earlier request (another nonce) is delivered instead of the fresh one.
func staleReplies(c *engine.Ctx, evals *int64) {
	for _, et := range rcrypto.Etypes {
		for _, exch := range []string{"AS", "TGS"} {
			o := cworld.DefaultOpts()
			o.ETypes = []int32{et}
			vclock.Set(cworld.T0)
			w := cworld.New(o)
			// record genuine replies per exchange kind, then replay the first one for the next request
			var recorded []byte
			orig := w.KDC
			for _, n := range []string{"udp", "tcp"} {
				vnet.Register(n, w.KDCAddr[0], &vnet.Endpoint{Behaviour: vnet.Answer, Handler: func(network, a string, req []byte) []byte {
					rep := orig.Handle(network, req)
					kind := orig.Requests[len(orig.Requests)-1].Kind
					if (exch == "TGS") == (kind == "TGS") {
						if recorded == nil {
							recorded = rep
							return rep
						}
						return recorded // stale: answers the earlier nonce
					}
					return rep
				}})
			}
			rec := caseRec{o, exch, "stale-reply-to-previous-nonce"}
			*evals++
			var err1, err2 error
			pn := safe(func() {
				if exch == "AS" {
					err1 = w.Client.Login()
					err2 = w.NewClient().Login()
				} else {
					if e := w.Client.Login(); e != nil {
						engine.FailValid("Client.Login against the unperturbed KDC", e)
					}
					_, _, err1 = w.Client.GetServiceTicket("HTTP/host.test.gokrb5")
					_, _, err2 = w.Client.GetServiceTicket("HTTP/host2.test.gokrb5")
				}
			})
			if pn != "" {
				c.Violate("stale", "panic:stale:"+exch, map[string]interface{}{"panic": pn}, rec)
				continue
			}
			if err1 != nil {
				c.Violate("stale", "rejects-genuine:first-exchange:"+exch, map[string]interface{}{"err": trunc(err1.Error())}, rec)
				continue
			}
			if err2 == nil {
				c.Violate("stale", "accepts:stale-reply:"+exch, map[string]interface{}{"etype": et}, rec)
				continue
			}
			c.Distinct(fmt.Sprintf("stale/%d/%s", et, exch))
		}
	}
}

// krbErrors: every KRB-ERROR code reaches the caller as an error carrying the code.
func krbErrors(c *engine.Ctx, evals *int64) {
	codes := []int32{}
	for i := int32(0); i <= 100; i++ {
		codes = append(codes, i)
	}
	codes = append(codes, 127, 200, 2147483647)
	for _, exch := range []string{"AS", "TGS", "AS+PA", "AS+etext", "TGS+etext"} {
		etext := strings.HasSuffix(exch, "+etext")
		exch := strings.TrimSuffix(exch, "+etext")
		for _, code := range codes {
			o := cworld.DefaultOpts()
			if exch == "AS+PA" {
				// the KDC first asks for pre-authentication (genuinely) and answers the pre-authenticated request with the error
				o.PreAuth = "required"
			}
			vclock.Set(cworld.T0)
			w := cworld.New(o)
			code := code
			answer := func(req *krbmsg.KDCReq) *int32 {
				if exch == "AS+PA" {
					for _, pa := range req.PAData {
						if req.App == krbmsg.AppASReq && pa.Type == 2 {
							return &code
						}
					}
					return nil
				}
				if (exch == "TGS") == (req.App == krbmsg.AppTGSReq) {
					return &code
				}
				return nil
			}
			for _, k := range w.AllKDCs() {
				k.ErrorReply = answer
				if etext {
					k.ErrorEText = "a text from the KDC that says nothing about numbers"
				}
			}
			rec := map[string]interface{}{"exchange": exch, "error_code": code, "kdc_sends_e_text": etext}
			*evals++
			var err error
			pn := safe(func() {
				if exch == "TGS" {
					if e := w.Client.Login(); e != nil {
						engine.FailValid("Client.Login against the unperturbed KDC", e)
					}
					_, _, err = w.Client.GetServiceTicket("HTTP/host.test.gokrb5")
				} else {
					err = w.Client.Login()
				}
			})
			nreq := 0
			for _, k := range w.AllKDCs() {
				nreq += len(k.Requests)
			}
			switch {
			case pn != "":
				c.Violate("krberror", fmt.Sprintf("panic:krb-error:%s", exch), map[string]interface{}{"panic": pn}, rec)
			case err == nil:
				c.Violate("krberror", fmt.Sprintf("krb-error-ignored:%s", exch), nil, rec)
			case !carriesCode(err, code):
				key := fmt.Sprintf("error-does-not-carry-the-code:%s:%s", exch, codeClass(code))
				if etext {
					key += ":with-e-text"
				}
				c.Violate("krberror", key, map[string]interface{}{"err": trunc(err.Error())}, rec)
			case nreq > 12:
				c.Violate("krberror", fmt.Sprintf("unbounded-retries:%s:%d", exch, code), map[string]interface{}{"requests": nreq}, rec)
			default:
				c.Distinct(fmt.Sprintf("krberr/%s/%d/%v", exch, code, etext))
			}
		}
	}
}

func codeClass(code int32) string {
	switch code {
	case 24, 25:
		return "preauth-retry-codes"
	case 68:
		return "wrong-realm"
	case 52:
		return "response-too-big"
	}
	if code > 100 {
		return "unassigned"
	}
	return "ordinary"
}

// carriesCode: the error (a KRBError value or text) identifies the KDC's error code.
func carriesCode(err error, code int32) bool {
	if ke, ok := err.(messages.KRBError); ok {
		return ke.ErrorCode == code
	}
	s := err.Error()
	return strings.Contains(s, fmt.Sprintf("(%d)", code)) || strings.Contains(s, fmt.Sprintf("ErrorCode %d", code))
}

// Pert is an exported view of one reply perturbation (reused by C20 to reach the client's reply-rejection paths).
type Pert struct {
	Name  string
	Apply func(r *simkdc.Reply, et int32, w *cworld.World)
}

// Perturbations lists the catalogue for an etype.
func Perturbations(et int32) []Pert {
	var out []Pert
	for _, p := range perturbations(et, []int{0, 77, -1}) {
		out = append(out, Pert{p.name, p.apply})
	}
	return out
}
