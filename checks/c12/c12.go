// Package c12: a KDC exchange succeeds whenever some configured KDC and
// transport works. Every assignment of a behaviour to every (KDC, transport)
// endpoint is enumerated for 1-3 KDCs, crossed with the UDP preference limit
// and every order the random server ordering can produce, and the real
// transport fail-over code (Client.sendToKDC) is run over the in-memory network.
package c12

import (
	"bytes"
	"fmt"
	"github.com/jcmturner/gokrb5/v8/keytab"
	"strings"
	"time"

	"verif/checks/cworld"
	"verif/engine"
	"verif/ref/krbmsg"

	"github.com/jcmturner/gokrb5/v8/client"
	"github.com/jcmturner/gokrb5/v8/config"
	"github.com/jcmturner/gokrb5/v8/messages"
	"github.com/jcmturner/gokrb5/v8/zzverif/vclock"
	"github.com/jcmturner/gokrb5/v8/zzverif/vnet"
	"github.com/jcmturner/gokrb5/v8/zzverif/vrand"
)

const (
	bAnswers = iota
	bRefuses
	bCloses
	bSilent
	bKRBError
	bTooBig // on UDP: KRB_ERR_RESPONSE_TOO_BIG; on TCP this slot means "partial reply, then EOF"
	nBehaviours
)

var bNames = []string{"answers", "refuses", "closes-early", "silent", "krb-error", "too-big/partial"}

func krbErr(code int32) []byte {
	return krbmsg.KRBError{PVNO: 5, MsgType: 30, STime: cworld.T0, Code: code, Realm: cworld.Realm, SName: krbmsg.PrincipalName{Type: 2, Names: []string{"krbtgt", cworld.Realm}}}.Encode()
}

func reply(k int, net string) []byte {
	return []byte(fmt.Sprintf("GENUINE-REPLY-FROM-kdc%d-%s-%s", k+1, net, strings.Repeat("x", 40)))
}

// errCode distinguishes the endpoints' KRB-ERROR codes so that a surfaced error can be traced to one.
func errCode(k int, net string) int32 {
	c := int32(6 + k)
	if net == "tcp" {
		c += 10
	}
	return c
}

func endpoint(k int, net string, beh int) *vnet.Endpoint {
	ep := &vnet.Endpoint{}
	switch beh {
	case bAnswers:
		ep.Behaviour = vnet.Answer
		ep.Handler = func(n, a string, req []byte) []byte { return reply(k, net) }
	case bRefuses:
		ep.Behaviour = vnet.Refuse
	case bCloses:
		ep.Behaviour = vnet.CloseEarly
	case bSilent:
		ep.Behaviour = vnet.Silent
	case bKRBError:
		ep.Behaviour = vnet.Answer
		ep.Handler = func(n, a string, req []byte) []byte { return krbErr(errCode(k, net)) }
	case bTooBig:
		if net == "udp" {
			ep.Behaviour = vnet.Answer
			ep.Handler = func(n, a string, req []byte) []byte { return krbErr(52) }
		} else {
			ep.Behaviour = vnet.Partial
			ep.Handler = func(n, a string, req []byte) []byte { return reply(k, net) }
		}
	}
	return ep
}

func confFor(nk, limit int) *config.Config {
	o := cworld.DefaultOpts()
	o.NKDC, o.UDPLimit = nk, limit
	cfg, err := config.NewFromString(cworld.ConfText(o))
	if err != nil {
		engine.FailValid("config.NewFromString(valid configuration)", err)
	}
	return cfg
}

// orders enumerates the answer scripts for the two GetKDCs calls a run can make.
func orders(nk int, all bool) [][]int {
	if nk == 1 {
		return [][]int{nil}
	}
	if !all {
		return [][]int{make([]int, 2*nk)}
	}
	var one [][]int
	var rec func(cur []int, k int)
	rec = func(cur []int, k int) {
		if k == 0 {
			one = append(one, append([]int{}, cur...))
			return
		}
		for v := 0; v < k; v++ {
			rec(append(cur, v), k-1)
		}
	}
	rec(nil, nk)
	var out [][]int
	for _, a := range one {
		for _, b := range one {
			out = append(out, append(append([]int{}, a...), b...))
		}
	}
	return out
}

// orderFrom mirrors randServOrder: the sequence of picks Intn(n), Intn(n-1), ... yields an order.
func orderFrom(script []int, nk int) []int {
	idx := make([]int, nk)
	for i := range idx {
		idx[i] = i
	}
	var out []int
	if nk == 1 {
		return []int{0}
	}
	for l := nk; l > 0; l-- {
		ri := 0
		if len(script) > 0 {
			ri = script[0] % l
			script = script[1:]
		}
		out = append(out, idx[ri])
		idx[ri], idx[l-1] = idx[l-1], idx[ri]
		idx = idx[:l-1]
	}
	return out
}

type caseRec struct {
	KDCs      int      `json:"kdcs"`
	Limit     int      `json:"udp_preference_limit"`
	ReqLen    int      `json:"request_len"`
	UDP       []string `json:"udp_behaviours"`
	TCP       []string `json:"tcp_behaviours"`
	RandomAns []int    `json:"random_answers"`
}

// Run is the check's entry point.
func Run(c *engine.Ctx) {
	c.Assume = append(c.Assume,
		"in-memory endpoints (shim/vnet): a UDP datagram is one read, TCP is a length-prefixed stream, refusal is a dial error (TCP) or ICMP-style read error (UDP), silence is a read deadline expiring in virtual time (the virtual clock advances to the deadline; writes and reads after a deadline has passed fail at once, as on a real connection; a read without deadline on a silent endpoint is reported)",
		"the random server order is scripted through shim/vrand: every order is enumerated for 1-2 KDCs (and for 3 KDCs in the thorough tier)")
	vclock.Virtual(cworld.T0)
	w := cworld.New(cworld.DefaultOpts())
	asReq, err := messages.NewASReqForTGT(cworld.Realm, w.Config, w.Client.Credentials.CName())
	if err != nil {
		engine.FailValid("messages.NewASReqForTGT", err)
	}
	req, _ := asReq.Marshal()
	var evals int64
	outcomes := map[string]int{}
	for nk := 1; nk <= 3 && !client.VerifMinimal; nk++ {
		limits := []int{1, 100, 1465}
		if nk <= 2 {
			limits = []int{1, 100, 1465, 0, 2} // 0 and 2: every request is larger (TCP first, UDP permitted); only 1 means TCP alone
		}
		for _, limit := range limits {
			cfg := confFor(nk, limit)
			cl := client.NewWithPassword(cworld.User, cworld.Realm, "x", cfg, client.DisablePAFXFAST(true))
			nEnd := 2 * nk
			total := 1
			for i := 0; i < nEnd; i++ {
				total *= nBehaviours
			}
			ords := orders(nk, nk < 3 || c.Thorough())
			for a := 0; a < total; a++ {
				beh := make([]int, nEnd) // [udp kdc0.., tcp kdc0..]
				x := a
				for i := range beh {
					beh[i] = x % nBehaviours
					x /= nBehaviours
				}
				for _, script := range ords {
					vnet.Reset()
					for k := 0; k < nk; k++ {
						addr := fmt.Sprintf("kdc%d.test.gokrb5:88", k+1)
						vnet.Register("udp", addr, endpoint(k, "udp", beh[k]))
						vnet.Register("tcp", addr, endpoint(k, "tcp", beh[nk+k]))
					}
					// a pristine copy of the configuration per run: the order lookup must not depend on earlier runs
					if nk > 1 {
						cl = client.NewWithPassword(cworld.User, cworld.Realm, "x", cloneConfig(cfg), client.DisablePAFXFAST(true))
					}
					vrand.Script(script)
					vclock.Set(cworld.T0)
					vnet.NoDeadlineWaits = 0
					var rb []byte
					var rerr error
					pn := safeRun(func() { rb, rerr = cl.VerifSendToKDC(req, cworld.Realm) })
					attempts := vnet.TakeAttempts()
					evals++
					rec := caseRec{KDCs: nk, Limit: limit, ReqLen: len(req), RandomAns: script}
					for k := 0; k < nk; k++ {
						rec.UDP = append(rec.UDP, bNames[beh[k]])
						rec.TCP = append(rec.TCP, bNames[beh[nk+k]])
					}
					if pn != "" {
						c.Violate("faults", "panic:sendToKDC", map[string]interface{}{"panic": pn}, rec)
						continue
					}
					if vnet.NoDeadlineWaits > 0 {
						c.Violate("faults", "waits-on-a-silent-kdc-without-a-deadline", map[string]interface{}{"reads_without_deadline": vnet.NoDeadlineWaits}, rec)
						continue
					}
					if el := vclock.Now().Sub(cworld.T0); el > time.Duration(len(attempts))*30*time.Second {
						c.Violate("faults", "unbounded-wait", map[string]interface{}{"virtual_time_spent": el.String(), "attempts": len(attempts)}, rec)
						continue
					}
					if key, detail := judge(nk, limit, len(req), beh, script, rb, rerr, len(attempts)); key != "" {
						c.Violate("faults", key, detail, rec)
						continue
					}
					oc := "error"
					if rerr == nil {
						oc = "success"
					} else if _, ok := rerr.(messages.KRBError); ok {
						oc = "krb-error"
					}
					outcomes[fmt.Sprintf("%d/%d/%s", nk, limit, oc)]++
					if a%97 == 0 {
						c.Distinct(fmt.Sprintf("%d/%d/%v/%s", nk, limit, beh, oc))
					}
				}
			}
		}
	}
	c.Add("evaluations", evals)
	c.Cov["outcome_histogram"] = outcomes
	c.Sample(caseRec{KDCs: 2, Limit: 100, ReqLen: len(req), UDP: []string{"refuses", "answers"}, TCP: []string{"silent", "closes-early"}, RandomAns: []int{0, 0, 0, 0}})
	c.Cov["rule"] = "every assignment of {answers, refuses, closes early, silent, KRB-ERROR, too-big (UDP) / partial reply (TCP)} to each (KDC, transport) endpoint for 1-3 KDCs (36 + 1,296 + 46,656) x udp_preference_limit {1, below the request size, above it; for 1-2 KDCs also 0 and 2} x every outcome of the random server order (all for 1-2 KDCs; default order for 3 KDCs in the quick tier, all 36 in the thorough tier); distinct = sampled (kdcs, limit, assignment, outcome) classes; evaluations = runs of sendToKDC"
	loginLevel(c)
	retainedReplies(c, req)
	sizesAndRealmNames(c, req)
	udpSizesAndErrorSequences(c, req)
	configurationsAndReferrals(c)
}

func safeRun(f func()) (p string) {
	defer func() {
		if r := recover(); r != nil {
			p = fmt.Sprint(r)
		}
	}()
	f()
	return ""
}

// judge applies the property's clauses.
func judge(nk, limit, reqLen int, beh []int, script []int, rb []byte, rerr error, attempts int) (string, map[string]interface{}) {
	// permitted transports and the order they are tried in
	var passes []string
	switch {
	case limit == 1:
		passes = []string{"tcp"}
	case reqLen <= limit:
		passes = []string{"udp", "tcp"}
	default:
		passes = []string{"tcp", "udp"}
	}
	permitted := map[string]bool{}
	for _, p := range passes {
		permitted[p] = true
	}
	b := func(k int, net string) int {
		if net == "udp" {
			return beh[k]
		}
		return beh[nk+k]
	}
	yieldsData := func(k int, net string) bool {
		x := b(k, net)
		return x == bAnswers || x == bKRBError || (x == bTooBig && net == "udp")
	}
	anyAnswers, anyKRB := false, false
	for k := 0; k < nk; k++ {
		for _, net := range passes {
			if b(k, net) == bAnswers {
				anyAnswers = true
			}
			if b(k, net) == bKRBError || (b(k, net) == bTooBig && net == "udp") {
				anyKRB = true
			}
		}
	}
	detail := map[string]interface{}{"returned_len": len(rb), "err": fmt.Sprint(rerr)}
	// 1. success => exactly the reply of an answering endpoint on a permitted transport
	if rerr == nil {
		ok := false
		for k := 0; k < nk; k++ {
			for _, net := range passes {
				if b(k, net) == bAnswers && bytes.Equal(rb, reply(k, net)) {
					ok = true
				}
			}
		}
		if !ok {
			if len(rb) == 0 {
				return "success-with-empty-reply:" + passes[0] + "-first", detail
			}
			return "success-with-bytes-no-endpoint-sent", detail
		}
	}
	// 2. a KRBError => some endpoint produced that code
	if ke, isK := rerr.(messages.KRBError); isK {
		ok := false
		for k := 0; k < nk; k++ {
			for _, net := range passes {
				if b(k, net) == bKRBError && ke.ErrorCode == errCode(k, net) {
					ok = true
				}
				if b(k, net) == bTooBig && net == "udp" && ke.ErrorCode == 52 {
					ok = true
				}
			}
		}
		if !ok {
			return "krb-error-no-endpoint-sent", detail
		}
	}
	// 3. availability: no KRB-ERROR endpoint anywhere and some endpoint answers => success
	if anyAnswers && !anyKRB && rerr != nil {
		return "fails-although-a-kdc-answers:" + passes[0] + "-first", detail
	}
	// 4. nothing answers and nothing produces a KRB-ERROR => a plain error
	if !anyAnswers && !anyKRB {
		if rerr == nil {
			return "success-although-nothing-answers", detail
		}
		if _, isK := rerr.(messages.KRBError); isK {
			return "krb-error-although-none-sent", detail
		}
	}
	// 5. full reference model when the first transport's first data-yielding endpoint decides
	udpOrder := orderFrom(script, nk)
	var rest []int
	if nk > 1 && len(script) >= nk {
		rest = script[nk:]
	}
	tcpOrder := orderFrom(rest, nk)
	if passes[0] == "tcp" {
		tcpOrder = orderFrom(script, nk)
		udpOrder = orderFrom(rest, nk)
	}
	first := func(net string) (int, bool) {
		ord := udpOrder
		if net == "tcp" {
			ord = tcpOrder
		}
		for _, k := range ord {
			if yieldsData(k, net) {
				return k, true
			}
		}
		return -1, false
	}
	wantSuccess, wantCode, decided := false, int32(-1), false
	if k, ok := first(passes[0]); ok {
		switch {
		case b(k, passes[0]) == bAnswers:
			wantSuccess, decided = true, true
		case b(k, passes[0]) == bKRBError:
			wantCode, decided = errCode(k, passes[0]), true
		case passes[0] == "udp" && len(passes) > 1: // too big on UDP: TCP decides
			if k2, ok2 := first("tcp"); ok2 {
				if b(k2, "tcp") == bAnswers {
					wantSuccess, decided = true, true
				} else {
					wantCode, decided = errCode(k2, "tcp"), true
				}
			}
		}
	} else if len(passes) > 1 {
		if k2, ok2 := first(passes[1]); ok2 {
			switch {
			case b(k2, passes[1]) == bAnswers:
				wantSuccess, decided = true, true
			case b(k2, passes[1]) == bKRBError:
				wantCode, decided = errCode(k2, passes[1]), true
			case passes[1] == "udp":
				wantCode, decided = 52, true
			}
		}
	}
	if decided {
		if wantSuccess && rerr != nil {
			return "fails-although-the-first-responding-kdc-answers:" + passes[0] + "-first", detail
		}
		if !wantSuccess {
			ke, isK := rerr.(messages.KRBError)
			if !isK || ke.ErrorCode != wantCode {
				detail["want_code"] = wantCode
				return "krb-error-of-first-responding-kdc-not-surfaced", detail
			}
		}
	}
	// 6. bounded attempts
	if attempts > 2*2*nk {
		detail["attempts"] = attempts
		return "unbounded-attempts", detail
	}
	return "", nil
}

// loginLevel: the same through Client.Login with a simulated KDC behind the answering endpoints (reduced set).
func loginLevel(c *engine.Ctx) {
	for _, limit := range []int{1, 100, 1465, 0} {
		for a := 0; a < 16*16; a++ {
			beh := []int{a % 4, (a / 4) % 4, (a / 16) % 4, (a / 64) % 4} // udp1, udp2, tcp1, tcp2 over {answers, refuses, closes, silent}
			o := cworld.DefaultOpts()
			o.NKDC, o.UDPLimit = 2, limit
			vclock.Set(cworld.T0)
			w := cworld.New(o)
			for k := 0; k < 2; k++ {
				for i, n := range []string{"udp", "tcp"} {
					x := beh[i*2+k]
					if x == bAnswers {
						continue // cworld registered the simulated KDC here
					}
					vnet.Register(n, w.KDCAddr[k], endpoint(k, n, x))
				}
			}
			vrand.Script(nil)
			var err error
			pn := safeRun(func() { err = w.Client.Login() })
			c.Add("evaluations", 1)
			var passes []string
			if limit == 1 {
				passes = []string{"tcp"}
			} else {
				passes = []string{"udp", "tcp"}
			}
			any := false
			for k := 0; k < 2; k++ {
				for i, n := range []string{"udp", "tcp"} {
					for _, p := range passes {
						if p == n && beh[i*2+k] == bAnswers {
							any = true
						}
					}
				}
			}
			rec := map[string]interface{}{"udp_preference_limit": limit, "udp": []string{bNames[beh[0]], bNames[beh[1]]}, "tcp": []string{bNames[beh[2]], bNames[beh[3]]}}
			switch {
			case pn != "":
				c.Violate("login", "panic:login-under-faults", map[string]interface{}{"panic": pn}, rec)
			case any && err != nil:
				c.Violate("login", "login-fails-although-a-kdc-answers", map[string]interface{}{"err": err.Error()}, rec)
			case !any && err == nil:
				c.Violate("login", "login-succeeds-although-nothing-answers", nil, rec)
			default:
				c.Distinct(fmt.Sprintf("login/%d/%v/%v", limit, beh, err == nil))
			}
		}
	}
}

// configurationsAndReferrals: (a) KDCs configured as IPv4 / IPv6 literals with a port; (b) the client's realm is not
// the default realm, whose own [realms] block names no KDC; (c) two KDCs that answer every AS-REQ with
// KDC_ERR_WRONG_REALM pointing at each other: the login fails after a bounded number of requests.
func configurationsAndReferrals(c *engine.Ctx) {
	if client.VerifMinimal {
		return
	}
	var n int64
	// (a)
	for _, addr := range []string{"[2001:db8::88]:88", "[::1]:750", "10.1.2.3:88", "10.1.2.3"} {
		for _, limit := range []int{1, 1465} {
			vnet.Reset()
			vclock.Set(cworld.T0)
			vrand.Script(nil)
			o := cworld.DefaultOpts()
			o.UDPLimit = limit
			w := cworld.New(o)
			text := strings.Replace(w.Conf, "kdc = kdc1.test.gokrb5:88", "kdc = "+addr, 1)
			if text == w.Conf {
				engine.Fatal("C12: the world's configuration has no 'kdc = kdc1.test.gokrb5:88' line to replace")
			}
			cfg, err := config.NewFromString(text)
			if err != nil {
				engine.FailValid("config.NewFromString(KDC given as "+addr+")", err)
			}
			want := strings.TrimSuffix(strings.TrimSpace(strings.TrimSuffix(addr, "*")), " ")
			if !strings.Contains(strings.TrimPrefix(want, "["), "]:") && !strings.Contains(want, ".3:") && !strings.Contains(want, "gokrb5:") {
				want += ":88"
			}
			for _, nw := range []string{"udp", "tcp"} {
				vnet.Register(nw, want, &vnet.Endpoint{Behaviour: vnet.Answer, Handler: func(network, a string, req []byte) []byte { return w.KDC.Handle(network, req) }})
			}
			kt := keytab.New()
			if err := kt.Unmarshal(w.Keytab); err != nil {
				engine.FailValid("keytab.Unmarshal(client keytab)", err)
			}
			cl := client.NewWithKeytab(cworld.User, cworld.Realm, kt, cfg, client.DisablePAFXFAST(true))
			var lerr error
			pn := safeRun(func() { lerr = cl.Login() })
			n++
			rec := map[string]interface{}{"kdc_as_configured": addr, "endpoint_listening_at": want, "udp_preference_limit": limit}
			switch {
			case pn != "":
				c.Violate("config", "panic:kdc-address-form", map[string]interface{}{"panic": pn}, rec)
			case lerr != nil:
				c.Violate("config", "login-fails-although-a-kdc-answers:kdc-address-form", map[string]interface{}{"err": lerr.Error()}, rec)
			default:
				c.Distinct("addrform/" + addr)
			}
			func() { defer func() { recover() }(); cl.Destroy() }()
		}
	}
	// (b)
	for _, blk := range []string{" DEFAULT.ONLY = {\n  admin_server = a.default.only\n }\n", ""} {
		vnet.Reset()
		vclock.Set(cworld.T0)
		vrand.Script(nil)
		w := cworld.New(cworld.DefaultOpts())
		text := strings.Replace(w.Conf, "default_realm = "+cworld.Realm, "default_realm = DEFAULT.ONLY", 1)
		text = strings.Replace(text, "[realms]\n", "[realms]\n"+blk, 1)
		cfg, err := config.NewFromString(text)
		if err != nil {
			engine.FailValid("config.NewFromString(client realm is not the default realm)", err)
		}
		kt := keytab.New()
		if err := kt.Unmarshal(w.Keytab); err != nil {
			engine.FailValid("keytab.Unmarshal(client keytab)", err)
		}
		cl := client.NewWithKeytab(cworld.User, cworld.Realm, kt, cfg, client.DisablePAFXFAST(true))
		var lerr error
		pn := safeRun(func() { lerr = cl.Login() })
		n++
		rec := map[string]interface{}{"default_realm": "DEFAULT.ONLY", "default_realm_block": blk, "client_realm": cworld.Realm}
		switch {
		case pn != "":
			c.Violate("config", "panic:client-realm-not-default", map[string]interface{}{"panic": pn}, rec)
		case lerr != nil || len(w.KDC.Requests) == 0:
			c.Violate("config", "login-fails-although-a-kdc-answers:client-realm-is-not-the-default-realm", map[string]interface{}{"err": fmt.Sprint(lerr), "requests_seen_by_the_kdc": len(w.KDC.Requests)}, rec)
		default:
			c.Distinct("nondefault/" + fmt.Sprint(blk != ""))
		}
		func() { defer func() { recover() }(); cl.Destroy() }()
	}
	// (c)
	{
		vnet.Reset()
		vclock.Set(cworld.T0)
		vrand.Script(nil)
		w := cworld.New(cworld.DefaultOpts())
		wrong := int32(68)
		asOnly := func(req *krbmsg.KDCReq) *int32 {
			if req.App == krbmsg.AppASReq {
				return &wrong
			}
			return nil
		}
		w.KDC.ErrorReply, w.KDC.ErrorCRealm = asOnly, cworld.OtherRealm
		w.Other.ErrorReply, w.Other.ErrorCRealm = asOnly, cworld.Realm
		vnet.MaxDials = 400
		var lerr error
		pn := safeRun(func() { lerr = w.Client.Login() })
		vnet.MaxDials = 0
		n++
		nreq := len(w.KDC.Requests) + len(w.Other.Requests)
		rec := map[string]interface{}{"kdcs": "TEST and OTHER answer every AS-REQ with KDC_ERR_WRONG_REALM naming each other"}
		switch {
		case strings.Contains(pn, "connections opened") || nreq > 24:
			c.Violate("referral", "unbounded-attempts:wrong-realm-referral-cycle", map[string]interface{}{"requests": nreq, "panic": pn}, rec)
		case pn != "":
			c.Violate("referral", "panic:wrong-realm-referral-cycle", map[string]interface{}{"panic": pn}, rec)
		case lerr == nil:
			c.Violate("referral", "login-succeeds-although-nothing-answers:wrong-realm-referral-cycle", nil, rec)
		default:
			c.Distinct(fmt.Sprintf("wrong-realm-cycle/%d", nreq))
		}
	}
	c.Add("evaluations", n)
}

func cloneConfig(c *config.Config) *config.Config {
	n := *c
	n.Realms = nil
	for _, r := range c.Realms {
		r.KDC = append([]string(nil), r.KDC...)
		r.AdminServer = append([]string(nil), r.AdminServer...)
		r.KPasswdServer = append([]string(nil), r.KPasswdServer...)
		r.MasterKDC = append([]string(nil), r.MasterKDC...)
		n.Realms = append(n.Realms, r)
	}
	return &n
}

// retainedReplies: every sequence of three exchanges over {UDP answer, TCP answer (UDP too big), UDP answer of the
// second KDC} on one client; the byte slices returned by earlier exchanges are kept and must still hold what their
// endpoint sent after the later exchanges (a reply must not live in a buffer the library reuses).
func retainedReplies(c *engine.Ctx, req []byte) {
	if client.VerifMinimal {
		c.Note("the private sendToKDC is not reachable from this tree (minimal exports): only the Login-level enumeration ran")
		return
	}
	kinds := []string{"udp-kdc1", "tcp-kdc1", "udp-kdc2"}
	var n int64
	for a := 0; a < 3; a++ {
		for b := 0; b < 3; b++ {
			for d := 0; d < 3; d++ {
				seq := []string{kinds[a], kinds[b], kinds[d]}
				cfg := confFor(2, 1465)
				cl := client.NewWithPassword(cworld.User, cworld.Realm, "x", cfg, client.DisablePAFXFAST(true))
				var kept [][]byte
				var want [][]byte
				bad := ""
				for i, k := range seq {
					vnet.Reset()
					vclock.Set(cworld.T0)
					vrand.Script(nil)
					tag := fmt.Sprintf("exchange-%d-%s-", i, k)
					body := []byte(tag + strings.Repeat(string(rune('a'+i)), 300+50*i))
					ans := func(string, string, []byte) []byte { return body }
					refuse := &vnet.Endpoint{Behaviour: vnet.Refuse}
					for kk := 1; kk <= 2; kk++ {
						addr := fmt.Sprintf("kdc%d.test.gokrb5:88", kk)
						vnet.Register("udp", addr, refuse)
						vnet.Register("tcp", addr, refuse)
					}
					switch k {
					case "udp-kdc1":
						vnet.Register("udp", "kdc1.test.gokrb5:88", &vnet.Endpoint{Behaviour: vnet.Answer, Handler: ans})
					case "udp-kdc2":
						vnet.Register("udp", "kdc2.test.gokrb5:88", &vnet.Endpoint{Behaviour: vnet.Answer, Handler: ans})
					case "tcp-kdc1":
						vnet.Register("udp", "kdc1.test.gokrb5:88", &vnet.Endpoint{Behaviour: vnet.Answer, Handler: func(string, string, []byte) []byte { return krbErr(52) }})
						vnet.Register("tcp", "kdc1.test.gokrb5:88", &vnet.Endpoint{Behaviour: vnet.Answer, Handler: ans})
					}
					var rb []byte
					var err error
					if pn := safeRun(func() { rb, err = cl.VerifSendToKDC(req, cworld.Realm) }); pn != "" || err != nil {
						bad = fmt.Sprintf("exchange %d (%s) failed: %v %s", i, k, err, pn)
						break
					}
					kept = append(kept, rb)
					want = append(want, body)
				}
				n++
				rec := map[string]interface{}{"sequence": seq}
				if bad != "" {
					c.Violate("retained", "retained-replies:exchange-fails", map[string]interface{}{"what": bad}, rec)
					continue
				}
				for i := range kept {
					if !bytes.Equal(kept[i], want[i]) {
						c.Violate("retained", fmt.Sprintf("reply-changed-by-a-later-exchange:%s-then-%s", seq[i], seq[len(seq)-1]), map[string]interface{}{"exchange": i, "now_starts_with": string(kept[i][:min(40, len(kept[i]))])}, rec)
						break
					}
				}
				c.Distinct("retained/" + strings.Join(seq, ","))
			}
		}
	}
	c.Add("evaluations", n)
	c.Cov["retained_reply_sequences"] = n
}

func min(a, b int) int {
	if a < b {
		return a
	}
	return b
}

// sizesAndRealmNames: (a) replies of every size class over TCP (also after RESPONSE_TOO_BIG over UDP) are returned
// byte for byte, with a dead KDC tried first; (b) realms whose configured name is not upper case are served like
// any other (the name is looked up as it is written).
// udpSizesAndErrorSequences: (a) a datagram reply of every size the receive buffer can hold is returned intact when
// only UDP works; (b) every ordered pair of KRB-ERROR shapes (optional fields present / absent) sent in two
// consecutive exchanges of one process: each surfaced error is the one that was sent, field by field.
func udpSizesAndErrorSequences(c *engine.Ctx, req []byte) {
	if client.VerifMinimal {
		return
	}
	var n int64
	for _, size := range []int{1, 2, 100, 1464, 1465, 1466, 2048, 4094, 4095, 4096} {
		for _, limit := range []int{0, 100, 1465, 32700} {
			vnet.Reset()
			vclock.Set(cworld.T0)
			vrand.Script(nil)
			cfg := confFor(2, limit)
			cl := client.NewWithPassword(cworld.User, cworld.Realm, "x", cfg, client.DisablePAFXFAST(true))
			body := make([]byte, size)
			for i := range body {
				body[i] = byte(i*7 + i/251)
			}
			body[0] = 0x6b
			for _, k := range []string{"kdc1", "kdc2"} {
				vnet.Register("tcp", k+".test.gokrb5:88", &vnet.Endpoint{Behaviour: vnet.Refuse})
			}
			vnet.Register("udp", "kdc1.test.gokrb5:88", &vnet.Endpoint{Behaviour: vnet.Refuse})
			vnet.Register("udp", "kdc2.test.gokrb5:88", &vnet.Endpoint{Behaviour: vnet.Answer, Handler: func(string, string, []byte) []byte { return body }})
			var rb []byte
			var err error
			pn := safeRun(func() { rb, err = cl.VerifSendToKDC(req, cworld.Realm) })
			n++
			rec := map[string]interface{}{"udp_reply_bytes": size, "udp_preference_limit": limit, "kdcs": "TCP refused everywhere, kdc1 refuses UDP, kdc2 answers over UDP"}
			switch {
			case pn != "":
				c.Violate("sizes", "panic:udp-reply-size", map[string]interface{}{"panic": pn}, rec)
			case err != nil:
				c.Violate("sizes", "fails-although-a-kdc-answers:udp-reply-size", map[string]interface{}{"err": err.Error()}, rec)
			case !bytes.Equal(rb, body):
				c.Violate("sizes", "reply-not-returned-intact:udp-reply-size", map[string]interface{}{"returned_len": len(rb)}, rec)
			default:
				c.Distinct(fmt.Sprintf("udpsize/%d/%d", size, limit))
			}
		}
	}
	str := func(s string) *string { return &s }
	type shape struct {
		name string
		e    krbmsg.KRBError
	}
	base := func(code int32) krbmsg.KRBError {
		return krbmsg.KRBError{PVNO: 5, MsgType: 30, STime: cworld.T0, Code: code, Realm: cworld.Realm, SName: krbmsg.PrincipalName{Type: 2, Names: []string{"krbtgt", cworld.Realm}}}
	}
	full := base(25)
	full.CRealm, full.CName, full.EText, full.EData = str("CLIENT.REALM"), &krbmsg.PrincipalName{Type: 1, Names: []string{"someone"}}, str("additional pre-authentication required"), []byte{0x30, 0x03, 0x02, 0x01, 0x07}
	ct, cu := cworld.T0.Add(-3*time.Second), int64(123456)
	full.CTime, full.Cusec, full.Susec = &ct, &cu, 654321
	bare := base(6)
	textOnly := base(7)
	textOnly.EText = str("server not found")
	dataOnly := base(24)
	dataOnly.EData = []byte{0x04, 0x02, 0xab, 0xcd}
	nameOnly := base(68)
	nameOnly.CRealm, nameOnly.CName = str("OTHER.REALM"), &krbmsg.PrincipalName{Type: 10, Names: []string{"a", "b"}}
	shapes := []shape{{"all-optional-fields", full}, {"no-optional-fields", bare}, {"e-text-only", textOnly}, {"e-data-only", dataOnly}, {"client-name-only", nameOnly}}
	render := func(e krbmsg.KRBError) string {
		s := fmt.Sprintf("code=%d realm=%s sname=%v susec=%d", e.Code, e.Realm, e.SName.Names, e.Susec)
		if e.CRealm != nil {
			s += " crealm=" + *e.CRealm
		} else {
			s += " crealm="
		}
		if e.CName != nil {
			s += fmt.Sprintf(" cname=%d%v", e.CName.Type, e.CName.Names)
		} else {
			s += " cname=0[]"
		}
		if e.EText != nil {
			s += " etext=" + *e.EText
		} else {
			s += " etext="
		}
		s += fmt.Sprintf(" edata=%x", e.EData)
		if e.CTime != nil {
			s += fmt.Sprintf(" ctime=%d cusec=%d", e.CTime.Unix(), *e.Cusec)
		} else {
			s += " ctime=none"
		}
		return s
	}
	renderG := func(e messages.KRBError) string {
		s := fmt.Sprintf("code=%d realm=%s sname=%v susec=%d crealm=%s cname=%d%v etext=%s edata=%x", e.ErrorCode, e.Realm, e.SName.NameString, e.Susec, e.CRealm, e.CName.NameType, append([]string{}, e.CName.NameString...), e.EText, e.EData)
		if !e.CTime.IsZero() {
			s += fmt.Sprintf(" ctime=%d cusec=%d", e.CTime.Unix(), e.Cusec)
		} else {
			s += " ctime=none"
		}
		return s
	}
	for _, transport := range []string{"udp", "tcp"} {
		for _, first := range shapes {
			for _, second := range shapes {
				vnet.Reset()
				vclock.Set(cworld.T0)
				vrand.Script(nil)
				limit := 1465
				if transport == "tcp" {
					limit = 1
				}
				cfg := confFor(1, limit)
				cl := client.NewWithPassword(cworld.User, cworld.Realm, "x", cfg, client.DisablePAFXFAST(true))
				cur := first
				for _, nw := range []string{"udp", "tcp"} {
					vnet.Register(nw, "kdc1.test.gokrb5:88", &vnet.Endpoint{Behaviour: vnet.Answer, Handler: func(string, string, []byte) []byte { return cur.e.Encode() }})
				}
				rec := map[string]interface{}{"transport": transport, "first_error": first.name, "second_error": second.name}
				bad := false
				for step, sh := range []shape{first, second} {
					cur = sh
					var err error
					pn := safeRun(func() { _, err = cl.VerifSendToKDC(req, cworld.Realm) })
					n++
					ke, isK := err.(messages.KRBError)
					switch {
					case pn != "":
						c.Violate("errors", "panic:krb-error-sequence", map[string]interface{}{"panic": pn}, rec)
						bad = true
					case !isK:
						c.Violate("errors", "krb-error-not-surfaced-as-that-error", map[string]interface{}{"err": fmt.Sprint(err), "step": step}, rec)
						bad = true
					case renderG(ke) != render(sh.e):
						key := "krb-error-surfaced-with-other-fields"
						if step == 1 {
							key += ":second-exchange"
						}
						c.Violate("errors", key, map[string]interface{}{"surfaced": renderG(ke), "sent": render(sh.e), "step": step}, rec)
						bad = true
					}
					if bad {
						break
					}
				}
				if !bad {
					c.Distinct("errseq/" + transport + "/" + first.name + "/" + second.name)
				}
			}
		}
	}
	c.Add("evaluations", n)
}

func sizesAndRealmNames(c *engine.Ctx, req []byte) {
	if client.VerifMinimal {
		return
	}
	var n int64
	for _, size := range []int{1, 2, 100, 1464, 1465, 1466, 4095, 4096, 4097, 32767, 32768, 40000, 65535, 65536, 65537, 100000, 1 << 20} {
		for _, limit := range []int{1, 1465} {
			vnet.Reset()
			vclock.Set(cworld.T0)
			vrand.Script(nil)
			cfg := confFor(2, limit)
			cl := client.NewWithPassword(cworld.User, cworld.Realm, "x", cfg, client.DisablePAFXFAST(true))
			body := make([]byte, size)
			for i := range body {
				body[i] = byte(i*13 + i/255)
			}
			body[0] = 0x6b // not a KRB-ERROR
			vnet.Register("udp", "kdc1.test.gokrb5:88", &vnet.Endpoint{Behaviour: vnet.Refuse})
			vnet.Register("tcp", "kdc1.test.gokrb5:88", &vnet.Endpoint{Behaviour: vnet.Refuse})
			vnet.Register("udp", "kdc2.test.gokrb5:88", &vnet.Endpoint{Behaviour: vnet.Answer, Handler: func(string, string, []byte) []byte { return krbErr(52) }})
			vnet.Register("tcp", "kdc2.test.gokrb5:88", &vnet.Endpoint{Behaviour: vnet.Answer, Handler: func(string, string, []byte) []byte { return body }})
			var rb []byte
			var err error
			pn := safeRun(func() { rb, err = cl.VerifSendToKDC(req, cworld.Realm) })
			n++
			rec := map[string]interface{}{"reply_bytes": size, "udp_preference_limit": limit, "kdcs": "kdc1 dead, kdc2 answers over TCP (RESPONSE_TOO_BIG over UDP)"}
			switch {
			case pn != "":
				c.Violate("sizes", "panic:reply-size", map[string]interface{}{"panic": pn}, rec)
			case err != nil:
				c.Violate("sizes", "fails-although-a-kdc-answers:reply-size", map[string]interface{}{"err": err.Error()}, rec)
			case !bytes.Equal(rb, body):
				c.Violate("sizes", "reply-not-returned-intact:reply-size", map[string]interface{}{"returned_len": len(rb)}, rec)
			default:
				c.Distinct(fmt.Sprintf("size/%d/%d", size, limit))
			}
		}
	}
	for _, realm := range []string{"TEST.GOKRB5", "lowercase.org", "Mixed.Example.Com", "x"} {
		for _, limit := range []int{1, 1465} {
			vnet.Reset()
			vclock.Set(cworld.T0)
			vrand.Script(nil)
			o := cworld.DefaultOpts()
			o.NKDC, o.UDPLimit = 2, limit
			text := strings.ReplaceAll(cworld.ConfText(o), cworld.Realm, realm)
			cfg, err := config.NewFromString(text)
			if err != nil {
				engine.FailValid("config.NewFromString(valid configuration)", err)
			}
			cl := client.NewWithPassword(cworld.User, realm, "x", cfg, client.DisablePAFXFAST(true))
			body := reply(1, "any")
			for _, nw := range []string{"udp", "tcp"} {
				vnet.Register(nw, "kdc1.test.gokrb5:88", &vnet.Endpoint{Behaviour: vnet.Refuse})
				vnet.Register(nw, "kdc2.test.gokrb5:88", &vnet.Endpoint{Behaviour: vnet.Answer, Handler: func(string, string, []byte) []byte { return body }})
			}
			var rb []byte
			pn := safeRun(func() { rb, err = cl.VerifSendToKDC(req, realm) })
			n++
			rec := map[string]interface{}{"realm_as_configured": realm, "udp_preference_limit": limit}
			switch {
			case pn != "":
				c.Violate("realms", "panic:realm-name", map[string]interface{}{"panic": pn}, rec)
			case err != nil || !bytes.Equal(rb, body):
				c.Violate("realms", "fails-although-a-kdc-answers:realm-name-not-upper-case", map[string]interface{}{"err": fmt.Sprint(err)}, rec)
			default:
				c.Distinct("realm/" + realm)
			}
		}
	}
	c.Add("evaluations", n)
}
