// Package c11: one client and one configuration can be shared by goroutines
// safely. Stateless exploration of all interleavings (preemption-bounded) of
// small thread scenarios on the real client.Client against the simulated KDC
// under the cooperative scheduler, plus a free-running -race pass over the
// same scenario bodies for unsynchronised accesses.
package c11

import (
	"bytes"
	"fmt"
	"github.com/jcmturner/gokrb5/v8/zzverif/vnet"
	"os"
	"reflect"
	"sort"
	"strings"
	"sync"
	"time"
	"verif/ref/krbmsg"

	"verif/checks/cworld"
	"verif/engine"

	"github.com/jcmturner/gokrb5/v8/config"
	"github.com/jcmturner/gokrb5/v8/zzverif/vclock"
	"github.com/jcmturner/gokrb5/v8/zzverif/vrand"
	"github.com/jcmturner/gokrb5/v8/zzverif/vsched"
	"github.com/jcmturner/gokrb5/v8/zzverif/vsync"
)

var spns = map[string]string{"tA": "HTTP/host.test.gokrb5", "tB": "HTTP/host2.test.gokrb5", "tX": "HTTP/host.other.gokrb5"}

// Scenario: a prelude on the main thread, then concurrent threads of operations.
type Scenario struct {
	Name    string     `json:"name"`
	NKDC    int        `json:"kdcs"`
	Renew   bool       `json:"renewable"`
	Prelude []string   `json:"prelude"`
	Threads [][]string `json:"threads"`
	// Keytab: the client keytab holds several entries (the user's and a newer one of a sibling principal), in file
	// order oldest first
	Keytab bool `json:"keytab_with_several_entries,omitempty"`
	// PreAuthSecond: pre-authentication required, the client lists two etypes and the KDC holds a key for the second
	// only, so its hint names an etype that is not the first of the configured list
	PreAuthSecond bool `json:"preauth_with_second_etype,omitempty"`
}

func scenarios(thorough bool) []Scenario {
	sc := []Scenario{
		{Name: "two-tickets-same-spn", NKDC: 1, Prelude: []string{"login"}, Threads: [][]string{{"tA"}, {"tA"}}},
		{Name: "two-tickets-different-spn", NKDC: 1, Prelude: []string{"login"}, Threads: [][]string{{"tA"}, {"tB"}}},
		{Name: "tickets-without-login", NKDC: 1, Threads: [][]string{{"tA"}, {"tB"}}},
		{Name: "ticket-vs-login", NKDC: 1, Prelude: []string{"login"}, Threads: [][]string{{"tA"}, {"login"}}},
		{Name: "login-vs-login", NKDC: 1, Threads: [][]string{{"login"}, {"login"}}},
		{Name: "ticket-vs-destroy", NKDC: 1, Prelude: []string{"login", "tA"}, Threads: [][]string{{"tB"}, {"destroy"}}},
		{Name: "login-vs-destroy", NKDC: 1, Prelude: []string{"login"}, Threads: [][]string{{"login"}, {"destroy"}}},
		{Name: "ticket-vs-renewal-timer", NKDC: 1, Renew: true, Prelude: []string{"login"}, Threads: [][]string{{"tA"}, {"advTimer"}}},
		{Name: "login-vs-renewal-timer", NKDC: 1, Renew: true, Prelude: []string{"login"}, Threads: [][]string{{"login"}, {"advTimer"}}},
		{Name: "destroy-vs-renewal-timer", NKDC: 1, Renew: true, Prelude: []string{"login"}, Threads: [][]string{{"destroy"}, {"advTimer"}}},
		{Name: "cross-realm-vs-ticket", NKDC: 1, Prelude: []string{"login"}, Threads: [][]string{{"tX"}, {"tA"}}},
		{Name: "cross-realm-twice", NKDC: 1, Prelude: []string{"login"}, Threads: [][]string{{"tX"}, {"tX"}}},
		{Name: "print-vs-login", NKDC: 1, Prelude: []string{"login", "tA"}, Threads: [][]string{{"print"}, {"login"}}},
		{Name: "print-vs-destroy", NKDC: 1, Prelude: []string{"login", "tA"}, Threads: [][]string{{"print"}, {"destroy"}}},
		{Name: "cached-ticket-vs-new-ticket", NKDC: 1, Prelude: []string{"login", "tA"}, Threads: [][]string{{"tA"}, {"tB"}}},
		{Name: "two-requests-for-an-expired-renewable-ticket", NKDC: 1, Renew: true, Prelude: []string{"login", "tA", "advTimer", "advTicketEnd"}, Threads: [][]string{{"tA"}, {"tA"}}},
		{Name: "login-vs-login-keytab-with-several-entries", NKDC: 1, Keytab: true, Threads: [][]string{{"login"}, {"login"}}},
		{Name: "login-vs-login-preauth-with-the-second-etype", NKDC: 1, PreAuthSecond: true, Threads: [][]string{{"login"}, {"login"}}},
		{Name: "two-requests-for-an-expired-ticket", NKDC: 1, Prelude: []string{"login", "tA", "advTicketEnd"}, Threads: [][]string{{"tA"}, {"tA"}}},
		{Name: "expired-ticket-vs-other-ticket", NKDC: 1, Prelude: []string{"login", "tA", "tB", "advTicketEnd"}, Threads: [][]string{{"tA"}, {"tB", "print"}}},
		{Name: "getkdcs-2-kdcs", NKDC: 2, Threads: [][]string{{"getkdcs"}, {"getkdcs"}}},
		{Name: "getkdcs-3-kdcs", NKDC: 3, Threads: [][]string{{"getkdcs"}, {"getkdcs"}}},
		{Name: "getkdcs-vs-ticket-2-kdcs", NKDC: 2, Prelude: []string{"login"}, Threads: [][]string{{"getkdcs", "getkpasswd"}, {"tA"}}},
	}
	if thorough {
		sc = append(sc,
			Scenario{Name: "getkdcs-vs-ticket-3-kdcs", NKDC: 3, Prelude: []string{"login"}, Threads: [][]string{{"getkdcs", "getkpasswd"}, {"tA"}}},
			Scenario{Name: "print-vs-renewal-timer", NKDC: 1, Renew: true, Prelude: []string{"login"}, Threads: [][]string{{"print"}, {"advTimer"}}},
			Scenario{Name: "print-vs-ticket-vs-login", NKDC: 1, Prelude: []string{"login"}, Threads: [][]string{{"print"}, {"tA"}, {"login"}}},
			Scenario{Name: "three-tickets", NKDC: 1, Prelude: []string{"login"}, Threads: [][]string{{"tA"}, {"tA"}, {"tB"}}},
			Scenario{Name: "two-tickets-and-login", NKDC: 1, Prelude: []string{"login"}, Threads: [][]string{{"tA"}, {"tB"}, {"login"}}},
			Scenario{Name: "ticket-login-destroy", NKDC: 1, Prelude: []string{"login"}, Threads: [][]string{{"tA"}, {"login"}, {"destroy"}}},
			Scenario{Name: "two-tickets-and-renewal", NKDC: 1, Renew: true, Prelude: []string{"login"}, Threads: [][]string{{"tA"}, {"tA"}, {"advTimer"}}},
		)
	}
	return sc
}

type opResult struct {
	Thread int
	Op     string
	Err    string
	Ticket []byte
	Key    []byte
	KeyEt  int32
	KDCs   map[int]string
	Count  int
}

type run struct {
	w        *cworld.World
	pristine *config.Config
	results  []opResult
	mu       sync.Mutex
}

func optsFor(sc Scenario) cworld.Opts {
	o := cworld.DefaultOpts()
	o.NKDC = sc.NKDC
	if sc.Renew {
		// 5 minutes: the renewal timer fires 250 s after login, inside the 5-minute clock skew, so a request
		// that is in flight while the harness moves the clock to the timer is still acceptable to the KDC
		o.RenewLifetime = 3600e9
		o.TicketLifetime = 300e9
		o.FreshRenewKey = true // a torn (ticket, key) pair is only observable if renewal changes the key
	}
	if sc.Keytab {
		o.UserInstance = "client.test.gokrb5"
	}
	if sc.PreAuthSecond {
		o.PreAuth, o.ETypes, o.KDCKeyETypes = "required", []int32{17, 18}, []int32{18}
	}
	return o
}

func (r *run) do(thread int, op string) {
	res := opResult{Thread: thread, Op: op}
	switch op {
	case "login":
		if err := r.w.Client.Login(); err != nil {
			res.Err = err.Error()
		}
	case "destroy":
		r.w.Client.Destroy()
	case "tA", "tB", "tX":
		tkt, key, err := r.w.Client.GetServiceTicket(spns[op])
		if err != nil {
			res.Err = err.Error()
		} else {
			res.Ticket, _ = tkt.Marshal()
			res.Key, res.KeyEt = key.KeyValue, key.KeyType
		}
	case "print":
		var b bytes.Buffer
		r.w.Client.Print(&b)
		res.Count = b.Len()
	case "advTicketEnd":
		// just past the end of the earliest cached service ticket (still renewable)
		var end time.Time
		for _, e := range r.w.Client.VerifCache() {
			if end.IsZero() || e.EndTime.Before(end) {
				end = e.EndTime
			}
		}
		if !end.IsZero() {
			vclock.Set(end.Add(time.Second))
		}
	case "advTimer":
		now := vclock.Now()
		var best = now
		for _, t := range vclock.PendingTimers() {
			if t.After(now) && (best.Equal(now) || t.Before(best)) {
				best = t
			}
		}
		vclock.Set(best)
	case "getkdcs":
		cnt, m, err := r.w.Config.GetKDCs(cworld.Realm, false)
		if err != nil {
			res.Err = err.Error()
		}
		res.KDCs, res.Count = m, cnt
	case "getkpasswd":
		cnt, m, err := r.w.Config.GetKpasswdServers(cworld.Realm, true)
		if err != nil {
			res.Err = err.Error()
		}
		res.KDCs, res.Count = m, cnt
	}
	r.mu.Lock()
	r.results = append(r.results, res)
	r.mu.Unlock()
}

// judge evaluates the invariants after one execution; returns violation (key, detail) pairs.
func (r *run) judge(sc Scenario) [][2]string {
	var out [][2]string
	hasDestroy := false
	for _, t := range sc.Threads {
		for _, op := range t {
			if op == "destroy" {
				hasDestroy = true
			}
		}
	}
	pairOK := func(spn string, ticket, key []byte, et int32) bool {
		for _, k := range r.w.AllKDCs() {
			for _, is := range k.Issued {
				if strings.Join(is.SName, "/") == spn && bytes.Equal(is.Ticket, ticket) {
					return bytes.Equal(is.SessionKey, key) && is.KeyEtype == et
				}
			}
		}
		return false
	}
	for _, res := range r.results {
		switch res.Op {
		case "tA", "tB", "tX":
			if res.Err != "" {
				if !hasDestroy {
					out = append(out, [2]string{"operation-fails:" + res.Op, res.Err})
				}
				continue
			}
			if !pairOK(spns[res.Op], res.Ticket, res.Key, res.KeyEt) {
				out = append(out, [2]string{"ticket-and-key-not-issued-together:" + res.Op, fmt.Sprintf("thread %d got a (ticket, key) pair the KDC never issued together for %s", res.Thread, spns[res.Op])})
			}
		case "login":
			if res.Err != "" && !hasDestroy {
				out = append(out, [2]string{"operation-fails:login", res.Err})
			}
		case "getkdcs", "getkpasswd":
			var want []string
			for _, rl := range r.pristine.Realms {
				if rl.Realm == cworld.Realm {
					want = rl.KDC
					if res.Op == "getkpasswd" {
						want = rl.KPasswdServer
					}
				}
			}
			var got []string
			for i := 1; i <= len(res.KDCs); i++ {
				got = append(got, res.KDCs[i])
			}
			a, b := append([]string{}, got...), append([]string{}, want...)
			sort.Strings(a)
			sort.Strings(b)
			if res.Err != "" || res.Count != len(want) || !reflect.DeepEqual(a, b) {
				out = append(out, [2]string{"config:lookup-not-a-permutation:" + res.Op, fmt.Sprintf("returned %v (count %d, err %q), configured %v", got, res.Count, res.Err, want)})
			}
		}
	}
	// state after quiescence: every cached (ticket, key) and every session key was issued together
	if !hasDestroy {
		for _, e := range r.w.Client.VerifCache() {
			if !pairOK(e.SPN, e.Ticket, e.SessionKey.KeyValue, e.SessionKey.KeyType) {
				out = append(out, [2]string{"cache-entry-not-issued-together", e.SPN})
			}
		}
		for _, s := range r.w.Client.VerifSessions() {
			ok := false
			for _, k := range r.w.AllKDCs() {
				for _, is := range k.Issued {
					if bytes.Equal(is.SessionKey, s.SessionKey.KeyValue) && is.End.Equal(s.EndTime) {
						ok = true
					}
				}
			}
			if !ok {
				out = append(out, [2]string{"session-key-and-times-not-issued-together", s.Realm})
			}
		}
	}
	// the keytab the client was given is only read: it still serialises to the bytes it was loaded from
	if kt := r.w.Client.Credentials.Keytab(); !hasDestroy && r.w.Keytab != nil && kt != nil {
		if b, err := kt.Marshal(); err != nil || !bytes.Equal(b, r.w.Keytab) {
			out = append(out, [2]string{"keytab-modified-by-use", fmt.Sprintf("the client keytab no longer serialises to the bytes it was loaded from (err=%v)", err)})
		}
	}
	if !reflect.DeepEqual(r.w.Config.Realms, r.pristine.Realms) || !reflect.DeepEqual(r.w.Config.LibDefaults, r.pristine.LibDefaults) {
		out = append(out, [2]string{"config:modified-by-use", fmt.Sprintf("realms now %+v", r.w.Config.Realms)})
	}
	if v := r.w.Violations(); len(v) > 0 && !hasDestroy {
		soft := true
		for _, x := range v {
			// requests in flight across a clock jump legitimately carry the earlier time: time-relative
			// expectations (till/rtime = now + lifetime) are C10's business and are not judged here
			if !strings.Contains(x, "(soft)") && !strings.Contains(x, "configuration implies now+") {
				soft = false
			}
		}
		if !soft {
			out = append(out, [2]string{"malformed-request-under-concurrency", strings.Join(v, "; ")})
		}
	}
	return out
}

func execScenario(sc Scenario, prefix []int, maxPoints int) (*vsched.Sched, *run) {
	vclock.Virtual(cworld.T0)
	vclock.AutoTick = time.Microsecond
	r := &run{}
	x := vsched.Run(prefix, maxPoints, func() {
		r.w = cworld.New(optsFor(sc))
		r.pristine = cworld.CloneConfig(r.w.Config)
		for _, op := range sc.Prelude {
			r.do(0, op)
		}
		for i, ops := range sc.Threads {
			i, ops := i, ops
			vsched.GoNamed(fmt.Sprintf("h%d", i+1), true, func() {
				for _, op := range ops {
					r.do(i+1, op)
				}
			})
		}
	})
	return x, r
}

const shardsPerScenario = 4

func init() {
	engine.RegisterWorker("c11sched", engine.WorkerFunc{
		N: func(args []string) int { return len(scenarios(args[0] == "thorough")) * shardsPerScenario },
		Run: func(args []string, idx int, r engine.Reporter) {
			thorough := args[0] == "thorough"
			var deadline int64
			fmt.Sscan(args[1], &deadline)
			sc := scenarios(thorough)[idx/shardsPerScenario]
			if len(args) > 2 && args[2] != "" && args[2] != sc.Name {
				return
			}
			maxb := 2
			if thorough {
				maxb = 3
			}
			last := time.Now()
			stop := func() bool {
				if time.Since(last) > 2*time.Second {
					last = time.Now()
					r.Heartbeat()
				}
				return time.Now().Unix() > deadline
			}
			for b := 0; b <= maxb; b++ {
				explore(r, sc, b, idx%shardsPerScenario, b == maxb, stop)
			}
		},
	})
}

func explore(c engine.Reporter, sc Scenario, bound, shard int, final bool, stop func() bool) {
	outcomes := map[string]int{}
	e := &engine.Explorer{Bound: bound, MaxPoints: 20000, Stop: stop, Shard: shard, NShards: shardsPerScenario}
	var last *run
	e.Exec = func(prefix []int) *vsched.Sched {
		x, r := execScenario(sc, prefix, e.MaxPoints)
		last = r
		return x
	}
	e.Check = func(x *vsched.Sched) {
		rec := map[string]interface{}{"scenario": sc, "schedule": x.Choices(), "bound": bound}
		if x.Panic != "" {
			c.Violate("schedules", "panic:"+sc.Name, map[string]interface{}{"panic": x.Panic, "trace": tail(engine.Describe(x))}, rec)
			return
		}
		if x.Horizon {
			c.Violate("schedules", "livelock:"+sc.Name, map[string]interface{}{"trace_head": head(engine.Describe(x)), "trace": tail(engine.Describe(x))}, rec)
			return
		}
		for _, t := range x.Threads {
			if !t.Done && (t.Harness || !(t.Kind == "select" || t.Kind == "sleep")) {
				c.Violate("schedules", "deadlock:"+sc.Name, map[string]interface{}{"blocked": x.Blocked(), "trace": tail(engine.Describe(x))}, rec)
				return
			}
		}
		var sig []string
		for _, res := range last.results {
			sig = append(sig, fmt.Sprintf("%d:%s:%v", res.Thread, res.Op, res.Err == ""))
		}
		sort.Strings(sig)
		nreq := 0
		for _, k := range last.w.AllKDCs() {
			nreq += len(k.Requests)
		}
		outcomes[fmt.Sprintf("%s|req%d", strings.Join(sig, ","), nreq)]++
		for _, v := range last.judge(sc) {
			c.Violate("schedules", v[0]+":"+sc.Name, map[string]interface{}{"what": v[1], "trace": tail(engine.Describe(x))}, rec)
		}
	}
	e.Run(nil)
	if e.Capped {
		c.Capped(fmt.Sprintf("scenario %s bound %d shard %d stopped by budget after %d schedules", sc.Name, bound, shard, e.Schedules))
	}
	if !final {
		return
	}
	c.Add("transitions", e.Points)
	c.Add("schedules", e.Schedules)
	c.Add("evaluations", e.Schedules)
	c.Add("states", e.Schedules)
	c.Add("traces_validated_against_impl", e.Schedules)
	c.Add("schedules:"+sc.Name, e.Schedules)
	for o := range outcomes {
		c.Distinct(sc.Name + "|" + o)
	}
}

func head(t []string) []string {
	if len(t) > 200 {
		return t[:200]
	}
	return t
}

func tail(t []string) []string {
	if len(t) > 60 {
		return t[len(t)-60:]
	}
	return t
}

// Run is the check's entry point.
func Run(c *engine.Ctx) {
	c.Assume = append(c.Assume,
		"scheduling points at every shim lock/once/waitgroup acquisition, channel operation, timer wait, clock advance and in-memory network exchange; the random server order is an enumerated data choice; unsynchronised accesses are the separate free-running -race pass's job",
		"2-3 harness threads with 1-2 operations each on one client.Client and its Config against ref/simkdc; replaces the property's '2-16 goroutines, thousands of random repetitions' by exhaustive exploration within a preemption bound",
		"operations on a logged-in client must succeed unless a Destroy runs concurrently",
		"the virtual clock advances by 1 microsecond at every reading (two readings are never equal, as with a real clock); timers fire only when a harness thread advances the clock to them")
	tier := "quick"
	maxb := 2
	if c.Thorough() {
		tier, maxb = "thorough", 3
	}
	deadline := c.Start.Add(c.Budget).Unix()
	c.RunGuarded(engine.GuardSpec{Worker: "c11sched", Args: []string{tier, fmt.Sprint(deadline), os.Getenv("VERIF_C11_ONLY")}, Stall: 60 * time.Second,
		Describe: func(idx int) interface{} { return scenarios(c.Thorough())[idx/shardsPerScenario] }})
	per := map[string]interface{}{}
	for _, sc := range scenarios(c.Thorough()) {
		per[sc.Name] = map[string]interface{}{"preemption_bound": maxb, "schedules": c.Counter("schedules:" + sc.Name), "threads": sc.Threads, "prelude": sc.Prelude}
		c.Sample(sc)
	}
	c.Cov["scenarios"] = per
	inFlightHistories(c)
	racePass(c)
	c.Cov["rule"] = "every schedule within the preemption bound (0,1,2; 3 thorough) of each scenario: two (three in the thorough tier) threads issuing service-ticket requests for equal / different / other-realm SPNs, logins, destroy, the renewal timer firing, GetKDCs / GetKpasswdServers with 2-3 servers under every outcome of the random order; every sequential history up to depth 5 (6 thorough) over {login, ticket, renewal timer, clock into the last sixth of the TGT's life, ticket* and timer* = the same with a Login completing while their first TGS request is in flight}; distinct = distinct (per-thread result, KDC request count) outcome vectors per scenario"
}

// inFlightHistories: sequential histories in which a Login completes while a request of the running operation is
// in flight (the KDC has answered, the client has not yet read the reply). Events: login, ticket, the renewal timer
// firing, the clock moving into the last sixth of the TGT's life; ticket* and timer* are the same with a login
// completing while their first renewal / ticket request is in flight. Every history up to the depth runs under the
// scheduler; a thread left blocked on a channel or lock when nothing else can run is a deadlock.
func inFlightHistories(c *engine.Ctx) {
	alphabet := []string{"login", "tA", "timer", "near-end", "tA*", "timer*"}
	depth := 5
	if c.Thorough() {
		depth = 6
	}
	var n int64
	defer func() {
		if alphabet[len(alphabet)-1] == "timer~" {
			return
		}
		// second pass: Destroy as a plain event and as the operation that overtakes an in-flight request (x~), one level less deep
		alphabet = []string{"login", "tA", "timer", "near-end", "tA*", "timer*", "destroy", "tA~", "timer~"}
		depth--
		var rec2 func(h []string)
		rec2 = func(h []string) {
			if len(h) > 0 && strings.ContainsAny(strings.Join(h, ","), "~y") { // histories without Destroy were run by the first pass
				runHist(c, h, &n)
			}
			if len(h) == depth || c.Expired() {
				return
			}
			for _, ev := range alphabet {
				if len(h) == 0 && ev != "login" {
					continue
				}
				rec2(append(append([]string{}, h...), ev))
			}
		}
		rec2(nil)
		c.Add("evaluations", n)
		c.Add("states", n)
		c.Add("transitions", n)
		c.Cov["in_flight_histories"] = n
	}()
	var rec func(h []string)
	run := func(h []string) { runHist(c, h, &n) }
	rec = func(h []string) {
		if len(h) > 0 {
			run(h)
		}
		if len(h) == depth || c.Expired() {
			return
		}
		for _, ev := range alphabet {
			if len(h) == 0 && ev != "login" {
				continue // every history starts logged in
			}
			rec(append(append([]string{}, h...), ev))
		}
	}
	rec(nil)
}

// runHist runs one in-flight history under the scheduler and judges it.
func runHist(c *engine.Ctx, h []string, np *int64) {
	{
		*np++
		var w *cworld.World
		var opErr []string
		x := vsched.Run(nil, 400000, func() {
			vclock.Virtual(cworld.T0)
			vclock.AutoTick = time.Microsecond
			w = cworld.New(optsFor(Scenario{NKDC: 1, Renew: true}))
			armed := ""
			for _, nw := range []string{"udp", "tcp"} {
				vnet.Register(nw, w.KDCAddr[0], &vnet.Endpoint{Behaviour: vnet.Answer, Handler: func(network, a string, req []byte) []byte {
					rep := w.KDC.Handle(network, req)
					if r, err := krbmsg.DecodeKDCReq(req); err == nil && r.App == krbmsg.AppTGSReq && armed != "" {
						// completes while the reply to req is in flight
						if armed == "login" {
							w.Client.Login()
						} else {
							w.Client.Destroy()
						}
						armed = ""
					}
					return rep
				}})
			}
			arm := func(ev string) string {
				switch {
				case strings.HasSuffix(ev, "*"):
					return "login"
				case strings.HasSuffix(ev, "~"):
					return "destroy"
				}
				return ""
			}
			for _, ev := range h {
				switch ev {
				case "login":
					if err := w.Client.Login(); err != nil {
						opErr = append(opErr, ev+": "+err.Error())
					}
				case "destroy":
					w.Client.Destroy()
				case "tA", "tA*", "tA~":
					armed = arm(ev)
					w.Client.GetServiceTicket(spns["tA"])
					armed = ""
				case "timer", "timer*", "timer~":
					armed = arm(ev)
					var next time.Time
					for _, t := range vclock.PendingTimers() {
						if t.After(vclock.Now()) && (next.IsZero() || t.Before(next)) {
							next = t
						}
					}
					if !next.IsZero() {
						vclock.Set(next)
					}
					vsched.Quiesce()
					armed = ""
				case "near-end":
					var end time.Time
					for _, s := range w.Client.VerifSessions() {
						if s.Realm == cworld.Realm {
							end = s.EndTime
						}
					}
					if t := end.Add(-20 * time.Second); t.After(vclock.Now()) {
						vclock.Set(t)
					}
				}
				vsched.Quiesce()
			}
		})
		recd := map[string]interface{}{"history": h, "legend": "x* / x~ = a Login / Destroy completes while the first TGS request of x is in flight"}
		if x.Panic != "" {
			c.Violate("inflight", "panic:in-flight-history", map[string]interface{}{"panic": x.Panic}, recd)
			return
		}
		var blocked []string
		for _, b := range x.Blocked() {
			if !strings.HasSuffix(b, "@select") && !strings.HasSuffix(b, "@sleep") && !strings.HasSuffix(b, "@quiesce") {
				blocked = append(blocked, b)
			}
		}
		if x.Horizon {
			c.Violate("inflight", "livelock:in-flight-history", nil, recd)
		} else if len(blocked) > 0 {
			c.Violate("inflight", "deadlock:login-while-a-renewal-is-in-flight", map[string]interface{}{"blocked": blocked, "trace_tail": lastN(engine.Describe(x), 12)}, recd)
		} else {
			c.Distinct("inflight/" + strings.Join(h, ","))
		}
	}
}

func lastN(s []string, n int) []string {
	if len(s) > n {
		return s[len(s)-n:]
	}
	return s
}

// RaceBody is run by the -race build: the same scenario bodies on real goroutines.
func RaceBody(reps int) {
	runs := 0
	// one clock for the whole pass (goroutines of earlier repetitions may still be reading it)
	vclock.Virtual(cworld.T0)
	vclock.AutoTick = time.Microsecond
	for _, sc := range scenarios(true) {
		// repetitions 0..reps-1 run undisturbed; after them one pause is walked over the lock releases the threads of
		// this scenario perform (every position in the thorough tier, an even spread of at most 3*reps positions in
		// the quick tier): the k-th release is followed by a pause of vsync.DelayFor
		nrel, positions := int64(0), []int64{}
		for rep := 0; rep < reps+len(positions); rep++ {
			delayAt := int64(-1)
			if rep >= reps {
				delayAt = positions[rep-reps]
			}
			// the whole repetition (prelude, threads, final Destroy) runs beside a watchdog: a deadlock anywhere in
			// it is reported instead of hanging the pass
			var whole sync.WaitGroup
			whole.Add(1)
			go func() {
				defer whole.Done()
				vrand.Free(int64(rep))
				r := &run{}
				r.w = cworld.New(optsFor(sc))
				r.pristine = cworld.CloneConfig(r.w.Config)
				for _, op := range sc.Prelude {
					r.do(0, op)
				}
				var wg sync.WaitGroup
				start := make(chan struct{})
				for i, ops := range sc.Threads {
					wg.Add(1)
					go func(i int, ops []string) {
						defer wg.Done()
						<-start
						for _, op := range ops {
							r.do(i+1, op)
						}
					}(i, ops)
				}
				vsync.ArmDelay(delayAt)
				close(start)
				wg.Wait()
				if n := vsync.Releases(); delayAt < 0 && n > nrel {
					nrel = n
				}
				vsync.ArmDelay(-1)
				// the invariants are judged on the free-running executions too (a sample, not an enumeration)
				for _, v := range r.judge(sc) {
					// The pass has one virtual clock for all repetitions, and goroutines left by earlier repetitions (a renewal
					// loop paused by the injected delay) may still create timers on it or be woken by it: a later repetition's
					// "advance to the next timer" can then land on a stale timer. Failures whose stated cause is time (ticket
					// expired / not yet valid, clock skew) are therefore not judged on these free-running executions; the
					// controlled exploration, with a clock per execution, judges them.
					timeCaused := strings.Contains(v[1], "KRB_AP_ERR_TKT_EXPIRED") || strings.Contains(v[1], "KRB_AP_ERR_TKT_NYV") || strings.Contains(v[1], "KRB_AP_ERR_SKEW") || strings.Contains(strings.ToLower(v[1]), "clock skew")
					if !strings.HasPrefix(v[0], "malformed-request") && !(strings.HasPrefix(v[0], "operation-fails") && timeCaused) {
						fmt.Printf("RACE-INVARIANT %s:%s\t%s\n", v[0], sc.Name, strings.ReplaceAll(v[1], "\n", " "))
					}
				}
				// stop the auto-renewal goroutines of this repetition
				func() {
					defer func() { recover() }()
					r.w.Client.Destroy()
				}()
			}()
			engine.WaitOrBlocked(&whole, sc.Name, runs)
			runs++
			if rep == reps-1 {
				max := int64(3 * reps)
				if reps >= 100 || nrel <= max {
					max = nrel
				}
				for i := int64(0); i < max; i++ {
					positions = append(positions, i*nrel/max)
				}
			}
		}
	}
	fmt.Printf("RACE-RUNS %d\n", runs)
}

func racePass(c *engine.Ctx) {
	reps := 15
	if c.Thorough() {
		reps = 150
	}
	reports, runs, err := engine.RunRace("C11RACE", fmt.Sprint(reps))
	if err != nil {
		engine.Fatal("%v", err)
	}
	c.Cov["race_pass_runs"] = runs
	c.Cov["race_reports"] = len(reports)
	for _, iv := range engine.RaceInvariant {
		d := ""
		if len(iv) > 1 {
			d = iv[1]
		}
		c.Violate("race", "free-running:"+iv[0], map[string]interface{}{"what": d}, map[string]interface{}{"cmd": "vcheck-race C11RACE"})
	}
	c.Cov["race_reports_in_harness_code"] = len(engine.HarnessRaces)
	for i, h := range engine.HarnessRaces {
		if i < 3 {
			c.Note("race report with an access in harness/shim code (not a gokrb5 race): %.1500s", h)
		}
	}
	for _, r := range reports {
		c.Violate("race", "race:"+r.Key, map[string]interface{}{"report": r.Text}, map[string]interface{}{"cmd": "vcheck-race C11RACE"})
	}
}
