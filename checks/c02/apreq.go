package c02

import (
	"fmt"

	"verif/checks/apworld"
	"verif/engine"

	"github.com/jcmturner/gokrb5/v8/keytab"
	"github.com/jcmturner/gokrb5/v8/messages"
	"github.com/jcmturner/gokrb5/v8/service"
	"github.com/jcmturner/gokrb5/v8/zzverif/vclock"
)

// throughVerifyAPREQ presents whole AP-REQs to service.VerifyAPREQ: the accepted one again, and the accepted
// authenticator again inside an AP-REQ whose unauthenticated parts (the clear-text sname, realm, kvno of the
// ticket) were changed. Whenever the second presentation passes every other check it must be refused as a replay.
func throughVerifyAPREQ(c *engine.Ctx) {
	w := apworld.NewWorld(c.Seed + 5)
	kt := keytab.New()
	if err := kt.Unmarshal(w.Keytab); err != nil {
		engine.FailValid("keytab.Unmarshal(model keytab)", err)
	}
	present := func(b []byte, s *service.Settings) (bool, string) {
		var ap messages.APReq
		if err := ap.Unmarshal(b); err != nil {
			return false, "unmarshal: " + err.Error()
		}
		ok, _, err := service.VerifyAPREQ(&ap, s)
		if err != nil {
			return ok, err.Error()
		}
		return ok, ""
	}
	var n int64
	for _, override := range []string{"", apworld.Account} {
		for _, et := range []int32{18, 17, 23, 16, 19, 20} {
			base := apworld.Base(et)
			variants := []struct {
				name string
				mod  func(c *apworld.Case)
			}{
				{"identical", func(c *apworld.Case) {}},
				{"sname-other-host", func(c *apworld.Case) { c.TktSName = []string{"HTTP", apworld.OtherHost} }},
				{"sname-garbage", func(c *apworld.Case) { c.TktSName = []string{"zzz"} }},
				{"sname-empty", func(c *apworld.Case) { c.TktSName = []string{} }},
				{"sname-case-changed", func(c *apworld.Case) { c.TktSName = []string{"HTTP", "Host.Test.GOKRB5"} }},
				{"sname-type-changed", func(c *apworld.Case) { c.TktSNameType = 1 }},
				{"sname-of-account", func(c *apworld.Case) { c.TktSName = []string{apworld.Account} }},
				{"ticket-realm-changed", func(c *apworld.Case) { c.TktRealm = "OTHER.REALM" }},
				{"kvno-omitted", func(c *apworld.Case) { c.TktKVNO = 0 }},
			}
			for _, v := range variants {
				if override == "" && (v.name == "sname-of-account" || v.name == "sname-case-changed") {
					// without the override the clear-text sname selects the key: another principal holding the same
					// key is another target service by the property's definition of an authenticator's identity
					continue
				}
				vclock.Virtual(apworld.T0)
				service.VerifResetReplayCache()
				opts := []func(*service.Settings){service.DecodePAC(false)}
				if override != "" {
					opts = append(opts, service.KeytabPrincipal(override))
				}
				s := service.NewSettings(kt, opts...)
				m, err := w.Mint(base)
				if err != nil {
					engine.Fatal("mint: %v", err)
				}
				ok1, e1 := present(m.APReq, s)
				n++
				rec := map[string]interface{}{"etype": et, "keytab_principal_override": override, "second_presentation": v.name}
				if !ok1 {
					c.Violate("apreq", "valid-ap-req-rejected:"+v.name, map[string]interface{}{"err": e1}, rec)
					continue
				}
				cs := base
				v.mod(&cs)
				ok2, e2 := present(w.MintLike(cs, m), s)
				n++
				if ok2 {
					c.Violate("apreq", fmt.Sprintf("double-accept:same-authenticator-in-ap-req-with-%s:override=%v", v.name, override != ""), map[string]interface{}{"second": "accepted"}, rec)
					continue
				}
				c.Distinct(fmt.Sprintf("apreq/%v/%s/%s", override != "", v.name, errClass(e2)))
			}
		}
	}
	c.Add("evaluations", n)
	c.Cov["ap_req_level_presentations"] = n
}

func errClass(e string) string {
	for _, k := range []string{"replay", "REPEAT", "NOKEY", "key", "decrypt", "BADMATCH", "unmarshal"} {
		if len(e) > 0 && containsFold(e, k) {
			return k
		}
	}
	return "other"
}

func containsFold(s, sub string) bool {
	ls, lsub := []byte(s), []byte(sub)
	for i := range ls {
		if ls[i] >= 'A' && ls[i] <= 'Z' {
			ls[i] += 32
		}
	}
	for i := range lsub {
		if lsub[i] >= 'A' && lsub[i] <= 'Z' {
			lsub[i] += 32
		}
	}
	return len(lsub) == 0 || (len(ls) >= len(lsub) && indexOf(ls, lsub) >= 0)
}

func indexOf(a, b []byte) int {
	for i := 0; i+len(b) <= len(a); i++ {
		if string(a[i:i+len(b)]) == string(b) {
			return i
		}
	}
	return -1
}
