package c02

import (
	"fmt"
	"github.com/jcmturner/gokrb5/v8/zzverif/vsched"
	"time"

	"verif/checks/apworld"
	"verif/engine"

	"github.com/jcmturner/gokrb5/v8/keytab"
	"github.com/jcmturner/gokrb5/v8/messages"
	"github.com/jcmturner/gokrb5/v8/service"
	"github.com/jcmturner/gokrb5/v8/zzverif/vclock"
)

// throughVerifyAPREQ presents whole AP-REQs to service.VerifyAPREQ: the accepted one again, and the accepted
// authenticator again inside an AP-REQ whose unauthenticated parts (the clear-text sname, realm, kvno of the
// ticket) were changed. Whenever the second presentation passes every other check it must be refused as a replay.
func throughVerifyAPREQ(c *engine.Ctx) {
	w := apworld.NewWorld(c.Seed + 5)
	kt := keytab.New()
	if err := kt.Unmarshal(w.Keytab); err != nil {
		engine.FailValid("keytab.Unmarshal(model keytab)", err)
	}
	present := func(b []byte, s *service.Settings) (bool, string) {
		var ap messages.APReq
		if err := ap.Unmarshal(b); err != nil {
			return false, "unmarshal: " + err.Error()
		}
		ok, _, err := service.VerifyAPREQ(&ap, s)
		if err != nil {
			return ok, err.Error()
		}
		return ok, ""
	}
	var n int64
	for _, override := range []string{"", apworld.Account} {
		for _, et := range []int32{18, 17, 23, 16, 19, 20} {
			base := apworld.Base(et)
			variants := []struct {
				name string
				mod  func(c *apworld.Case)
			}{
				{"identical", func(c *apworld.Case) {}},
				{"sname-other-host", func(c *apworld.Case) { c.TktSName = []string{"HTTP", apworld.OtherHost} }},
				{"sname-garbage", func(c *apworld.Case) { c.TktSName = []string{"zzz"} }},
				{"sname-empty", func(c *apworld.Case) { c.TktSName = []string{} }},
				{"sname-case-changed", func(c *apworld.Case) { c.TktSName = []string{"HTTP", "Host.Test.GOKRB5"} }},
				{"sname-type-changed", func(c *apworld.Case) { c.TktSNameType = 1 }},
				{"sname-of-account", func(c *apworld.Case) { c.TktSName = []string{apworld.Account} }},
				{"ticket-realm-changed", func(c *apworld.Case) { c.TktRealm = "OTHER.REALM" }},
				{"kvno-omitted", func(c *apworld.Case) { c.TktKVNO = 0 }},
				// the same name text in another split of components (renders to the same string)
				{"sname-resplit-joined", func(c *apworld.Case) { c.TktSName = []string{"HTTP/" + apworld.SvcHost} }},
				{"sname-resplit-empty-tail", func(c *apworld.Case) { c.TktSName = []string{"HTTP", apworld.SvcHost, ""} }},
			}
			for _, v := range variants {
				if override == "" && (v.name == "sname-of-account" || v.name == "sname-case-changed") {
					// without the override the clear-text sname selects the key: another principal holding the same
					// key is another target service by the property's definition of an authenticator's identity
					continue
				}
				vclock.Virtual(apworld.T0)
				service.VerifResetReplayCache()
				opts := []func(*service.Settings){service.DecodePAC(false)}
				if override != "" {
					opts = append(opts, service.KeytabPrincipal(override))
				}
				s := service.NewSettings(kt, opts...)
				m, err := w.Mint(base)
				if err != nil {
					engine.Fatal("mint: %v", err)
				}
				ok1, e1 := present(m.APReq, s)
				n++
				rec := map[string]interface{}{"etype": et, "keytab_principal_override": override, "second_presentation": v.name}
				if !ok1 {
					c.Violate("apreq", "valid-ap-req-rejected:"+v.name, map[string]interface{}{"err": e1}, rec)
					continue
				}
				cs := base
				v.mod(&cs)
				ok2, e2 := present(w.MintLike(cs, m), s)
				n++
				if ok2 {
					c.Violate("apreq", fmt.Sprintf("double-accept:same-authenticator-in-ap-req-with-%s:override=%v", v.name, override != ""), map[string]interface{}{"second": "accepted"}, rec)
					continue
				}
				c.Distinct(fmt.Sprintf("apreq/%v/%s/%s", override != "", v.name, errClass(e2)))
			}
		}
	}
	// (a2) another AP-REQ altogether - freshly minted ticket and authenticator ciphertexts - whose authenticator has the
	// same client, client time (with microseconds) and target service but differs in what the property's identity of an
	// authenticator does not include: sequence number, name type
	for _, et := range []int32{18, 23} {
		for _, v := range []struct {
			name string
			mod  func(c *apworld.Case)
		}{
			{"other-sequence-number", func(c *apworld.Case) { c.SeqNum = 2002 }},
			{"sequence-number-zero", func(c *apworld.Case) { c.SeqNum = 0 }},
			{"other-cname-type", func(c *apworld.Case) { c.CNameType, c.ACNameType = 10, 10 }},
			{"reminted-identical", func(c *apworld.Case) {}},
		} {
			vclock.Virtual(apworld.T0)
			service.VerifResetReplayCache()
			s := service.NewSettings(kt, service.DecodePAC(false))
			base := apworld.Base(et)
			m1, err := w.Mint(base)
			if err != nil {
				engine.Fatal("mint: %v", err)
			}
			cs := base
			v.mod(&cs)
			m2, err := w.Mint(cs)
			if err != nil {
				engine.Fatal("mint: %v", err)
			}
			rec := map[string]interface{}{"etype": et, "second_ap_req": "same client, ctime+cusec and service; " + v.name}
			ok1, e1 := present(m1.APReq, s)
			n += 2
			if !ok1 {
				c.Violate("apreq", "valid-ap-req-rejected:"+v.name, map[string]interface{}{"err": e1}, rec)
				continue
			}
			if ok2, _ := present(m2.APReq, s); ok2 {
				c.Violate("apreq", "double-accept:same-client-time-and-service:"+v.name, nil, rec)
				continue
			}
			c.Distinct(fmt.Sprintf("apreq/same-tuple/%d/%s", et, v.name))
		}
	}
	// (b) one process, two service configurations with different clock skews, used alternately: what was accepted
	// under one is still a replay when it comes back after the other was used
	for _, et := range []int32{18, 23} {
		vclock.Virtual(apworld.T0)
		service.VerifResetReplayCache()
		sA := service.NewSettings(kt, service.DecodePAC(false), service.MaxClockSkew(5*time.Minute))
		sB := service.NewSettings(kt, service.DecodePAC(false), service.MaxClockSkew(2*time.Minute))
		sC := service.NewSettings(kt, service.DecodePAC(false))
		x, _ := w.Mint(apworld.Base(et))
		other := apworld.Base(et)
		other.CTime = 7 * time.Millisecond
		y, _ := w.Mint(other)
		other.CTime = 9 * time.Millisecond
		z, _ := w.Mint(other)
		rec := map[string]interface{}{"etype": et, "what": "X under skew 5m, Y under skew 2m, Z under the default skew, X again under each"}
		ok1, e1 := present(x.APReq, sA)
		present(y.APReq, sB)
		present(z.APReq, sC)
		n += 3
		if !ok1 {
			c.Violate("apreq", "valid-ap-req-rejected:two-skews", map[string]interface{}{"err": e1}, rec)
			continue
		}
		for name, s := range map[string]*service.Settings{"5m": sA, "2m": sB, "default": sC} {
			n++
			if ok, _ := present(x.APReq, s); ok {
				c.Violate("apreq", "double-accept:after-a-configuration-with-another-skew-was-used:again-under-"+name, nil, rec)
			}
		}
		c.Distinct(fmt.Sprintf("apreq/two-skews/%d", et))
	}
	// (c) many other authenticators in between: X, then 3000 distinct authenticators of the same client and 3000 of
	// other clients (all inside the window), then X again
	{
		service.VerifResetReplayCache()
		vclock.Virtual(T0)
		rc := service.GetReplayCache(skew)
		x := P("A", 0, "S1")
		sn, a := authenticator(x)
		first := rc.IsReplay(sn, a)
		for i := 1; i <= 3000; i++ {
			o := P("A", time.Duration(i)*time.Millisecond, "S1")
			s2, a2 := authenticator(o)
			rc.IsReplay(s2, a2)
			o2 := P(fmt.Sprintf("client%d", i), 0, "S1")
			s3, a3 := authenticator(o2)
			rc.IsReplay(s3, a3)
		}
		n += 6002
		sn, a = authenticator(x)
		if first || !rc.IsReplay(sn, a) {
			c.Violate("apreq", "double-accept:after-6000-other-authenticators", map[string]interface{}{"first_presentation_called_replay": first}, map[string]interface{}{"history": "X, 3000 other authenticators of the same client, 3000 of other clients, X"})
		} else {
			c.Distinct("apreq/long-history")
		}
	}
	// (d) the edge of the window through VerifyAPREQ: X accepted, the clock moves to just before / onto / just past
	// the instant X stops passing the skew check (sub-second steps), clean-up runs with the same duration, X comes
	// back. Whatever the reason given, X is not accepted a second time; the skew check and the cache's retention
	// have to agree at every one of these instants. Client clocks ahead of / behind the service's included.
	for _, d := range []time.Duration{2 * time.Second, 5 * time.Minute, 2500 * time.Millisecond} {
		for _, ahead := range []time.Duration{0, 1500 * time.Millisecond, -1500 * time.Millisecond, d, -d} {
			for _, step := range []time.Duration{-time.Second, -time.Nanosecond, 0, time.Nanosecond, time.Microsecond, 300 * time.Millisecond, 500 * time.Millisecond, 999 * time.Millisecond, time.Second, 1500 * time.Millisecond} {
				for _, cleanup := range []bool{false, true} {
					vclock.Virtual(apworld.T0)
					service.VerifResetReplayCache()
					s := service.NewSettings(kt, service.DecodePAC(false), service.MaxClockSkew(d))
					cs := apworld.Base(18)
					cs.CTime = ahead
					m, err := w.Mint(cs)
					if err != nil {
						engine.Fatal("mint: %v", err)
					}
					rec := map[string]interface{}{"skew": d.String(), "client_clock_ahead_by": ahead.String(), "clock_moved_to_window_end_plus": step.String(), "cleanup_before_second_presentation": cleanup}
					ok1, e1 := present(m.APReq, s)
					n++
					if !ok1 {
						c.Violate("apreq", "valid-ap-req-rejected:window-edge", map[string]interface{}{"err": e1}, rec)
						continue
					}
					// X passes the skew check while now <= ctime + d
					vclock.Set(apworld.T0.Add(ahead + d + step))
					if cleanup {
						service.GetReplayCache(d).ClearOldEntries(d)
					}
					ok2, _ := present(m.APReq, s)
					n++
					if ok2 {
						c.Violate("apreq", fmt.Sprintf("double-accept:window-edge:cleanup=%v", cleanup), nil, rec)
						continue
					}
					c.Distinct(fmt.Sprintf("apreq/edge/%v/%v/%v/%v", d, ahead, step, cleanup))
				}
			}
		}
	}
	c.Add("evaluations", n)
	c.Cov["ap_req_level_presentations"] = n
	concurrentVerifyAPREQ(c, w, kt)
}

// concurrentVerifyAPREQ: two (three in the thorough tier) threads present the same AP-REQ to service.VerifyAPREQ;
// every interleaving at the synchronisation operations is explored; exactly one presentation is accepted.
func concurrentVerifyAPREQ(c *engine.Ctx, w *apworld.World, kt *keytab.Keytab) {
	nthreads := 2
	if c.Thorough() {
		nthreads = 3
	}
	for _, pac := range []bool{false, true} {
		m, err := w.Mint(apworld.Base(18))
		if err != nil {
			engine.Fatal("mint: %v", err)
		}
		var accepted []bool
		e := &engine.Explorer{Bound: 2, MaxPoints: 5000, Stop: c.Expired}
		e.Exec = func(prefix []int) *vsched.Sched {
			service.VerifResetReplayCache()
			vclock.Virtual(apworld.T0)
			accepted = make([]bool, nthreads)
			s := service.NewSettings(kt, service.DecodePAC(pac))
			return vsched.Run(prefix, e.MaxPoints, func() {
				for i := 0; i < nthreads; i++ {
					i := i
					vsched.GoNamed(fmt.Sprintf("p%d", i), true, func() {
						var ap messages.APReq
						if ap.Unmarshal(m.APReq) != nil {
							return
						}
						ok, _, _ := service.VerifyAPREQ(&ap, s)
						accepted[i] = ok
					})
				}
			})
		}
		e.Check = func(x *vsched.Sched) {
			rec := map[string]interface{}{"threads": nthreads, "decode_pac": pac, "schedule": x.Choices(), "trace": engine.Describe(x)}
			if x.Panic != "" {
				c.Violate("apreq", "panic:concurrent-VerifyAPREQ", map[string]interface{}{"panic": x.Panic}, rec)
				return
			}
			na := 0
			for _, a := range accepted {
				if a {
					na++
				}
			}
			switch {
			case na > 1:
				c.Violate("apreq", "sched:double-accept:same-AP-REQ-through-VerifyAPREQ", map[string]interface{}{"accepted": na}, rec)
			case na == 0:
				c.Violate("apreq", "valid-ap-req-rejected:concurrent-VerifyAPREQ", nil, rec)
			default:
				c.Distinct(fmt.Sprintf("apreq/concurrent/%v/%d", pac, len(x.Trace)))
			}
		}
		e.Run(nil)
		c.Add("schedules", e.Schedules)
		c.Add("evaluations", e.Schedules)
		c.Note("concurrent VerifyAPREQ (decode_pac=%v): schedules=%d capped=%v", pac, e.Schedules, e.Capped)
	}
}

func errClass(e string) string {
	for _, k := range []string{"replay", "REPEAT", "NOKEY", "key", "decrypt", "BADMATCH", "unmarshal"} {
		if len(e) > 0 && containsFold(e, k) {
			return k
		}
	}
	return "other"
}

func containsFold(s, sub string) bool {
	ls, lsub := []byte(s), []byte(sub)
	for i := range ls {
		if ls[i] >= 'A' && ls[i] <= 'Z' {
			ls[i] += 32
		}
	}
	for i := range lsub {
		if lsub[i] >= 'A' && lsub[i] <= 'Z' {
			lsub[i] += 32
		}
	}
	return len(lsub) == 0 || (len(ls) >= len(lsub) && indexOf(ls, lsub) >= 0)
}

func indexOf(a, b []byte) int {
	for i := 0; i+len(b) <= len(a); i++ {
		if string(a[i:i+len(b)]) == string(b) {
			return i
		}
	}
	return -1
}
