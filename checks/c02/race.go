package c02

import (
	"fmt"
	"sync"
	"time"

	"verif/engine"

	"github.com/jcmturner/gokrb5/v8/service"
	"github.com/jcmturner/gokrb5/v8/zzverif/vclock"
)

// RaceBody is run by the -race build: the same scenario bodies, free-running
// on real goroutines with the real sync primitives (shims pass through when no
// scheduler is active), every scenario repeated.
func RaceBody(reps int) {
	vclock.WakeSleepers = true
	runs := 0
	// One singleton for the whole pass (resetting it under its live clean-up
	// goroutine would itself be a race): every repetition moves the clock on
	// by an hour and uses its own client names.
	service.VerifResetReplayCache()
	vclock.Virtual(T0)
	for _, sc := range scenarios(true) {
		for r := 0; r < reps; r++ {
			T0 = T0.Add(time.Hour)
			vclock.Set(T0)
			clientSuffix = fmt.Sprintf("-%d", runs)
			var mu sync.Mutex
			var rec []pres
			seq := 0
			runOps(0, sc.Prelude, &rec, &seq)
			var wg sync.WaitGroup
			start := make(chan struct{})
			for i, ops := range sc.Threads {
				wg.Add(1)
				go func(i int, ops []Op) {
					defer wg.Done()
					<-start
					var lrec []pres
					lseq := 0
					runOps(i+1, ops, &lrec, &lseq)
					mu.Lock()
					rec = append(rec, lrec...)
					mu.Unlock()
				}(i, ops)
			}
			close(start)
			engine.WaitOrBlocked(&wg, "C02 race pass", 0)
			runs++
		}
	}
	fmt.Printf("RACE-RUNS %d\n", runs)
}

func racePass(c *engine.Ctx) {
	reps := 60
	if c.Thorough() {
		reps = 400
	}
	reports, runs, err := engine.RunRace("C02RACE", fmt.Sprint(reps))
	if err != nil {
		engine.Fatal("%v", err)
	}
	c.Cov["race_pass_runs"] = runs
	c.Cov["race_reports"] = len(reports)
	for _, r := range reports {
		c.Violate("race", "race:"+r.Key, map[string]interface{}{"report": r.Text}, map[string]interface{}{"cmd": "vcheck-race C02RACE"})
	}
}
