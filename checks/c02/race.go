package c02

import (
	"fmt"
	"sync"
	"sync/atomic"
	"time"

	"verif/engine"

	"github.com/jcmturner/gokrb5/v8/service"
	"github.com/jcmturner/gokrb5/v8/zzverif/vclock"
)

// RaceBody is run by the -race build: the same scenario bodies, free-running
// on real goroutines with the real sync primitives (shims pass through when no
// scheduler is active), every scenario repeated.
func RaceBody(reps int) {
	vclock.WakeSleepers = true
	runs := 0
	// One singleton for the whole pass (resetting it under its live clean-up
	// goroutine would itself be a race): every repetition moves the clock on
	// by an hour and uses its own client names.
	service.VerifResetReplayCache()
	vclock.Virtual(T0)
	for _, sc := range scenarios(true) {
		for r := 0; r < reps; r++ {
			T0 = T0.Add(time.Hour)
			vclock.Set(T0)
			clientSuffix = fmt.Sprintf("-%d", runs)
			var mu sync.Mutex
			var rec []pres
			seq := 0
			runOps(0, sc.Prelude, &rec, &seq)
			var wg sync.WaitGroup
			start := make(chan struct{})
			for i, ops := range sc.Threads {
				wg.Add(1)
				go func(i int, ops []Op) {
					defer wg.Done()
					<-start
					var lrec []pres
					lseq := 0
					runOps(i+1, ops, &lrec, &lseq)
					mu.Lock()
					rec = append(rec, lrec...)
					mu.Unlock()
				}(i, ops)
			}
			close(start)
			engine.WaitOrBlocked(&wg, "C02 race pass", 0)
			runs++
		}
	}
	fmt.Printf("RACE-RUNS %d\n", runs)
}

// ColdStartBody is run by the -race build in a fresh process: the very first use of the replay cache in the process is
// concurrent - 8 goroutines present the same authenticator, then a second one - so that the cache's lazy set-up itself
// is what runs in parallel. Exactly one presentation of each authenticator may be called "not a replay".
func ColdStartBody() {
	vclock.Virtual(T0)
	for round, o := range []Op{P("cold", 0, "S1"), P("cold", time.Millisecond, "S1")} {
		var wg sync.WaitGroup
		var fresh int64
		start := make(chan struct{})
		for i := 0; i < 8; i++ {
			wg.Add(1)
			go func() {
				defer wg.Done()
				sn, a := authenticator(o)
				<-start
				if !service.GetReplayCache(skew).IsReplay(sn, a) {
					atomic.AddInt64(&fresh, 1)
				}
			}()
		}
		close(start)
		engine.WaitOrBlocked(&wg, "C02 cold start", round)
		if fresh != 1 {
			fmt.Printf("RACE-INVARIANT cold-start:accepted-%d-times\tround %d: %d of 8 concurrent first presentations of one authenticator were not called a replay\n", fresh, round, fresh)
		}
	}
	fmt.Printf("RACE-RUNS 1\n")
}

func racePass(c *engine.Ctx) {
	// fresh processes whose first use of the cache is concurrent (the lazy set-up runs once per process)
	cold := 12
	if c.Thorough() {
		cold = 60
	}
	for i := 0; i < cold; i++ {
		reports, _, err := engine.RunRace("C02COLD")
		if err != nil {
			engine.Fatal("%v", err)
		}
		for _, r := range reports {
			c.Violate("race", "race:cold-start:"+r.Key, map[string]interface{}{"report": r.Text}, map[string]interface{}{"cmd": "vcheck-race C02COLD"})
		}
		for _, iv := range engine.RaceInvariant {
			d := ""
			if len(iv) > 1 {
				d = iv[1]
			}
			c.Violate("race", "free-running:"+iv[0], map[string]interface{}{"what": d}, map[string]interface{}{"cmd": "vcheck-race C02COLD"})
		}
	}
	c.Cov["cold_start_processes"] = cold
	reps := 60
	if c.Thorough() {
		reps = 400
	}
	reports, runs, err := engine.RunRace("C02RACE", fmt.Sprint(reps))
	if err != nil {
		engine.Fatal("%v", err)
	}
	c.Cov["race_pass_runs"] = runs
	c.Cov["race_reports"] = len(reports)
	for _, r := range reports {
		c.Violate("race", "race:"+r.Key, map[string]interface{}{"report": r.Text}, map[string]interface{}{"cmd": "vcheck-race C02RACE"})
	}
}
