package c02

import (
	"fmt"
	"sort"
	"strings"
	"time"

	"verif/engine"

	"github.com/jcmturner/gokrb5/v8/service"
	"github.com/jcmturner/gokrb5/v8/zzverif/vclock"
)

// Ev is one history event.
type Ev struct {
	Op      Op   `json:"op"`
	Cleanup bool `json:"cleanup,omitempty"`
}

func (e Ev) String() string {
	if e.Cleanup {
		return "cleanup"
	}
	return e.Op.String()
}

func alphabet() []Ev {
	var evs []Ev
	for _, cl := range []string{"A", "B"} {
		for _, ct := range []time.Duration{0, skew, -skew} {
			for _, sv := range []string{"S1", "S2", "s1"} {
				evs = append(evs, Ev{Op: P(cl, ct, sv)})
			}
		}
	}
	// a client time with microseconds late in the window, presented again in its last sub-second; the same
	// instant held in a freshly allocated zone
	sub := skew - 300*time.Millisecond + 123*time.Microsecond
	zoned := P("A", 0, "S1")
	zoned.Zone = true
	evs = append(evs, Ev{Op: P("A", sub, "S1")}, Ev{Op: zoned})
	evs = append(evs, Ev{Op: A(skew / 2)}, Ev{Op: A(skew + 1)}, Ev{Op: A(2*skew - 500*time.Millisecond)}, Ev{Cleanup: true})
	return evs
}

type refEntry struct {
	id string
	ct time.Time
}

// replayHistory runs hist on a fresh singleton cache and a fresh reference
// and returns the canonical state key, plus the first mismatch if any.
func replayHistory(hist []Ev) (key string, mismatch string, judged int, class string) {
	service.VerifResetReplayCache()
	vclock.Virtual(T0)
	rc := service.GetReplayCache(skew)
	ref := map[string]time.Time{}
	acceptedBy := map[string][]string{} // client|ct -> services accepted (classification)
	lastCleanupAfterAdvance := false
	for i, ev := range hist {
		now := vclock.Now()
		switch {
		case ev.Cleanup:
			rc.ClearOldEntries(skew)
			lastCleanupAfterAdvance = true
		case ev.Op.Kind == "advance":
			vclock.Advance(ev.Op.D)
			now = vclock.Now()
			for id, ct := range ref {
				if now.Sub(ct) > skew {
					delete(ref, id) // can never be presented inside the window again
				}
			}
		default:
			ct := T0.Add(ev.Op.CT)
			d := now.Sub(ct)
			if d > skew || -d > skew {
				continue // outside the window: the service rejects on skew before the cache is consulted
			}
			sn, a := authenticator(ev.Op)
			got := rc.IsReplay(sn, a)
			_, want := ref[ev.Op.ident()]
			judged++
			if got != want && mismatch == "" {
				mismatch = fmt.Sprintf("event %d %s: cache said replay=%v, reference says replay=%v", i, ev, got, want)
				cc := fmt.Sprintf("%s|%d", ev.Op.Client, ev.Op.CT)
				switch {
				case !got && want && len(acceptedBy[cc]) > 1:
					class = "double-accept:other-service-overwrote-entry"
				case !got && want && lastCleanupAfterAdvance:
					class = "double-accept:entry-expired-by-presentation-time"
				case !got && want:
					class = "double-accept:other"
				default:
					class = "false-replay"
				}
			}
			if !want {
				ref[ev.Op.ident()] = ct
				cc := fmt.Sprintf("%s|%d", ev.Op.Client, ev.Op.CT)
				acceptedBy[cc] = append(acceptedBy[cc], ev.Op.Svc)
			}
		}
	}
	// canonical key: implementation dump and reference set, times relative to now
	now := vclock.Now()
	var parts []string
	for _, e := range rc.VerifDump() {
		parts = append(parts, fmt.Sprintf("I:%s|%d|%s|%d", e.Client, e.CTime.Sub(now), e.SName, e.Presented.Sub(now)))
	}
	var rp []string
	for id, ct := range ref {
		rp = append(rp, fmt.Sprintf("R:%s|%d", id, ct.Sub(now)))
	}
	sort.Strings(rp)
	// absolute clock phase matters for which alphabet timestamps are inside the window
	parts = append(parts, rp...)
	parts = append(parts, fmt.Sprintf("now:%d", now.Sub(T0)))
	return strings.Join(parts, ";"), mismatch, judged, class
}

func histories(c *engine.Ctx) {
	depth := 5
	if c.Thorough() {
		depth = 7
	}
	alpha := alphabet()
	seen := map[string]bool{}
	k0, _, _, _ := replayHistory(nil)
	seen[k0] = true
	frontier := [][]Ev{nil}
	var states, transitions, judgedTotal int64 = 1, 0, 0
	maxDepth := 0
	exhausted := true
	for d := 0; d < depth && len(frontier) > 0; d++ {
		var next [][]Ev
		for _, h := range frontier {
			if c.Expired() {
				exhausted = false
				break
			}
			for _, ev := range alpha {
				nh := append(append([]Ev{}, h...), ev)
				key, mism, judged, class := replayHistory(nh)
				transitions++
				judgedTotal += int64(judged)
				if mism != "" {
					c.Violate("histories", "hist:"+class, map[string]interface{}{"what": mism, "history": fmt.Sprint(nh)}, map[string]interface{}{"history": nh})
					continue // do not extend a history whose reference and implementation already disagree
				}
				if !seen[key] {
					seen[key] = true
					states++
					next = append(next, nh)
					if judged > 0 {
						c.Distinct("hist:" + key)
					}
					if states%5000 == 1 {
						c.Sample(map[string]interface{}{"history": fmt.Sprint(nh), "state": key})
					}
				}
			}
		}
		if len(next) > 0 {
			maxDepth = d + 1
		}
		frontier = next
	}
	if !exhausted {
		c.Capped("history BFS stopped by budget")
	}
	c.Add("states", states)
	c.Add("transitions", transitions)
	c.Add("evaluations", transitions)
	c.Add("traces_validated_against_impl", transitions)
	c.Cov["history_depth"] = depth
	c.Cov["history_states"] = states
	c.Cov["history_transitions"] = transitions
	c.Cov["history_max_depth_reached"] = maxDepth
	c.Cov["history_frontier_left"] = len(frontier)
	c.Cov["history_judged_presentations"] = judgedTotal
}
