// Package c02: an authenticator is accepted at most once while it remains
// acceptable. (a) all interleavings of small thread scenarios over the real
// replay cache under the cooperative scheduler, preemption-bounded and then
// unbounded; (b) all histories of presentations / clock advances / clean-ups
// up to a depth, breadth-first with canonical-state deduplication, against a
// reference set model.
package c02

import (
	"fmt"
	"sort"
	"strings"
	"time"

	"verif/engine"

	"github.com/jcmturner/gokrb5/v8/iana/nametype"
	"github.com/jcmturner/gokrb5/v8/service"
	"github.com/jcmturner/gokrb5/v8/types"
	"github.com/jcmturner/gokrb5/v8/zzverif/vclock"
	"github.com/jcmturner/gokrb5/v8/zzverif/vsched"
)

var T0 = time.Date(2030, 1, 2, 3, 4, 5, 0, time.UTC)

const skew = 5 * time.Minute

// Op is one harness operation.
type Op struct {
	Kind   string        `json:"kind"` // "present" | "advance"
	Client string        `json:"client,omitempty"`
	CT     time.Duration `json:"ct_offset_ns,omitempty"` // client timestamp relative to T0
	Svc    string        `json:"svc,omitempty"`
	D      time.Duration `json:"advance_ns,omitempty"`
	// Zone: the client time is held in a freshly allocated time zone (what decoding a KerberosTime written with
	// a zone offset gives); the instant, and therefore the authenticator's identity, is the same
	Zone bool `json:"ctime_in_fresh_zone,omitempty"`
}

func (o Op) String() string {
	if o.Kind == "advance" {
		return fmt.Sprintf("advance(%v)", o.D)
	}
	z := ""
	if o.Zone {
		z = ",zone+0130"
	}
	return fmt.Sprintf("present(%s,ct=T0%+v,%s%s)", o.Client, o.CT, o.Svc, z)
}

func (o Op) ident() string { return fmt.Sprintf("%s|%d|%s", o.Client, o.CT, o.Svc) }

// Scenario is a prelude run by the main thread followed by concurrent threads.
type Scenario struct {
	Name    string `json:"name"`
	Prelude []Op   `json:"prelude"`
	Threads [][]Op `json:"threads"`
}

func P(c string, ct time.Duration, s string) Op {
	return Op{Kind: "present", Client: c, CT: ct, Svc: s}
}
func A(d time.Duration) Op { return Op{Kind: "advance", D: d} }

func scenarios(thorough bool) []Scenario {
	late := skew // client clock ahead by the full skew: still acceptable for 2*skew
	sc := []Scenario{
		{Name: "S1-two-same", Threads: [][]Op{{P("A", 0, "S1")}, {P("A", 0, "S1")}}},
		{Name: "S2-three-same", Threads: [][]Op{{P("A", 0, "S1")}, {P("A", 0, "S1")}, {P("A", 0, "S1")}}},
		{Name: "S3-two-same-one-other-client", Threads: [][]Op{{P("A", 0, "S1")}, {P("A", 0, "S1")}, {P("B", 0, "S1")}}},
		{Name: "S3b-two-same-one-other-time", Threads: [][]Op{{P("A", 0, "S1")}, {P("A", 0, "S1")}, {P("A", time.Microsecond, "S1")}}},
		{Name: "S3c-known-client-two-same", Prelude: []Op{P("A", -time.Second, "S1")}, Threads: [][]Op{{P("A", 0, "S1")}, {P("A", 0, "S1")}}},
		{Name: "S4-two-services-then-replay", Threads: [][]Op{{P("A", 0, "S1"), P("A", 0, "S1")}, {P("A", 0, "S2")}}},
		{Name: "S4b-two-services-sequential", Prelude: []Op{P("A", 0, "S1"), P("A", 0, "S2")}, Threads: [][]Op{{P("A", 0, "S1")}, {P("A", 0, "S2")}}},
		{Name: "S4c-service-names-differing-in-case", Threads: [][]Op{{P("A", 0, "S1"), P("A", 0, "S1")}, {P("A", 0, "s1")}}},
		{Name: "S5-late-window-cleanup", Prelude: []Op{P("A", late, "S1")}, Threads: [][]Op{{A(skew + 1)}, {P("A", late, "S1")}}},
		{Name: "S5b-half-skew-advances", Threads: [][]Op{{P("A", 0, "S1")}, {A(skew / 2), A(skew / 2)}, {P("A", 0, "S1")}}},
		{Name: "S6-insert-vs-cleanup", Prelude: []Op{P("A", -skew, "S1")}, Threads: [][]Op{{A(skew + 1)}, {P("A", late, "S1"), P("A", late, "S1")}}},
		{Name: "S6b-insert-vs-cleanup-2", Prelude: []Op{P("A", -skew, "S1")}, Threads: [][]Op{{A(skew + 1)}, {P("A", late, "S1")}, {P("A", late, "S1")}}},
	}
	if thorough {
		sc = append(sc,
			Scenario{Name: "T1-four-same", Threads: [][]Op{{P("A", 0, "S1")}, {P("A", 0, "S1")}, {P("A", 0, "S1")}, {P("A", 0, "S1")}}},
			Scenario{Name: "T2-two-clients-twice", Threads: [][]Op{{P("A", 0, "S1"), P("B", 0, "S1")}, {P("B", 0, "S1"), P("A", 0, "S1")}}},
			Scenario{Name: "T3-cleanup-three", Prelude: []Op{P("A", -skew, "S1"), P("B", -skew, "S1")}, Threads: [][]Op{{A(skew + 1)}, {P("A", late, "S1"), P("B", late, "S1")}, {P("A", late, "S1")}}},
		)
	}
	return sc
}

type pres struct {
	Op         Op
	Thread     int
	Start, End time.Time
	Replay     bool
	Seq        int
}

var clientSuffix string

func authenticator(o Op) (types.PrincipalName, types.Authenticator) {
	ct := T0.Add(o.CT)
	a := types.Authenticator{
		AVNO:   5,
		CRealm: "TEST.GOKRB5",
		CName:  types.PrincipalName{NameType: nametype.KRB_NT_PRINCIPAL, NameString: []string{o.Client + clientSuffix}},
		CTime:  ct.Truncate(time.Second),
		Cusec:  int(ct.Sub(ct.Truncate(time.Second)) / time.Microsecond),
	}
	if o.Zone {
		a.CTime = a.CTime.In(time.FixedZone("", 5400))
	}
	sn := types.PrincipalName{NameType: nametype.KRB_NT_SRV_HST, NameString: []string{"HTTP", o.Svc}}
	return sn, a
}

// runOps executes ops in the current (scheduled or plain) goroutine.
func runOps(thread int, ops []Op, rec *[]pres, seq *int) {
	for _, o := range ops {
		switch o.Kind {
		case "advance":
			vclock.Advance(o.D)
		case "present":
			sn, a := authenticator(o)
			p := pres{Op: o, Thread: thread, Start: vclock.Now()}
			rc := service.GetReplayCache(skew)
			p.Replay = rc.IsReplay(sn, a)
			p.End = vclock.Now()
			p.Seq = *seq
			*seq++
			*rec = append(*rec, p)
			vsched.Logf("T%d %s -> replay=%v", thread, o, p.Replay)
		}
	}
}

func inWindow(p pres) bool {
	ct := T0.Add(p.Op.CT)
	ok := func(t time.Time) bool { d := t.Sub(ct); return d <= skew && -d <= skew }
	return ok(p.Start) && ok(p.End)
}

// judge applies the property to the presentations of one execution and
// returns violation descriptions keyed by class.
func judge(ps []pres) map[string]string {
	out := map[string]string{}
	by := map[string][]pres{}
	for _, p := range ps {
		by[p.Op.ident()] = append(by[p.Op.ident()], p)
	}
	for id, l := range by {
		acc := 0
		anyAcc := false
		for _, p := range l {
			if !p.Replay {
				anyAcc = true
				if inWindow(p) {
					acc++
				}
			}
		}
		if acc > 1 {
			out["double-accept"] = fmt.Sprintf("authenticator %s accepted %d times while inside the skew window", id, acc)
		}
		if !anyAcc {
			out["false-replay"] = fmt.Sprintf("authenticator %s was flagged as a replay at every presentation (never accepted)", id)
		}
	}
	return out
}

func execScenario(sc Scenario, prefix []int, maxPoints int) (*vsched.Sched, []pres) {
	service.VerifResetReplayCache()
	vclock.Virtual(T0)
	var rec []pres
	seq := 0
	x := vsched.Run(prefix, maxPoints, func() {
		runOps(0, sc.Prelude, &rec, &seq)
		for i, ops := range sc.Threads {
			i, ops := i, ops
			vsched.GoNamed(fmt.Sprintf("h%d", i+1), true, func() { runOps(i+1, ops, &rec, &seq) })
		}
	})
	return x, rec
}

// Schedules explores one scenario with the given preemption bound.
func exploreScenario(c *engine.Ctx, sc Scenario, bound int) (int64, bool) {
	outcomes := map[string]int{}
	e := &engine.Explorer{Bound: bound, MaxPoints: 4000, Stop: c.Expired}
	var last []pres
	e.Exec = func(prefix []int) *vsched.Sched {
		x, rec := execScenario(sc, prefix, e.MaxPoints)
		last = rec
		return x
	}
	e.Check = func(x *vsched.Sched) {
		rec := last
		if x.Panic != "" {
			c.Violate("schedules", "sched:panic:"+sc.Name, map[string]interface{}{"panic": x.Panic}, map[string]interface{}{"scenario": sc, "schedule": x.Choices()})
			return
		}
		if x.Horizon {
			engine.Fatal("C02 scenario %s hit the point horizon", sc.Name)
		}
		for _, b := range x.Blocked() {
			if !strings.HasSuffix(b, "@sleep") {
				c.Violate("schedules", "sched:deadlock:"+sc.Name, map[string]interface{}{"blocked": x.Blocked()}, map[string]interface{}{"scenario": sc, "schedule": x.Choices()})
			}
		}
		var sig []string
		for _, p := range rec {
			sig = append(sig, fmt.Sprintf("%d:%s=%v", p.Thread, p.Op.ident(), p.Replay))
		}
		sort.Strings(sig)
		outcomes[strings.Join(sig, ",")]++
		for class, msg := range judge(rec) {
			c.Violate("schedules", "sched:"+class+":"+sc.Name, map[string]interface{}{"what": msg, "trace": engine.Describe(x), "log": x.Log},
				map[string]interface{}{"scenario": sc, "schedule": x.Choices(), "bound": bound})
		}
	}
	e.Run(nil)
	c.Add("transitions", e.Points)
	c.Add("schedules", e.Schedules)
	c.Add("evaluations", e.Schedules)
	c.Add("traces_validated_against_impl", e.Schedules)
	for o := range outcomes {
		c.Distinct("sched:" + sc.Name + ":" + o)
	}
	if len(outcomes) < 2 {
		c.Note("vacuity warning: scenario %s produced a single outcome over %d schedules", sc.Name, e.Schedules)
	}
	c.Note("scenario %s bound=%d schedules=%d max_depth=%d outcomes=%d capped=%v", sc.Name, bound, e.Schedules, e.MaxDepth, len(outcomes), e.Capped)
	if e.Capped {
		c.Capped(fmt.Sprintf("scenario %s bound %d stopped by budget after %d schedules", sc.Name, bound, e.Schedules))
	}
	return e.Schedules, e.Capped
}

// Run is the check's entry point.
func Run(c *engine.Ctx) {
	c.Assume = append(c.Assume,
		"scheduling points at every shim lock acquisition (RWMutex with writer preference), once, sleep and clock advance; unsynchronised accesses are covered by the separate free-running -race pass (c02race)",
		"presentations go through the real Cache.IsReplay on the real singleton (GetReplayCache) with its real clean-up goroutine as a scheduled thread; a presentation counts for the at-most-once clause only if its timestamp is inside the skew window at both its start and its end",
		"virtual clock: time moves only at explicit advance operations")
	bounds := []int{0, 1, 2, 3}
	if c.Thorough() {
		bounds = []int{0, 1, 2, 3, -1}
	}
	completed := map[string]int{}
	for _, sc := range scenarios(c.Thorough()) {
		for _, b := range bounds {
			if c.Expired() {
				c.Capped("schedule exploration budget")
				break
			}
			if b == -1 && len(sc.Threads) > 3 {
				continue
			}
			_, capped := exploreScenario(c, sc, b)
			if !capped {
				completed[sc.Name] = b
			}
		}
		c.Sample(map[string]interface{}{"scenario": sc.Name, "threads": fmt.Sprint(sc.Threads), "prelude": fmt.Sprint(sc.Prelude)})
	}
	c.Cov["bound_completed"] = completed
	histories(c)
	throughVerifyAPREQ(c)
	racePass(c)
	c.Cov["rule"] = "schedules: every schedule of each scenario within the preemption bound (distinct = distinct (thread,authenticator,verdict) outcome vectors per scenario); histories: every event sequence up to the depth, deduplicated by canonical (cache dump, reference set) relative to the clock (distinct = canonical states in which a replay verdict was exercised)"
}
