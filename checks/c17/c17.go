// Package c17: GSS-API MIC and Wrap tokens follow RFC 4121 4.2.6 and bind
// header and payload. Tokens built by gokrb5 are compared byte for byte with
// an independent construction (layout from the RFC, checksum from
// ref/rcrypto); every single-bit flip and truncation of marshalled tokens and
// every field change after the checksum was set must fail verification.
package c17

import (
	"bytes"
	"encoding/binary"
	"encoding/hex"
	"fmt"
	"math/rand"
	"sync"

	"verif/engine"
	"verif/ref/rcrypto"

	"github.com/jcmturner/gokrb5/v8/gssapi"
	"github.com/jcmturner/gokrb5/v8/types"
)

func safe(f func()) (p string) {
	defer func() {
		if r := recover(); r != nil {
			p = fmt.Sprint(r)
		}
	}()
	f()
	return ""
}

// refMIC builds an RFC 4121 MIC token.
func refMIC(et int32, key []byte, usage uint32, flags byte, seq uint64, payload []byte) []byte {
	hdr := []byte{0x04, 0x04, flags, 0xff, 0xff, 0xff, 0xff, 0xff, 0, 0, 0, 0, 0, 0, 0, 0}
	binary.BigEndian.PutUint64(hdr[8:], seq)
	ck, err := rcrypto.Checksum(et, key, usage, append(append([]byte{}, payload...), hdr...))
	if err != nil {
		engine.Fatal("reference checksum: %v", err)
	}
	return append(hdr, ck...)
}

// refWrap builds an RFC 4121 Wrap token without confidentiality (EC = checksum length, given RRC).
func refWrap(et int32, key []byte, usage uint32, flags byte, rrc uint16, seq uint64, payload []byte) []byte {
	p, _ := rcrypto.Get(et)
	hdr0 := []byte{0x05, 0x04, flags, 0xff, 0, 0, 0, 0, 0, 0, 0, 0, 0, 0, 0, 0}
	binary.BigEndian.PutUint64(hdr0[8:], seq)
	ck, err := rcrypto.Checksum(et, key, usage, append(append([]byte{}, payload...), hdr0...))
	if err != nil {
		engine.Fatal("reference checksum: %v", err)
	}
	hdr := append([]byte{}, hdr0...)
	binary.BigEndian.PutUint16(hdr[4:], uint16(p.CksumLen))
	binary.BigEndian.PutUint16(hdr[6:], rrc)
	return append(append(hdr, payload...), ck...)
}

// RaceBody is run by the -race build: goroutines build and verify Wrap and MIC tokens with different flags, sequence
// numbers and payloads at the same time; every checksum must be the reference's (state shared between calls shows as a
// wrong checksum or as a data race).
func RaceBody(reps int, seed int64) {
	failed := map[string]string{}
	var mu sync.Mutex
	fail := func(k, v string) { mu.Lock(); failed[k] = v; mu.Unlock() }
	runs := 0
	for rep := 0; rep < reps; rep++ {
		var wg sync.WaitGroup
		for gi := 0; gi < 8; gi++ {
			wg.Add(1)
			go func(gi int) {
				defer wg.Done()
				defer func() {
					if p := recover(); p != nil {
						fail("concurrent:panic", fmt.Sprint(p))
					}
				}()
				et := rcrypto.Etypes[gi%len(rcrypto.Etypes)]
				p, _ := rcrypto.Get(et)
				key := keyFor(et, seed)
				gk := types.EncryptionKey{KeyType: et, KeyValue: key}
				for i := 0; i < 20; i++ {
					flags := byte((gi + i) % 8)
					seq := uint64(gi)<<32 | uint64(i*7919+rep)
					payload := bytes.Repeat([]byte{byte(gi*16 + i)}, 5+gi*3+i%4)
					u := uint32(22 + (gi+i)%4)
					wt := gssapi.WrapToken{Flags: flags, EC: uint16(p.CksumLen), SndSeqNum: seq, Payload: append([]byte{}, payload...)}
					if err := wt.SetCheckSum(gk, u); err != nil {
						fail(fmt.Sprintf("concurrent:Wrap:et%d:build-error", et), err.Error())
						continue
					}
					want := refWrap(et, key, u, flags, 0, seq, payload)
					if !bytes.Equal(wt.CheckSum, want[16+len(payload):]) {
						fail(fmt.Sprintf("concurrent:Wrap:et%d:differs-from-rfc", et), fmt.Sprintf("flags %d seq %d", flags, seq))
					}
					var back gssapi.WrapToken
					if err := back.Unmarshal(want, flags&1 != 0); err == nil {
						if ok, _ := back.Verify(gk, u); !ok {
							fail(fmt.Sprintf("concurrent:Wrap:et%d:rejects-genuine", et), fmt.Sprintf("flags %d seq %d", flags, seq))
						}
					}
					mt := gssapi.MICToken{Flags: flags, SndSeqNum: seq, Payload: append([]byte{}, payload...)}
					if err := mt.SetChecksum(gk, u); err != nil {
						fail(fmt.Sprintf("concurrent:MIC:et%d:build-error", et), err.Error())
						continue
					}
					mw := refMIC(et, key, u, flags, seq, payload)
					if !bytes.Equal(mt.Checksum, mw[16:]) {
						fail(fmt.Sprintf("concurrent:MIC:et%d:differs-from-rfc", et), fmt.Sprintf("flags %d seq %d", flags, seq))
					}
				}
			}(gi)
		}
		engine.WaitOrBlocked(&wg, "gss tokens", runs)
		runs++
	}
	for k, v := range failed {
		fmt.Printf("RACE-INVARIANT %s\t%s\n", k, v)
	}
	fmt.Printf("RACE-RUNS %d\n", runs)
}

func racePass(c *engine.Ctx) {
	reps := 15
	if c.Thorough() {
		reps = 150
	}
	reports, runs, err := engine.RunRace("C17RACE", fmt.Sprint(reps), fmt.Sprint(c.Seed))
	if err != nil {
		engine.Fatal("%v", err)
	}
	c.Cov["race_pass_runs"] = runs
	c.Cov["race_reports"] = len(reports)
	for _, r := range reports {
		c.Violate("race", "race:"+r.Key, map[string]interface{}{"report": r.Text}, map[string]interface{}{"cmd": "vcheck-race C17RACE"})
	}
	for _, iv := range engine.RaceInvariant {
		d := ""
		if len(iv) > 1 {
			d = iv[1]
		}
		c.Violate("race", "free-running:"+iv[0], map[string]interface{}{"what": d}, map[string]interface{}{"cmd": "vcheck-race C17RACE"})
	}
}

func keyFor(et int32, seed int64) []byte {
	r := rand.New(rand.NewSource(seed*100 + int64(et)))
	p, _ := rcrypto.Get(et)
	s := make([]byte, p.SeedLen)
	r.Read(s)
	return rcrypto.RandomToKey(et, s)
}

type tokCase struct {
	Kind    string `json:"kind"`
	Etype   int32  `json:"etype"`
	Len     int    `json:"payload_len"`
	Flags   byte   `json:"flags"`
	Seq     uint64 `json:"seq"`
	Usage   uint32 `json:"usage"`
	Key     string `json:"key"`
	Mut     string `json:"mutation,omitempty"`
	Payload string `json:"payload,omitempty"`
}

var seqs = []uint64{0, 1, 1 << 32, 1<<64 - 1}
var usages = []uint32{22, 23, 24, 25}

// Run is the check's entry point.
func Run(c *engine.Ctx) {
	c.Assume = append(c.Assume,
		"token layout transcribed from RFC 4121 4.2.6.1/4.2.6.2; checksums from ref/rcrypto (validated against RFC vectors in C07)",
		"not judged: flips of the Wrap token's RRC bits on a finished token and the rotation of the data for a non-zero RRC (RFC 4121 excludes RRC from the checksum and the property does not list it); judged: the checksum of a token built with RRC in {1,12,28,256,65535} is the one over the header with EC and RRC zeroed; payload and key bytes seeded")
	if _, err := rcrypto.SelfTest(); err != nil {
		engine.Fatal("%v", err)
	}
	r := rand.New(rand.NewSource(c.Seed))
	var evals int64
	maxLen := 300
	for _, et := range rcrypto.Etypes {
		p, _ := rcrypto.Get(et)
		key := keyFor(et, c.Seed)
		gk := types.EncryptionKey{KeyType: et, KeyValue: key}
		for l := 0; l <= maxLen; l++ {
			payload := make([]byte, l)
			r.Read(payload)
			for flags := byte(0); flags < 8; flags++ {
				for _, seq := range seqs {
					for _, u := range usages {
						cs := tokCase{Etype: et, Len: l, Flags: flags, Seq: seq, Usage: u, Key: hex.EncodeToString(key)}
						// ---- MIC
						cs.Kind = "MIC"
						evals++
						mt := gssapi.MICToken{Flags: flags, SndSeqNum: seq, Payload: append([]byte{}, payload...)}
						var mb []byte
						var err error
						if pn := safe(func() {
							if err = mt.SetChecksum(gk, u); err == nil {
								mb, err = mt.Marshal()
							}
						}); pn != "" || err != nil {
							c.Violate("build", fmt.Sprintf("MIC:et%d:build-error", et), map[string]interface{}{"panic": pn, "err": fmt.Sprint(err)}, cs)
							continue
						}
						if want := refMIC(et, key, u, flags, seq, payload); !bytes.Equal(mb, want) {
							c.Violate("build", fmt.Sprintf("MIC:et%d:differs-from-rfc:%s", et, diffRegion(mb, want, 16)), map[string]interface{}{"gokrb5": hex.EncodeToString(mb), "reference": hex.EncodeToString(want)}, cs)
							continue
						}
						// decode in both expected directions
						fromAcc := flags&1 == 1
						var back gssapi.MICToken
						if err := back.Unmarshal(mb, fromAcc); err != nil || back.Flags != flags || back.SndSeqNum != seq || !bytes.Equal(back.Checksum, mb[16:]) {
							c.Violate("decode", fmt.Sprintf("MIC:et%d:roundtrip", et), map[string]interface{}{"err": fmt.Sprint(err)}, cs)
							continue
						}
						back.Payload = payload
						if ok, _ := back.Verify(gk, u); !ok {
							c.Violate("verify", fmt.Sprintf("MIC:et%d:rejects-genuine", et), nil, cs)
							continue
						}
						var wrongDir gssapi.MICToken
						if err := wrongDir.Unmarshal(mb, !fromAcc); err == nil {
							c.Violate("decode", "MIC:accepts-wrong-direction", nil, cs)
							continue
						}
						// ---- Wrap
						cs.Kind = "Wrap"
						evals++
						wt := gssapi.WrapToken{Flags: flags, EC: uint16(p.CksumLen), RRC: 0, SndSeqNum: seq, Payload: append([]byte{}, payload...)}
						var wb []byte
						if pn := safe(func() {
							if err = wt.SetCheckSum(gk, u); err == nil {
								wb, err = wt.Marshal()
							}
						}); pn != "" || err != nil {
							c.Violate("build", fmt.Sprintf("Wrap:et%d:build-error", et), map[string]interface{}{"panic": pn, "err": fmt.Sprint(err)}, cs)
							continue
						}
						if want := refWrap(et, key, u, flags, 0, seq, payload); !bytes.Equal(wb, want) {
							c.Violate("build", fmt.Sprintf("Wrap:et%d:differs-from-rfc:%s", et, diffRegion(wb, want, 16)), map[string]interface{}{"gokrb5": hex.EncodeToString(wb), "reference": hex.EncodeToString(want)}, cs)
							continue
						}
						var wback gssapi.WrapToken
						if err := wback.Unmarshal(wb, fromAcc); err != nil || wback.Flags != flags || wback.SndSeqNum != seq || wback.EC != uint16(p.CksumLen) || wback.RRC != 0 ||
							!bytes.Equal(wback.Payload, payload) || !bytes.Equal(wback.CheckSum, wb[16+l:]) {
							c.Violate("decode", fmt.Sprintf("Wrap:et%d:roundtrip", et), map[string]interface{}{"err": fmt.Sprint(err)}, cs)
							continue
						}
						if ok, _ := wback.Verify(gk, u); !ok {
							c.Violate("verify", fmt.Sprintf("Wrap:et%d:rejects-genuine", et), nil, cs)
							continue
						}
						var wwrong gssapi.WrapToken
						if err := wwrong.Unmarshal(wb, !fromAcc); err == nil {
							c.Violate("decode", "Wrap:accepts-wrong-direction", nil, cs)
							continue
						}
						// a token built with a non-zero RRC: the checksum is still the one over the header with EC and RRC
						// zeroed (RFC 4121 4.2.4), and the RRC travels in header bytes 6..7 (rotation of the data is not judged)
						if l <= 40 || l%50 == 0 {
							bad := false
							for _, rrc := range []uint16{1, 12, 28, 0x0100, 0xffff} {
								evals++
								wr := gssapi.WrapToken{Flags: flags, EC: uint16(p.CksumLen), RRC: rrc, SndSeqNum: seq, Payload: append([]byte{}, payload...)}
								var rb []byte
								var rerr error
								if pn := safe(func() {
									if rerr = wr.SetCheckSum(gk, u); rerr == nil {
										rb, rerr = wr.Marshal()
									}
								}); pn != "" || rerr != nil {
									c.Violate("build", fmt.Sprintf("Wrap:et%d:build-error:rrc", et), map[string]interface{}{"panic": pn, "err": fmt.Sprint(rerr), "rrc": rrc}, cs)
									bad = true
									break
								}
								want := refWrap(et, key, u, flags, rrc, seq, payload)
								if !bytes.Equal(wr.CheckSum, want[16+l:]) {
									c.Violate("build", fmt.Sprintf("Wrap:et%d:differs-from-rfc:checksum-covers-rrc", et), map[string]interface{}{"rrc": rrc, "gokrb5": hex.EncodeToString(wr.CheckSum), "reference": hex.EncodeToString(want[16+l:])}, cs)
									bad = true
									break
								}
								if len(rb) < 8 || binary.BigEndian.Uint16(rb[6:8]) != rrc || !bytes.Equal(rb[:6], want[:6]) || !bytes.Equal(rb[8:16], want[8:16]) {
									c.Violate("build", fmt.Sprintf("Wrap:et%d:differs-from-rfc:header-with-rrc", et), map[string]interface{}{"rrc": rrc, "gokrb5_header": hex.EncodeToString(rb[:min(16, len(rb))])}, cs)
									bad = true
									break
								}
							}
							if bad {
								continue
							}
						}
						c.Distinct(fmt.Sprintf("%d/%d/%d/%d/%d", et, l, flags, seq, u))
					}
				}
			}
		}
		// constructors
		for _, l := range []int{0, 1, 17, 300} {
			payload := make([]byte, l)
			r.Read(payload)
			evals++
			cs := tokCase{Kind: "NewInitiator*", Etype: et, Len: l, Key: hex.EncodeToString(key)}
			wt, err := gssapi.NewInitiatorWrapToken(append([]byte{}, payload...), gk)
			if err != nil {
				c.Violate("build", fmt.Sprintf("NewInitiatorWrapToken:et%d:error", et), map[string]interface{}{"err": err.Error()}, cs)
				continue
			}
			wb, _ := wt.Marshal()
			if !bytes.Equal(wb, refWrap(et, key, 24, 0, 0, 0, payload)) {
				c.Violate("build", fmt.Sprintf("NewInitiatorWrapToken:et%d:differs-from-rfc", et), nil, cs)
			}
			mt, err := gssapi.NewInitiatorMICToken(append([]byte{}, payload...), gk)
			if err != nil {
				c.Violate("build", fmt.Sprintf("NewInitiatorMICToken:et%d:error", et), map[string]interface{}{"err": err.Error()}, cs)
				continue
			}
			mb, _ := mt.Marshal()
			if !bytes.Equal(mb, refMIC(et, key, 25, 0, 0, payload)) {
				c.Violate("build", fmt.Sprintf("NewInitiatorMICToken:et%d:differs-from-rfc", et), nil, cs)
			}
		}
		negatives(c, r, et, key, &evals)
	}
	c.Add("evaluations", evals)
	c.Add("states", evals)
	c.Add("transitions", evals)
	c.Add("traces_validated_against_impl", evals)
	c.Sample(tokCase{Kind: "Wrap", Etype: 18, Len: 17, Flags: 5, Seq: 1 << 32, Usage: 22, Mut: "every bit flip, every truncation, every field changed after SetCheckSum"})
	racePass(c)
	c.Cov["rule"] = "free-running -race pass: 8 goroutines building and verifying Wrap and MIC tokens with different flags / sequence numbers / payloads at once, every checksum compared with the reference; etype(6) x payload length 0..300 x flags 0..7 x seq {0,1,2^32,2^64-1} x usage {22,23,24,25} x {MIC, Wrap}: bytes equal the RFC construction, decode round trip, other direction rejected; for lengths {0,1,16,17,300}: every single-bit flip and every truncation of the marshalled token, every field bit changed after the checksum was set, other key, other usage. distinct = cells that matched and (etype, kind, mutation class) rejections"
}

func diffRegion(a, b []byte, hdr int) string {
	if len(a) != len(b) {
		return "length"
	}
	for i := range a {
		if a[i] != b[i] {
			if i < hdr {
				return fmt.Sprintf("header-byte-%d", i)
			}
			return "checksum-or-payload"
		}
	}
	return "none"
}

func negatives(c *engine.Ctx, r *rand.Rand, et int32, key []byte, evals *int64) {
	gk := types.EncryptionKey{KeyType: et, KeyValue: key}
	other := types.EncryptionKey{KeyType: et, KeyValue: keyFor(et, c.Seed+1)}
	p, _ := rcrypto.Get(et)
	for _, l := range []int{0, 1, 16, 17, 300} {
		payload := make([]byte, l)
		r.Read(payload)
		for _, flags := range []byte{0, 1, 4, 7} {
			const seq, usage = uint64(0x0102030405060708), uint32(24)
			fromAcc := flags&1 == 1
			cs := tokCase{Etype: et, Len: l, Flags: flags, Seq: seq, Usage: usage, Key: hex.EncodeToString(key), Payload: hex.EncodeToString(payload)}
			// ---------------- Wrap: mutations of the marshalled token
			wb := refWrap(et, key, usage, flags, 0, seq, payload)
			tryWrap := func(mut string, b []byte, class string, k types.EncryptionKey, u uint32, exp bool) {
				*evals++
				cc := cs
				cc.Kind, cc.Mut = "Wrap", mut
				var wt gssapi.WrapToken
				var ok bool
				var uerr error
				if pn := safe(func() {
					if uerr = wt.Unmarshal(append([]byte{}, b...), exp); uerr == nil {
						ok, _ = wt.Verify(k, u)
					}
				}); pn != "" {
					c.Violate("negative", fmt.Sprintf("Wrap:et%d:panic:%s", et, class), map[string]interface{}{"panic": pn}, cc)
					return
				}
				if uerr == nil && ok {
					c.Violate("negative", fmt.Sprintf("Wrap:et%d:accepts-%s", et, class), nil, cc)
					return
				}
				c.Distinct(fmt.Sprintf("neg/Wrap/%d/%s", et, class))
			}
			for i := 0; i < len(wb)*8; i++ {
				if i/8 == 6 || i/8 == 7 {
					continue // RRC: not judged
				}
				m := append([]byte{}, wb...)
				m[i/8] ^= 1 << uint(7-i%8)
				class := "bitflip-" + wrapRegion(i/8, l)
				exp := fromAcc
				if i/8 == 2 && i%8 == 7 {
					// the direction bit itself: try with the direction the mutated token claims, so that the checksum is what decides
					exp = !fromAcc
				}
				tryWrap(fmt.Sprintf("flip-bit-%d", i), m, class, gk, usage, exp)
			}
			for n := 0; n < len(wb); n++ {
				tryWrap(fmt.Sprintf("truncate-to-%d", n), wb[:n], "truncation", gk, usage, fromAcc)
			}
			tryWrap("append-1", append(append([]byte{}, wb...), 0), "append", gk, usage, fromAcc)
			tryWrap("other-key", wb, "other-key", other, usage, fromAcc)
			for _, pos := range []int{len(gk.KeyValue) - 1, len(gk.KeyValue) - 3, 0} {
				// a key differing from the right one in one late byte only (0x02: not a DES parity bit), after the right key was used
				near := types.EncryptionKey{KeyType: gk.KeyType, KeyValue: append([]byte{}, gk.KeyValue...)}
				near.KeyValue[pos] ^= 0x02
				tryWrap(fmt.Sprintf("near-key-byte-%d", pos), wb, "other-key", near, usage, fromAcc)
			}
			for _, u := range []uint32{22, 23, 25, 0, 1024} {
				tryWrap(fmt.Sprintf("usage-%d", u), wb, "other-usage", gk, u, fromAcc)
			}
			// fields changed between checksum computation and verification
			mkW := func() gssapi.WrapToken {
				wt := gssapi.WrapToken{Flags: flags, EC: uint16(p.CksumLen), SndSeqNum: seq, Payload: append([]byte{}, payload...)}
				if err := wt.SetCheckSum(gk, usage); err != nil {
					engine.FailValid("WrapToken.SetCheckSum", err)
				}
				return wt
			}
			fieldW := func(mut, class string, f func(w *gssapi.WrapToken)) {
				*evals++
				cc := cs
				cc.Kind, cc.Mut = "Wrap", mut
				wt := mkW()
				f(&wt)
				var ok bool
				if pn := safe(func() { ok, _ = wt.Verify(gk, usage) }); pn != "" {
					c.Violate("negative", fmt.Sprintf("Wrap:et%d:panic:%s", et, class), map[string]interface{}{"panic": pn}, cc)
					return
				}
				if ok {
					c.Violate("negative", fmt.Sprintf("Wrap:et%d:verify-ignores-%s", et, class), nil, cc)
					return
				}
				c.Distinct(fmt.Sprintf("field/Wrap/%d/%s", et, class))
			}
			for b := 0; b < 8; b++ {
				b := b
				fieldW(fmt.Sprintf("flags-bit-%d", b), "flags", func(w *gssapi.WrapToken) { w.Flags ^= 1 << uint(b) })
			}
			for b := 0; b < 64; b++ {
				b := b
				fieldW(fmt.Sprintf("seq-bit-%d", b), "sequence-number", func(w *gssapi.WrapToken) { w.SndSeqNum ^= 1 << uint(b) })
			}
			for b := 0; b < l*8 && b < 8*40; b++ {
				b := b
				fieldW(fmt.Sprintf("payload-bit-%d", b), "payload", func(w *gssapi.WrapToken) { w.Payload[b/8] ^= 1 << uint(b%8) })
			}
			fieldW("payload-append", "payload", func(w *gssapi.WrapToken) { w.Payload = append(w.Payload, 0) })
			if l > 0 {
				fieldW("payload-truncate", "payload", func(w *gssapi.WrapToken) { w.Payload = w.Payload[:l-1] })
			}
			for b := 0; b < p.CksumLen*8; b++ {
				b := b
				fieldW(fmt.Sprintf("checksum-bit-%d", b), "checksum", func(w *gssapi.WrapToken) { w.CheckSum[b/8] ^= 1 << uint(b%8) })
			}
			fieldW("checksum-truncate", "checksum", func(w *gssapi.WrapToken) { w.CheckSum = w.CheckSum[:len(w.CheckSum)-1] })
			fieldW("checksum-extend", "checksum", func(w *gssapi.WrapToken) { w.CheckSum = append(w.CheckSum, 0) })

			// ---------------- MIC
			mb := refMIC(et, key, 25, flags, seq, payload)
			tryMIC := func(mut string, b []byte, class string, k types.EncryptionKey, u uint32, exp bool, pl []byte) {
				*evals++
				cc := cs
				cc.Kind, cc.Mut, cc.Usage = "MIC", mut, 25
				var mt gssapi.MICToken
				var ok bool
				var uerr error
				if pn := safe(func() {
					if uerr = mt.Unmarshal(append([]byte{}, b...), exp); uerr == nil {
						mt.Payload = pl
						ok, _ = mt.Verify(k, u)
					}
				}); pn != "" {
					c.Violate("negative", fmt.Sprintf("MIC:et%d:panic:%s", et, class), map[string]interface{}{"panic": pn}, cc)
					return
				}
				if uerr == nil && ok {
					c.Violate("negative", fmt.Sprintf("MIC:et%d:accepts-%s", et, class), nil, cc)
					return
				}
				c.Distinct(fmt.Sprintf("neg/MIC/%d/%s", et, class))
			}
			for i := 0; i < len(mb)*8; i++ {
				m := append([]byte{}, mb...)
				m[i/8] ^= 1 << uint(7-i%8)
				exp := fromAcc
				if i/8 == 2 && i%8 == 7 {
					exp = !fromAcc
				}
				tryMIC(fmt.Sprintf("flip-bit-%d", i), m, "bitflip-"+micRegion(i/8), gk, 25, exp, payload)
			}
			for n := 0; n < len(mb); n++ {
				tryMIC(fmt.Sprintf("truncate-to-%d", n), mb[:n], "truncation", gk, 25, fromAcc, payload)
			}
			tryMIC("append-1", append(append([]byte{}, mb...), 0), "append", gk, 25, fromAcc, payload)
			tryMIC("other-key", mb, "other-key", other, 25, fromAcc, payload)
			for _, pos := range []int{len(gk.KeyValue) - 1, len(gk.KeyValue) - 3, 0} {
				near := types.EncryptionKey{KeyType: gk.KeyType, KeyValue: append([]byte{}, gk.KeyValue...)}
				near.KeyValue[pos] ^= 0x02
				tryMIC(fmt.Sprintf("near-key-byte-%d", pos), mb, "other-key", near, 25, fromAcc, payload)
			}
			for _, u := range []uint32{22, 23, 24, 0} {
				tryMIC(fmt.Sprintf("usage-%d", u), mb, "other-usage", gk, u, fromAcc, payload)
			}
			for b := 0; b < l*8 && b < 8*40; b++ {
				pl := append([]byte{}, payload...)
				pl[b/8] ^= 1 << uint(b%8)
				tryMIC(fmt.Sprintf("payload-bit-%d", b), mb, "other-payload", gk, 25, fromAcc, pl)
			}
			tryMIC("payload-append", mb, "other-payload", gk, 25, fromAcc, append(append([]byte{}, payload...), 0))
			// fields changed after SetChecksum
			fieldM := func(mut, class string, f func(m *gssapi.MICToken)) {
				*evals++
				cc := cs
				cc.Kind, cc.Mut = "MIC", mut
				mt := gssapi.MICToken{Flags: flags, SndSeqNum: seq, Payload: append([]byte{}, payload...)}
				if err := mt.SetChecksum(gk, 25); err != nil {
					engine.FailValid("MICToken.SetChecksum", err)
				}
				f(&mt)
				var ok bool
				if pn := safe(func() { ok, _ = mt.Verify(gk, 25) }); pn != "" {
					c.Violate("negative", fmt.Sprintf("MIC:et%d:panic:%s", et, class), map[string]interface{}{"panic": pn}, cc)
					return
				}
				if ok {
					c.Violate("negative", fmt.Sprintf("MIC:et%d:verify-ignores-%s", et, class), nil, cc)
					return
				}
				c.Distinct(fmt.Sprintf("field/MIC/%d/%s", et, class))
			}
			for b := 0; b < 8; b++ {
				b := b
				fieldM(fmt.Sprintf("flags-bit-%d", b), "flags", func(m *gssapi.MICToken) { m.Flags ^= 1 << uint(b) })
			}
			for b := 0; b < 64; b++ {
				b := b
				fieldM(fmt.Sprintf("seq-bit-%d", b), "sequence-number", func(m *gssapi.MICToken) { m.SndSeqNum ^= 1 << uint(b) })
			}
			fieldM("checksum-truncate", "checksum", func(m *gssapi.MICToken) { m.Checksum = m.Checksum[:len(m.Checksum)-1] })
			fieldM("checksum-extend", "checksum", func(m *gssapi.MICToken) { m.Checksum = append(m.Checksum, 0) })
		}
	}
}

func wrapRegion(byteIdx, l int) string {
	switch {
	case byteIdx < 2:
		return "token-id"
	case byteIdx == 2:
		return "flags"
	case byteIdx == 3:
		return "filler"
	case byteIdx < 6:
		return "ec"
	case byteIdx < 16:
		return "sequence-number"
	case byteIdx < 16+l:
		return "payload"
	}
	return "checksum"
}

func micRegion(byteIdx int) string {
	switch {
	case byteIdx < 2:
		return "token-id"
	case byteIdx == 2:
		return "flags"
	case byteIdx < 8:
		return "filler"
	case byteIdx < 16:
		return "sequence-number"
	}
	return "checksum"
}
