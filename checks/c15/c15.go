// Package c15: credential cache files of every format version parse to what
// was written. Files are rendered by the independent writer ref/ccachefmt from
// an enumerated model and parsed by gokrb5; lookups and a client built from
// the cache are compared with the model.
package c15

import (
	"bytes"
	"fmt"
	"math/rand"
	"strings"
	"time"

	"verif/engine"
	"verif/ref/ccachefmt"
	"verif/ref/krbmsg"

	"github.com/jcmturner/gokrb5/v8/client"
	"github.com/jcmturner/gokrb5/v8/config"
	"github.com/jcmturner/gokrb5/v8/credentials"
	"github.com/jcmturner/gokrb5/v8/types"
	"github.com/jcmturner/gokrb5/v8/zzverif/vclock"
)

func safe(f func()) (p string) {
	defer func() {
		if r := recover(); r != nil {
			p = fmt.Sprint(r)
		}
	}()
	f()
	return ""
}

var T0 = time.Unix(1_900_000_000, 0).UTC()

func ticketBytes(realm string, sname []string, r *rand.Rand) []byte {
	ct := make([]byte, 40)
	r.Read(ct)
	return krbmsg.Ticket{VNO: 5, Realm: realm, SName: krbmsg.PrincipalName{Type: 2, Names: sname}, Enc: krbmsg.EncryptedData{EType: 18, KVNO: krbmsg.I64(1), Cipher: ct}}.Encode()
}

// credAlphabet enumerates credential shapes.
func credAlphabet(r *rand.Rand) []ccachefmt.Credential {
	client := ccachefmt.Principal{NameType: 1, Realm: "R.COM", Components: []string{"user"}}
	key := func(n int) []byte { b := make([]byte, n); r.Read(b); return b }
	now := int32(T0.Unix())
	base := func() ccachefmt.Credential {
		return ccachefmt.Credential{Client: client, Server: ccachefmt.Principal{NameType: 2, Realm: "R.COM", Components: []string{"HTTP", "a.r.com"}},
			KeyType: 18, Key: key(32), AuthTime: now - 600, StartTime: now - 600, EndTime: now + 36000, RenewTill: now + 86400, Flags: 0x40e10000,
			Ticket: ticketBytes("R.COM", []string{"HTTP", "a.r.com"}, r)}
	}
	var out []ccachefmt.Credential
	add := func(f func(c *ccachefmt.Credential)) { c := base(); f(&c); out = append(out, c) }
	add(func(c *ccachefmt.Credential) {})
	add(func(c *ccachefmt.Credential) {
		c.Server = ccachefmt.Principal{NameType: 2, Realm: "R.COM", Components: []string{"krbtgt", "R.COM"}}
		c.Ticket = ticketBytes("R.COM", []string{"krbtgt", "R.COM"}, r)
		c.Flags = 0x40000000 // forwardable only
	})
	add(func(c *ccachefmt.Credential) {
		c.KeyType, c.Key = 17, key(16)
		c.Flags = 0x00800000
		c.Server.Components = []string{"host", "b.r.com"}
		c.Ticket = ticketBytes("R.COM", c.Server.Components, r)
	})
	add(func(c *ccachefmt.Credential) { c.KeyType, c.Key = 23, key(16); c.Flags = 0x00000001; c.IsSKey = 1 })
	add(func(c *ccachefmt.Credential) { c.Key = []byte{}; c.Flags = 0x80000000 })
	add(func(c *ccachefmt.Credential) { c.Key = key(64); c.KeyType = 0xFF79; c.Flags = 0x01020304 })
	add(func(c *ccachefmt.Credential) {
		c.AuthTime, c.StartTime, c.EndTime, c.RenewTill = -2147483648, -1, 0, 2147483647
	})
	add(func(c *ccachefmt.Credential) {
		c.Addresses = []ccachefmt.Address{{2, []byte{10, 0, 0, 1}}}
		c.AuthData = []ccachefmt.AuthData{{1, []byte("ad-one")}}
	})
	add(func(c *ccachefmt.Credential) {
		c.Addresses = []ccachefmt.Address{{2, []byte{10, 0, 0, 1}}, {24, key(16)}, {2, []byte{}}}
		c.AuthData = []ccachefmt.AuthData{{1, []byte("a")}, {128, key(300)}, {0xFFFF, []byte{}}}
	})
	// every pair of different address / authorization-data counts 0..3 (the two counted lists are independent)
	for na := 0; na <= 3; na++ {
		for nd := 0; nd <= 3; nd++ {
			if na == nd {
				continue
			}
			na, nd := na, nd
			add(func(c *ccachefmt.Credential) {
				c.Addresses, c.AuthData = []ccachefmt.Address{}, []ccachefmt.AuthData{}
				for i := 0; i < na; i++ {
					c.Addresses = append(c.Addresses, ccachefmt.Address{Type: uint16(2 + i), Data: key(4 + i)})
				}
				for i := 0; i < nd; i++ {
					c.AuthData = append(c.AuthData, ccachefmt.AuthData{Type: uint16(1 + i), Data: key(3 + 5*i)})
				}
			})
		}
	}
	add(func(c *ccachefmt.Credential) { c.Ticket = []byte{}; c.SecondTicket = []byte{0x61} })
	add(func(c *ccachefmt.Credential) { c.SecondTicket = key(300) })
	add(func(c *ccachefmt.Credential) {
		c.Server = ccachefmt.Principal{NameType: 0, Realm: "X-CACHECONF:", Components: []string{"krb5_ccache_conf_data", "fast_avail", "krbtgt/R.COM@R.COM"}}
		c.KeyType, c.Key, c.Ticket = 0, []byte{}, []byte("yes")
		c.AuthTime, c.StartTime, c.EndTime, c.RenewTill, c.Flags = 0, 0, 0, 0, 0
	})
	add(func(c *ccachefmt.Credential) {
		c.Server.Components = []string{}
		c.Client.Components = []string{"a", "b", "c"}
	})
	add(func(c *ccachefmt.Credential) {
		c.Server.Realm = ""
		c.Server.Components = []string{"", strings.Repeat("n", 300)}
	})
	return out
}

func principals() []ccachefmt.Principal {
	return []ccachefmt.Principal{
		{NameType: 1, Realm: "R.COM", Components: []string{"user"}},
		{NameType: 1, Realm: "R.COM", Components: []string{}},
		{NameType: 2, Realm: "", Components: []string{"user", "admin"}},
		{NameType: 10, Realm: "OTHER.REALM.EXAMPLE.COM", Components: []string{"a", "b", "c"}},
	}
}

func headers() [][]ccachefmt.HeaderField {
	off := []byte{0, 0, 0, 5, 0, 0, 0x30, 0x39}
	return [][]ccachefmt.HeaderField{
		nil,
		{{Tag: 1, Data: off}},
		{{Tag: 1, Data: off}, {Tag: 1, Data: []byte{0xff, 0xff, 0xff, 0xfb, 0, 0, 0, 0}}},
		{{Tag: 2, Data: []byte{1, 2, 3, 4}}},
		{{Tag: 1, Data: off}, {Tag: 7, Data: []byte{}}},
	}
}

func pstr(p ccachefmt.Principal, version int) string {
	nt := p.NameType
	if version == 1 {
		nt = 0
	}
	return fmt.Sprintf("%d|%s|%q", nt, p.Realm, p.Components)
}

func gstr(realm string, pn types.PrincipalName) string {
	c := pn.NameString
	if c == nil {
		c = []string{}
	}
	return fmt.Sprintf("%d|%s|%q", pn.NameType, realm, c)
}

func flagBytes(v uint32) []byte { return []byte{byte(v >> 24), byte(v >> 16), byte(v >> 8), byte(v)} }

// compare returns the first difference between gokrb5's parse and the model.
func compare(g *credentials.CCache, m ccachefmt.CCache) string {
	if int(g.Version) != m.Version {
		return fmt.Sprintf("version %d vs %d", g.Version, m.Version)
	}
	if a, b := gstr(g.DefaultPrincipal.Realm, g.DefaultPrincipal.PrincipalName), pstr(m.Default, m.Version); a != b {
		return fmt.Sprintf("default-principal %s vs %s", a, b)
	}
	if len(g.Credentials) != len(m.Creds) {
		return fmt.Sprintf("credential-count %d vs %d", len(g.Credentials), len(m.Creds))
	}
	for i, mc := range m.Creds {
		gc := g.Credentials[i]
		switch {
		case gstr(gc.Client.Realm, gc.Client.PrincipalName) != pstr(mc.Client, m.Version):
			return fmt.Sprintf("client of credential %d: %s vs %s", i, gstr(gc.Client.Realm, gc.Client.PrincipalName), pstr(mc.Client, m.Version))
		case gstr(gc.Server.Realm, gc.Server.PrincipalName) != pstr(mc.Server, m.Version):
			return fmt.Sprintf("server of credential %d: %s vs %s", i, gstr(gc.Server.Realm, gc.Server.PrincipalName), pstr(mc.Server, m.Version))
		case gc.Key.KeyType != int32(int16(mc.KeyType)):
			return fmt.Sprintf("keytype of credential %d: %d vs %d", i, gc.Key.KeyType, int16(mc.KeyType))
		case !bytes.Equal(gc.Key.KeyValue, mc.Key):
			return fmt.Sprintf("key of credential %d differs", i)
		case gc.AuthTime.Unix() != int64(mc.AuthTime) || gc.StartTime.Unix() != int64(mc.StartTime) || gc.EndTime.Unix() != int64(mc.EndTime) || gc.RenewTill.Unix() != int64(mc.RenewTill):
			return fmt.Sprintf("times of credential %d: %d %d %d %d vs %d %d %d %d", i, gc.AuthTime.Unix(), gc.StartTime.Unix(), gc.EndTime.Unix(), gc.RenewTill.Unix(), mc.AuthTime, mc.StartTime, mc.EndTime, mc.RenewTill)
		case gc.IsSKey != (mc.IsSKey != 0):
			return fmt.Sprintf("is_skey of credential %d", i)
		case !bytes.Equal(gc.TicketFlags.Bytes, flagBytes(mc.Flags)) || gc.TicketFlags.BitLength != 32:
			return fmt.Sprintf("flags of credential %d: %x vs %08x", i, gc.TicketFlags.Bytes, mc.Flags)
		case len(gc.Addresses) != len(mc.Addresses):
			return fmt.Sprintf("address-count of credential %d", i)
		case len(gc.AuthData) != len(mc.AuthData):
			return fmt.Sprintf("authdata-count of credential %d", i)
		case !bytes.Equal(gc.Ticket, mc.Ticket):
			return fmt.Sprintf("ticket of credential %d differs", i)
		case !bytes.Equal(gc.SecondTicket, mc.SecondTicket):
			return fmt.Sprintf("second-ticket of credential %d differs", i)
		}
		for k, a := range mc.Addresses {
			if gc.Addresses[k].AddrType != int32(int16(a.Type)) || !bytes.Equal(gc.Addresses[k].Address, a.Data) {
				return fmt.Sprintf("address %d of credential %d", k, i)
			}
		}
		for k, a := range mc.AuthData {
			if gc.AuthData[k].ADType != int32(int16(a.Type)) || !bytes.Equal(gc.AuthData[k].ADData, a.Data) {
				return fmt.Sprintf("authdata %d of credential %d", k, i)
			}
		}
	}
	return ""
}

func firstWords(s string) string {
	f := strings.Fields(s)
	if len(f) > 0 {
		return f[0]
	}
	return s
}

// Run is the check's entry point.
func Run(c *engine.Ctx) {
	c.Assume = append(c.Assume,
		"cache files are rendered by ref/ccachefmt, written from the MIT file-format document (v1/v2 native little-endian, v3/v4 big-endian, v1 principals without name type and realm counted, v3 doubled key type, v4 tagged header; ticket flags stored as a 32-bit integer in file byte order)",
		"ticket bytes inside credentials are reference-encoded Tickets; key and random payload bytes seeded")
	r := rand.New(rand.NewSource(c.Seed))
	alpha := credAlphabet(r)
	var evals int64
	cfg := config.New()
	cfg.LibDefaults.DefaultRealm = "R.COM"
	vclock.Virtual(T0)

	check := func(m ccachefmt.CCache, what string) {
		evals++
		file := ccachefmt.Write(m)
		rec := map[string]interface{}{"version": m.Version, "header_fields": len(m.Header), "default": m.Default, "credentials": len(m.Creds), "shape": what, "file_len": len(file)}
		g := new(credentials.CCache)
		var err error
		// parsed from a buffer the caller overwrites right afterwards
		inbuf := append([]byte{}, file...)
		if pn := safe(func() { err = g.Unmarshal(inbuf) }); pn != "" {
			c.Violate("parse", fmt.Sprintf("parse:v%d:panic:%s", m.Version, hdrClass(m)), map[string]interface{}{"panic": pn}, rec)
			return
		}
		for i := range inbuf {
			inbuf[i] = 0xEE
		}
		if err != nil {
			c.Violate("parse", fmt.Sprintf("parse:v%d:error:%s", m.Version, hdrClass(m)), map[string]interface{}{"err": err.Error()}, rec)
			return
		}
		if d := compare(g, m); d != "" {
			c.Violate("parse", fmt.Sprintf("parse:v%d:%s", m.Version, firstWords(d)), map[string]interface{}{"diff": d}, rec)
			return
		}
		// lookups
		var nonConf []int
		for i, cr := range m.Creds {
			if !cr.IsConfig() {
				nonConf = append(nonConf, i)
			}
		}
		ge := g.GetEntries()
		if len(ge) != len(nonConf) {
			c.Violate("lookup", "getentries:count", map[string]interface{}{"got": len(ge), "want": len(nonConf)}, rec)
			return
		}
		for k, i := range nonConf {
			if ge[k] != g.Credentials[i] {
				c.Violate("lookup", "getentries:wrong-entry", nil, rec)
				return
			}
		}
		queries := [][]string{{"HTTP/a.r.com"}, {"HTTP", "a.r.com"}, {"krbtgt", "R.COM"}, {"host", "b.r.com"}, {"HTTP"}, {"HTTP", "a.r.com", "x"}, {"nosuch"}, {},
			// the server name of the alphabet's configuration entry: lookups see configuration entries too (only GetEntries filters them)
			{"krb5_ccache_conf_data", "fast_avail", "krbtgt/R.COM@R.COM"}}
		for _, q := range queries {
			want := -1
			for i, cr := range m.Creds {
				if strings.Join(cr.Server.Components, "\x00") == strings.Join(q, "\x00") && len(cr.Server.Components) == len(q) {
					want = i
					break
				}
			}
			pn := types.PrincipalName{NameType: 1, NameString: q}
			got, ok := g.GetEntry(pn)
			has := g.Contains(pn)
			if ok != (want >= 0) || has != (want >= 0) || (ok && got != g.Credentials[want]) {
				c.Violate("lookup", "getentry:wrong-result", map[string]interface{}{"query": q, "found": ok, "contains": has, "want_index": want}, rec)
				return
			}
		}
		if cn := g.GetClientPrincipalName(); strings.Join(cn.NameString, "/") != strings.Join(m.Default.Components, "/") || g.GetClientRealm() != m.Default.Realm {
			c.Violate("lookup", "client-principal", nil, rec)
			return
		}
		c.Distinct(fmt.Sprintf("v%d/h%d/c%d/%s", m.Version, len(m.Header), len(m.Creds), what))
	}

	for v := 1; v <= 4; v++ {
		hs := [][]ccachefmt.HeaderField{nil}
		if v == 4 {
			hs = headers()
		}
		for hi, h := range hs {
			for pi, dp := range principals() {
				// 0 credentials, every single credential
				check(ccachefmt.CCache{Version: v, Header: h, Default: dp}, "empty")
				for i, a := range alpha {
					check(ccachefmt.CCache{Version: v, Header: h, Default: dp, Creds: []ccachefmt.Credential{a}}, fmt.Sprintf("single-%d", i))
				}
				if hi > 1 || pi > 1 {
					continue
				}
				// every ordered pair
				for i, a := range alpha {
					for j, b := range alpha {
						check(ccachefmt.CCache{Version: v, Header: h, Default: dp, Creds: []ccachefmt.Credential{a, b}}, fmt.Sprintf("pair-%d-%d", i, j))
					}
				}
			}
		}
		// longer caches: sliding windows of 3..6 credentials over the alphabet
		for n := 3; n <= 6; n++ {
			for s := 0; s+n <= len(alpha); s++ {
				check(ccachefmt.CCache{Version: v, Default: principals()[0], Creds: append([]ccachefmt.Credential{}, alpha[s:s+n]...)}, fmt.Sprintf("window-%d-%d", s, n))
			}
		}
		check(ccachefmt.CCache{Version: v, Default: principals()[0], Creds: alpha}, "all")
	}
	c.Sample(map[string]interface{}{"version": 2, "default_principal": principals()[0], "credentials": []string{"krbtgt/R.COM flags=0x40000000 (forwardable)", "HTTP/a.r.com"}})

	clientFromCache(c, r, cfg, &evals)

	c.Add("evaluations", evals)
	c.Add("states", evals)
	c.Add("transitions", evals)
	c.Add("traces_validated_against_impl", evals)
	c.Cov["credential_alphabet"] = len(alpha)
	c.Cov["rule"] = "version(1-4) x v4 header shapes(5) x default principals(4) x {0 credentials, each single credential of a 26-shape alphabet incl. every pair of different address / authorization-data counts 0..3}; all ordered pairs of the alphabet under two headers/principals per version; sliding windows of 3-6 credentials and the whole alphabet; GetEntry/Contains/GetEntries for 7 queries per file; NewFromCCache + GetCachedTicket per version; identity of the client built from the cache for 7 default principals per version. distinct = (version, header, count, shape) files that parsed to exactly the model"
}

func hdrClass(m ccachefmt.CCache) string {
	if m.Version != 4 {
		return "no-header"
	}
	for _, f := range m.Header {
		if f.Tag != 1 {
			return "header-with-unknown-tag"
		}
	}
	return fmt.Sprintf("header-%d-fields", len(m.Header))
}

// clientFromCache: a client built from the cache serves exactly the cached tickets and keys.
func clientFromCache(c *engine.Ctx, r *rand.Rand, cfg *config.Config, evals *int64) {
	now := int32(T0.Unix())
	dp := ccachefmt.Principal{NameType: 1, Realm: "R.COM", Components: []string{"user"}}
	mk := func(sname []string, realm string, end int32) ccachefmt.Credential {
		k := make([]byte, 32)
		r.Read(k)
		return ccachefmt.Credential{Client: dp, Server: ccachefmt.Principal{NameType: 2, Realm: realm, Components: sname}, KeyType: 18, Key: k,
			AuthTime: now - 600, StartTime: now - 600, EndTime: end, RenewTill: end, Flags: 0x40e10000, Ticket: ticketBytes(realm, sname, r)}
	}
	conf := ccachefmt.Credential{Client: dp, Server: ccachefmt.Principal{Realm: "X-CACHECONF:", Components: []string{"krb5_ccache_conf_data", "pa_type", "krbtgt/R.COM@R.COM"}}, Ticket: []byte("2")}
	// tickets differ in which optional fields they carry (kvno present / absent), so that state carried from one
	// decoded ticket to the next would show
	noKvno := func(c ccachefmt.Credential) ccachefmt.Credential {
		ct := make([]byte, 33)
		r.Read(ct)
		c.Ticket = krbmsg.Ticket{VNO: 5, Realm: c.Server.Realm, SName: krbmsg.PrincipalName{Type: 2, Names: c.Server.Components}, Enc: krbmsg.EncryptedData{EType: 17, Cipher: ct}}.Encode()
		return c
	}
	// the identity of the client built from the cache is the default principal as written: name type, components
	// (incl. a separator inside a component, none at all) and realm
	idps := append(principals(), ccachefmt.Principal{NameType: 3, Realm: "R.COM", Components: []string{"host/x", "y"}},
		ccachefmt.Principal{NameType: 10, Realm: "R.COM", Components: []string{"user@other.example.com"}},
		ccachefmt.Principal{NameType: 1, Realm: "r.com", Components: []string{"User"}})
	for v := 1; v <= 4; v++ {
		for pi, idp := range idps {
			*evals++
			tgtName := []string{"krbtgt", idp.Realm}
			tgt := mk(tgtName, idp.Realm, now+36000)
			tgt.Client = idp
			m := ccachefmt.CCache{Version: v, Default: idp, Creds: []ccachefmt.Credential{tgt}}
			rec := map[string]interface{}{"version": v, "what": "identity of the client built from the cache", "default_principal": pstr(idp, v)}
			g := new(credentials.CCache)
			var cl *client.Client
			var cr *credentials.Credentials
			if pn := safe(func() {
				if err := g.Unmarshal(ccachefmt.Write(m)); err != nil {
					panic(err)
				}
				cr = g.GetClientCredentials()
				cl, _ = client.NewFromCCache(g, cfg)
			}); pn != "" {
				c.Violate("client", fmt.Sprintf("client:v%d:identity-panic-or-parse-error", v), map[string]interface{}{"panic": pn}, rec)
				continue
			}
			want := pstr(idp, v)
			bad := ""
			for name, x := range map[string]*credentials.Credentials{"GetClientCredentials": cr, "NewFromCCache": cl.Credentials} {
				if x == nil {
					bad = name + ":nil"
				} else if got := gstr(x.Domain(), x.CName()); got != want {
					bad = name + ":" + got
				} else if x.Realm() != idp.Realm {
					bad = name + ":realm " + x.Realm()
				}
			}
			if bad != "" {
				c.Violate("client", "client:identity-differs-from-default-principal", map[string]interface{}{"got": bad, "want": want}, rec)
			} else {
				c.Distinct(fmt.Sprintf("client-identity/v%d/%d", v, pi))
			}
		}
	}
	for v := 1; v <= 4; v++ {
		creds := []ccachefmt.Credential{mk([]string{"krbtgt", "R.COM"}, "R.COM", now+36000), conf, noKvno(mk([]string{"HTTP", "a.r.com"}, "R.COM", now+3600)), mk([]string{"host", "b.r.com"}, "R.COM", now-10),
			mk([]string{"cifs", "c.r.com"}, "R.COM", now+7200), noKvno(mk([]string{"ldap", "d.r.com"}, "R.COM", now+7200)),
			// the same services written again later (what a renewal or a re-acquisition appends): the cache's
			// current credential for a service is the one written last, whichever lives longer
			mk([]string{"cifs", "c.r.com"}, "R.COM", now+3600), mk([]string{"ldap", "d.r.com"}, "R.COM", now+9000), mk([]string{"krbtgt", "R.COM"}, "R.COM", now+30000),
			// a credential whose client is not the cache's default principal (e.g. obtained through S4U or copied in): it is
			// in the cache, so the client built from the cache holds it too
			func() ccachefmt.Credential {
				cr := mk([]string{"imap", "e.r.com"}, "R.COM", now+7200)
				cr.Client = ccachefmt.Principal{NameType: 1, Realm: "OTHER.COM", Components: []string{"someone", "else"}}
				return cr
			}()}
		last := map[string]int{}
		for i, cr := range creds {
			if !cr.IsConfig() {
				last[strings.Join(cr.Server.Components, "/")] = i
			}
		}
		m := ccachefmt.CCache{Version: v, Default: dp, Creds: creds}
		*evals++
		rec := map[string]interface{}{"version": v, "what": "NewFromCCache"}
		g := new(credentials.CCache)
		if pn := safe(func() { _ = g.Unmarshal(ccachefmt.Write(m)) }); pn != "" {
			c.Violate("client", fmt.Sprintf("client:v%d:parse-panic", v), map[string]interface{}{"panic": pn}, rec)
			continue
		}
		var cl *client.Client
		var err error
		if pn := safe(func() { cl, err = client.NewFromCCache(g, cfg) }); pn != "" || err != nil {
			c.Violate("client", fmt.Sprintf("client:v%d:NewFromCCache", v), map[string]interface{}{"panic": pn, "err": fmt.Sprint(err)}, rec)
			continue
		}
		okAll := true
		for i, cr := range creds {
			if cr.IsConfig() {
				continue
			}
			spn := strings.Join(cr.Server.Components, "/")
			if last[spn] != i {
				continue // superseded by a credential written later
			}
			tkt, key, ok := cl.GetCachedTicket(spn)
			valid := cr.EndTime > now
			if !valid {
				// expired and not renewable: must not be served
				if ok {
					c.Violate("client", "client:serves-expired-ticket", map[string]interface{}{"spn": spn}, rec)
					okAll = false
				}
				continue
			}
			tb, _ := tkt.Marshal()
			if !ok || !bytes.Equal(key.KeyValue, cr.Key) || key.KeyType != 18 || !bytes.Equal(tb, cr.Ticket) {
				c.Violate("client", fmt.Sprintf("client:v%d:ticket-or-key-differs", v), map[string]interface{}{"spn": spn, "served": ok, "credential": i}, rec)
				okAll = false
			}
		}
		if _, _, ok := cl.GetCachedTicket("krb5_ccache_conf_data/pa_type/krbtgt/R.COM@R.COM"); ok {
			c.Violate("client", "client:serves-config-entry", nil, rec)
			okAll = false
		}
		if okAll {
			c.Distinct(fmt.Sprintf("client/v%d", v))
		}
	}
}
