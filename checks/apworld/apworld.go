// Package apworld is the closed world shared by the service-side checks
// (C01, C02, C03, C19, C20): a realm, a service keytab written by the
// independent keytab writer, and AP-REQs minted by the reference encoder and
// the reference crypto (never by gokrb5), described by a Case whose fields the
// defect catalogue perturbs. Expect computes, from the case and the service
// settings alone, whether RFC 4120 3.2.3 (as the property states it) accepts.
package apworld

import (
	"bytes"
	"math/rand"
	"strings"
	"time"

	"verif/ref/der"
	"verif/ref/keytabfmt"
	"verif/ref/krbmsg"
	rpac "verif/ref/pac"
	"verif/ref/rcrypto"
)

var T0 = time.Date(2031, 3, 4, 5, 6, 7, 0, time.UTC)

const (
	Realm     = "TEST.GOKRB5"
	SvcHost   = "host.test.gokrb5"
	OtherHost = "other.test.gokrb5"
	Account   = "svcacct" // override principal holding the same keys as HTTP/host
)

var (
	AddrMatch = krbmsg.HostAddress{Type: 2, Addr: []byte{10, 0, 0, 1}}
	AddrOther = krbmsg.HostAddress{Type: 2, Addr: []byte{10, 0, 0, 2}}
)

// KTEntry mirrors one keytab entry of the model.
type KTEntry struct {
	Principal []string
	Realm     string
	KVNO      int
	Etype     int32
	Key       []byte
	TS        uint32
}

// World holds the keys of the model.
type World struct {
	Entries []KTEntry
	Keytab  []byte // keytab file bytes (version 2)
	rnd     *rand.Rand
}

// NewWorld builds the model keytab with seeded random keys.
func NewWorld(seed int64) *World {
	w := &World{rnd: rand.New(rand.NewSource(seed))}
	var items []keytabfmt.Item
	add := func(princ []string, kvno int, et int32, key []byte, ts uint32) {
		w.Entries = append(w.Entries, KTEntry{princ, Realm, kvno, et, key, ts})
		k32 := uint32(kvno)
		items = append(items, keytabfmt.Item{Entry: &keytabfmt.Entry{Components: princ, Realm: Realm, NameType: 1, Timestamp: ts, KVNO8: uint8(kvno), KVNO32: &k32, KeyType: uint16(et), Key: key}})
	}
	for _, et := range rcrypto.Etypes {
		k2, k1, ko := w.RandKey(et), w.RandKey(et), w.RandKey(et)
		add([]string{"HTTP", SvcHost}, 1, et, k1, 100)
		add([]string{"HTTP", SvcHost}, 2, et, k2, 200)
		add([]string{Account}, 2, et, k2, 200)
		add([]string{"HTTP", OtherHost}, 2, et, ko, 200)
	}
	w.Keytab = keytabfmt.Write(2, items)
	return w
}

// RandKey returns a fresh protocol key for the etype.
func (w *World) RandKey(et int32) []byte {
	p, _ := rcrypto.Get(et)
	s := make([]byte, p.SeedLen)
	w.rnd.Read(s)
	return rcrypto.RandomToKey(et, s)
}

// Lookup models keytab key selection: entries matching principal components,
// realm and etype, with the given kvno (any when 0, newest timestamp wins).
func (w *World) Lookup(princ []string, realm string, kvno int, et int32) ([]byte, bool) {
	var best *KTEntry
	for i := range w.Entries {
		e := &w.Entries[i]
		if e.Realm != realm || e.Etype != et || len(e.Principal) != len(princ) {
			continue
		}
		same := true
		for j := range princ {
			if princ[j] != e.Principal[j] {
				same = false
			}
		}
		if !same || (kvno != 0 && e.KVNO != kvno) {
			continue
		}
		if best == nil || e.TS > best.TS {
			best = e
		}
	}
	if best == nil {
		return nil, false
	}
	return best.Key, true
}

// CipherMut describes a tampering of a ciphertext.
type CipherMut struct {
	Kind string `json:"kind,omitempty"` // "", "flip", "truncate", "empty"
	Pos  int    `json:"pos,omitempty"`  // bit index for flip (negative: from the end), bytes removed for truncate
}

func (m CipherMut) apply(ct []byte) []byte {
	out := append([]byte{}, ct...)
	switch m.Kind {
	case "flip":
		i := m.Pos
		if i < 0 {
			i = len(out)*8 + i
		}
		if i >= 0 && i < len(out)*8 {
			out[i/8] ^= 1 << uint(7-i%8)
		}
	case "truncate":
		n := len(out) - m.Pos
		if n < 0 {
			n = 0
		}
		out = out[:n]
	case "empty":
		out = []byte{}
	}
	return out
}

// Case fully describes one AP-REQ and the instant of its presentation.
type Case struct {
	Etype int32 `json:"etype"`
	// ticket, clear part
	TktRealm     string   `json:"tkt_realm"`
	TktSName     []string `json:"tkt_sname"`
	TktSNameType int32    `json:"tkt_sname_type"`
	TktKVNO      int      `json:"tkt_kvno"` // 0: kvno field omitted
	TktLabel     int32    `json:"tkt_etype_label"`
	// ticket, sealing
	TktKeyOf string    `json:"tkt_key_of"` // "svc2" (HTTP/host kvno 2), "svc1", "other", "random"
	TktUsage uint32    `json:"tkt_usage"`
	TktMut   CipherMut `json:"tkt_mut"`
	// ticket, sealed part
	Flags      uint32                 `json:"flags"`
	CRealm     string                 `json:"crealm"`
	CName      []string               `json:"cname"`
	CNameType  int32                  `json:"cname_type"`
	AuthTime   time.Duration          `json:"authtime_off"` // offsets from T0
	Start      *time.Duration         `json:"start_off"`
	End        time.Duration          `json:"end_off"`
	RenewTill  *time.Duration         `json:"renew_off"`
	CAddr      []krbmsg.HostAddress   `json:"caddr"`
	AuthzData  []krbmsg.AuthDataEntry `json:"-"`
	AuthzLabel string                 `json:"authz,omitempty"`
	// authenticator
	AuthKeyRandom bool          `json:"auth_key_random"`
	// AuthSealAs, when non-zero: the authenticator is sealed with the algorithms of this other encryption type over
	// the session key's bytes and labelled with it (the label is clear text; the key's type decides, RFC 3961)
	AuthSealAs int32 `json:"auth_seal_as,omitempty"`
	AuthUsage     uint32        `json:"auth_usage"`
	AuthMut       CipherMut     `json:"auth_mut"`
	ACRealm       string        `json:"a_crealm"`
	ACName        []string      `json:"a_cname"`
	ACNameType    int32         `json:"a_cname_type"`
	CTime         time.Duration `json:"ctime_off"` // offset from T0, microsecond resolution
	SeqNum        int64         `json:"seq"`
	// presentation
	// TktAppendClear: a clear-text EncTicketPart-shaped SEQUENCE (client "administrator", valid for ten years, a
	// session key of the sender's choosing under which the authenticator is sealed) is appended to the Ticket
	// SEQUENCE after the enc-part, and the enc-part ciphertext is random: nothing authentic is left in the request
	TktAppendClear bool `json:"tkt_cleartext_encpart_appended,omitempty"`
	// RawETP / RawAuth, when set, are sealed in place of the encoded EncTicketPart / Authenticator (C04: arbitrary
	// plaintexts under genuine keys)
	RawETP  []byte `json:"-"`
	RawAuth []byte `json:"-"`

	// absolute instants overriding the offsets (for times no duration from T0 can express)
	CTimeAbs *time.Time `json:"ctime_abs,omitempty"`
	StartAbs *time.Time `json:"start_abs,omitempty"`
	EndAbs   *time.Time `json:"end_abs,omitempty"`

	NowNudge time.Duration `json:"now_nudge"` // virtual now = T0 + NowNudge
	Twice    bool          `json:"twice"`     // present twice; the verdict of interest is the second
}

// Settings mirrors service.Settings.
type Settings struct {
	Skew            time.Duration       `json:"skew"` // 0: default (5 minutes)
	RequireHostAddr bool                `json:"require_host_addr"`
	ClientAddr      *krbmsg.HostAddress `json:"client_addr"`
	Override        string              `json:"override"` // "" none, else principal string
	DecodePAC       bool                `json:"decode_pac"`
}

func (s Settings) EffSkew() time.Duration {
	if s.Skew == 0 {
		return 5 * time.Minute
	}
	return s.Skew
}

func dur(d time.Duration) *time.Duration { return &d }
func timeP(t time.Time) *time.Time       { return &t }

// yearsD is n years as a duration (n <= 292).
func yearsD(n int) time.Duration { return time.Duration(n) * 365 * 24 * time.Hour }

// Base is a valid request for the etype.
func Base(et int32) Case {
	return Case{
		Etype: et, TktRealm: Realm, TktSName: []string{"HTTP", SvcHost}, TktSNameType: 3, TktKVNO: 2, TktLabel: et,
		TktKeyOf: "svc2", TktUsage: 2,
		Flags: 0x40800000, CRealm: Realm, CName: []string{"user1"}, CNameType: 1,
		AuthTime: -10 * time.Minute, Start: dur(-10 * time.Minute), End: 8 * time.Hour, RenewTill: dur(24 * time.Hour),
		AuthUsage: 11, ACRealm: Realm, ACName: []string{"user1"}, ACNameType: 1, CTime: 0, SeqNum: 12345,
	}
}

// Minted is the result of minting a case.
type Minted struct {
	APReq      []byte
	Ticket     []byte
	TicketCT   []byte
	AuthCT     []byte
	SessionKey []byte
	EndTime    time.Time
	ETP, Auth  []byte // the plaintexts (before any Raw override)
}

func (w *World) ticketKey(c Case) []byte {
	switch c.TktKeyOf {
	case "svc2":
		k, _ := w.Lookup([]string{"HTTP", SvcHost}, Realm, 2, c.Etype)
		return k
	case "svc1":
		k, _ := w.Lookup([]string{"HTTP", SvcHost}, Realm, 1, c.Etype)
		return k
	case "other":
		k, _ := w.Lookup([]string{"HTTP", OtherHost}, Realm, 2, c.Etype)
		return k
	}
	return w.RandKey(c.Etype)
}

func (w *World) conf(et int32) []byte {
	p, _ := rcrypto.Get(et)
	b := make([]byte, p.Conf)
	w.rnd.Read(b)
	return b
}

// Mint builds the AP-REQ bytes for the case.
func (w *World) Mint(c Case) (Minted, error) {
	var m Minted
	m.SessionKey = w.RandKey(c.Etype)
	at := T0.Add(c.AuthTime)
	m.EndTime = T0.Add(c.End)
	etp := krbmsg.EncTicketPart{
		Flags: c.Flags, Key: krbmsg.EncryptionKey{Type: c.Etype, Value: m.SessionKey},
		CRealm: c.CRealm, CName: krbmsg.PrincipalName{Type: c.CNameType, Names: c.CName},
		Transited: krbmsg.Transited{Type: 0, Contents: []byte{}},
		AuthTime:  at, EndTime: m.EndTime, CAddr: c.CAddr, AuthData: c.AuthzData,
	}
	if c.Start != nil {
		etp.StartTime = krbmsg.Tm(T0.Add(*c.Start))
	}
	if c.StartAbs != nil {
		etp.StartTime = krbmsg.Tm(*c.StartAbs)
	}
	if c.EndAbs != nil {
		etp.EndTime = *c.EndAbs
		m.EndTime = *c.EndAbs
	}
	if c.RenewTill != nil {
		etp.RenewTill = krbmsg.Tm(T0.Add(*c.RenewTill))
	}
	etpBytes := etp.Encode()
	m.ETP = etpBytes
	if c.RawETP != nil {
		etpBytes = c.RawETP
	}
	tct, err := rcrypto.EncryptWithConfounder(c.Etype, w.ticketKey(c), c.TktUsage, w.conf(c.Etype), etpBytes)
	if err != nil {
		return m, err
	}
	tct = c.TktMut.apply(tct)
	m.TicketCT = tct
	tkt := krbmsg.Ticket{VNO: 5, Realm: c.TktRealm, SName: krbmsg.PrincipalName{Type: c.TktSNameType, Names: c.TktSName},
		Enc: krbmsg.EncryptedData{EType: c.TktLabel, Cipher: tct}}
	if c.TktKVNO != 0 {
		tkt.Enc.KVNO = krbmsg.I64(int64(c.TktKVNO))
	}
	m.Ticket = tkt.Encode()
	if c.TktAppendClear {
		forged := krbmsg.EncTicketPart{Flags: c.Flags, Key: krbmsg.EncryptionKey{Type: c.Etype, Value: m.SessionKey}, CRealm: c.CRealm,
			CName: krbmsg.PrincipalName{Type: 1, Names: []string{"administrator"}}, Transited: krbmsg.Transited{Type: 0, Contents: []byte{}},
			AuthTime: at, EndTime: T0.Add(10 * 365 * 24 * time.Hour)}
		fb := forged.Encode()
		if n, err := der.Parse(fb); err == nil && len(n.Children) == 1 {
			fb = n.Children[0].Full // the SEQUENCE inside the APPLICATION 3 wrapper
		}
		garbage := make([]byte, len(tct))
		w.rnd.Read(garbage)
		tkt.Enc.Cipher = garbage
		m.TicketCT = garbage
		if n, err := der.Parse(tkt.Encode()); err == nil && len(n.Children) == 1 {
			inner := append(append([]byte{}, n.Children[0].Content...), fb...)
			m.Ticket = der.Application(1, der.TLV(der.Universal, true, der.TagSequence, inner))
		}
	}
	ct := T0.Add(c.CTime)
	if c.CTimeAbs != nil {
		ct = *c.CTimeAbs
	}
	sec := ct.Truncate(time.Second)
	if sec.After(ct) {
		sec = sec.Add(-time.Second)
	}
	auth := krbmsg.Authenticator{VNO: 5, CRealm: c.ACRealm, CName: krbmsg.PrincipalName{Type: c.ACNameType, Names: c.ACName},
		Cusec: int64(ct.Sub(sec) / time.Microsecond), CTime: sec, SeqNum: krbmsg.I64(c.SeqNum)}
	akey := m.SessionKey
	if c.AuthKeyRandom {
		akey = w.RandKey(c.Etype)
	}
	authBytes := auth.Encode()
	m.Auth = authBytes
	if c.RawAuth != nil {
		authBytes = c.RawAuth
	}
	aet := c.Etype
	if c.AuthSealAs != 0 {
		aet = c.AuthSealAs
	}
	act, err := rcrypto.EncryptWithConfounder(aet, akey, c.AuthUsage, w.conf(aet), authBytes)
	if err != nil {
		return m, err
	}
	act = c.AuthMut.apply(act)
	m.AuthCT = act
	m.APReq = krbmsg.APReq{PVNO: 5, MsgType: 14, APOptions: 0, Ticket: m.Ticket, Auth: krbmsg.EncryptedData{EType: aet, Cipher: act}}.Encode()
	return m, nil
}

func sameNames(a, b []string) bool {
	if len(a) != len(b) {
		return false
	}
	for i := range a {
		if a[i] != b[i] {
			return false
		}
	}
	return true
}

func containsAddr(l []krbmsg.HostAddress, a krbmsg.HostAddress) bool {
	for _, x := range l {
		if x.Type == a.Type && bytes.Equal(x.Addr, a.Addr) {
			return true
		}
	}
	return false
}

// Verdict is the expected outcome of one presentation.
type Verdict struct {
	Accept bool
	Reason string // first failing clause (or "ok")
	Judged bool   // false: the property statement does not settle this case
	Why    string // why not judged
}

// Expect applies the property statement. replay tells whether the same
// authenticator was already accepted by this service process.
func (w *World) Expect(c Case, s Settings, replayed bool) Verdict {
	v := Verdict{Judged: true}
	rej := func(r string) Verdict { v.Accept, v.Reason = false, r; return v }
	// 1. ticket decrypts under the keytab key selected by realm, kvno, etype for the service / override principal
	princ := c.TktSName
	if s.Override != "" {
		princ = splitPrinc(s.Override)
		if len(c.TktSName) == 0 || c.TktSName[0] == "krbtgt" {
			v.Judged, v.Why = false, "ticket sname empty or krbtgt under a keytab-principal override (statement is silent on the key usage then)"
		}
	}
	key, ok := w.Lookup(princ, c.TktRealm, c.TktKVNO, c.TktLabel)
	if !ok {
		return rej("no-keytab-key")
	}
	if !bytes.Equal(key, w.ticketKeyStable(c)) || c.TktLabel != c.Etype || c.TktUsage != 2 || c.TktMut.Kind != "" || c.TktAppendClear {
		return rej("ticket-does-not-decrypt")
	}
	// 2. validity extended by the skew, INVALID flag
	skew := s.EffSkew()
	now := T0.Add(c.NowNudge)
	start := T0.Add(c.AuthTime)
	if c.Start != nil {
		start = T0.Add(*c.Start)
	}
	if c.StartAbs != nil {
		start = *c.StartAbs
	}
	// the ticket carries its times at the wire's resolution (KerberosTime: whole seconds; the authenticator's
	// ctime + cusec: microseconds); with a skew that is not a whole number of seconds the difference shows
	start = start.Truncate(time.Second)
	if start.After(now.Add(skew)) {
		return rej("not-yet-valid")
	}
	if c.Flags&(1<<(31-7)) != 0 {
		return rej("invalid-flag")
	}
	end := T0.Add(c.End)
	if c.EndAbs != nil {
		end = *c.EndAbs
	}
	end = end.Truncate(time.Second)
	if now.After(end.Add(skew)) {
		return rej("expired")
	}
	// address requirements
	if len(c.CAddr) > 0 {
		if s.ClientAddr == nil || !containsAddr(c.CAddr, *s.ClientAddr) {
			return rej("bad-address")
		}
	}
	// 3. authenticator decrypts under the session key
	if c.AuthKeyRandom || c.AuthUsage != 11 || c.AuthMut.Kind != "" || c.AuthSealAs != 0 {
		return rej("authenticator-does-not-decrypt")
	}
	// 4. same client principal and realm
	if !sameNames(c.ACName, c.CName) {
		return rej("cname-mismatch")
	}
	if c.ACRealm != c.CRealm {
		return rej("crealm-mismatch")
	}
	// 5. authenticator timestamp within the skew
	ct := T0.Add(c.CTime)
	if c.CTimeAbs != nil {
		ct = *c.CTimeAbs
	}
	ct = ct.Truncate(time.Microsecond)
	if now.After(ct.Add(skew)) || ct.After(now.Add(skew)) {
		return rej("clock-skew")
	}
	if s.RequireHostAddr && len(c.CAddr) < 1 {
		return rej("host-address-required")
	}
	if replayed {
		return rej("replay")
	}
	if s.DecodePAC && strings.HasPrefix(c.AuthzLabel, "pac-bad:") {
		return rej("pac-fails-verification")
	}
	if len(c.CName) == 0 {
		v.Judged, v.Why = false, "empty client name in ticket and authenticator (no KDC issues it; statement silent)"
	}
	v.Accept, v.Reason = true, "ok"
	return v
}

// ticketKeyStable returns the key the ticket was sealed with for the
// deterministic choices (random keys never match a keytab key).
func (w *World) ticketKeyStable(c Case) []byte {
	if c.TktKeyOf == "random" {
		return []byte("never-a-keytab-key")
	}
	return w.ticketKey(c)
}

func splitPrinc(s string) []string {
	var out []string
	cur := ""
	for _, r := range s {
		if r == '/' {
			out = append(out, cur)
			cur = ""
		} else {
			cur += string(r)
		}
	}
	return append(out, cur)
}

// Defect is one catalogue entry.
type Defect struct {
	Name  string
	Apply func(c *Case)
}

// Catalogue returns the defect catalogue for the given skew (boundaries depend on it).
func Catalogue(skew time.Duration) []Defect {
	return []Defect{
		{"tkt-key-random", func(c *Case) { c.TktKeyOf = "random" }},
		{"tkt-key-of-kvno1", func(c *Case) { c.TktKeyOf = "svc1" }},
		{"tkt-key-of-other-service", func(c *Case) { c.TktKeyOf = "other" }},
		{"tkt-kvno-1", func(c *Case) { c.TktKVNO = 1 }},
		{"tkt-kvno-9-absent", func(c *Case) { c.TktKVNO = 9 }},
		{"tkt-kvno-omitted", func(c *Case) { c.TktKVNO = 0 }},
		{"tkt-kvno-257-key-of-kvno1", func(c *Case) { c.TktKVNO = 257; c.TktKeyOf = "svc1" }},
		{"tkt-kvno-258-key-of-kvno2", func(c *Case) { c.TktKVNO = 258 }},
		{"tkt-kvno-65538", func(c *Case) { c.TktKVNO = 65538 }},
		{"tkt-etype-label-other", func(c *Case) { c.TktLabel = otherLabel(c.Etype) }},
		{"tkt-realm-other", func(c *Case) { c.TktRealm = "OTHER.REALM" }},
		{"tkt-sname-other-service", func(c *Case) { c.TktSName = []string{"HTTP", OtherHost} }},
		{"tkt-sname-unknown", func(c *Case) { c.TktSName = []string{"HTTP", "nosuch.test.gokrb5"} }},
		{"tkt-sname-prefix", func(c *Case) { c.TktSName = []string{"HTTP"} }},
		{"tkt-sname-extra-component", func(c *Case) { c.TktSName = []string{"HTTP", SvcHost, "x"} }},
		{"tkt-sname-empty", func(c *Case) { c.TktSName = []string{} }},
		{"tkt-sname-krbtgt", func(c *Case) { c.TktSName = []string{"krbtgt", Realm} }},
		{"tkt-sname-type-only", func(c *Case) { c.TktSNameType = 1 }},
		{"tkt-sname-case-changed", func(c *Case) { c.TktSName = []string{"HTTP", "Host.test.gokrb5"} }},
		{"tkt-sname-service-case-changed", func(c *Case) { c.TktSName = []string{"http", SvcHost} }},
		{"tkt-realm-case-changed", func(c *Case) { c.TktRealm = "test.gokrb5" }},
		{"tkt-usage-11", func(c *Case) { c.TktUsage = 11 }},
		{"tkt-flip-first-bit", func(c *Case) { c.TktMut = CipherMut{"flip", 0} }},
		{"tkt-flip-middle-bit", func(c *Case) { c.TktMut = CipherMut{"flip", 300} }},
		{"tkt-flip-last-bit", func(c *Case) { c.TktMut = CipherMut{"flip", -1} }},
		{"tkt-truncate-1", func(c *Case) { c.TktMut = CipherMut{"truncate", 1} }},
		{"tkt-truncate-to-5", func(c *Case) { c.TktMut = CipherMut{"truncate", 100000}; c.TktMut = CipherMut{"empty", 0} }},
		{"flag-invalid", func(c *Case) { c.Flags |= 1 << (31 - 7) }},
		{"start-at-now-plus-skew", func(c *Case) { c.Start = dur(skew) }},
		{"start-at-now-plus-skew-clock-1ns-early", func(c *Case) { c.Start = dur(skew); c.NowNudge = -1 }},
		{"start-1s-beyond-skew", func(c *Case) { c.Start = dur(skew + time.Second) }},
		{"start-absent-authtime-past", func(c *Case) { c.Start = nil }},
		{"end-at-now-minus-skew", func(c *Case) { c.End = -skew }},
		{"end-at-now-minus-skew-clock-1ns-late", func(c *Case) { c.End = -skew; c.NowNudge = 1 }},
		{"end-1s-beyond-skew", func(c *Case) { c.End = -skew - time.Second }},
		{"ctime-plus-skew", func(c *Case) { c.CTime = skew }},
		{"ctime-plus-skew-1us", func(c *Case) { c.CTime = skew + time.Microsecond }},
		{"ctime-minus-skew", func(c *Case) { c.CTime = -skew }},
		{"ctime-minus-skew-1us", func(c *Case) { c.CTime = -skew - time.Microsecond }},
		{"auth-key-random", func(c *Case) { c.AuthKeyRandom = true }},
		// sealed under the session key's bytes with a sibling type's algorithms and labelled as that type (equal key lengths only)
		{"auth-sealed-as-sibling-etype", func(c *Case) {
			o := otherLabel(c.Etype)
			po, ok1 := rcrypto.Get(o)
			pe, ok2 := rcrypto.Get(c.Etype)
			if ok1 && ok2 && po.KeyLen == pe.KeyLen {
				c.AuthSealAs = o
			} else {
				c.AuthKeyRandom = true
			}
		}},
		{"auth-usage-7", func(c *Case) { c.AuthUsage = 7 }},
		{"auth-flip-first-bit", func(c *Case) { c.AuthMut = CipherMut{"flip", 0} }},
		{"auth-flip-last-bit", func(c *Case) { c.AuthMut = CipherMut{"flip", -1} }},
		{"auth-truncate-1", func(c *Case) { c.AuthMut = CipherMut{"truncate", 1} }},
		{"auth-empty", func(c *Case) { c.AuthMut = CipherMut{"empty", 0} }},
		{"auth-cname-changed", func(c *Case) { c.ACName = []string{"user2"} }},
		{"auth-cname-extra-component", func(c *Case) { c.ACName = append(append([]string{}, c.ACName...), "admin") }},
		{"auth-cname-empty", func(c *Case) { c.ACName = []string{} }},
		{"auth-cname-type-only", func(c *Case) { c.ACNameType = 2 }},
		{"auth-crealm-changed", func(c *Case) { c.ACRealm = "EVIL.REALM" }},
		{"auth-crealm-case-changed", func(c *Case) { c.ACRealm = strings.ToLower(c.CRealm) }},
		{"auth-crealm-prefix", func(c *Case) { c.ACRealm = c.CRealm[:len(c.CRealm)-1] }},
		{"tkt-cname-two-components", func(c *Case) { c.CName = []string{"user1", "admin"} }},
		{"cname-same-text-other-split", func(c *Case) { c.CName = []string{"user1", "admin"}; c.ACName = []string{"user1/admin"} }},
		{"cname-same-text-other-split-2", func(c *Case) { c.CName = []string{"user1/admin"}; c.ACName = []string{"user1", "admin"} }},
		{"tkt-sname-joined-component", func(c *Case) { c.TktSName = []string{"HTTP/" + SvcHost} }},
		{"both-cnames-empty", func(c *Case) { c.CName = []string{}; c.ACName = []string{} }},
		{"tkt-crealm-other-both", func(c *Case) { c.CRealm = "TRUSTED.REALM"; c.ACRealm = "TRUSTED.REALM" }},
		// a client name component that contains '@' (enterprise / UPN style): the identity is the sealed name and the sealed realm
		{"cname-with-at-sign", func(c *Case) { c.CName = []string{"admin@" + Realm}; c.ACName = []string{"admin@" + Realm} }},
		{"cname-with-at-sign-other-crealm", func(c *Case) {
			c.CName, c.ACName = []string{"admin@" + Realm}, []string{"admin@" + Realm}
			c.CRealm, c.ACRealm = "TRUSTED.REALM", "TRUSTED.REALM"
		}},
		{"cname-enterprise-type", func(c *Case) {
			c.CName, c.ACName = []string{"first.last@corp.example"}, []string{"first.last@corp.example"}
			c.CNameType, c.ACNameType = 10, 10
		}},
		{"flag-invalid-without-starttime", func(c *Case) { c.Flags |= 1 << (31 - 7); c.Start = nil }},
		{"caddr-matching", func(c *Case) { c.CAddr = []krbmsg.HostAddress{AddrMatch} }},
		{"caddr-other", func(c *Case) { c.CAddr = []krbmsg.HostAddress{AddrOther} }},
		{"caddr-other-and-matching", func(c *Case) { c.CAddr = []krbmsg.HostAddress{AddrOther, AddrMatch} }},
		{"caddr-empty-list", func(c *Case) { c.CAddr = []krbmsg.HostAddress{} }},
		// the client's address bytes under another address type, and its IPv4-mapped IPv6 form: neither is the client's address
		{"caddr-other-type-same-bytes", func(c *Case) { c.CAddr = []krbmsg.HostAddress{{Type: 20, Addr: AddrMatch.Addr}} }},
		{"caddr-directional-same-bytes", func(c *Case) { c.CAddr = []krbmsg.HostAddress{{Type: 3, Addr: AddrMatch.Addr}, AddrOther} }},
		{"caddr-v4-mapped-v6", func(c *Case) {
			c.CAddr = []krbmsg.HostAddress{{Type: 24, Addr: append([]byte{0, 0, 0, 0, 0, 0, 0, 0, 0, 0, 0xff, 0xff}, AddrMatch.Addr...)}}
		}},
		{"replay", func(c *Case) { c.Twice = true }},
		{"tkt-realm-empty", func(c *Case) { c.TktRealm = "" }},
		// times far outside what a duration can express (time.Time.Sub saturates beyond about 292 years)
		{"ctime-300-years-ahead", func(c *Case) { c.CTime = yearsD(300) }},
		{"ctime-year-9990", func(c *Case) { c.CTimeAbs = timeP(time.Date(9990, 1, 2, 3, 4, 5, 0, time.UTC)) }},
		{"ctime-300-years-back", func(c *Case) { c.CTime = -yearsD(290); c.CTimeAbs = timeP(time.Date(1700, 1, 2, 3, 4, 5, 0, time.UTC)) }},
		{"start-year-9990", func(c *Case) { c.StartAbs = timeP(time.Date(9990, 1, 2, 3, 4, 5, 0, time.UTC)) }},
		{"end-year-1700", func(c *Case) { c.EndAbs = timeP(time.Date(1700, 1, 2, 3, 4, 5, 0, time.UTC)) }},
		{"tkt-cleartext-encpart-appended", func(c *Case) { c.TktAppendClear = true; c.ACName = []string{"administrator"} }},
		{"pac-undecodable-4-bytes", func(c *Case) { withPAC(c, "pac-bad:4-bytes", []byte{1, 0, 0, 0}) }},
		{"pac-empty", func(c *Case) { withPAC(c, "pac-bad:empty", []byte{}) }},
		{"pac-buffer-count-exceeds-data", func(c *Case) {
			withPAC(c, "pac-bad:count", []byte{0xff, 0xff, 0xff, 0x00, 0, 0, 0, 0, 1, 0, 0, 0, 4, 0, 0, 0, 0x18, 0, 0, 0, 0, 0, 0, 0, 1, 2, 3, 4})
		}},
		{"pac-without-signatures", func(c *Case) {
			b, _ := rpac.Assemble([]rpac.Buffer{{Type: rpac.TypeClientInfo, Data: rpac.ClientInfo(rpac.FileTime(T0), "user1")}})
			withPAC(c, "pac-bad:no-signature-buffers", b)
		}},
		{"pac-unsigned", func(c *Case) {
			b, _ := rpac.Assemble([]rpac.Buffer{{Type: rpac.TypeClientInfo, Data: rpac.ClientInfo(rpac.FileTime(T0), "user1")},
				{Type: rpac.TypeServerSig, Data: rpac.SigBuffer(16, nil)}, {Type: rpac.TypeKDCSig, Data: rpac.SigBuffer(16, nil)}})
			withPAC(c, "pac-bad:zero-signature", b)
		}},
		{"authz-if-relevant-without-pac", func(c *Case) {
			c.AuthzData = []krbmsg.AuthDataEntry{{Type: 1, Data: krbmsg.EncodeAuthData([]krbmsg.AuthDataEntry{{Type: 141, Data: []byte("x")}})}}
			c.AuthzLabel = "no-pac"
		}},
	}
}

// withPAC puts the bytes into the ticket as AD-IF-RELEVANT { AD-WIN2K-PAC }.
func withPAC(c *Case, label string, pacBytes []byte) {
	c.AuthzData = []krbmsg.AuthDataEntry{{Type: 1, Data: krbmsg.EncodeAuthData([]krbmsg.AuthDataEntry{{Type: 128, Data: pacBytes}})}}
	c.AuthzLabel = label
}

func otherLabel(et int32) int32 {
	switch et {
	case rcrypto.AES128:
		return rcrypto.A128S2
	case rcrypto.A128S2:
		return rcrypto.AES128
	case rcrypto.AES256:
		return rcrypto.A256S2
	case rcrypto.A256S2:
		return rcrypto.AES256
	case rcrypto.RC4:
		return rcrypto.AES128
	}
	return rcrypto.AES256
}

// MintLike re-assembles the AP-REQ of an already minted request around the SAME ticket and authenticator ciphertexts
// with the clear-text ticket fields of case c (what an on-path replayer can do without any key).
func (w *World) MintLike(c Case, m Minted) []byte {
	tkt := krbmsg.Ticket{VNO: 5, Realm: c.TktRealm, SName: krbmsg.PrincipalName{Type: c.TktSNameType, Names: c.TktSName},
		Enc: krbmsg.EncryptedData{EType: c.TktLabel, Cipher: m.TicketCT}}
	if c.TktKVNO != 0 {
		tkt.Enc.KVNO = krbmsg.I64(int64(c.TktKVNO))
	}
	return krbmsg.APReq{PVNO: 5, MsgType: 14, APOptions: 0, Ticket: tkt.Encode(), Auth: krbmsg.EncryptedData{EType: c.Etype, Cipher: m.AuthCT}}.Encode()
}
