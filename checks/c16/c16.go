// Package c16: krb5.conf parsing, realm resolution and KDC selection follow
// MIT semantics. A configuration model is rendered to text under a catalogue
// of layouts and parsed by gokrb5; the resulting Config must hold the
// documented values. Realm resolution is checked for every hostname over a
// small label alphabet against every subset of a mapping universe; KDC lookup
// for every realm and every outcome of the random ordering.
package c16

import (
	"fmt"
	"reflect"
	"sort"
	"strings"
	"time"

	"verif/engine"

	"github.com/jcmturner/gokrb5/v8/config"
	"github.com/jcmturner/gokrb5/v8/zzverif/vrand"
)

func safe(f func()) (p string) {
	defer func() {
		if r := recover(); r != nil {
			p = fmt.Sprint(r)
		}
	}()
	f()
	return ""
}

// kv is one libdefaults key with a spelling and the predicate the parsed value must satisfy.
type kvCase struct {
	Key, Text string
	Class     string
	Check     func(l *config.LibDefaults) bool
}

func boolCases(key string, get func(l *config.LibDefaults) bool) []kvCase {
	var out []kvCase
	for _, s := range []struct {
		t string
		v bool
	}{{"true", true}, {"false", false}, {"yes", true}, {"no", false}, {"y", true}, {"n", false}, {"t", true}, {"f", false}, {"1", true}, {"0", false}} {
		for ci, sp := range []string{s.t, strings.ToUpper(s.t), strings.Title(s.t)} {
			v := s.v
			out = append(out, kvCase{key, sp, fmt.Sprintf("bool-%s-case%d", s.t, ci), func(l *config.LibDefaults) bool { return get(l) == v }})
		}
	}
	return out
}

func durCases(key string, get func(l *config.LibDefaults) time.Duration) []kvCase {
	var out []kvCase
	for _, s := range []struct {
		t string
		d time.Duration
	}{
		{"300", 300 * time.Second}, {"1", time.Second}, {"86400", 24 * time.Hour},
		{"10h", 10 * time.Hour}, {"5m", 5 * time.Minute}, {"30s", 30 * time.Second}, {"1d", 24 * time.Hour}, {"7d", 7 * 24 * time.Hour},
		{"1d2h", 26 * time.Hour}, {"2h30m", 150 * time.Minute}, {"1d2h3m4s", 26*time.Hour + 3*time.Minute + 4*time.Second}, {"3m4s", 184 * time.Second}, {"1h4s", time.Hour + 4*time.Second},
		{"10:30", 10*time.Hour + 30*time.Minute}, {"0:05", 5 * time.Minute}, {"1:02:03", time.Hour + 2*time.Minute + 3*time.Second}, {"24:00:00", 24 * time.Hour},
		{"2d 4h", 52 * time.Hour},
	} {
		d := s.d
		out = append(out, kvCase{key, s.t, "duration-" + durShape(s.t), func(l *config.LibDefaults) bool { return get(l) == d }})
	}
	// the documented formats swept over boundary values of every field: N seconds; h:m and h:m:s (hours are not
	// limited to two digits or to 59; minutes and seconds with and without a leading zero); NdNhNmNs with every
	// non-empty subset of the four units
	add := func(t string, d time.Duration, shape string) {
		out = append(out, kvCase{key, t, "duration-" + shape, func(l *config.LibDefaults) bool { return get(l) == d }})
	}
	for _, n := range []int{1, 9, 10, 59, 60, 61, 99, 100, 299, 3599, 3600, 3601, 86399, 604800, 2147483} {
		add(fmt.Sprint(n), time.Duration(n)*time.Second, "seconds-grid")
	}
	hours := []int{0, 1, 9, 10, 23, 24, 25, 59, 60, 61, 99, 100, 168, 999}
	for _, h := range hours {
		for _, m := range []int{0, 1, 9, 30, 59} {
			if h == 0 && m == 0 {
				continue
			}
			for _, mf := range []string{"%d", "%02d"} {
				add(fmt.Sprintf("%d:"+mf, h, m), time.Duration(h)*time.Hour+time.Duration(m)*time.Minute, "colon-1-grid")
				for _, sec := range []int{0, 7, 59} {
					add(fmt.Sprintf("%d:"+mf+":"+mf, h, m, sec), time.Duration(h)*time.Hour+time.Duration(m)*time.Minute+time.Duration(sec)*time.Second, "colon-2-grid")
				}
			}
		}
	}
	units := []struct {
		u string
		d time.Duration
	}{{"d", 24 * time.Hour}, {"h", time.Hour}, {"m", time.Minute}, {"s", time.Second}}
	vals := []int{1, 10, 60, 100}
	for mask := 1; mask < 16; mask++ {
		var rec func(i int, t string, d time.Duration)
		rec = func(i int, t string, d time.Duration) {
			if i == 4 {
				add(t, d, "units-grid")
				return
			}
			if mask&(1<<uint(i)) == 0 {
				rec(i+1, t, d)
				return
			}
			for _, v := range vals {
				rec(i+1, t+fmt.Sprint(v)+units[i].u, d+time.Duration(v)*units[i].d)
			}
		}
		rec(0, "", 0)
	}
	return out
}

func durShape(t string) string {
	switch {
	case strings.Contains(t, ":"):
		return fmt.Sprintf("colon-%d", strings.Count(t, ":"))
	case strings.ContainsAny(t, "dhms"):
		var sh []byte
		for _, ch := range t {
			if strings.ContainsRune("dhms", ch) {
				sh = append(sh, byte(ch))
			}
		}
		return string(sh)
	}
	return "seconds"
}

func ids(l []int32) string { return fmt.Sprint(l) }

func libdefaultsCases() []kvCase {
	var out []kvCase
	out = append(out, boolCases("allow_weak_crypto", func(l *config.LibDefaults) bool { return l.AllowWeakCrypto })...)
	out = append(out, boolCases("canonicalize", func(l *config.LibDefaults) bool { return l.Canonicalize })...)
	out = append(out, boolCases("dns_canonicalize_hostname", func(l *config.LibDefaults) bool { return l.DNSCanonicalizeHostname })...)
	out = append(out, boolCases("dns_lookup_kdc", func(l *config.LibDefaults) bool { return l.DNSLookupKDC })...)
	out = append(out, boolCases("dns_lookup_realm", func(l *config.LibDefaults) bool { return l.DNSLookupRealm })...)
	out = append(out, boolCases("forwardable", func(l *config.LibDefaults) bool { return l.Forwardable })...)
	out = append(out, boolCases("ignore_acceptor_hostname", func(l *config.LibDefaults) bool { return l.IgnoreAcceptorHostname })...)
	out = append(out, boolCases("k5login_authoritative", func(l *config.LibDefaults) bool { return l.K5LoginAuthoritative })...)
	out = append(out, boolCases("noaddresses", func(l *config.LibDefaults) bool { return l.NoAddresses })...)
	out = append(out, boolCases("proxiable", func(l *config.LibDefaults) bool { return l.Proxiable })...)
	out = append(out, boolCases("rdns", func(l *config.LibDefaults) bool { return l.RDNS })...)
	out = append(out, boolCases("verify_ap_req_nofail", func(l *config.LibDefaults) bool { return l.VerifyAPReqNofail })...)
	out = append(out, durCases("clockskew", func(l *config.LibDefaults) time.Duration { return l.Clockskew })...)
	out = append(out, durCases("renew_lifetime", func(l *config.LibDefaults) time.Duration { return l.RenewLifetime })...)
	out = append(out, durCases("ticket_lifetime", func(l *config.LibDefaults) time.Duration { return l.TicketLifetime })...)
	str := func(key, val string, get func(l *config.LibDefaults) string) {
		out = append(out, kvCase{key, val, "string", func(l *config.LibDefaults) bool { return get(l) == val }})
	}
	str("default_realm", "EXAMPLE.COM", func(l *config.LibDefaults) string { return l.DefaultRealm })
	str("default_realm", "lower.case.realm", func(l *config.LibDefaults) string { return l.DefaultRealm })
	str("default_keytab_name", "FILE:/etc/krb5/other.keytab", func(l *config.LibDefaults) string { return l.DefaultKeytabName })
	str("default_client_keytab_name", "FILE:/home/u/client.keytab", func(l *config.LibDefaults) string { return l.DefaultClientKeytabName })
	str("k5login_directory", "/var/k5login dir", func(l *config.LibDefaults) string { return l.K5LoginDirectory })
	num := func(key, val string, want int, get func(l *config.LibDefaults) int) {
		out = append(out, kvCase{key, val, "int", func(l *config.LibDefaults) bool { return get(l) == want }})
	}
	for _, v := range []int{0, 1, 2, 3, 4} {
		num("ccache_type", fmt.Sprint(v), v, func(l *config.LibDefaults) int { return l.CCacheType })
	}
	for _, v := range []int{0, 1, 7} {
		num("kdc_timesync", fmt.Sprint(v), v, func(l *config.LibDefaults) int { return l.KDCTimeSync })
	}
	for _, v := range []int{-1, 0, 3} {
		num("realm_try_domains", fmt.Sprint(v), v, func(l *config.LibDefaults) int { return l.RealmTryDomains })
	}
	for _, v := range []int{0, 8, 16} {
		num("safe_checksum_type", fmt.Sprint(v), v, func(l *config.LibDefaults) int { return l.SafeChecksumType })
	}
	for _, v := range []int{0, 1, 1465, 32700} {
		num("udp_preference_limit", fmt.Sprint(v), v, func(l *config.LibDefaults) int { return l.UDPPreferenceLimit })
	}
	for _, e := range []struct {
		t    string
		want []int32
	}{
		{"aes256-cts-hmac-sha1-96", []int32{18}}, {"aes256-cts aes128-cts", []int32{18, 17}}, {"aes128-cts-hmac-sha1-96   rc4-hmac", []int32{17, 23}},
		{"arcfour-hmac arcfour-hmac-md5", []int32{23, 23}}, {"aes128-cts-hmac-sha256-128 aes256-cts-hmac-sha384-192", []int32{19, 20}}, {"aes128-sha2\taes256-sha2", []int32{19, 20}},
		{"des3-cbc-sha1-kd", []int32{16}}, {"des-cbc-crc aes256-cts", []int32{18}}, {"no-such-enctype aes128-cts", []int32{17}}, {"camellia256-cts-cmac aes256-cts", []int32{18}},
	} {
		want := e.want
		out = append(out, kvCase{"default_tkt_enctypes", e.t, "enctypes", func(l *config.LibDefaults) bool { return ids(l.DefaultTktEnctypeIDs) == ids(want) }})
		out = append(out, kvCase{"default_tgs_enctypes", e.t, "enctypes", func(l *config.LibDefaults) bool { return ids(l.DefaultTGSEnctypeIDs) == ids(want) }})
		out = append(out, kvCase{"permitted_enctypes", e.t, "enctypes", func(l *config.LibDefaults) bool { return ids(l.PermittedEnctypeIDs) == ids(want) }})
	}
	out = append(out, kvCase{"preferred_preauth_types", "17,16,15", "intlist", func(l *config.LibDefaults) bool { return fmt.Sprint(l.PreferredPreauthTypes) == "[17 16 15]" }})
	out = append(out, kvCase{"preferred_preauth_types", "2", "intlist", func(l *config.LibDefaults) bool { return fmt.Sprint(l.PreferredPreauthTypes) == "[2]" }})
	// the form the MIT documentation gives for the default value, and other blank placements around the commas
	out = append(out, kvCase{"preferred_preauth_types", "17, 16, 15, 14", "intlist", func(l *config.LibDefaults) bool { return fmt.Sprint(l.PreferredPreauthTypes) == "[17 16 15 14]" }})
	out = append(out, kvCase{"preferred_preauth_types", "17 ,16 , 15", "intlist", func(l *config.LibDefaults) bool { return fmt.Sprint(l.PreferredPreauthTypes) == "[17 16 15]" }})
	out = append(out, kvCase{"kdc_default_options", "0x40000010", "hex", func(l *config.LibDefaults) bool {
		return fmt.Sprintf("%x", l.KDCDefaultOptions.Bytes) == "40000010" && l.KDCDefaultOptions.BitLength == 32
	}})
	out = append(out, kvCase{"extra_addresses", "10.0.0.1,10.0.0.2", "iplist", func(l *config.LibDefaults) bool {
		return len(l.ExtraAddresses) == 2 && l.ExtraAddresses[0].String() == "10.0.0.1" && l.ExtraAddresses[1].String() == "10.0.0.2"
	}})
	return out
}

// Layout renders section bodies to a file.
type layout struct {
	name string
	line func(k, v string) string
	wrap func(sections map[string][]string) string
}

func join(order []string, sections map[string][]string, hdr func(string) string, between []string) string {
	var b strings.Builder
	for _, s := range order {
		if lines, ok := sections[s]; ok {
			b.WriteString(hdr(s) + "\n")
			for _, l := range lines {
				for _, x := range between {
					b.WriteString(x + "\n")
				}
				b.WriteString(l + "\n")
			}
		}
	}
	return b.String()
}

func layouts() []layout {
	plain := func(s string) string { return "[" + s + "]" }
	std := []string{"libdefaults", "realms", "domain_realm"}
	return []layout{
		{"spaces", func(k, v string) string { return "  " + k + " = " + v }, func(s map[string][]string) string { return join(std, s, plain, nil) }},
		{"tight", func(k, v string) string { return k + "=" + v }, func(s map[string][]string) string { return join(std, s, plain, nil) }},
		{"tabs", func(k, v string) string { return "\t" + k + "\t=\t" + v }, func(s map[string][]string) string { return join(std, s, plain, nil) }},
		{"wide-trailing", func(k, v string) string { return "      " + k + "     =     " + v + "    " }, func(s map[string][]string) string { return join(std, s, plain, nil) }},
		{"comments-and-blanks", func(k, v string) string { return " " + k + " = " + v }, func(s map[string][]string) string {
			return "# leading comment\n\n; another\n" + join(std, s, plain, []string{"", "# a comment line", "   ; indented comment", "\t"})
		}},
		{"reordered-sections", func(k, v string) string { return " " + k + " = " + v }, func(s map[string][]string) string {
			return join([]string{"domain_realm", "realms", "libdefaults"}, s, plain, nil)
		}},
		{"unknown-section-and-keys", func(k, v string) string { return " " + k + " = " + v }, func(s map[string][]string) string {
			s2 := map[string][]string{}
			for k, v := range s {
				s2[k] = v
			}
			if l, ok := s2["libdefaults"]; ok {
				s2["libdefaults"] = append([]string{" some_unknown_key = some value"}, append(l, " another_unknown = 1")...)
			}
			s2["logging"] = []string{" default = FILE:/var/log/krb5libs.log", " kdc = FILE:/var/log/krb5kdc.log"}
			s2["appdefaults"] = []string{" pam = {", "   debug = false", " }"}
			return join([]string{"logging", "libdefaults", "appdefaults", "realms", "domain_realm"}, s2, plain, nil)
		}},
		{"indented-headers", func(k, v string) string { return " " + k + " = " + v }, func(s map[string][]string) string {
			return join(std, s, func(h string) string { return "  [" + h + "]  " }, nil)
		}},
	}
}

// ---- realms ------------------------------------------------------------

type realmModel struct {
	Name                        string
	KDC, Admin, KPasswd, Master []string // as written (may carry a trailing * final marker, may lack a port)
	DefaultDomain               string
	Nested                      string // "", "v4", "other", "other-with-kdc-like-key"
	NestedAt                    int    // position among the lines
	Interleave                  bool   // write the four kinds round-robin (last kind first) instead of grouped
}

func untilFinal(vals []string, defPort string) []string {
	var out []string
	for _, v := range vals {
		final := strings.HasSuffix(v, "*")
		v = strings.TrimSpace(strings.TrimSuffix(v, "*"))
		if defPort != "" && !strings.Contains(v, ":") {
			v += ":" + defPort
		}
		out = append(out, v)
		if final {
			break
		}
	}
	return out
}

func (r realmModel) lines(l layout) []string {
	var body []string
	for _, v := range r.KDC {
		body = append(body, "  "+l.line("kdc", v))
	}
	for _, v := range r.Admin {
		body = append(body, "  "+l.line("admin_server", v))
	}
	for _, v := range r.KPasswd {
		body = append(body, "  "+l.line("kpasswd_server", v))
	}
	for _, v := range r.Master {
		body = append(body, "  "+l.line("master_kdc", v))
	}
	if r.DefaultDomain != "" {
		body = append(body, "  "+l.line("default_domain", r.DefaultDomain))
	}
	if r.Interleave {
		body = nil
		for i := 0; i < 4; i++ {
			if i < len(r.Master) {
				body = append(body, "  "+l.line("master_kdc", r.Master[i]))
			}
			if i < len(r.KPasswd) {
				body = append(body, "  "+l.line("kpasswd_server", r.KPasswd[i]))
			}
			if i < len(r.Admin) {
				body = append(body, "  "+l.line("admin_server", r.Admin[i]))
			}
			if i < len(r.KDC) {
				body = append(body, "  "+l.line("kdc", r.KDC[i]))
			}
		}
		if r.DefaultDomain != "" {
			body = append(body, "  "+l.line("default_domain", r.DefaultDomain))
		}
	}
	var nested []string
	switch r.Nested {
	case "v4":
		nested = []string{"  v4_instance_convert = {", "     mit = mit.edu", "     lithium = lithium.lcs.mit.edu", "  }"}
	case "other":
		nested = []string{"  auth_to_local_names = {", "     fred = freddy", "  }"}
	case "other-empty":
		nested = []string{"  pkinit_anchors_block = {", "  }"}
	case "v4-single-line":
		// the unsupported v4_* relations also come as plain one-line relations
		nested = []string{"  v4_realm = LEGACY.REALM", "  v4_instance_convert = mit"}
	}
	if nested != nil {
		at := r.NestedAt
		if at > len(body) {
			at = len(body)
		}
		body = append(append(append([]string{}, body[:at]...), nested...), body[at:]...)
	}
	out := []string{l.line(r.Name, "{")}
	out = append(out, body...)
	return append(out, " }")
}

func (r realmModel) expect() config.Realm {
	e := config.Realm{Realm: r.Name, DefaultDomain: r.DefaultDomain}
	e.KDC = untilFinal(r.KDC, "88")
	e.AdminServer = untilFinal(r.Admin, "")
	e.KPasswdServer = untilFinal(r.KPasswd, "")
	e.MasterKDC = untilFinal(r.Master, "")
	if len(e.KPasswdServer) == 0 {
		for _, a := range e.AdminServer {
			e.KPasswdServer = append(e.KPasswdServer, strings.Split(a, ":")[0]+":464")
		}
	}
	return e
}

func realmEq(a, b config.Realm) string {
	n := func(s []string) string { return strings.Join(s, ",") }
	switch {
	case a.Realm != b.Realm:
		return "name"
	case n(a.KDC) != n(b.KDC):
		return fmt.Sprintf("kdc %q vs %q", a.KDC, b.KDC)
	case n(a.AdminServer) != n(b.AdminServer):
		return fmt.Sprintf("admin_server %q vs %q", a.AdminServer, b.AdminServer)
	case n(a.KPasswdServer) != n(b.KPasswdServer):
		return fmt.Sprintf("kpasswd_server %q vs %q", a.KPasswdServer, b.KPasswdServer)
	case n(a.MasterKDC) != n(b.MasterKDC):
		return fmt.Sprintf("master_kdc %q vs %q", a.MasterKDC, b.MasterKDC)
	case a.DefaultDomain != b.DefaultDomain:
		return "default_domain"
	}
	return ""
}

func load(text string) (cfg *config.Config, err error, pn string) {
	pn = safe(func() { cfg, err = config.NewFromString(text) })
	if err != nil {
		if _, ok := err.(config.UnsupportedDirective); ok && cfg != nil {
			err = nil // the configuration is returned alongside the notice about v4 directives
		}
	}
	return
}

// Run is the check's entry point.
func Run(c *engine.Ctx) {
	c.Assume = append(c.Assume,
		"expected values follow the MIT krb5.conf documentation (boolean spellings, duration formats, default KDC port 88, kpasswd default admin_server:464, final-value marker *); spellings MIT accepts but the property does not list (on/off, mixed case booleans, trailing comments, dotless parent domains, commas in enctype lists) are not judged",
		"an UnsupportedDirective notice for v4 blocks is not an error as long as the configuration is returned")
	var evals int64
	ls := layouts()
	cases := libdefaultsCases()
	// (i-a) every (key, spelling) alone under every layout
	for _, kc := range cases {
		for _, l := range ls {
			text := l.wrap(map[string][]string{"libdefaults": {l.line(kc.Key, kc.Text)}})
			evals++
			cfg, err, pn := load(text)
			rec := map[string]interface{}{"key": kc.Key, "value": kc.Text, "layout": l.name, "file": text}
			switch {
			case pn != "":
				c.Violate("libdefaults", "libdefaults:panic:"+kc.Key, map[string]interface{}{"panic": pn}, rec)
			case err != nil:
				c.Violate("libdefaults", fmt.Sprintf("libdefaults:rejected:%s:%s", kc.Class, l.name), map[string]interface{}{"err": err.Error()}, rec)
			case !kc.Check(&cfg.LibDefaults):
				c.Violate("libdefaults", fmt.Sprintf("libdefaults:wrong-value:%s:%s", kc.Key, kc.Class), map[string]interface{}{"parsed": fmt.Sprintf("%+v", cfg.LibDefaults)}, rec)
			default:
				c.Distinct(fmt.Sprintf("ld/%s/%s/%s", kc.Key, kc.Text, l.name))
			}
		}
	}
	// (i-b) all pairs of keys (first spelling of each key) in both orders, plus all keys together
	first := map[string]kvCase{}
	var keys []string
	for _, kc := range cases {
		if _, ok := first[kc.Key]; !ok {
			first[kc.Key] = kc
			keys = append(keys, kc.Key)
		}
	}
	for _, a := range keys {
		for _, b := range keys {
			if a == b {
				continue
			}
			l := ls[0]
			text := l.wrap(map[string][]string{"libdefaults": {l.line(a, first[a].Text), l.line(b, first[b].Text)}})
			evals++
			cfg, err, pn := load(text)
			if pn != "" || err != nil || !first[a].Check(&cfg.LibDefaults) || !first[b].Check(&cfg.LibDefaults) {
				c.Violate("libdefaults", fmt.Sprintf("libdefaults:pair:%s+%s", a, b), map[string]interface{}{"panic": pn, "err": fmt.Sprint(err)}, map[string]interface{}{"file": text})
			} else {
				c.Distinct("ldpair/" + a + "/" + b)
			}
		}
	}
	// defaults: an empty file and a file with empty sections keep the documented defaults
	for _, text := range []string{"", "[libdefaults]\n", "[libdefaults]\n[realms]\n[domain_realm]\n"} {
		evals++
		cfg, err, pn := load(text)
		if pn != "" || err != nil || cfg.LibDefaults.Clockskew != 300*time.Second || cfg.LibDefaults.TicketLifetime != 24*time.Hour || cfg.LibDefaults.UDPPreferenceLimit != 1465 ||
			cfg.LibDefaults.Forwardable || !cfg.LibDefaults.NoAddresses || fmt.Sprintf("%x", cfg.LibDefaults.KDCDefaultOptions.Bytes) != "00000010" || ids(cfg.LibDefaults.DefaultTktEnctypeIDs) != "[18 17 23]" {
			c.Violate("libdefaults", "libdefaults:defaults", map[string]interface{}{"panic": pn, "err": fmt.Sprint(err)}, map[string]interface{}{"file": text})
		}
	}
	c.Sample(map[string]interface{}{"file": ls[4].wrap(map[string][]string{"libdefaults": {ls[4].line("ticket_lifetime", "1d2h3m4s"), ls[4].line("forwardable", "Yes")}})})

	realmsCheck(c, ls, &evals)
	invalidFiles(c, &evals)
	resolveRealm(c, &evals)
	kdcLookup(c, &evals)

	c.Add("evaluations", evals)
	c.Add("states", evals)
	c.Add("transitions", evals)
	c.Add("traces_validated_against_impl", evals)
	c.Cov["layouts"] = len(ls)
	c.Cov["libdefaults_key_spellings"] = len(cases)
	c.Cov["rule"] = "libdefaults: every (key, spelling) x 8 layouts (durations: 18 sample spellings + boundary grids: 15 second counts, h:m and h:m:s with hours {0..999 at 14 boundaries} x minutes/seconds with/without leading zero, every non-empty subset of d/h/m/s units x values {1,10,60,100}), all ordered key pairs; realms: 0-4 realms x 0-4 servers per kind with/without port, final marker at each position, nested block kinds at each position, x layouts; structurally invalid files; ResolveRealm: every hostname of depth <=5 over {a,b} (with/without trailing dot) x every subset of an 8-key mapping universe; GetKDCs/GetKpasswdServers: every realm x every outcome of the random ordering. distinct = cells whose parsed value / answer equalled the model"
}

func realmsCheck(c *engine.Ctx, ls []layout, evals *int64) {
	srv := []string{"kdc1.example.com", "kdc2.example.com:88", "10.0.0.3:750", "kdc4.example.com"}
	var models []realmModel
	// servers 0..4 of each kind
	for n := 0; n <= 4; n++ {
		models = append(models, realmModel{Name: "EXAMPLE.COM", KDC: srv[:n], Admin: portify(srv[:n], "749"), DefaultDomain: "example.com"})
		models = append(models, realmModel{Name: "EXAMPLE.COM", KDC: srv[:n], Admin: portify(srv[:n], "749"), KPasswd: portify(srv[:n], "464"), Master: portify(srv[:n], "88")})
	}
	// final marker at each position of each kind
	for pos := 0; pos < 4; pos++ {
		k := append([]string{}, srv...)
		k[pos] += "*"
		models = append(models, realmModel{Name: "FINAL.KDC", KDC: k})
		a := portify(srv, "749")
		a[pos] += "*"
		models = append(models, realmModel{Name: "FINAL.ADMIN", KDC: srv[:1], Admin: a})
		p := portify(srv, "464")
		p[pos] += "*"
		models = append(models, realmModel{Name: "FINAL.KPASSWD", KDC: srv[:1], KPasswd: p})
		m := portify(srv, "88")
		m[pos] += "*"
		models = append(models, realmModel{Name: "FINAL.MASTER", KDC: srv[:1], Master: m})
	}
	// all four kinds populated, the final marker on one kind at each position: the other kinds must be unaffected
	for kind := 0; kind < 4; kind++ {
		for pos := 0; pos < 3; pos++ {
			m := realmModel{Name: fmt.Sprintf("FINAL.ISOLATION.K%d.P%d", kind, pos), KDC: append([]string{}, srv[:3]...), Admin: portify(srv[:3], "749"), KPasswd: portify(srv[:3], "464"), Master: portify(srv[:3], "88")}
			switch kind {
			case 0:
				m.KDC[pos] += "*"
			case 1:
				m.Admin[pos] += "*"
			case 2:
				m.KPasswd[pos] += "*"
			case 3:
				m.Master[pos] += "*"
			}
			models = append(models, m)
			mi := m
			mi.Name += ".INTERLEAVED"
			mi.Interleave = true
			models = append(models, mi)
		}
	}
	// nested blocks of each kind at each position
	for _, kind := range []string{"v4", "other", "other-empty", "v4-single-line"} {
		for at := 0; at <= 4; at++ {
			models = append(models, realmModel{Name: "NESTED.COM", KDC: srv[:2], Admin: portify(srv[:2], "749"), Nested: kind, NestedAt: at})
		}
	}
	one := func(ms []realmModel, l layout, what string) {
		var lines []string
		for _, m := range ms {
			lines = append(lines, m.lines(l)...)
		}
		text := l.wrap(map[string][]string{"libdefaults": {l.line("default_realm", "EXAMPLE.COM")}, "realms": lines})
		*evals++
		cfg, err, pn := load(text)
		rec := map[string]interface{}{"layout": l.name, "file": text, "what": what}
		if pn != "" {
			c.Violate("realms", "realms:panic:"+nestedClass(ms), map[string]interface{}{"panic": pn}, rec)
			return
		}
		if err != nil {
			c.Violate("realms", "realms:rejected:"+nestedClass(ms)+":"+l.name, map[string]interface{}{"err": err.Error()}, rec)
			return
		}
		if len(cfg.Realms) != len(ms) {
			c.Violate("realms", "realms:count", map[string]interface{}{"got": len(cfg.Realms), "want": len(ms)}, rec)
			return
		}
		for i, m := range ms {
			if d := realmEq(cfg.Realms[i], m.expect()); d != "" {
				c.Violate("realms", "realms:wrong-value:"+strings.Fields(d)[0]+":"+nestedClass(ms), map[string]interface{}{"diff": d, "realm": m.Name}, rec)
				return
			}
		}
		c.Distinct(fmt.Sprintf("realms/%s/%s", what, l.name))
	}
	for _, l := range ls {
		one(nil, l, "no-realm")
		for i, m := range models {
			one([]realmModel{m}, l, fmt.Sprintf("single-%d", i))
		}
		// 2..4 realms: sliding windows
		for n := 2; n <= 4; n++ {
			for s := 0; s+n <= len(models); s += 3 {
				ms := append([]realmModel{}, models[s:s+n]...)
				for i := range ms {
					ms[i].Name = fmt.Sprintf("R%d.%s", i, ms[i].Name)
				}
				one(ms, l, fmt.Sprintf("window-%d-%d", s, n))
			}
		}
	}
}

func nestedClass(ms []realmModel) string {
	for _, m := range ms {
		if m.Nested != "" {
			return "nested-" + m.Nested
		}
	}
	return "flat"
}

func portify(hosts []string, port string) []string {
	var out []string
	for _, h := range hosts {
		if !strings.Contains(h, ":") {
			h += ":" + port
		}
		out = append(out, h)
	}
	return out
}

func invalidFiles(c *engine.Ctx, evals *int64) {
	bad := map[string]string{
		"libdefaults-line-without-equals": "[libdefaults]\n default_realm EXAMPLE.COM\n",
		"bad-boolean":                     "[libdefaults]\n forwardable = maybe\n",
		"bad-duration":                    "[libdefaults]\n ticket_lifetime = tomorrow\n",
		"bad-integer":                     "[libdefaults]\n udp_preference_limit = lots\n",
		"udp-limit-too-large":             "[libdefaults]\n udp_preference_limit = 32701\n",
		"ccache-type-5":                   "[libdefaults]\n ccache_type = 5\n",
		"bad-hex-options":                 "[libdefaults]\n kdc_default_options = 0xZZ\n",
		"realm-unclosed-brace":            "[realms]\n EXAMPLE.COM = {\n  kdc = a\n",
		"realm-extra-closing-brace":       "[realms]\n EXAMPLE.COM = {\n  kdc = a\n }\n }\n",
		"realm-line-without-equals":       "[realms]\n EXAMPLE.COM = {\n  kdc a\n }\n",
		"realm-open-without-equals":       "[realms]\n EXAMPLE.COM {\n  kdc = a\n }\n",
		"domain-realm-without-equals":     "[domain_realm]\n .example.com EXAMPLE.COM\n",
	}
	var names []string
	for n := range bad {
		names = append(names, n)
	}
	sort.Strings(names)
	for _, n := range names {
		*evals++
		cfg, err, pn := load(bad[n])
		rec := map[string]interface{}{"file": bad[n], "what": n}
		switch {
		case pn != "":
			c.Violate("invalid", "invalid:panic:"+n, map[string]interface{}{"panic": pn}, rec)
		case err == nil:
			if n == "realm-unclosed-brace" && cfg != nil && len(cfg.Realms) == 0 {
				// an unterminated realm block yields no realm; whether that is an error is judged below
			}
			c.Violate("invalid", "invalid:accepted:"+n, map[string]interface{}{"realms": fmt.Sprint(cfg.Realms)}, rec)
		default:
			c.Distinct("invalid/" + n)
		}
	}
}

func resolveRealm(c *engine.Ctx, evals *int64) {
	universe := []string{"a.b", ".b", ".a.b", ".a", "b.a.b", ".b.b", ".a.a.b", ".b.a"}
	var hosts []string
	var gen func(cur []string)
	gen = func(cur []string) {
		if len(cur) > 0 {
			hosts = append(hosts, strings.Join(cur, "."))
		}
		if len(cur) == 5 {
			return
		}
		for _, l := range []string{"a", "b"} {
			gen(append(append([]string{}, cur...), l))
		}
	}
	gen(nil)
	for mask := 0; mask < 1<<uint(len(universe)); mask++ {
		var lines []string
		m := map[string]string{}
		for i, k := range universe {
			if mask&(1<<uint(i)) != 0 {
				realm := fmt.Sprintf("REALM%d", i)
				m[k] = realm
				lines = append(lines, " "+k+" = "+realm)
			}
		}
		// the section header in the shapes the other sections are tried in (indented, trailing blanks, after other sections)
		hdrs := []string{"[domain_realm]\n", "  [domain_realm]  \n", "\t[domain_realm]\n", "[libdefaults]\n default_realm = DEF.REALM\n\n [domain_realm]\n", "# comment\n[realms]\n DEF.REALM = {\n  kdc = k.def.realm\n }\n   [domain_realm]\t\n"}
		hdr := hdrs[mask%len(hdrs)]
		cfg, err, pn := load(hdr + strings.Join(lines, "\n") + "\n")
		if pn != "" || err != nil {
			c.Violate("resolve", "resolve:load", map[string]interface{}{"panic": pn, "err": fmt.Sprint(err)}, map[string]interface{}{"mappings": m, "header": hdr})
			continue
		}
		for _, h := range hosts {
			for _, q := range []string{h, h + "."} {
				*evals++
				want := ""
				if r, ok := m[h]; ok {
					want = r
				} else {
					// longest dotted proper suffix: for x.y.z try .y.z then .z
					parts := strings.Split(h, ".")
					for i := 1; i < len(parts); i++ {
						if r, ok := m["."+strings.Join(parts[i:], ".")]; ok {
							want = r
							break
						}
					}
				}
				var got string
				if pn := safe(func() { got = cfg.ResolveRealm(q) }); pn != "" {
					c.Violate("resolve", "resolve:panic", map[string]interface{}{"panic": pn}, map[string]interface{}{"mappings": m, "host": q})
					continue
				}
				if got != want {
					cl := "wrong-realm"
					if want == "" {
						cl = "maps-unmapped-host"
					} else if got == "" {
						cl = "misses-mapping"
					}
					c.Violate("resolve", "resolve:"+cl, map[string]interface{}{"got": got, "want": want}, map[string]interface{}{"mappings": m, "host": q})
					continue
				}
				if mask%37 == 0 {
					c.Distinct("resolve/" + q + "/" + want)
				}
			}
		}
	}
	c.Sample(map[string]interface{}{"resolve_host": "b.a.a.b", "mappings": map[string]string{".a.b": "REALM2", ".b": "REALM1"}, "expect": "REALM2 (longest suffix)"})
}

func perms(n int) [][]int {
	// every answer sequence for Intn(n), Intn(n-1), ..., Intn(1)
	var out [][]int
	var rec func(cur []int, k int)
	rec = func(cur []int, k int) {
		if k == 0 {
			out = append(out, append([]int{}, cur...))
			return
		}
		for v := 0; v < k; v++ {
			rec(append(cur, v), k-1)
		}
	}
	rec(nil, n)
	return out
}

func kdcLookup(c *engine.Ctx, evals *int64) {
	for n := 1; n <= 4; n++ {
		var kdcs, admins []string
		for i := 0; i < n; i++ {
			kdcs = append(kdcs, fmt.Sprintf("  kdc = kdc%d.example.com:88", i))
			admins = append(admins, fmt.Sprintf("  admin_server = adm%d.example.com:749", i))
		}
		text := "[libdefaults]\n default_realm = EXAMPLE.COM\n[realms]\n EXAMPLE.COM = {\n" + strings.Join(kdcs, "\n") + "\n" + strings.Join(admins, "\n") + "\n }\n OTHER.COM = {\n  kdc = o.other.com\n }\n"
		for _, script := range perms(n) {
			for _, realm := range []string{"EXAMPLE.COM", ""} {
				for _, tcp := range []bool{false, true} {
					cfg, err, pn := load(text)
					if err != nil || pn != "" {
						engine.FailValid("config.NewFromString(valid KDC lookup configuration)", fmt.Errorf("%v %s", err, pn))
					}
					want := append([]string{}, cfg.Realms[0].KDC...)
					for rep := 0; rep < 3; rep++ {
						*evals++
						vrand.Script(script)
						var cnt int
						var m map[int]string
						var gerr error
						rec := map[string]interface{}{"servers": n, "rand_answers": script, "realm": realm, "tcp": tcp, "call": rep + 1}
						if pn := safe(func() { cnt, m, gerr = cfg.GetKDCs(realm, tcp) }); pn != "" || gerr != nil {
							c.Violate("kdcs", "getkdcs:error", map[string]interface{}{"panic": pn, "err": fmt.Sprint(gerr)}, rec)
							break
						}
						if d := permOf(cnt, m, want); d != "" {
							c.Violate("kdcs", "getkdcs:"+d, map[string]interface{}{"count": cnt, "map": m, "configured": want}, rec)
							break
						}
						c.Distinct(fmt.Sprintf("kdcs/%d/%v", n, m))
					}
					// kpasswd servers derive from admin_server (port 464)
					*evals++
					vrand.Script(script)
					var wantKp []string
					for i := 0; i < n; i++ {
						wantKp = append(wantKp, fmt.Sprintf("adm%d.example.com:464", i))
					}
					cnt, m, gerr := cfg.GetKpasswdServers("EXAMPLE.COM", tcp)
					if gerr != nil {
						c.Violate("kdcs", "getkpasswd:error", map[string]interface{}{"err": gerr.Error()}, map[string]interface{}{"servers": n})
					} else if d := permOf(cnt, m, wantKp); d != "" {
						c.Violate("kdcs", "getkpasswd:"+d, map[string]interface{}{"count": cnt, "map": m, "configured": wantKp}, map[string]interface{}{"servers": n, "rand_answers": script})
					}
				}
			}
		}
	}
	// realms whose configured name is not upper case: looked up as written
	for _, name := range []string{"lowercase.org", "Mixed.Example.Com", "x", "UPPER.COM"} {
		text := "[libdefaults]\n default_realm = " + name + "\n[realms]\n " + name + " = {\n  kdc = k1.example.com\n  kdc = k2.example.com:88\n  admin_server = a1.example.com\n }\n"
		cfgn, err, pn := load(text)
		if err != nil || pn != "" {
			engine.FailValid("config.NewFromString(valid KDC lookup configuration)", fmt.Errorf("%v %s", err, pn))
		}
		for _, tcp := range []bool{false, true} {
			*evals++
			vrand.Script(nil)
			rec := map[string]interface{}{"realm_as_configured": name, "tcp": tcp}
			var cnt int
			var m map[int]string
			var gerr error
			if pn := safe(func() { cnt, m, gerr = cfgn.GetKDCs(name, tcp) }); pn != "" || gerr != nil {
				c.Violate("kdcs", "getkdcs:error:realm-name-not-upper-case", map[string]interface{}{"panic": pn, "err": fmt.Sprint(gerr)}, rec)
				continue
			}
			if d := permOf(cnt, m, []string{"k1.example.com:88", "k2.example.com:88"}); d != "" {
				c.Violate("kdcs", "getkdcs:"+d+":realm-name-not-upper-case", map[string]interface{}{"count": cnt, "map": m}, rec)
				continue
			}
			if cnt, m, gerr = cfgn.GetKpasswdServers(name, tcp); gerr != nil || permOf(cnt, m, []string{"a1.example.com:464"}) != "" {
				c.Violate("kdcs", "getkpasswd:error:realm-name-not-upper-case", map[string]interface{}{"err": fmt.Sprint(gerr), "map": m}, rec)
				continue
			}
			c.Distinct("kdcs/realm-name/" + name)
		}
	}
	// two realms whose names differ only in letter case (realm names are case sensitive): each lookup gets its own
	// realm's servers, in either file order, and a spelling that is not configured gets an error
	for _, order := range [][]string{{"EXAMPLE.COM", "example.com"}, {"example.com", "EXAMPLE.COM"}} {
		srv := map[string]string{"EXAMPLE.COM": "upper", "example.com": "lower"}
		text := "[libdefaults]\n default_realm = EXAMPLE.COM\n[realms]\n"
		for _, r := range order {
			text += " " + r + " = {\n  kdc = k." + srv[r] + ".test\n  admin_server = a." + srv[r] + ".test\n }\n"
		}
		cf, err, pn := load(text)
		if err != nil || pn != "" {
			engine.FailValid("config.NewFromString(two realms differing in case)", fmt.Errorf("%v %s", err, pn))
		}
		for _, q := range []string{"EXAMPLE.COM", "example.com", "Example.Com", "EXAMPLE.com"} {
			*evals++
			vrand.Script(nil)
			rec := map[string]interface{}{"realms_in_file_order": order, "lookup": q}
			var cnt, cnt2 int
			var m, m2 map[int]string
			var e1, e2 error
			if pn := safe(func() { cnt, m, e1 = cf.GetKDCs(q, false); cnt2, m2, e2 = cf.GetKpasswdServers(q, false) }); pn != "" {
				c.Violate("kdcs", "getkdcs:panic:realms-differing-in-case", map[string]interface{}{"panic": pn}, rec)
				continue
			}
			if s, ok := srv[q]; ok {
				if e1 != nil || permOf(cnt, m, []string{"k." + s + ".test:88"}) != "" || e2 != nil || permOf(cnt2, m2, []string{"a." + s + ".test:464"}) != "" {
					c.Violate("kdcs", "getkdcs:servers-of-another-realm:realms-differing-in-case", map[string]interface{}{"kdcs": m, "kpasswd": m2, "err": fmt.Sprint(e1, e2)}, rec)
					continue
				}
			} else if e1 == nil || e2 == nil {
				c.Violate("kdcs", "getkdcs:unknown-realm-no-error:spelling-in-another-case", map[string]interface{}{"kdcs": m, "kpasswd": m2}, rec)
				continue
			}
			c.Distinct("kdcs/case/" + order[0] + "/" + q)
		}
	}
	// unknown realm: an error, not a panic
	cfg, _, _ := load("[realms]\n A.COM = {\n  kdc = a\n }\n")
	if pn := safe(func() {
		if _, _, err := cfg.GetKDCs("NOSUCH.COM", false); err == nil {
			c.Violate("kdcs", "getkdcs:unknown-realm-no-error", nil, nil)
		}
	}); pn != "" {
		c.Violate("kdcs", "getkdcs:unknown-realm-panic", map[string]interface{}{"panic": pn}, nil)
	}
}

func permOf(cnt int, m map[int]string, want []string) string {
	if cnt != len(want) || len(m) != len(want) {
		return "wrong-count"
	}
	var got []string
	for i := 1; i <= len(want); i++ {
		v, ok := m[i]
		if !ok {
			return "keys-not-1-to-n"
		}
		got = append(got, v)
	}
	a, b := append([]string{}, got...), append([]string{}, want...)
	sort.Strings(a)
	sort.Strings(b)
	if !reflect.DeepEqual(a, b) {
		return "not-a-permutation"
	}
	return ""
}
