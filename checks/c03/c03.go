// Package c03: the SPNEGO HTTP wrapper serves the inner handler only to
// authenticated requests. Authorization header values are built from
// reference-minted AP-REQs in every framing, from the C01 defect catalogue,
// from AP-REP / KRB-ERROR / foreign mech tokens, from every prefix and every
// single-byte substitution of valid tokens, and request sequences with and
// without a session manager are explored breadth-first.
package c03

import (
	"bytes"
	"context"
	"encoding/base64"
	"errors"
	"fmt"
	"net/http"
	"net/http/httptest"
	"strings"
	"time"
	rpac "verif/ref/pac"

	"verif/checks/apworld"
	"verif/engine"
	"verif/ref/der"
	"verif/ref/krbmsg"
	"verif/ref/rcrypto"

	"github.com/jcmturner/goidentity/v6"
	"github.com/jcmturner/gokrb5/v8/keytab"
	"github.com/jcmturner/gokrb5/v8/service"
	"github.com/jcmturner/gokrb5/v8/spnego"
	"github.com/jcmturner/gokrb5/v8/zzverif/vclock"
)

var (
	oidKRB5   = []int{1, 2, 840, 113554, 1, 2, 2}
	oidMSKRB5 = []int{1, 2, 840, 48018, 1, 2, 2}
	oidSPNEGO = []int{1, 3, 6, 1, 5, 5, 2}
	oidNTLM   = []int{1, 3, 6, 1, 4, 1, 311, 2, 2, 10}
)

func krb5Tok(tokID []byte, inner []byte) []byte {
	return der.TLV(der.App, true, 0, append(append(der.OID(oidKRB5...), tokID...), inner...))
}

func negInit(mechs [][]int, token []byte, gssFrame bool) []byte {
	var ms [][]byte
	for _, o := range mechs {
		ms = append(ms, der.OID(o...))
	}
	items := [][]byte{der.Explicit(0, der.Seq(ms...))}
	if token != nil {
		items = append(items, der.Explicit(2, der.Octets(token)))
	}
	b := der.TLV(der.Ctx, true, 0, der.Seq(items...))
	if gssFrame {
		return der.TLV(der.App, true, 0, append(der.OID(oidSPNEGO...), b...))
	}
	return b
}

func negResp(state int64, mech []int, token []byte) []byte {
	items := [][]byte{der.Explicit(0, der.Enumerated(state))}
	if mech != nil {
		items = append(items, der.Explicit(1, der.OID(mech...)))
	}
	if token != nil {
		items = append(items, der.Explicit(2, der.Octets(token)))
	}
	return der.TLV(der.Ctx, true, 1, der.Seq(items...))
}

// outcome of one HTTP request.
type outcome struct {
	InnerRan  bool
	Status    int
	WWWAuth   string
	User      string
	Domain    string
	AuthN     bool
	Panic     string
	SetCookie string
}

type world struct {
	w  *apworld.World
	kt *keytab.Keytab
}

type ctxKey string

// handler builds one wrapper (as an application does once at start-up); the inner handler reports through a
// per-request outcome pointer carried in the request context.
func (wd *world) handler(sm service.SessionMgr) http.Handler {
	inner := http.HandlerFunc(func(w http.ResponseWriter, r *http.Request) {
		o, _ := r.Context().Value(ctxKey("outcome")).(*outcome)
		if o != nil {
			o.InnerRan = true
			if id := goidentity.FromHTTPRequestContext(r); id != nil {
				o.User, o.Domain, o.AuthN = id.UserName(), id.Domain(), id.Authenticated()
			}
		}
		w.WriteHeader(200)
	})
	opts := []func(*service.Settings){}
	if sm != nil {
		opts = append(opts, service.SessionManager(sm))
	}
	return spnego.SPNEGOKRB5Authenticate(inner, wd.kt, opts...)
}

// serve sends one request through a freshly built wrapper.
func (wd *world) serve(header *string, cookie string, sm service.SessionMgr) outcome {
	return wd.serveWith(wd.handler(sm), "10.0.0.1:4321", header, cookie)
}

// serveWith sends one request from the given remote address through an existing wrapper.
func (wd *world) serveWith(h http.Handler, remote string, header *string, cookie string) (o outcome) {
	r := httptest.NewRequest("GET", "http://host.test.gokrb5/", nil)
	r = r.WithContext(context.WithValue(r.Context(), ctxKey("outcome"), &o))
	r.RemoteAddr = remote
	if header != nil {
		r.Header.Set("Authorization", *header)
	}
	if cookie != "" {
		r.Header.Set("Cookie", cookie)
	}
	rec := httptest.NewRecorder()
	func() {
		defer func() {
			if p := recover(); p != nil {
				o.Panic = fmt.Sprint(p)
			}
		}()
		h.ServeHTTP(rec, r)
	}()
	o.Status = rec.Code
	o.WWWAuth = rec.Header().Get("WWW-Authenticate")
	if sc := rec.Header().Get("Set-Cookie"); sc != "" {
		o.SetCookie = strings.SplitN(sc, ";", 2)[0]
	}
	return
}

func neg(b []byte) *string {
	s := "Negotiate " + base64.StdEncoding.EncodeToString(b)
	return &s
}

// judge applies the property to one stateless request.
// legit tells whether the header carries, unmodified, a minted acceptable AP-REQ.
func judge(o outcome, legit bool, wantUser, wantRealm string) (string, string) {
	if o.Panic != "" {
		return "panic", o.Panic
	}
	if o.InnerRan {
		if !legit {
			return "inner-handler-ran-without-accepted-ap-req", fmt.Sprintf("status %d user %q", o.Status, o.User)
		}
		if o.User != wantUser || o.Domain != wantRealm || !o.AuthN {
			return "wrong-identity-in-context", fmt.Sprintf("user %q realm %q authenticated %v, want %q %q", o.User, o.Domain, o.AuthN, wantUser, wantRealm)
		}
		return "", ""
	}
	if o.Status != 401 || !strings.HasPrefix(o.WWWAuth, "Negotiate") {
		return "refusal-is-not-401-negotiate", fmt.Sprintf("status %d WWW-Authenticate %q", o.Status, o.WWWAuth)
	}
	return "", ""
}

// Run is the check's entry point.
func Run(c *engine.Ctx) {
	c.Assume = append(c.Assume,
		"AP-REQs and every SPNEGO/GSS framing are minted by the reference (ref/krbmsg, ref/der, ref/rcrypto); the wrapper is the real spnego.SPNEGOKRB5Authenticate driven through httptest; virtual clock; replay cache reset per stateless case",
		"acceptance is judged semantically: a mutated header that still carries the minted ticket and authenticator ciphertexts unmodified, for an acceptable request, may legitimately be served",
		"positive direction (must be served) is only demanded for the standard framings: GSS-framed NegTokenInit with krb5 first, and the raw KRB5 mech token")
	if _, err := rcrypto.SelfTest(); err != nil {
		engine.Fatal("%v", err)
	}
	wd := newWorld(c.Seed)
	vclock.Virtual(apworld.T0)
	var evals int64
	reset := func() { service.VerifResetReplayCache(); vclock.Set(apworld.T0) }

	// (i) catalogue
	type inner struct {
		name  string
		token []byte // mech token bytes (nil: none)
		legit bool
		user  string
		realm string
		nudge time.Duration
	}
	var inners []inner
	for _, et := range rcrypto.Etypes {
		m, err := wd.w.Mint(apworld.Base(et))
		if err != nil {
			engine.Fatal("mint: %v", err)
		}
		inners = append(inners, inner{name: fmt.Sprintf("valid-ap-req-et%d", et), token: krb5Tok([]byte{1, 0}, m.APReq), legit: true, user: "user1", realm: apworld.Realm})
	}
	for _, d := range apworld.Catalogue(5 * time.Minute) {
		cs := apworld.Base(18)
		d.Apply(&cs)
		if cs.Twice {
			continue // replays are exercised by the request sequences
		}
		m, err := wd.w.Mint(cs)
		if err != nil {
			engine.Fatal("mint: %v", err)
		}
		set := apworld.Settings{ClientAddr: &apworld.AddrMatch, DecodePAC: true}
		v := wd.w.Expect(cs, set, false)
		if !v.Judged {
			continue
		}
		inners = append(inners, inner{name: "defect-" + d.Name, token: krb5Tok([]byte{1, 0}, m.APReq), legit: v.Accept, user: strings.Join(cs.CName, "/"), realm: cs.CRealm, nudge: cs.NowNudge})
	}
	mv, _ := wd.w.Mint(apworld.Base(18))
	aprep := krbmsg.APRep{PVNO: 5, MsgType: 15, Enc: krbmsg.EncryptedData{EType: 18, Cipher: bytes.Repeat([]byte{1}, 40)}}.Encode()
	for _, mt := range []int64{30, 14, 0} {
		ke := krbmsg.KRBError{PVNO: 5, MsgType: mt, STime: apworld.T0, Code: 41, Realm: apworld.Realm, SName: krbmsg.PrincipalName{Type: 1, Names: []string{"HTTP", apworld.SvcHost}}}.Encode()
		inners = append(inners, inner{name: fmt.Sprintf("krb-error-msgtype-%d", mt), token: krb5Tok([]byte{3, 0}, ke)})
	}
	inners = append(inners,
		inner{name: "ap-rep", token: krb5Tok([]byte{2, 0}, aprep)},
		inner{name: "ap-req-with-tok-id-ap-rep", token: krb5Tok([]byte{2, 0}, mv.APReq)},
		inner{name: "ap-req-with-tok-id-krb-error", token: krb5Tok([]byte{3, 0}, mv.APReq)},
		inner{name: "ap-req-with-unknown-tok-id", token: krb5Tok([]byte{9, 9}, mv.APReq)},
		inner{name: "tok-id-only", token: krb5Tok([]byte{1, 0}, nil)},
		inner{name: "no-mech-token", token: nil},
		inner{name: "garbage", token: []byte("this is not a token at all")},
		inner{name: "empty", token: []byte{}},
		inner{name: "bare-ap-req-without-gss-framing", token: mv.APReq},
	)
	mechLists := []struct {
		name      string
		mechs     [][]int
		krb5First bool
	}{
		{"krb5", [][]int{oidKRB5}, true}, {"ms-krb5", [][]int{oidMSKRB5}, true}, {"krb5+ntlm", [][]int{oidKRB5, oidNTLM}, true}, {"ntlm+krb5", [][]int{oidNTLM, oidKRB5}, false},
		{"ntlm", [][]int{oidNTLM}, false}, {"empty", nil, false}, {"spnego", [][]int{oidSPNEGO}, false},
	}
	for _, in := range inners {
		type framing struct {
			name     string
			bytes    []byte
			standard bool
			hasKRB5  bool
		}
		var frs []framing
		for _, ml := range mechLists {
			frs = append(frs, framing{"neg-init-gss:" + ml.name, negInit(ml.mechs, in.token, true), ml.krb5First, ml.krb5First})
			frs = append(frs, framing{"neg-init-bare:" + ml.name, negInit(ml.mechs, in.token, false), false, ml.krb5First})
		}
		for _, st := range []int64{0, 1, 2, 3} {
			for _, mech := range [][]int{nil, oidKRB5, oidNTLM} {
				frs = append(frs, framing{fmt.Sprintf("neg-resp:%d:%v", st, mech != nil), negResp(st, mech, in.token), false, mech != nil && mech[3] == 113554})
			}
		}
		if in.token != nil {
			frs = append(frs, framing{"raw-krb5-token", in.token, true, true})
		}
		for _, fr := range frs {
			reset()
			vclock.Set(apworld.T0.Add(in.nudge))
			evals++
			o := wd.serve(neg(fr.bytes), "", nil)
			rec := map[string]interface{}{"inner": in.name, "framing": fr.name, "header": *neg(fr.bytes)}
			// an acceptable AP-REQ only counts when the framing announces a Kerberos mechanism for it
			legit := in.legit && fr.hasKRB5
			if k, d := judge(o, legit, in.user, in.realm); k != "" {
				c.Violate("catalogue", k+":"+keyPart(in.name)+":"+fr.name, map[string]interface{}{"what": d, "outcome": o}, rec)
				continue
			}
			if legit && fr.standard && !o.InnerRan {
				c.Violate("catalogue", "valid-token-refused:"+strings.SplitN(fr.name, ":", 2)[0], map[string]interface{}{"outcome": o}, rec)
				continue
			}
			c.Distinct(fmt.Sprintf("cat/%s/%s/%v", in.name, fr.name, o.InnerRan))
			// the verification APIs on the same token
			verifyAPIs(c, wd, in.name, fr.name, fr.bytes, legit, &evals, func() { reset(); vclock.Set(apworld.T0.Add(in.nudge)) })
		}
	}
	// header shapes
	valid := *neg(negInit([][]int{oidKRB5}, krb5Tok([]byte{1, 0}, mv.APReq), true))
	b64 := strings.TrimPrefix(valid, "Negotiate ")
	for name, h := range map[string]*string{
		"absent": nil, "bare-negotiate": sp("Negotiate"), "negotiate-empty": sp("Negotiate "), "basic": sp("Basic dXNlcjpwYXNz"), "lowercase-scheme": sp("negotiate " + b64),
		"bad-base64": sp("Negotiate !!!notbase64!!!"), "base64-with-trailing-garbage": sp(valid + "*"), "two-spaces": sp("Negotiate  " + b64), "ntlm-scheme": sp("NTLM " + b64),
		"negotiate-prefix-word": sp("NegotiateX " + b64), "token-without-scheme": sp(b64), "url-base64": sp("Negotiate " + strings.NewReplacer("+", "-", "/", "_").Replace(b64)),
	} {
		reset()
		evals++
		o := wd.serve(h, "", nil)
		legit := false
		if name == "url-base64" && !strings.ContainsAny(b64, "+/") {
			legit = true
		}
		if k, d := judge(o, legit, "user1", apworld.Realm); k != "" {
			c.Violate("headers", k+":header-"+name, map[string]interface{}{"what": d, "outcome": o}, map[string]interface{}{"header_shape": name, "header": h})
			continue
		}
		c.Distinct("hdr/" + name)
	}
	c.Sample(map[string]interface{}{"inner": "krb-error-msgtype-30", "framing": "neg-init-gss:krb5", "expect": "401 + WWW-Authenticate: Negotiate, inner handler not run, no Verify API returns true"})

	// (ii) every prefix and single-byte substitution of valid tokens (guarded, sharded)
	args := []string{fmt.Sprint(c.Seed)}
	done := c.RunGuarded(engine.GuardSpec{Worker: "c03mut", Args: args, Stall: 60 * time.Second, Describe: func(idx int) interface{} {
		ms := mutSet(args)
		ti, kind, pos, val := ms.locate(idx)
		return map[string]interface{}{"token": ti, "mutation": kind, "position": pos, "value": val}
	}})
	evals += done
	c.Cov["token_mutation_cases"] = done

	// (iii) request sequences with session managers
	sequences(c, wd, &evals)
	remoteAddresses(c, wd, &evals)
	// (iv) two concurrent requests through one wrapper, every interleaving at the session store
	concurrent(c, wd, &evals)

	c.Add("evaluations", evals)
	c.Add("states", evals)
	c.Add("transitions", evals)
	c.Add("traces_validated_against_impl", evals)
	c.Cov["rule"] = "catalogue: inner tokens (valid AP-REQ per etype, each judged C01 defect, KRB-ERROR with three msg-types, AP-REP, wrong/unknown TOK_IDs, none, garbage) x framings (GSS-framed and bare NegTokenInit with 7 mech lists, NegTokenResp with 4 states x 3 mechs, raw KRB5 token) plus 12 header shapes, each also given to AcceptSecContext and the Verify methods; every prefix and every single-byte substitution (255 values) of three valid tokens; every request sequence of length <=4 over {fresh valid token of user 1, of user 2, replayed token, replay with case-changed sname, no header, garbage, latest session cookie, first session's cookie, forged cookie} x 4 session-manager behaviours (the in-memory store keeps the byte slice it is given), the identity served under a cookie being that of the request that established it. distinct = (inner, framing, served?) classes, mutation classes, sequence outcomes"
}

func sp(s string) *string { return &s }

func keyPart(n string) string {
	if strings.HasPrefix(n, "defect-") {
		return "c01-defect"
	}
	if strings.HasPrefix(n, "valid-ap-req") {
		return "valid-ap-req"
	}
	return n
}

func newWorld(seed int64) *world {
	w := apworld.NewWorld(seed)
	kt := keytab.New()
	if err := kt.Unmarshal(w.Keytab); err != nil {
		engine.FailValid("keytab.Unmarshal(model keytab)", err)
	}
	return &world{w, kt}
}

// verifyAPIs offers the same token bytes to AcceptSecContext and the Verify methods.
func verifyAPIs(c *engine.Ctx, wd *world, inName, frName string, b []byte, legit bool, evals *int64, reset func()) {
	rec := map[string]interface{}{"inner": inName, "framing": frName, "token_b64": base64.StdEncoding.EncodeToString(b)}
	report := func(api string, ok bool, pn string) {
		*evals++
		if pn != "" {
			c.Violate("verify-api", "panic:"+api+":"+keyPart(inName), map[string]interface{}{"panic": pn}, rec)
			return
		}
		if ok && !legit {
			c.Violate("verify-api", api+"-reports-success-without-accepted-ap-req:"+keyPart(inName), nil, rec)
		}
	}
	set := []func(*service.Settings){service.ClientAddress(mustAddr())}
	// SPNEGOToken.Unmarshal + SPNEGO.AcceptSecContext
	{
		reset()
		var st spnego.SPNEGOToken
		var ok bool
		pn := safe(func() {
			if st.Unmarshal(b) != nil {
				return
			}
			s := spnego.SPNEGOService(wd.kt, set...)
			ok, _, _ = s.AcceptSecContext(&st)
		})
		report("AcceptSecContext", ok, pn)
	}
	// NegTokenInit / NegTokenResp Verify are reached through SPNEGOToken.Verify with settings attached by AcceptSecContext;
	// KRB5Token.Verify directly on raw KRB5 tokens
	if frName == "raw-krb5-token" {
		reset()
		var ok bool
		pn := safe(func() {
			var st spnego.SPNEGOToken
			if st.Unmarshal(b) == nil {
				return
			}
			var kt spnego.KRB5Token
			if kt.Unmarshal(b) != nil {
				return
			}
			// the settings field is private: go through a NegTokenInit wrapper as the HTTP handler does
			st.Init = true
			st.NegTokenInit = spnego.NegTokenInit{MechTokenBytes: b}
			st.NegTokenInit.MechTypes = nil
			s := spnego.SPNEGOService(wd.kt, set...)
			st.NegTokenInit.MechTypes = append(st.NegTokenInit.MechTypes, kt.OID)
			ok, _, _ = s.AcceptSecContext(&st)
		})
		report("KRB5Token-via-AcceptSecContext", ok, pn)
	}
}

func safe(f func()) (p string) {
	defer func() {
		if r := recover(); r != nil {
			p = fmt.Sprint(r)
		}
	}()
	f()
	return ""
}

// ---- sessions ------------------------------------------------------------

type memSessions struct {
	store   map[string][]byte
	n       int
	failNew bool
	failGet bool
	// staleGet: Get hands back the stored bytes together with an error (a session the store considers ended or
	// revoked): an error from the session manager means there is no session, whatever else it returns
	staleGet bool
}

func (m *memSessions) New(w http.ResponseWriter, r *http.Request, k string, v []byte) error {
	if m.failNew {
		return errors.New("session store unavailable")
	}
	m.n++
	id := fmt.Sprintf("sess%d", m.n)
	m.store[id+"|"+k] = v
	http.SetCookie(w, &http.Cookie{Name: "sid", Value: id})
	return nil
}

func (m *memSessions) Get(r *http.Request, k string) ([]byte, error) {
	if m.failGet {
		return nil, errors.New("session store unavailable")
	}
	ck, err := r.Cookie("sid")
	if err != nil {
		return nil, err
	}
	v, ok := m.store[ck.Value+"|"+k]
	if !ok {
		return nil, errors.New("no such session")
	}
	if m.staleGet {
		return v, errors.New("session has ended")
	}
	return v, nil
}

func sequences(c *engine.Ctx, wd *world, evals *int64) {
	events := []string{"fresh", "fresh-user2", "fresh-with-pac", "replay", "replay-sname-case-flipped", "none", "garbage", "cookie", "cookie-of-first-session", "forged-cookie"}
	managers := []string{"none", "memory", "failing-new", "failing-get", "get-returns-ended-session-with-error"}
	depth := 4
	var rec func(seq []string)
	run := func(seq []string, mgr string) {
		service.VerifResetReplayCache()
		vclock.Set(apworld.T0)
		var sm *memSessions
		if mgr != "none" {
			sm = &memSessions{store: map[string][]byte{}, failNew: mgr == "failing-new", failGet: mgr == "failing-get", staleGet: mgr == "get-returns-ended-session-with-error"}
		}
		var smi0 service.SessionMgr
		if sm != nil {
			smi0 = sm
		}
		h := wd.handler(smi0) // one wrapper for the whole sequence, as in a running server
		var lastTok, lastTokCase *string
		cookie, firstCookie := "", ""
		cookieUser := map[string]string{} // session cookie -> the user whose accepted request established it
		established := false              // a session cookie issued after an accepted request exists
		nfresh := 0
		for i, ev := range seq {
			*evals++
			var hdr *string
			ck := ""
			legitHeader := false
			wantUser := "user1"
			switch ev {
			case "fresh", "fresh-user2", "fresh-with-pac":
				cs := apworld.Base(18)
				if ev == "fresh-with-pac" {
					// a correctly signed PAC whose display name is not the account name: the identity stays the ticket's
					v := rpac.SampleGOKRB5()
					v.EffectiveName.Value, v.FullName.Value = "user1", "User One (display name)"
					key, _ := wd.w.Lookup([]string{"HTTP", apworld.SvcHost}, apworld.Realm, 2, 18)
					pb, lay := rpac.Assemble([]rpac.Buffer{{Type: rpac.TypeLogonInfo, Data: v.Encode()}, {Type: rpac.TypeClientInfo, Data: rpac.ClientInfo(v.LogonTime, "user1")},
						{Type: rpac.TypeServerSig, Data: rpac.SigBuffer(16, nil)}, {Type: rpac.TypeKDCSig, Data: rpac.SigBuffer(16, nil)}})
					if err := rpac.Sign(pb, lay, 2, 3, 16, 18, key, 16, 18, wd.w.RandKey(18)); err != nil {
						engine.Fatal("sign: %v", err)
					}
					cs.AuthzData = []krbmsg.AuthDataEntry{{Type: 1, Data: krbmsg.EncodeAuthData([]krbmsg.AuthDataEntry{{Type: 128, Data: pb}})}}
					cs.AuthzLabel = "pac:valid"
				}
				if ev == "fresh-user2" {
					// a longer name than user1, so that its encoded credentials are not shorter
					cs.CName, cs.ACName = []string{"user2-with-a-longer-name"}, []string{"user2-with-a-longer-name"}
					wantUser = "user2-with-a-longer-name"
				}
				cs.CTime = time.Duration(nfresh) * time.Microsecond
				nfresh++
				m, err := wd.w.Mint(cs)
				if err != nil {
					engine.Fatal("mint: %v", err)
				}
				hdr = neg(negInit([][]int{oidKRB5}, krb5Tok([]byte{1, 0}, m.APReq), true))
				lastTok = hdr
				// the same token with one letter of the ticket's clear-text service name in another case
				csc := cs
				csc.TktSName = []string{"HTTP", "Host.test.gokrb5"}
				mc := wd.w.MintLike(csc, m)
				lastTokCase = neg(negInit([][]int{oidKRB5}, krb5Tok([]byte{1, 0}, mc), true))
				legitHeader = true
			case "replay":
				if lastTok == nil {
					return
				}
				hdr = lastTok
			case "replay-sname-case-flipped":
				if lastTokCase == nil {
					return
				}
				hdr = lastTokCase
			case "garbage":
				hdr = sp("Negotiate Z2FyYmFnZQ==")
			case "cookie":
				if cookie == "" {
					return
				}
				ck = cookie
				wantUser = cookieUser[cookie]
			case "cookie-of-first-session":
				if firstCookie == "" {
					return
				}
				ck = firstCookie
				wantUser = cookieUser[firstCookie]
			case "forged-cookie":
				ck = "sid=sess999"
			}
			o := wd.serveWith(h, "10.0.0.1:4321", hdr, ck)
			recd := map[string]interface{}{"sequence": seq, "step": i, "session_manager": mgr}
			if o.Panic != "" {
				c.Violate("sequences", "panic:sequence:"+ev, map[string]interface{}{"panic": o.Panic}, recd)
				return
			}
			bySession := (ev == "cookie" || ev == "cookie-of-first-session") && established && sm != nil && !sm.failGet && !sm.staleGet
			wantInner := bySession || (legitHeader && !(sm != nil && sm.failNew))
			switch {
			case o.InnerRan && !wantInner:
				c.Violate("sequences", "inner-handler-ran-without-authentication:"+ev+":"+mgr, map[string]interface{}{"outcome": o}, recd)
				return
			case !o.InnerRan && wantInner:
				c.Violate("sequences", "authenticated-request-refused:"+ev+":"+mgr, map[string]interface{}{"outcome": o}, recd)
				return
			case o.InnerRan && (o.User != wantUser || o.Domain != apworld.Realm || !o.AuthN):
				c.Violate("sequences", "wrong-identity-in-context:"+ev+":"+mgr, map[string]interface{}{"outcome": o}, recd)
				return
			case !o.InnerRan && legitHeader && sm != nil && sm.failNew:
				if o.Status < 500 {
					c.Violate("sequences", "session-store-failure-not-5xx", map[string]interface{}{"outcome": o}, recd)
					return
				}
			case !o.InnerRan && (o.Status != 401 || !strings.HasPrefix(o.WWWAuth, "Negotiate")):
				c.Violate("sequences", "refusal-is-not-401-negotiate:"+ev+":"+mgr, map[string]interface{}{"outcome": o}, recd)
				return
			}
			if o.SetCookie != "" && o.InnerRan && legitHeader {
				cookie, established = o.SetCookie, true
				cookieUser[cookie] = wantUser
				if firstCookie == "" {
					firstCookie = cookie
				}
			}
			c.Distinct(fmt.Sprintf("seq/%s/%s/%v", mgr, ev, o.InnerRan))
		}
	}
	rec = func(seq []string) {
		if len(seq) > 0 {
			for _, m := range managers {
				run(seq, m)
			}
		}
		if len(seq) == depth {
			return
		}
		for _, e := range events {
			rec(append(append([]string{}, seq...), e))
		}
	}
	rec(nil)
	_ = context.Background
}

// Exported framing helpers (reused by C04 for seed tokens).
var (
	OIDKRB5   = oidKRB5
	OIDMSKRB5 = oidMSKRB5
	OIDSPNEGO = oidSPNEGO
)

// KRB5Tok frames inner as a GSS-API Kerberos mechanism token with the given token id.
func KRB5Tok(tokID []byte, inner []byte) []byte { return krb5Tok(tokID, inner) }

// NegInit builds a NegTokenInit.
func NegInit(mechs [][]int, token []byte, gssFrame bool) []byte {
	return negInit(mechs, token, gssFrame)
}

// NegResp builds a NegTokenResp.
func NegResp(state int64, mech []int, token []byte) []byte { return negResp(state, mech, token) }

// remoteAddresses: a ticket bound to client addresses, presented over connections whose remote address the wrapper
// can or cannot turn into a host address. It is served only from an address the ticket lists; when the peer's
// address cannot be established the address requirement is not met and the request is refused.
func remoteAddresses(c *engine.Ctx, wd *world, evals *int64) {
	for _, et := range []int32{18, 23} {
		for _, r := range []struct {
			remote string
			serve  bool
		}{{"10.0.0.1:4321", true}, {"10.0.0.2:4321", false}, {"@", false}, {"", false}, {"[fe80::1%eth0]:443", false}, {"10.0.0.1", false}, {"localhost:80", false}, {"[::1]:80", false}} {
			cs := apworld.Base(et)
			cs.CAddr = []krbmsg.HostAddress{apworld.AddrMatch}
			m, err := wd.w.Mint(cs)
			if err != nil {
				engine.Fatal("mint: %v", err)
			}
			service.VerifResetReplayCache()
			vclock.Set(apworld.T0)
			*evals++
			o := wd.serveWith(wd.handler(nil), r.remote, neg(negInit([][]int{oidKRB5}, krb5Tok([]byte{1, 0}, m.APReq), true)), "")
			rec := map[string]interface{}{"etype": et, "remote_addr": r.remote, "ticket_bound_to": "10.0.0.1"}
			switch {
			case o.Panic != "":
				c.Violate("remote", "panic:remote-address", map[string]interface{}{"panic": o.Panic}, rec)
			case o.InnerRan && !r.serve:
				c.Violate("remote", "inner-handler-ran-for-address-bound-ticket-from-unestablished-address", map[string]interface{}{"outcome": o}, rec)
			case !o.InnerRan && r.serve:
				c.Violate("remote", "authenticated-request-refused:address-bound-ticket-from-its-address", map[string]interface{}{"outcome": o}, rec)
			default:
				c.Distinct(fmt.Sprintf("remote/%d/%s/%v", et, r.remote, o.InnerRan))
			}
		}
	}
}
