package c03

import (
	"fmt"
	"net/http"

	"verif/checks/apworld"
	"verif/engine"
	"verif/ref/krbmsg"

	"github.com/jcmturner/gokrb5/v8/service"
	"github.com/jcmturner/gokrb5/v8/zzverif/vclock"
	"github.com/jcmturner/gokrb5/v8/zzverif/vsched"
)

// yieldingSessions is a session store whose operations are scheduling points,
// so that the explorer can interleave two requests inside one wrapper.
type yieldingSessions struct{ memSessions }

func (y *yieldingSessions) New(w http.ResponseWriter, r *http.Request, k string, v []byte) error {
	vsched.Yield("session-new")
	return y.memSessions.New(w, r, k, v)
}

func (y *yieldingSessions) Get(r *http.Request, k string) ([]byte, error) {
	vsched.Yield("session-get")
	return y.memSessions.Get(r, k)
}

// concurrent: two requests in flight through ONE wrapper. A holds a ticket bound to 10.0.0.1 but comes from
// 10.0.0.66; B comes from 10.0.0.1 (without credentials, or with its own valid token). Whatever the interleaving,
// A must be refused and B judged on its own merits.
func concurrent(c *engine.Ctx, wd *world, evals *int64) {
	bound := apworld.Base(18)
	bound.CAddr = []krbmsg.HostAddress{apworld.AddrMatch}
	mb, err := wd.w.Mint(bound)
	if err != nil {
		engine.Fatal("mint: %v", err)
	}
	other := apworld.Base(17)
	other.CName, other.ACName = []string{"user2"}, []string{"user2"}
	mo, _ := wd.w.Mint(other)
	hdrA := neg(negInit([][]int{oidKRB5}, krb5Tok([]byte{1, 0}, mb.APReq), true))
	hdrB := neg(negInit([][]int{oidKRB5}, krb5Tok([]byte{1, 0}, mo.APReq), true))
	for _, scen := range []struct {
		name  string
		hb    *string
		wantB bool
	}{{"B-without-credentials", nil, false}, {"B-with-own-valid-token", hdrB, true}} {
		var oa, ob outcome
		e := &engine.Explorer{Bound: -1, MaxPoints: 5000, Stop: c.Expired}
		e.Exec = func(prefix []int) *vsched.Sched {
			service.VerifResetReplayCache()
			vclock.Virtual(apworld.T0)
			oa, ob = outcome{}, outcome{}
			sm := &yieldingSessions{memSessions{store: map[string][]byte{}}}
			h := wd.handler(sm)
			return vsched.Run(prefix, e.MaxPoints, func() {
				vsched.GoNamed("A", true, func() { oa = wd.serveWith(h, "10.0.0.66:999", hdrA, "") })
				vsched.GoNamed("B", true, func() { ob = wd.serveWith(h, "10.0.0.1:4321", scen.hb, "") })
			})
		}
		e.Check = func(x *vsched.Sched) {
			*evals++
			rec := map[string]interface{}{"scenario": scen.name, "schedule": x.Choices(), "trace": engine.Describe(x)}
			switch {
			case x.Panic != "" || oa.Panic != "" || ob.Panic != "":
				c.Violate("concurrent", "panic:concurrent-requests", map[string]interface{}{"panic": x.Panic + oa.Panic + ob.Panic}, rec)
			case oa.InnerRan:
				c.Violate("concurrent", "inner-handler-ran-for-address-bound-ticket-from-another-address:"+scen.name, map[string]interface{}{"A": oa, "B": ob}, rec)
			case ob.InnerRan != scen.wantB:
				c.Violate("concurrent", fmt.Sprintf("concurrent-request-B-served=%v:%s", ob.InnerRan, scen.name), map[string]interface{}{"A": oa, "B": ob}, rec)
			case ob.InnerRan && ob.User != "user2":
				c.Violate("concurrent", "wrong-identity-in-context:concurrent", map[string]interface{}{"B": ob}, rec)
			default:
				c.Distinct(fmt.Sprintf("conc/%s/%d", scen.name, len(x.Trace)))
			}
		}
		e.Run(nil)
		c.Add("schedules", e.Schedules)
		c.Note("concurrent scenario %s: schedules=%d capped=%v", scen.name, e.Schedules, e.Capped)
	}
}
