package c03

import (
	"bytes"
	"fmt"

	"verif/checks/apworld"
	"verif/engine"

	"github.com/jcmturner/gokrb5/v8/service"
	"github.com/jcmturner/gokrb5/v8/types"
	"github.com/jcmturner/gokrb5/v8/zzverif/vclock"
)

func mustAddr() types.HostAddress {
	return types.HostAddress{AddrType: 2, Address: []byte{10, 0, 0, 1}}
}

type mutTok struct {
	name          string
	bytes         []byte
	tktCT, authCT []byte
}

type mutations struct {
	wd   *world
	toks []mutTok
	cum  []int
}

var mutCache *mutations

func mutSet(args []string) *mutations {
	if mutCache != nil {
		return mutCache
	}
	var seed int64
	fmt.Sscan(args[0], &seed)
	wd := newWorld(seed)
	ms := &mutations{wd: wd}
	add := func(name string, et int32, frame func(apreq []byte) []byte) {
		m, err := wd.w.Mint(apworld.Base(et))
		if err != nil {
			engine.Fatal("mint: %v", err)
		}
		ms.toks = append(ms.toks, mutTok{name, frame(m.APReq), m.TicketCT, m.AuthCT})
	}
	add("spnego-init-et18", 18, func(a []byte) []byte { return negInit([][]int{oidKRB5}, krb5Tok([]byte{1, 0}, a), true) })
	add("raw-krb5-et17", 17, func(a []byte) []byte { return krb5Tok([]byte{1, 0}, a) })
	add("spnego-init-mskrb5-et23", 23, func(a []byte) []byte { return negInit([][]int{oidMSKRB5, oidKRB5}, krb5Tok([]byte{1, 0}, a), true) })
	total := 0
	for _, t := range ms.toks {
		total += len(t.bytes) + len(t.bytes)*255 // prefixes 0..n-1, substitutions
		ms.cum = append(ms.cum, total)
	}
	mutCache = ms
	return ms
}

func (ms *mutations) locate(idx int) (tok int, kind string, pos int, val int) {
	prev := 0
	for i, cnt := range ms.cum {
		if idx < cnt {
			k := idx - prev
			n := len(ms.toks[i].bytes)
			if k < n {
				return i, "prefix", k, 0
			}
			k -= n
			return i, "substitute", k / 255, k % 255
		}
		prev = cnt
	}
	return 0, "prefix", 0, 0
}

func init() {
	engine.RegisterWorker("c03mut", engine.WorkerFunc{
		N: func(args []string) int { ms := mutSet(args); return ms.cum[len(ms.cum)-1] },
		Run: func(args []string, idx int, r engine.Reporter) {
			ms := mutSet(args)
			if !vclock.IsVirtual() {
				vclock.Virtual(apworld.T0)
			}
			ti, kind, pos, val := ms.locate(idx)
			t := ms.toks[ti]
			var m []byte
			if kind == "prefix" {
				m = append([]byte{}, t.bytes[:pos]...)
			} else {
				m = append([]byte{}, t.bytes...)
				v := byte(val)
				if v >= m[pos] {
					v++ // the 255 values other than the original
				}
				m[pos] = v
			}
			service.VerifResetReplayCache()
			vclock.Set(apworld.T0)
			o := ms.wd.serve(neg(m), "", nil)
			// legit iff both minted ciphertexts are still present unmodified
			legit := bytes.Contains(m, t.tktCT) && bytes.Contains(m, t.authCT)
			rec := map[string]interface{}{"token": t.name, "mutation": kind, "position": pos, "value": val, "header": *neg(m)}
			if k, d := judge(o, legit, "user1", apworld.Realm); k != "" {
				r.Violate("mutations", k+":"+kind+":"+t.name, map[string]interface{}{"what": d, "outcome": o}, rec)
				return
			}
			r.Distinct(fmt.Sprintf("mut/%s/%s/%v", t.name, kind, o.InnerRan))
		},
	})
}
