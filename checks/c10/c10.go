// Package c10: tickets obtained and cached by the client are the right ones
// and still valid. Explicit-state breadth-first search over client operation
// histories (login, service-ticket requests, clock advances to the interesting
// instants, destroy) on the real client.Client against the simulated KDC,
// whose strict request validation and issue log are the oracle; run under the
// cooperative scheduler so that the TGT auto-renewal goroutine runs to
// quiescence deterministically after every event.
package c10

import (
	"bytes"
	"fmt"
	"github.com/jcmturner/gokrb5/v8/client"
	"sort"
	"strings"
	"time"

	"verif/checks/cworld"
	"verif/engine"
	"verif/ref/simkdc"

	"github.com/jcmturner/gokrb5/v8/zzverif/vclock"
	"github.com/jcmturner/gokrb5/v8/zzverif/vsched"
)

var spns = map[string]string{"s1": "HTTP/host.test.gokrb5", "s2": "HTTP/host2.test.gokrb5", "sx": "HTTP/host.other.gokrb5",
	"sA": "HTTP/appserver"} // sA (a host no [domain_realm] entry matches) is used by the directed histories only

// events of the history alphabet
var alphabet = []string{"login", "ticket:s1", "ticket:s2", "ticket:sx", "adv:+1s", "adv:next-timer", "adv:ticket-end-1s", "adv:ticket-end+1s", "adv:tgt-end+1s", "adv:renew-till+1s", "adv:elapse-2-lifetimes", "destroy"}

type stepResult struct {
	Event string
	Err   string
	Key   string // canonical state after the event
	Viol  []violation
}

type violation struct {
	key, what string
}

// instants derives the advance targets from the client's state.
func advanceTarget(w *cworld.World, kind string) (time.Time, bool) {
	now := vclock.Now()
	switch kind {
	case "+1s":
		return now.Add(time.Second), true
	case "next-timer":
		var best time.Time
		for _, t := range vclock.PendingTimers() {
			if t.After(now) && (best.IsZero() || t.Before(best)) {
				best = t
			}
		}
		return best, !best.IsZero()
	case "ticket-end-1s", "ticket-end+1s":
		var best time.Time
		for _, e := range w.Client.VerifCache() {
			end := e.EndTime
			if is := issuedFor(w, e.SPN, e.Ticket); is != nil {
				end = is.End // what the KDC issued, should the client's own record of it be wrong
			}
			if end.After(now) && (best.IsZero() || end.Before(best)) {
				best = end
			}
		}
		if best.IsZero() {
			return best, false
		}
		if kind == "ticket-end-1s" {
			best = best.Add(-time.Second)
			return best, best.After(now)
		}
		return notOnSessionEnd(w, best.Add(time.Second)), true
	case "elapse-2-lifetimes":
		if len(w.Client.VerifSessions()) == 0 {
			return time.Time{}, false
		}
		target := now.Add(2*w.Opts.TicketLifetime + 7*time.Second)
		for _, s := range w.Client.VerifSessions() {
			// Close to renew-till the renewal intervals shrink geometrically (5/6 of what is left each time); in real
			// time that ends when the interval drops below a round trip, with a frozen clock it never does. The
			// event therefore stays a ticket lifetime away from renew-till (the adv:renew-till+1s event jumps over it).
			if s.RenewTill.After(now) && target.After(s.RenewTill.Add(-w.Opts.TicketLifetime)) {
				return time.Time{}, false
			}
		}
		return notOnSessionEnd(w, target), true
	case "tgt-end+1s", "renew-till+1s":
		var best time.Time
		for _, s := range w.Client.VerifSessions() {
			t := s.EndTime
			if kind == "renew-till+1s" {
				t = s.RenewTill
			}
			if t.After(now) && (best.IsZero() || t.Before(best)) {
				best = t
			}
		}
		if best.IsZero() {
			return best, false
		}
		return notOnSessionEnd(w, best.Add(time.Second)), true
	}
	return time.Time{}, false
}

// notOnSessionEnd nudges a target instant off the exact end time of a TGT session: with a frozen clock the auto-renewal
// loop computes a zero wait there and would spin if the renewal failed, which real time (which moves on) never shows.
func notOnSessionEnd(w *cworld.World, t time.Time) time.Time {
	for again := true; again; {
		again = false
		for _, s := range w.Client.VerifSessions() {
			if s.EndTime.Equal(t) {
				t = t.Add(time.Second)
				again = true
			}
		}
	}
	return t
}

func issuedFor(w *cworld.World, spn string, ticket []byte) *simkdc.Issued {
	for _, k := range w.AllKDCs() {
		for i := range k.Issued {
			is := &k.Issued[i]
			if strings.Join(is.SName, "/") == spn && bytes.Equal(is.Ticket, ticket) {
				return is
			}
		}
	}
	return nil
}

// canon renders the client state relative to the clock.
func canon(w *cworld.World) string {
	now := vclock.Now()
	var parts []string
	for _, s := range w.Client.VerifSessions() {
		parts = append(parts, fmt.Sprintf("S:%s:%d:%d:%v", s.Realm, s.EndTime.Sub(now)/time.Second, s.RenewTill.Sub(now)/time.Second, s.HasCancel))
	}
	for _, e := range w.Client.VerifCache() {
		parts = append(parts, fmt.Sprintf("C:%s:%d:%d:%d", e.SPN, e.StartTime.Sub(now)/time.Second, e.EndTime.Sub(now)/time.Second, e.RenewTill.Sub(now)/time.Second))
	}
	var ts []string
	for _, t := range vclock.PendingTimers() {
		ts = append(ts, fmt.Sprint(t.Sub(now)/time.Second))
	}
	sort.Strings(ts)
	parts = append(parts, "T:"+strings.Join(ts, ","))
	parts = append(parts, fmt.Sprintf("cred:%v", w.Client.Credentials.UserName() != ""))
	if client.VerifMinimal {
		// the client's private state is not visible: what the KDCs have issued so far and the clock stand in for it
		// (a coarser key that can merge states the full key keeps apart; noted in the evidence)
		for _, k := range w.AllKDCs() {
			for _, is := range k.Issued {
				parts = append(parts, fmt.Sprintf("I:%s:%s:%d:%v", is.Exchange, strings.Join(is.SName, "/"), is.End.Sub(now)/time.Second, is.Renewal))
			}
		}
	}
	return strings.Join(parts, "|")
}

// replay runs the history on a fresh world under the scheduler and judges every event.
func replay(o cworld.Opts, hist []string) ([]stepResult, string, []string) {
	vclock.Virtual(cworld.T0)
	var res []stepResult
	var w *cworld.World
	x := vsched.Run(nil, 200000, func() {
		w = cworld.New(o)
		for _, ev := range hist {
			r := stepResult{Event: ev}
			nviol := len(w.Violations())
			nreq := totalRequests(w)
			switch {
			case ev == "login":
				if err := w.Client.Login(); err != nil {
					r.Err = err.Error()
				} else {
					ss := w.Client.VerifSessions()
					ok := client.VerifMinimal // without sight of the private state the session is not judged
					for _, s := range ss {
						if s.Realm == cworld.Realm {
							for _, is := range w.KDC.Issued {
								if bytes.Equal(is.SessionKey, s.SessionKey.KeyValue) && is.End.Equal(s.EndTime) {
									ok = true
								}
							}
						}
					}
					if !ok {
						r.Viol = append(r.Viol, violation{"login:session-not-in-issue-log", "after a successful login the TGT session key / end time is not one the KDC issued"})
					}
				}
			case strings.HasPrefix(ev, "ticket:"):
				spn := spns[strings.TrimPrefix(ev, "ticket:")]
				tkt, key, err := w.Client.GetServiceTicket(spn)
				now := vclock.Now()
				if err != nil {
					r.Err = err.Error()
				} else {
					tb, _ := tkt.Marshal()
					is := issuedFor(w, spn, tb)
					switch {
					case is == nil:
						r.Viol = append(r.Viol, violation{"ticket:not-issued-for-this-spn", fmt.Sprintf("the ticket returned for %s is not in any KDC's issue log for that SPN", spn)})
					case !bytes.Equal(is.SessionKey, key.KeyValue) || is.KeyEtype != key.KeyType:
						r.Viol = append(r.Viol, violation{"ticket:key-not-issued-with-ticket", fmt.Sprintf("the session key returned for %s was not issued with the returned ticket", spn)})
					case now.Before(is.Start) || !now.Before(is.End):
						served := "after a KDC exchange"
						if totalRequests(w) == nreq {
							served = "from the cache"
						}
						r.Viol = append(r.Viol, violation{"ticket:outside-validity:" + strings.ReplaceAll(served, " ", "-"), fmt.Sprintf("ticket for %s returned %s at %v is valid %v..%v", spn, served, now, is.Start, is.End)})
					}
				}
			case strings.HasPrefix(ev, "adv:"):
				t, ok := advanceTarget(w, strings.TrimPrefix(ev, "adv:"))
				if !ok {
					r.Err = "n/a"
					res = append(res, r)
					return // event not applicable in this state: history is not extended
				}
				stepReq := nreq
				if ev == "adv:elapse-2-lifetimes" {
					// time passes, it does not jump: every timer on the way fires at its own instant and the
					// goroutines it wakes run before the next one
					for n := 0; n < 64; n++ {
						before := totalRequests(w)
						if n > 0 && before-stepReq > 12 {
							r.Viol = append(r.Viol, violation{"unbounded-exchanges", fmt.Sprintf("%d KDC requests after one timer", before-stepReq)})
						}
						stepReq = before
						var next time.Time
						for _, tm := range vclock.PendingTimers() {
							if tm.After(vclock.Now()) && tm.Before(t) && (next.IsZero() || tm.Before(next)) {
								next = tm
							}
						}
						if next.IsZero() {
							break
						}
						vclock.Set(next)
						vsched.Quiesce()
					}
				}
				vclock.Set(t)
			case ev == "destroy":
				w.Client.Destroy()
			}
			vsched.Quiesce()
			for _, v := range w.Violations()[nviol:] {
				if strings.Contains(v, "(soft)") && r.Err == "" {
					// a first pre-authentication attempt with an assumed (default) salt that the client then corrects from the
					// KDC's hints is not a malformed request as long as the operation succeeds
					continue
				}
				r.Viol = append(r.Viol, violation{"request:" + classify(v), v})
			}
			if r.Err != "" && o.Cred == "ccache" && !tgtValid(w) {
				// a client built from a credential cache has nothing to log in with once its TGT has ended (documented)
			} else if r.Err != "" && (ev == "login" || strings.HasPrefix(ev, "ticket:")) && w.Client.Credentials.UserName() != "" {
				r.Viol = append(r.Viol, violation{"operation-fails-against-a-conformant-kdc:" + strings.SplitN(ev, ":", 2)[0], r.Err})
			}
			// one operation (or one timer) leads to a bounded number of exchanges; while time elapses over many timers the
			// bound applies to each of them (above): close to the end of a TGT that cannot be extended the renewal intervals
			// shrink geometrically, which real time cuts off at a round trip and virtual time only at a nanosecond
			if n := totalRequests(w) - nreq; n > 12 && ev != "adv:elapse-2-lifetimes" {
				r.Viol = append(r.Viol, violation{"unbounded-exchanges", fmt.Sprintf("%d KDC requests for one event", n)})
			}
			r.Key = canon(w)
			res = append(res, r)
		}
	})
	var blocked []string
	if x.Horizon {
		blocked = append(blocked, "livelock: the point horizon was reached with threads still running")
	}
	for _, b := range x.Blocked() {
		if x.Horizon {
			break
		}
		if !strings.HasSuffix(b, "@select") && !strings.HasSuffix(b, "@sleep") {
			blocked = append(blocked, b)
		}
	}
	return res, x.Panic, blocked
}

// tgtValid: the newest TGT the home KDC issued to the user is still inside its validity period.
func tgtValid(w *cworld.World) bool {
	now := vclock.Now()
	var end time.Time
	for _, is := range w.KDC.Issued {
		if len(is.SName) == 2 && is.SName[0] == "krbtgt" && is.SName[1] == cworld.Realm && is.End.After(end) {
			end = is.End
		}
	}
	return now.Before(end)
}

func totalRequests(w *cworld.World) int {
	n := 0
	for _, k := range w.AllKDCs() {
		n += len(k.Requests)
	}
	return n
}

// classify turns a KDC validation message into a stable key.
func classify(v string) string {
	if strings.Contains(v, "authenticator client") && strings.Contains(v, "differs from the ticket's") {
		return "TGS:authenticator-crealm"
	}
	for _, k := range []string{"rtime", "till", "kdc-options", "etype list", "addresses", "nonce", "PA-ENC-TIMESTAMP", "checksum", "authenticator", "cname", "from time", "realm", "msg-type", "pvno", "well-formed", "renewal"} {
		if strings.Contains(v, k) {
			ex := "AS"
			if strings.Contains(v, "TGS") || k == "authenticator" || k == "checksum" || k == "renewal" {
				ex = "TGS"
			}
			return ex + ":" + strings.ReplaceAll(k, " ", "-")
		}
	}
	return "other"
}

// pairwise builds a small set of configurations covering every pair of setting values.
func pairwise() []cworld.Opts {
	type dim struct {
		n   int
		set func(o *cworld.Opts, i int)
	}
	dims := []dim{
		{2, func(o *cworld.Opts, i int) { o.Cred = []string{"keytab", "password"}[i] }},
		{3, func(o *cworld.Opts, i int) { o.ETypes = [][]int32{{18}, {17, 23}, {20, 19, 16}}[i] }},
		{3, func(o *cworld.Opts, i int) { o.PreAuth = []string{"none", "required", "assumed"}[i] }},
		{2, func(o *cworld.Opts, i int) { o.Forwardable = i == 1 }},
		{2, func(o *cworld.Opts, i int) { o.Proxiable = i == 1 }},
		{2, func(o *cworld.Opts, i int) { o.Canonicalize = i == 1 }},
		{3, func(o *cworld.Opts, i int) { o.RenewLifetime = []time.Duration{0, time.Hour, 7 * 24 * time.Hour}[i] }},
		{2, func(o *cworld.Opts, i int) { o.TicketLifetime = []time.Duration{10 * time.Minute, 24 * time.Hour}[i] }},
		{2, func(o *cworld.Opts, i int) { o.FAST = i == 1 }},
		{2, func(o *cworld.Opts, i int) { o.FreshRenewKey = i == 1 }},
	}
	type pair struct{ a, va, b, vb int }
	uncovered := map[pair]bool{}
	for a := range dims {
		for b := a + 1; b < len(dims); b++ {
			for va := 0; va < dims[a].n; va++ {
				for vb := 0; vb < dims[b].n; vb++ {
					uncovered[pair{a, va, b, vb}] = true
				}
			}
		}
	}
	var rows [][]int
	for len(uncovered) > 0 {
		// greedy: build a row choosing per dimension the value covering most uncovered pairs with already fixed dims
		row := make([]int, len(dims))
		for d := range dims {
			best, bestN := 0, -1
			for v := 0; v < dims[d].n; v++ {
				n := 0
				for e := 0; e < d; e++ {
					if uncovered[pair{e, row[e], d, v}] {
						n++
					}
				}
				if d == 0 {
					// spread the first dimension by the number of pairs it still appears in
					for p := range uncovered {
						if p.a == 0 && p.va == v {
							n++
						}
					}
				}
				if n > bestN {
					best, bestN = v, n
				}
			}
			row[d] = best
		}
		covered := 0
		for a := range dims {
			for b := a + 1; b < len(dims); b++ {
				p := pair{a, row[a], b, row[b]}
				if uncovered[p] {
					delete(uncovered, p)
					covered++
				}
			}
		}
		if covered == 0 {
			// force progress: take any uncovered pair
			for p := range uncovered {
				row[p.a], row[p.b] = p.va, p.vb
				delete(uncovered, p)
				break
			}
		}
		rows = append(rows, row)
	}
	var out []cworld.Opts
	for _, r := range rows {
		o := cworld.DefaultOpts()
		for d, v := range r {
			dims[d].set(&o, v)
		}
		if o.PreAuth == "assumed" && o.Cred == "password" {
			// preferred_preauth_types drives the assumed etype; keep the first etype a PBKDF2 one only with default parameters (handled by cworld)
		}
		out = append(out, o)
	}
	return out
}

func optsName(o cworld.Opts) string {
	return fmt.Sprintf("%s/et%v/pa-%s/fwd%v/prx%v/canon%v/renew%v/life%v/fast%v/freshkey%v/strictrenew%v", o.Cred, o.ETypes, o.PreAuth, o.Forwardable, o.Proxiable, o.Canonicalize, o.RenewLifetime, o.TicketLifetime, o.FAST, o.FreshRenewKey, o.StrictRenewal)
}

// bfs explores histories for one configuration.
func bfs(c *engine.Ctx, o cworld.Opts, depth int, maxStates int) (states, transitions int64, exhausted bool) {
	seen := map[string]bool{"": true}
	frontier := [][]string{nil}
	exhausted = true
	states = 1
	for d := 0; d < depth && len(frontier) > 0; d++ {
		var next [][]string
		for _, h := range frontier {
			for _, ev := range alphabet {
				if c.Expired() || int(states) >= maxStates {
					exhausted = false
					return
				}
				nh := append(append([]string{}, h...), ev)
				res, pn, blocked := replay(o, nh)
				transitions++
				rec := map[string]interface{}{"config": o, "history": nh}
				if pn != "" {
					c.Violate("histories", "panic:"+ev, map[string]interface{}{"panic": pn}, rec)
					continue
				}
				if len(blocked) > 0 {
					c.Violate("histories", "deadlock:"+ev, map[string]interface{}{"blocked": blocked}, rec)
					continue
				}
				if len(res) < len(nh) || res[len(res)-1].Err == "n/a" {
					continue
				}
				last := res[len(res)-1]
				bad := false
				for _, v := range last.Viol {
					c.Violate("histories", v.key, map[string]interface{}{"what": v.what, "event": ev, "error": last.Err}, rec)
					bad = true
				}
				if bad {
					continue
				}
				key := last.Key
				if !seen[key] {
					seen[key] = true
					states++
					next = append(next, nh)
					c.Distinct(optsName(o) + "|" + key)
					if states%400 == 3 {
						c.Sample(map[string]interface{}{"config": optsName(o), "history": nh, "state": key})
					}
				}
			}
		}
		frontier = next
	}
	if len(frontier) > 0 && depth > 0 {
		// frontier left unexplored beyond the depth bound: that is the bound, not a cap
	}
	return
}

// Run is the check's entry point.
func Run(c *engine.Ctx) {
	c.Assume = append(c.Assume,
		"the KDC is ref/simkdc: it validates every request strictly against what the rendered krb5.conf implies (etype list, kdc-options, till = now+ticket_lifetime, rtime = now+renew_lifetime, no addresses, PA-ENC-TIMESTAMP under key usage 1 within skew, PA-TGS-REQ authenticator under usage 7 with a usage-6 checksum over the req-body) and logs every ticket it issues",
		"virtual clock; the client runs under the cooperative scheduler with the default schedule and background goroutines are run to quiescence after every event (their interleavings are C11's subject)",
		"judged: a returned ticket must be in the issue log for that SPN with its key and inside its validity at return time (start <= now < end); not judged: re-requesting although a valid ticket is cached (the statement only says 'only while')")
	depthDefault, depthPair, maxStates := 4, 3, 2500
	if c.Thorough() {
		depthDefault, depthPair, maxStates = 7, 4, 40000
	}
	var states, transitions int64
	exh := true
	// deep search on the default configuration and on a renewable short-lived one
	deep := []cworld.Opts{cworld.DefaultOpts()}
	r := cworld.DefaultOpts()
	r.RenewLifetime, r.TicketLifetime, r.Forwardable = time.Hour, 10*time.Minute, true
	deep = append(deep, r)
	r2 := r
	r2.FreshRenewKey = true
	deep = append(deep, r2)
	// the same against KDCs that refuse to renew a ticket once it has ended (the default model is lenient there)
	r3 := r
	r3.StrictRenewal = true
	deep = append(deep, r3)
	// clients built from a credential cache that holds a TGT and a service ticket with half the TGT's lifetime:
	// not renewable, renewable, and renewable against a KDC that replaces the session key on renewal
	for i := 0; i < 3; i++ {
		cc := cworld.DefaultOpts()
		cc.Cred, cc.TicketLifetime = "ccache", 10*time.Minute
		if i > 0 {
			cc.RenewLifetime, cc.Forwardable = time.Hour, true
		}
		cc.FreshRenewKey = i == 2
		deep = append(deep, cc)
	}
	for _, o := range deep {
		s, t, e := bfs(c, o, depthDefault, maxStates)
		states, transitions, exh = states+s, transitions+t, exh && e
		c.Note("config %s depth %d: states=%d transitions=%d exhausted=%v", optsName(o), depthDefault, s, t, e)
	}
	// every encryption type on its own (so that the TGT session key, the authenticator checksum type and the
	// pre-authentication key are of that type), keytab and password, short histories
	for _, et := range []int32{16, 17, 18, 19, 20, 23} {
		for _, cred := range []string{"keytab", "password"} {
			o := cworld.DefaultOpts()
			o.ETypes, o.Cred = []int32{et}, cred
			if cred == "password" {
				o.PreAuth = "required"
			}
			s, t, e := bfs(c, o, 2, maxStates)
			states, transitions, exh = states+s, transitions+t, exh && e
		}
	}
	// noaddresses = false with extra_addresses (IPv4 and IPv6): the local interface addresses are the environment's
	// and are only required to be well-formed; the extra ones have to be on the wire as configured
	{
		o := cworld.DefaultOpts()
		o.ExtraAddresses = []string{"10.1.2.3", "2001:db8::7"}
		s, t, e := bfs(c, o, 2, maxStates)
		states, transitions, exh = states+s, transitions+t, exh && e
	}
	// default_tgs_enctypes different from default_tkt_enctypes (both orders of two etypes, and disjoint lists)
	for _, pr := range [][2][]int32{{{18, 17}, {17, 18}}, {{18}, {17}}, {{17, 23}, {23}}} {
		o := cworld.DefaultOpts()
		o.ETypes, o.TGSETypes = pr[0], pr[1]
		s, t, e := bfs(c, o, 2, maxStates)
		states, transitions, exh = states+s, transitions+t, exh && e
	}
	// the client's realm is not the default realm; a service whose host no [domain_realm] entry matches lives in the
	// client's realm: directed histories
	for _, h := range [][]string{{"login", "ticket:sA"}, {"ticket:sA"}, {"login", "ticket:s1", "ticket:sA", "ticket:sx"}} {
		for _, elsewhere := range []bool{false, true} {
			o := cworld.DefaultOpts()
			o.DefaultRealmElsewhere = elsewhere
			res, pn, blocked := replay(o, h)
			transitions++
			rec := map[string]interface{}{"config": o, "history": h}
			if pn != "" || len(blocked) > 0 {
				c.Violate("histories", "panic-or-deadlock:directed-history", map[string]interface{}{"panic": pn, "blocked": blocked}, rec)
				continue
			}
			for _, r := range res {
				for _, v := range r.Viol {
					c.Violate("histories", v.key, map[string]interface{}{"what": v.what, "event": r.Event, "error": r.Err}, rec)
				}
			}
			c.Distinct(fmt.Sprintf("directed/%v/%v", elsewhere, h))
		}
	}
	cfgs := pairwise()
	for _, o := range cfgs {
		s, t, e := bfs(c, o, depthPair, maxStates)
		states, transitions, exh = states+s, transitions+t, exh && e
	}
	c.Cov["pairwise_configurations"] = len(cfgs)
	referralChains(c, &transitions)
	if !exh {
		c.Capped("a BFS stopped at the state cap or time budget")
	}
	c.Add("states", states)
	c.Add("transitions", transitions)
	c.Add("evaluations", transitions)
	c.Add("traces_validated_against_impl", transitions)
	c.Cov["rule"] = "explicit-state BFS over histories on alphabet {login, ticket(s1|s2|other-realm service), advance(+1s | next timer | earliest ticket end -1s/+1s | TGT end +1s | renew-till +1s | two ticket lifetimes elapsing with every timer firing at its own instant), destroy}: depth 4 (7 thorough) on six configurations (default; renewable short-lived with the KDC keeping / replacing the session key on renewal; three clients built from a credential cache holding a TGT and a service ticket of half its lifetime: not renewable, renewable, renewable with key replacement), depth 3 (4) on a pairwise-covering set of configurations over 10 settings; depth 2 for every etype alone x {keytab, password with pre-authentication}; referral chains of length 0..12 and a 3-realm referral cycle, against the strict KDC and against KDCs tolerating the known authenticator-crealm finding; canonical state = sessions, cache entries and pending timers relative to the clock; distinct = canonical states"
}

// referralChains: chains within the bound succeed with a ticket of the last realm, longer ones and cycles fail
// after a fixed number of exchanges. Run once against the strict KDC and once against KDCs that tolerate the
// authenticator-crealm defect recorded as a known finding, so that the bound itself is reachable.
func referralChains(c *engine.Ctx, transitions *int64) {
	type res struct {
		nreq int
		ok   bool
	}
	for _, lenient := range []bool{false, true} {
		results := map[int]res{}
		for n := 0; n <= 13; n++ {
			o := cworld.DefaultOpts()
			o.Canonicalize = true
			o.ChainRealms = n
			o.LenientCRealm = lenient
			cycle := n == 13 // 13: a cycle R1 -> R2 -> R3 -> R1
			if cycle {
				o.ChainRealms, o.ChainCycle = 3, true
			}
			var err error
			var w *cworld.World
			var tb []byte
			var keyv []byte
			spn := "HTTP/host.chain.gokrb5"
			if n == 0 {
				spn = spns["s1"]
			}
			x := vsched.Run(nil, 200000, func() {
				vclock.Virtual(cworld.T0)
				w = cworld.New(o)
				if e := w.Client.Login(); e != nil {
					err = e
					return
				}
				tkt, key, e := w.Client.GetServiceTicket(spn)
				err = e
				if e == nil {
					tb, _ = tkt.Marshal()
					keyv = key.KeyValue
				}
				vsched.Quiesce()
			})
			*transitions++
			rec := map[string]interface{}{"referral_chain_length": n, "cycle": cycle, "kdc_tolerates_ticket_realm_as_authenticator_crealm": lenient}
			nreq := totalRequests(w)
			results[n] = res{nreq, err == nil}
			tag := "strict"
			if lenient {
				tag = "lenient"
			}
			switch {
			case x.Panic != "":
				c.Violate("referrals", "panic:referral-chain", map[string]interface{}{"panic": x.Panic}, rec)
			case x.Horizon || nreq > 12:
				c.Violate("referrals", "unbounded-referral-exchanges", map[string]interface{}{"requests": nreq}, rec)
			case err == nil:
				is := issuedFor(w, spn, tb)
				if cycle || is == nil || !bytes.Equal(is.SessionKey, keyv) {
					c.Violate("referrals", "referral:ticket-not-issued", nil, rec)
				} else {
					c.Distinct(fmt.Sprintf("referral/%s/%d/ok", tag, n))
				}
			case n <= 4:
				c.Violate("referrals", fmt.Sprintf("referral:chain-of-%d-realms-fails", n), map[string]interface{}{"err": err.Error(), "kdc": tag}, rec)
			default:
				c.Distinct(fmt.Sprintf("referral/%s/%d/err", tag, n))
			}
			if v := w.Violations(); len(v) > 0 {
				c.Violate("referrals", "request:"+classify(v[0])+":referral", map[string]interface{}{"what": v}, rec)
			}
			c.Cov[fmt.Sprintf("referral_chain_%s_%d", tag, n)] = map[string]interface{}{"requests": nreq, "ok": err == nil}
		}
		if lenient {
			// a fixed bound: past some length every chain fails after the same number of exchanges
			if results[10].ok || results[11].ok || results[12].ok || results[13].ok || results[12].nreq != results[11].nreq || results[11].nreq != results[10].nreq {
				c.Violate("referrals", "referral:no-fixed-bound", map[string]interface{}{"results_by_chain_length": fmt.Sprintf("%+v", results)}, map[string]interface{}{"chains": "10..12 and cycle", "kdc_tolerates_ticket_realm_as_authenticator_crealm": true})
			}
		}
	}
}
