// Package cworld is the closed world of the client-side checks (C09-C12, C18,
// C20): gokrb5's real client.Client configured from a rendered krb5.conf,
// talking over the in-memory network (shim/vnet) to simulated KDCs
// (ref/simkdc) under the virtual clock.
package cworld

import (
	"fmt"
	"net"
	"strings"
	"sync"
	"time"

	"verif/engine"
	"verif/ref/ccachefmt"
	"verif/ref/der"
	"verif/ref/keytabfmt"
	"verif/ref/krbmsg"
	"verif/ref/rcrypto"
	"verif/ref/simkdc"

	"github.com/jcmturner/gokrb5/v8/client"
	"github.com/jcmturner/gokrb5/v8/config"
	"github.com/jcmturner/gokrb5/v8/credentials"
	"github.com/jcmturner/gokrb5/v8/keytab"
	"github.com/jcmturner/gokrb5/v8/zzverif/vclock"
	"github.com/jcmturner/gokrb5/v8/zzverif/vnet"
)

var T0 = time.Date(2032, 5, 6, 7, 8, 9, 0, time.UTC)

const (
	Realm      = "TEST.GOKRB5"
	OtherRealm = "OTHER.GOKRB5"
	User       = "testuser1"
	Password   = "passwordvalue-é世"
)

var etypeNames = map[int32]string{16: "des3-cbc-sha1-kd", 17: "aes128-cts-hmac-sha1-96", 18: "aes256-cts-hmac-sha1-96", 19: "aes128-cts-hmac-sha256-128", 20: "aes256-cts-hmac-sha384-192", 23: "rc4-hmac"}

// Opts selects a configuration.
type Opts struct {
	Cred             string        `json:"cred"` // "password" | "keytab" | "ccache" (a credential cache holding a TGT and a ticket for HTTP/host.test.gokrb5 with half the TGT's lifetime)
	ETypes           []int32       `json:"etypes"`
	PreAuth          string        `json:"preauth"` // "none" | "required" | "assumed"
	Forwardable      bool          `json:"forwardable"`
	Proxiable        bool          `json:"proxiable"`
	Canonicalize     bool          `json:"canonicalize"`
	RenewLifetime    time.Duration `json:"renew_lifetime"`
	TicketLifetime   time.Duration `json:"ticket_lifetime"`
	UDPLimit         int           `json:"udp_preference_limit"`
	NKDC             int           `json:"kdcs"`
	FAST             bool          `json:"pa_fx_fast"`
	Salt             *string       `json:"salt"`
	Seed             int64         `json:"seed"`
	ChainRealms      int           `json:"chain_realms"` // additional realms R1..Rn linked in a referral chain behind TEST
	ChainCycle       bool          `json:"chain_cycle"`  // the last chain realm refers back to R1 instead of holding the service
	LenientCRealm    bool          `json:"lenient_authenticator_crealm"`
	FreshRenewKey    bool          `json:"kdc_issues_new_key_on_renewal"`
	StrictRenewal    bool          `json:"kdc_refuses_to_renew_ended_tickets,omitempty"`
	PasswordOverride string        `json:"-"` // C20: a marker password instead of the default one
	// UserInstance, when set, makes the client principal testuser1/<instance>; with keytab credentials the keytab
	// then also holds a newer entry for sibling/<instance> with another key (the usual host keytab layout)
	UserInstance string `json:"user_instance,omitempty"`
	// HintSeq, when set (password credentials, pre-authentication required): the PREAUTH_REQUIRED e-data carries these
	// hint kinds (3 PW-SALT, 11 ETYPE-INFO, 19 ETYPE-INFO2) in this order; the kind of highest RFC 4120 5.2.7.5
	// precedence carries the principal's real etype / salt / parameters, the others carry decoys (DecoyEtype, other salts)
	HintSeq    []int32 `json:"preauth_hint_sequence,omitempty"`
	DecoyEtype int32   `json:"decoy_etype,omitempty"`
	// KDCKeyETypes, when set: the KDC holds keys of the client principal for these etypes only (a subset of ETypes), so
	// that the etype it names in its pre-authentication hint need not be the first the client lists
	KDCKeyETypes []int32 `json:"kdc_holds_client_keys_for,omitempty"`
	// AdvertiseParams, when set: the KDC's ETYPE-INFO2 carries these s2kparams also for etypes that define none (des3, rc4)
	AdvertiseParams []byte `json:"kdc_advertises_s2kparams,omitempty"`
	// TGSETypes, when set: default_tgs_enctypes differs from default_tkt_enctypes (which stays ETypes)
	TGSETypes []int32 `json:"default_tgs_enctypes,omitempty"`
	// DefaultRealmElsewhere: default_realm names a realm that is not the client's (and has no KDC of its own)
	DefaultRealmElsewhere bool `json:"default_realm_is_not_the_clients,omitempty"`
	// ExtraAddresses, when set: noaddresses = false and extra_addresses = these (textual IPv4 / IPv6 addresses)
	ExtraAddresses []string `json:"extra_addresses,omitempty"`
	// UDPTooBig: every KDC answers KRB_ERR_RESPONSE_TOO_BIG over UDP, so that every exchange ends up on TCP
	UDPTooBig bool `json:"udp_answers_response_too_big,omitempty"`
}

// DefaultOpts is the baseline configuration.
func DefaultOpts() Opts {
	return Opts{Cred: "keytab", ETypes: []int32{18}, PreAuth: "none", TicketLifetime: 24 * time.Hour, UDPLimit: 1465, NKDC: 1, Seed: 1}
}

// World is one instantiated configuration.
type World struct {
	Opts    Opts
	KDC     *simkdc.KDC
	Other   *simkdc.KDC
	Chain   []*simkdc.KDC
	Config  *config.Config
	Conf    string
	Client  *client.Client
	Keytab  []byte
	CCache  []byte
	KDCAddr []string
	// SiblingKeys: keys of sibling/<instance> held by the client keytab next to the user's (UserInstance only)
	SiblingKeys []simkdc.Key
}

func chainRealm(i int) string { return fmt.Sprintf("R%d.GOKRB5", i) }

// ConfText renders the krb5.conf.
func ConfText(o Opts) string {
	var names []string
	for _, e := range o.ETypes {
		names = append(names, etypeNames[e])
	}
	b := func(v bool) string {
		if v {
			return "true"
		}
		return "false"
	}
	var sb strings.Builder
	defRealm := Realm
	if o.DefaultRealmElsewhere {
		defRealm = "ELSEWHERE.GOKRB5"
	}
	fmt.Fprintf(&sb, "[libdefaults]\n default_realm = %s\n dns_lookup_kdc = false\n dns_lookup_realm = false\n", defRealm)
	if len(o.ExtraAddresses) > 0 {
		fmt.Fprintf(&sb, " noaddresses = false\n extra_addresses = %s\n", strings.Join(o.ExtraAddresses, ","))
	} else {
		sb.WriteString(" noaddresses = true\n")
	}
	fmt.Fprintf(&sb, " ticket_lifetime = %ds\n", int(o.TicketLifetime/time.Second))
	if o.RenewLifetime > 0 {
		fmt.Fprintf(&sb, " renew_lifetime = %ds\n", int(o.RenewLifetime/time.Second))
	}
	fmt.Fprintf(&sb, " forwardable = %s\n proxiable = %s\n canonicalize = %s\n", b(o.Forwardable), b(o.Proxiable), b(o.Canonicalize))
	tgsNames := names
	if len(o.TGSETypes) > 0 {
		tgsNames = nil
		for _, e := range o.TGSETypes {
			tgsNames = append(tgsNames, etypeNames[e])
		}
	}
	fmt.Fprintf(&sb, " default_tkt_enctypes = %s\n default_tgs_enctypes = %s\n permitted_enctypes = %s\n", strings.Join(names, " "), strings.Join(tgsNames, " "), strings.Join(names, " "))
	fmt.Fprintf(&sb, " udp_preference_limit = %d\n", o.UDPLimit)
	fmt.Fprintf(&sb, " preferred_preauth_types = %d\n", o.ETypes[0])
	fmt.Fprintf(&sb, "[realms]\n %s = {\n", Realm)
	for i := 0; i < o.NKDC; i++ {
		fmt.Fprintf(&sb, "  kdc = kdc%d.test.gokrb5:88\n", i+1)
	}
	fmt.Fprintf(&sb, "  admin_server = kdc1.test.gokrb5:749\n }\n %s = {\n  kdc = kdc.other.gokrb5:88\n }\n", OtherRealm)
	for i := 1; i <= o.ChainRealms; i++ {
		fmt.Fprintf(&sb, " %s = {\n  kdc = kdc.r%d.gokrb5:88\n }\n", chainRealm(i), i)
	}
	fmt.Fprintf(&sb, "[domain_realm]\n .gokrb5 = %s\n .test.gokrb5 = %s\n .other.gokrb5 = %s\n", Realm, Realm, OtherRealm) // nested suffixes: the most specific one decides
	return sb.String()
}

// ExpectFor computes what the configuration should put on the wire.
func ExpectFor(o Opts) simkdc.Expect {
	as := uint32(0x00000010)
	tgs := uint32(0)
	if o.Forwardable {
		as |= simkdc.FlagForwardable
		tgs |= simkdc.FlagForwardable
	}
	if o.Proxiable {
		as |= simkdc.FlagProxiable
		tgs |= simkdc.FlagProxiable
	}
	if o.Canonicalize {
		as |= simkdc.OptCanonicalize
		tgs |= simkdc.OptCanonicalize
	}
	if o.RenewLifetime > 0 {
		as |= simkdc.FlagRenewable
		tgs |= simkdc.FlagRenewable
	}
	var extra []krbmsg.HostAddress
	for _, a := range o.ExtraAddresses {
		ip := net.ParseIP(a)
		if v4 := ip.To4(); v4 != nil {
			extra = append(extra, krbmsg.HostAddress{Type: 2, Addr: v4})
		} else {
			extra = append(extra, krbmsg.HostAddress{Type: 24, Addr: ip.To16()})
		}
	}
	tgsET := o.ETypes
	if len(o.TGSETypes) > 0 {
		tgsET = o.TGSETypes
	}
	return simkdc.Expect{Check: true, ETypesAS: o.ETypes, ETypesTGS: tgsET, ASOptions: as, TGSOptions: tgs, TicketLifetime: o.TicketLifetime, RenewLifetime: o.RenewLifetime,
		NoAddresses: len(extra) == 0, ExtraAddresses: extra, Skew: 5 * time.Minute, ClientName: UserNames(o)}
}

// New builds the world: KDCs, network endpoints, configuration and client.
func New(o Opts) *World {
	w := &World{Opts: o}
	vnet.Reset()
	if !vclock.IsVirtual() {
		vclock.Virtual(T0)
	}
	w.KDC = simkdc.New(Realm, vclock.Now, o.Seed)
	w.Other = simkdc.New(OtherRealm, vclock.Now, o.Seed+1)
	simkdc.Link(w.KDC, w.Other)
	w.KDC.RequirePA = o.PreAuth != "none"
	w.KDC.Expect = ExpectFor(o)
	w.Other.Expect = ExpectFor(o)
	kdcET := o.ETypes
	if len(o.KDCKeyETypes) > 0 {
		kdcET = o.KDCKeyETypes
	}
	w.KDC.AdvertiseParams = o.AdvertiseParams
	var params []byte
	if o.Cred == "password" {
		params = []byte{0, 0, 0, 64} // keep PBKDF2 cheap: the KDC advertises 64 iterations
		if o.PreAuth == "assumed" {
			params = nil // without a hint from the KDC the client can only use the default parameters
		}
		if len(o.HintSeq) > 0 && !hasKind(o.HintSeq, 19) {
			params = nil // only ETYPE-INFO2 can convey parameters
		}
		w.KDC.AddPasswordPrincipal(UserNames(o), w.PasswordValue(), kdcET, o.Salt, params)
	} else if o.Cred == "ccache" {
		w.KDC.AddKeyPrincipal(UserNames(o), kdcET)
	} else {
		p := w.KDC.AddKeyPrincipal(UserNames(o), kdcET)
		var items []keytabfmt.Item
		for _, k := range p.Keys {
			kv := uint32(k.KVNO)
			items = append(items, keytabfmt.Item{Entry: &keytabfmt.Entry{Components: UserNames(o), Realm: Realm, NameType: 1, Timestamp: 1000, KVNO8: uint8(k.KVNO), KVNO32: &kv, KeyType: uint16(k.Etype), Key: k.Value}})
			if o.UserInstance != "" {
				sib := w.KDC.RandKey(k.Etype)
				w.SiblingKeys = append(w.SiblingKeys, simkdc.Key{Etype: k.Etype, KVNO: k.KVNO, Value: sib})
				items = append(items, keytabfmt.Item{Entry: &keytabfmt.Entry{Components: []string{"sibling", o.UserInstance}, Realm: Realm, NameType: 1, Timestamp: 2000, KVNO8: uint8(k.KVNO), KVNO32: &kv, KeyType: uint16(k.Etype), Key: sib}})
			}
		}
		w.Keytab = keytabfmt.Write(2, items)
	}
	svcEt := []int32{18, 17, 23, 16, 19, 20}
	w.KDC.AddKeyPrincipal([]string{"HTTP", "host.test.gokrb5"}, svcEt)
	w.KDC.AddKeyPrincipal([]string{"HTTP", "host2.test.gokrb5"}, svcEt)
	w.KDC.AddKeyPrincipal([]string{"HTTP", "appserver"}, svcEt) // a host name no [domain_realm] entry matches
	w.KDC.AddKeyPrincipal([]string{"kadmin", "changepw"}, svcEt)
	w.Other.AddKeyPrincipal([]string{"HTTP", "host.other.gokrb5"}, svcEt)
	// referral chain TEST -> R1 -> ... -> Rn, service HTTP/host.chain.gokrb5 lives in Rn
	prev := w.KDC
	for i := 1; i <= o.ChainRealms; i++ {
		k := simkdc.New(chainRealm(i), vclock.Now, o.Seed+10+int64(i))
		k.Expect = ExpectFor(o)
		simkdc.Link(prev, k)
		prev.Referral[".chain.gokrb5"] = k.Realm
		w.Chain = append(w.Chain, k)
		prev = k
	}
	if o.ChainRealms > 0 && !o.ChainCycle {
		prev.AddKeyPrincipal([]string{"HTTP", "host.chain.gokrb5"}, svcEt)
	}
	if o.ChainRealms > 1 && o.ChainCycle {
		simkdc.Link(prev, w.Chain[0])
		prev.Referral[".chain.gokrb5"] = w.Chain[0].Realm
	}
	for _, k := range w.AllKDCs() {
		k.LenientAuthCRealm = o.LenientCRealm
		k.FreshKeyOnRenew = o.FreshRenewKey
		k.StrictRenewal = o.StrictRenewal
	}
	reg := func(addr string, k *simkdc.KDC) {
		for _, n := range []string{"udp", "tcp"} {
			vnet.Register(n, addr, &vnet.Endpoint{Behaviour: vnet.Answer, Handler: func(network, a string, req []byte) []byte {
				// the simulated KDCs are sequential objects: serialise them for the free-running race pass
				// (under the cooperative scheduler only one thread runs and Handle has no scheduling point)
				kdcMu.Lock()
				defer kdcMu.Unlock()
				return k.Handle(network, req)
			}})
		}
	}
	for i := 0; i < o.NKDC; i++ {
		a := fmt.Sprintf("kdc%d.test.gokrb5:88", i+1)
		w.KDCAddr = append(w.KDCAddr, a)
		reg(a, w.KDC)
	}
	reg("kdc.other.gokrb5:88", w.Other)
	for i, k := range w.Chain {
		reg(fmt.Sprintf("kdc.r%d.gokrb5:88", i+1), k)
	}
	if o.UDPTooBig {
		tooBig := krbmsg.KRBError{PVNO: 5, MsgType: 30, STime: T0, Code: 52, Realm: Realm, SName: krbmsg.PrincipalName{Type: 2, Names: []string{"krbtgt", Realm}}}.Encode()
		for _, a := range append(append([]string{}, w.KDCAddr...), "kdc.other.gokrb5:88") {
			vnet.Register("udp", a, &vnet.Endpoint{Behaviour: vnet.Answer, Handler: func(string, string, []byte) []byte { return tooBig }})
		}
	}
	if len(o.HintSeq) > 0 {
		w.KDC.PAHints = func(real krbmsg.ETypeInfo2Entry) []krbmsg.PAData {
			top := int32(3)
			for _, k := range []int32{11, 19} {
				if hasKind(o.HintSeq, k) {
					top = k
				}
			}
			salt := func(real *string, decoy string, isTop bool) *string {
				if isTop {
					return real
				}
				return &decoy
			}
			var out []krbmsg.PAData
			for _, k := range o.HintSeq {
				switch k {
				case 19:
					out = append(out, krbmsg.PAData{Type: 19, Value: krbmsg.EncodeETypeInfo2([]krbmsg.ETypeInfo2Entry{real})})
				case 11:
					et, sa := real.EType, salt(real.Salt, "decoy-salt-of-etype-info", top == 11)
					if top != 11 {
						et = o.DecoyEtype
					}
					items := [][]byte{der.Explicit(0, der.Int(int64(et)))}
					if sa != nil {
						items = append(items, der.Explicit(1, der.Octets([]byte(*sa))))
					}
					out = append(out, krbmsg.PAData{Type: 11, Value: der.Seq(der.Seq(items...))})
				case 3:
					sa := salt(real.Salt, "decoy-salt-of-pw-salt", top == 3)
					v := []byte{}
					if sa != nil {
						v = []byte(*sa)
					}
					out = append(out, krbmsg.PAData{Type: 3, Value: v})
				}
			}
			return out
		}
	}
	w.Conf = ConfText(o)
	w.Config = ParseCached(w.Conf)
	if o.Cred == "ccache" {
		w.CCache = w.writeCCache()
	}
	w.Client = w.NewClient()
	return w
}

// writeCCache has the KDC issue a TGT and one service ticket directly and writes them as a version-4 credential
// cache with the independent writer ref/ccachefmt.
func (w *World) writeCCache() []byte {
	o := w.Opts
	var flags uint32 = simkdc.FlagInitial
	if o.Forwardable {
		flags |= simkdc.FlagForwardable
	}
	if o.Proxiable {
		flags |= simkdc.FlagProxiable
	}
	me := ccachefmt.Principal{NameType: 1, Realm: Realm, Components: UserNames(o)}
	cred := func(is *simkdc.Issued) ccachefmt.Credential {
		c := ccachefmt.Credential{Client: me, Server: ccachefmt.Principal{NameType: 2, Realm: Realm, Components: is.SName}, KeyType: uint16(is.KeyEtype), Key: is.SessionKey,
			AuthTime: int32(is.AuthTime.Unix()), StartTime: int32(is.Start.Unix()), EndTime: int32(is.End.Unix()), Flags: is.Flags, Ticket: is.Ticket}
		if is.RenewTill != nil {
			c.RenewTill = int32(is.RenewTill.Unix())
		}
		return c
	}
	tgt := w.KDC.IssueDirect(UserNames(o), []string{"krbtgt", Realm}, o.TicketLifetime, o.RenewLifetime, flags)
	svc := w.KDC.IssueDirect(UserNames(o), []string{"HTTP", "host.test.gokrb5"}, o.TicketLifetime/2, o.RenewLifetime, flags&^simkdc.FlagInitial)
	return ccachefmt.Write(ccachefmt.CCache{Version: 4, Default: me, Creds: []ccachefmt.Credential{cred(tgt), cred(svc)}})
}

func hasKind(seq []int32, k int32) bool {
	for _, x := range seq {
		if x == k {
			return true
		}
	}
	return false
}

// UserNames returns the components of the client principal.
func UserNames(o Opts) []string {
	if o.UserInstance != "" {
		return []string{User, o.UserInstance}
	}
	return []string{User}
}

// PasswordValue is the password of the world's user.
func (w *World) PasswordValue() string {
	if w.Opts.PasswordOverride != "" {
		return w.Opts.PasswordOverride
	}
	return Password
}

// NewClient builds another client for the same world.
func (w *World) NewClient(extra ...func(*client.Settings)) *client.Client {
	sets := []func(*client.Settings){client.DisablePAFXFAST(!w.Opts.FAST)}
	if w.Opts.PreAuth == "assumed" {
		sets = append(sets, client.AssumePreAuthentication(true))
	}
	sets = append(sets, extra...)
	if w.Opts.Cred == "ccache" {
		cc := new(credentials.CCache)
		if err := cc.Unmarshal(w.CCache); err != nil {
			engine.FailValid("credentials.CCache.Unmarshal(version-4 cache with a TGT and a service ticket)", err)
		}
		cl, err := client.NewFromCCache(cc, w.Config, sets...)
		if err != nil {
			engine.FailValid("client.NewFromCCache(cache with a TGT and a service ticket)", err)
		}
		return cl
	}
	if w.Opts.Cred == "password" {
		return client.NewWithPassword(strings.Join(UserNames(w.Opts), "/"), Realm, w.PasswordValue(), w.Config, sets...)
	}
	kt := keytab.New()
	if err := kt.Unmarshal(w.Keytab); err != nil {
		engine.FailValid("keytab.Unmarshal(client keytab)", err)
	}
	return client.NewWithKeytab(strings.Join(UserNames(w.Opts), "/"), Realm, kt, w.Config, sets...)
}

// AllKDCs lists every KDC model of the world.
func (w *World) AllKDCs() []*simkdc.KDC {
	return append([]*simkdc.KDC{w.KDC, w.Other}, w.Chain...)
}

// Violations gathers request-validation failures of all KDCs.
func (w *World) Violations() []string {
	var out []string
	for _, k := range w.AllKDCs() {
		for _, v := range k.Violations {
			out = append(out, k.Realm+": "+v)
		}
	}
	return out
}

// KeyOf returns the first long-term key of a principal of the main realm.
func (w *World) KeyOf(name ...string) []byte {
	p := w.KDC.Principals[strings.Join(name, "/")+"@"+Realm]
	if p == nil || len(p.Keys) == 0 {
		return nil
	}
	return p.Keys[0].Value
}

var _ = rcrypto.AES256

var kdcMu sync.Mutex

var confCache = map[string]*config.Config{}

// ParseCached parses a configuration text once and hands out deep copies (parsing is slow and the checks build
// thousands of worlds; a copy keeps runs independent even if the code under test modifies its configuration).
func ParseCached(text string) *config.Config {
	c, ok := confCache[text]
	if !ok {
		var err error
		c, err = config.NewFromString(text)
		if err != nil {
			engine.FailValid("config.NewFromString(world configuration)", err)
		}
		confCache[text] = c
	}
	return CloneConfig(c)
}

// CloneConfig deep-copies the parts of a Config that are slices or maps.
func CloneConfig(c *config.Config) *config.Config {
	n := *c
	n.Realms = nil
	for _, r := range c.Realms {
		r.KDC = append([]string(nil), r.KDC...)
		r.AdminServer = append([]string(nil), r.AdminServer...)
		r.KPasswdServer = append([]string(nil), r.KPasswdServer...)
		r.MasterKDC = append([]string(nil), r.MasterKDC...)
		n.Realms = append(n.Realms, r)
	}
	n.DomainRealm = config.DomainRealm{}
	for k, v := range c.DomainRealm {
		n.DomainRealm[k] = v
	}
	l := &n.LibDefaults
	l.DefaultTGSEnctypes = append([]string(nil), l.DefaultTGSEnctypes...)
	l.DefaultTktEnctypes = append([]string(nil), l.DefaultTktEnctypes...)
	l.PermittedEnctypes = append([]string(nil), l.PermittedEnctypes...)
	l.DefaultTGSEnctypeIDs = append([]int32(nil), l.DefaultTGSEnctypeIDs...)
	l.DefaultTktEnctypeIDs = append([]int32(nil), l.DefaultTktEnctypeIDs...)
	l.PermittedEnctypeIDs = append([]int32(nil), l.PermittedEnctypeIDs...)
	l.PreferredPreauthTypes = append([]int(nil), l.PreferredPreauthTypes...)
	l.KDCDefaultOptions.Bytes = append([]byte(nil), l.KDCDefaultOptions.Bytes...)
	return &n
}
