#!/usr/bin/env python3
# tools/mkmeta.py <name> <property> <demo placement> <breaks> <needs> <detected keys> [notes]
import json, sys
name, prop, place, breaks, needs, det = sys.argv[1:7]
notes = sys.argv[7] if len(sys.argv) > 7 else ""
json.dump({"property": prop, "breaks": breaks, "needs_to_manifest": needs, "demo_placement": place,
  "confirmed": "tools/confirmseed.sh: compiles; existing suite passes with the change; demo fails with the change and passes without (scratch worktree)",
  "detected_by": {prop: det}, "notes": notes}, open(f"/verif/seeded/{name}/meta.json", "w"), indent=1)
