#!/usr/bin/env python3
"""Emit the generated tables of DESIGN.md section 7 (fixes, findings, seeded changes, per-check numbers)."""
import json, glob, os, subprocess
V = '/verif'
kf = json.load(open(f'{V}/known_findings.json'))['findings']
print("#### 7.3.a Repairs committed to /repo (`fix:` commits), by property\n")
print("| property | commit | what failed before the repair |\n|---|---|---|")
for f in kf:
    if f['status'] == 'fixed':
        subj = ''
        try:
            subj = subprocess.check_output(['git', '-C', '/repo', 'log', '--format=%s', '-1', f['commit']], stderr=subprocess.DEVNULL).decode().strip()
        except Exception:
            pass
        print(f"| {f['property']} | `{f['commit']}` {subj} | {f['what']} |")
print("\n#### 7.3.b Known findings (recorded, not repaired)\n")
print("| property | matcher (regex on the violation key) | what fails and why it is not repaired here |\n|---|---|---|")
for f in kf:
    if f['status'] == 'known':
        print(f"| {f['property']} | `{f['key']}` | {f['what']} |")
print("\n#### 7.4 Seeded changes and the checks that catch them\n")
res = {}
if os.path.exists(f'{V}/seeded/RESULTS.txt'):
    for l in open(f'{V}/seeded/RESULTS.txt'):
        n, r = l.split(' ', 1)
        res[n] = r.strip()
print("| seed | what the change breaks | what it needs to manifest | reported as | strengthening it prompted |\n|---|---|---|---|---|")
for d in sorted(glob.glob(f'{V}/seeded/C??-?')):
    n = os.path.basename(d)
    try:
        m = json.load(open(f'{d}/meta.json'))
    except Exception:
        continue
    det = '; '.join(f"{k}: {v}" for k, v in m.get('detected_by', {}).items())
    status = res.get(n, '')
    mark = 'detected' if status.startswith('DETECTED') else ('patch no longer applies to the repaired tree' if 'NOAPPLY' in status else status[:40])
    print(f"| {n} | {m.get('breaks','')} | {m.get('needs_to_manifest','')} | {det} ({mark}) | {m.get('notes','')} |")
print("\n#### 7.2 Numbers of the committed quick-tier evidence\n")
print("| check | level | wall s | evaluations | states | transitions | schedules | distinct | exhaustive | known findings |\n|---|---|---|---|---|---|---|---|---|---|")
for i in range(1, 21):
    p = f'{V}/evidence/C{i:02d}.json'
    if not os.path.exists(p):
        continue
    e = json.load(open(p)); c = e['coverage']
    kn = sum(1 for v in c.get('violation_keys', []) if v.get('known'))
    print(f"| C{i:02d} | {e['level']} | {e['wall_s']:.0f} | {c.get('evaluations','')} | {c.get('states','')} | {c.get('transitions','')} | {c.get('schedules','')} | {c.get('distinct_nontrivial','')} | {c.get('exhaustive','')} | {kn} |")
