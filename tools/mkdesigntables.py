#!/usr/bin/env python3
"""Regenerate the generated tables of DESIGN.md section 7 in place (between <!-- GEN:x --> markers):
7.2 numbers of the committed quick-tier evidence, 7.3a repairs, 7.3b known findings, 7.4 seeded changes."""
import json, glob, os, re, subprocess
V = '/verif'
kf = json.load(open(f'{V}/known_findings.json'))['findings']


def esc(s):
    return str(s).replace('|', '\\|').replace('\n', ' ')


def t73a():
    out = ["| property | commit | what failed before the repair |", "|---|---|---|"]
    for f in kf:
        if f['status'] == 'fixed':
            subj = ''
            try:
                subj = subprocess.check_output(['git', '-C', '/repo', 'log', '--format=%s', '-1', f['commit']], stderr=subprocess.DEVNULL).decode().strip()
            except Exception:
                pass
            out.append(f"| {f['property']} | `{f['commit']}` {esc(subj)} | {esc(f['what'])} |")
    return out


def t73b():
    out = ["| property | matcher (regex on the violation key) | what fails and why it is not repaired here |", "|---|---|---|"]
    for f in kf:
        if f['status'] == 'known':
            out.append(f"| {f['property']} | `{esc(f['key'])}` | {esc(f['what'])} |")
    return out


def t74():
    res = {}
    if os.path.exists(f'{V}/seeded/RESULTS.txt'):
        for l in open(f'{V}/seeded/RESULTS.txt'):
            n, r = l.split(' ', 1)
            res[n] = r.strip()
    out = ["| seed | what the change breaks | what it needs to manifest | reported as | strengthening it prompted |", "|---|---|---|---|---|"]
    dirs = [d for d in glob.glob(f'{V}/seeded/C??-*') if os.path.isdir(d)]
    dirs.sort(key=lambda d: (os.path.basename(d).split('-')[0], int(os.path.basename(d).split('-')[1])))
    for d in dirs:
        n = os.path.basename(d)
        try:
            m = json.load(open(f'{d}/meta.json'))
        except Exception:
            continue
        db = m.get('detected_by', {})
        det = '; '.join(f"{k}: {v}" for k, v in db.items()) if isinstance(db, dict) else str(db)
        status = res.get(n, '')
        mark = 'detected' if status.startswith('DETECTED') else ('patch no longer applies to the repaired tree' if 'NOAPPLY' in status else status[:40])
        out.append(f"| {n} | {esc(m.get('breaks',''))} | {esc(m.get('needs_to_manifest',''))} | {esc(det)} ({mark}) | {esc(m.get('notes',''))} |")
    return out


def t72():
    out = ["| check | level | wall s | evaluations | states | transitions | schedules | distinct | exhaustive | known findings |", "|---|---|---|---|---|---|---|---|---|---|"]
    for i in range(1, 21):
        p = f'{V}/evidence/C{i:02d}.json'
        if not os.path.exists(p):
            continue
        e = json.load(open(p)); c = e['coverage']
        kn = sum(1 for v in c.get('violation_keys', []) if v.get('known'))
        out.append(f"| C{i:02d} | {e['level']} | {e['wall_s']:.0f} | {c.get('evaluations','')} | {c.get('states','')} | {c.get('transitions','')} | {c.get('schedules','')} | {c.get('distinct_nontrivial','')} | {c.get('exhaustive','')} | {kn} |")
    return out


p = f'{V}/DESIGN.md'
s = open(p).read()
for name, gen in [('7.2', t72), ('7.3a', t73a), ('7.3b', t73b), ('7.4', t74)]:
    a, b = f'<!-- GEN:{name} -->', f'<!-- /GEN:{name} -->'
    i, j = s.index(a), s.index(b)
    s = s[:i] + a + '\n' + '\n'.join(gen()) + '\n' + s[j:]
open(p, 'w').write(s)
print("DESIGN.md tables regenerated")
