#!/bin/bash
# tools/reseed.sh [names...]  re-validate stored seeded changes against the current /repo HEAD without touching /repo
# (overlay runs, 4 in parallel): the patch must still apply and the check of its property must report a violation.
# Writes /verif/seeded/RESULTS.txt.
cd /verif
names=("$@"); [ ${#names[@]} -eq 0 ] && names=($(ls -d seeded/C??-[0-9]* | xargs -n1 basename | grep -v NOTES))
one() {
  n=$1; id=${n%%-*}
  if ! git -C /repo apply --check "/verif/seeded/$n/patch.diff" 2>/dev/null; then
    echo "$n NOAPPLY (patch no longer applies to HEAD $(git -C /repo rev-parse --short HEAD))"; return
  fi
  echo "$n $(/verif/tools/trymutant_alt.sh /verif/seeded/$n/patch.diff $id 2>&1 | tail -1 | cut -c1-300)"
}
export -f one
printf '%s\n' "${names[@]}" | xargs -P 4 -I{} bash -c 'one {}' > seeded/RESULTS.txt.new
# merge: lines of seeds not re-run now are kept
touch seeded/RESULTS.txt
awk 'NR==FNR { seen[$1]=1; print; next } !($1 in seen)' seeded/RESULTS.txt.new seeded/RESULTS.txt | sort -V > seeded/RESULTS.txt.merged
mv seeded/RESULTS.txt.merged seeded/RESULTS.txt; rm -f seeded/RESULTS.txt.new
