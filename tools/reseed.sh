#!/bin/bash
# tools/reseed.sh [names...]  re-validate stored seeded changes against the current /repo HEAD: the patch must still
# apply and the check of its property must report a violation. Writes /verif/seeded/RESULTS.txt.
cd /verif
names=("$@"); [ ${#names[@]} -eq 0 ] && names=($(ls -d seeded/C??-? | xargs -n1 basename))
: > seeded/RESULTS.txt.new
for n in "${names[@]}"; do
  id=${n%%-*}
  if ! git -C /repo apply --check "/verif/seeded/$n/patch.diff" 2>/dev/null; then
    echo "$n NOAPPLY (patch no longer applies to HEAD $(git -C /repo rev-parse --short HEAD))" >> seeded/RESULTS.txt.new; continue
  fi
  r=$(tools/trymutant.sh "/verif/seeded/$n/patch.diff" "$id" 2>&1 | tail -1 | cut -c1-300)
  echo "$n $r" >> seeded/RESULTS.txt.new
done
mv seeded/RESULTS.txt.new seeded/RESULTS.txt
