#!/bin/bash
# tools/reseed.sh [names...]  re-validate stored seeded changes against the current /repo HEAD without touching /repo
# (overlay runs, 4 in parallel): the patch must still apply and the check of its property must report a violation.
# Writes /verif/seeded/RESULTS.txt.
cd /verif
names=("$@"); [ ${#names[@]} -eq 0 ] && names=($(ls -d seeded/C??-[0-9]* | xargs -n1 basename | grep -v NOTES))
one() {
  n=$1; id=${n%%-*}
  if ! git -C /repo apply --check "/verif/seeded/$n/patch.diff" 2>/dev/null; then
    echo "$n NOAPPLY (patch no longer applies to HEAD $(git -C /repo rev-parse --short HEAD))"; return
  fi
  # the property's own check first; if it is silent, the other checks meta.json names as detecting the change
  r=$(VERIF_BUDGET_S=${VERIF_BUDGET_S:-300} /verif/tools/trymutant_alt.sh /verif/seeded/$n/patch.diff $id 2>&1 | tail -1 | cut -c1-300)
  case "$r" in DETECTED*) echo "$n $r"; return;; esac
  for other in $(python3 -c "import json,re;print(' '.join(k for k in json.load(open('/verif/seeded/$n/meta.json')).get('detected_by',{}) if re.fullmatch(r'C\\d\\d',k) and k!='$id'))" 2>/dev/null); do
    r2=$(VERIF_BUDGET_S=${VERIF_BUDGET_S:-300} /verif/tools/trymutant_alt.sh /verif/seeded/$n/patch.diff $other 2>&1 | tail -1 | cut -c1-300)
    case "$r2" in DETECTED*) echo "$n $r2 (by $other; $id silent)"; return;; esac
  done
  echo "$n $r"
}
export -f one
printf '%s\n' "${names[@]}" | xargs -P 4 -I{} bash -c 'one {}' > seeded/RESULTS.txt.new
# merge: lines of seeds not re-run now are kept
touch seeded/RESULTS.txt
awk 'NR==FNR { seen[$1]=1; print; next } !($1 in seen)' seeded/RESULTS.txt.new seeded/RESULTS.txt | sort -V > seeded/RESULTS.txt.merged
mv seeded/RESULTS.txt.merged seeded/RESULTS.txt; rm -f seeded/RESULTS.txt.new
