#!/bin/bash
# tools/trymutant_alt.sh <patch.diff> <ID>...   like trymutant.sh but without touching /repo: the patched files are
# laid over /repo/v8 through the build overlay (private build directory, evidence and replays under /tmp). Several
# of these can run in parallel, also next to ordinary check runs. Patches that add or delete files are refused.
P="$1"; shift
export GOFLAGS=-mod=mod GOPROXY=off GOSUMDB=off GOTOOLCHAIN=local
W=/tmp/alt.$$; PD=/tmp/altpatch.$$; OUT=/tmp/altout.$$; BD=/verif/.build-alt/$$
cleanup() { git -C /repo worktree remove --force "$W" 2>/dev/null; rm -rf "$PD" "$OUT" "$BD"; }
trap cleanup EXIT; [ -n "${ALT_KEEP:-}" ] && trap - EXIT
git -C /repo worktree add -q --detach "$W" HEAD || exit 9
( cd "$W" && git apply "$P" ) || { echo "patch does not apply: $P"; exit 9; }
if ( cd "$W" && git status --porcelain | grep -v '^ M' | grep -q . ); then echo "patch adds or deletes files: use trymutant.sh"; exit 9; fi
for f in $(cd "$W" && git diff --name-only); do
  case "$f" in v8/*) mkdir -p "$PD/$(dirname "${f#v8/}")"; cp "$W/$f" "$PD/${f#v8/}";; esac
done
git -C /repo worktree remove --force "$W"
mkdir -p "$OUT" "$BD"
for id in "$@"; do
  out=$(cd /verif && VERIF_KEEP_OUT=1 VERIF_BUILD="$BD" VERIF_PATCHDIR="$PD" VERIF_OUT="$OUT" VERIF_BUDGET_S=${VERIF_BUDGET_S:-100} bin/check "$id" quick 2>&1); rc=$?
  if [ $rc -eq 1 ] && echo "$out" | grep -q "^VIOLATION property=$id"; then
    echo "DETECTED $id $(echo "$out" | grep -c '^VIOLATION') keys: $(echo "$out" | grep '^VIOLATION' | sed 's/.*key=\([^ ]*\).*/\1/' | head -4 | tr '\n' ' ')"
  elif [ $rc -eq 0 ]; then echo "MISSED   $id ($(echo "$out" | tail -1 | cut -c1-120))"
  else echo "BROKEN   $id rc=$rc: $(echo "$out" | tail -3 | tr '\n' ' ' | cut -c1-300)"; fi
done
