#!/bin/bash
# tools/trymutant.sh <patch.diff> <ID>...   apply a seeded change to /repo, run the quick checks, undo it.
# Prints one line per check: DETECTED / MISSED / BROKEN(exit code).
P="$1"; shift
cd /repo || exit 9
if ! git diff --quiet; then echo "/repo has uncommitted changes"; exit 9; fi
git apply "$P" || { echo "patch does not apply: $P"; exit 9; }
for id in "$@"; do
  # the evidence file of record comes from runs against /repo itself: keep it across the mutant run
  cp "/verif/evidence/$id.json" "/tmp/evidence.$id.$$" 2>/dev/null
  out=$(cd /verif && VERIF_BUDGET_S=${VERIF_BUDGET_S:-100} bin/check "$id" quick 2>&1); rc=$?
  if [ $rc -eq 1 ] && echo "$out" | grep -q "^VIOLATION property=$id"; then
    echo "DETECTED $id $(echo "$out" | grep -c '^VIOLATION') keys: $(echo "$out" | grep '^VIOLATION' | sed 's/.*key=\([^ ]*\).*/\1/' | head -4 | tr '\n' ' ')"
  elif [ $rc -eq 0 ]; then echo "MISSED   $id"
  else echo "BROKEN   $id rc=$rc: $(echo "$out" | tail -3 | tr '\n' ' ' | cut -c1-300)"; fi
  [ -f "/tmp/evidence.$id.$$" ] && mv "/tmp/evidence.$id.$$" "/verif/evidence/$id.json"
done
git -C /repo checkout -- . ; git -C /repo clean -fdq v8 2>/dev/null
