#!/bin/bash
# tools/cleanalt.sh <ID>...   run the quick check(s) on the unchanged tree in a private build directory with evidence
# and replays under /tmp (nothing under /verif/evidence or /verif/.build is touched): safe next to other runs.
export GOFLAGS=-mod=mod GOPROXY=off GOSUMDB=off GOTOOLCHAIN=local
OUT=/tmp/cleanout.$$; BD=/verif/.build-alt/clean.$$
trap 'rm -rf "$OUT" "$BD"' EXIT
mkdir -p "$OUT" "$BD"
for id in "$@"; do
  out=$(cd /verif && VERIF_KEEP_OUT=1 VERIF_BUILD="$BD" VERIF_OUT="$OUT" bin/check "$id" ${TIER:-quick} 2>&1); rc=$?
  echo "rc=$rc $(echo "$out" | grep -v '^KNOWN-FINDING' | tail -2 | cut -c1-700)"
done
