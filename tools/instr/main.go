// Command instr generates a `go build -overlay` file that instruments the
// CURRENT working tree of /repo/v8 for the verification harness without
// touching /repo:
//
//   - time.Now/Since/Until/Sleep/After/AfterFunc/NewTimer/Timer -> vclock
//   - import "sync"        -> zzverif/vsync   (scheduler-aware Mutex/RWMutex/Once/WaitGroup)
//   - import "math/rand"   -> zzverif/vrand   (enumerable choice point)
//   - import ".../pbkdf2"   -> zzverif/vpbkdf2 (the real functions; C04 can abstract iteration counts above a cap)
//   - import "crypto/rand" -> zzverif/vcrand  (recordable randomness)
//   - import "net" in packages client and spnego -> zzverif/vnet (in-memory endpoints)
//   - go f(x)              -> vsched.Go(func(){ f(x) }) with arguments evaluated at the go statement
//   - ch <- v / <-ch / select{} without default -> preceded by vsched scheduling points
//   - shim packages are mounted virtually under /repo/v8/zzverif/<name>/
//   - per-package export files (shim/exports/<pkg>.go) are mounted as <pkg>/zz_verif.go
//
// Every added or rewritten file carries no build constraint of its own; the
// harness always builds with -tags verif and -overlay, and the overlay is the
// guard: without it none of this code exists.
package main

import (
	"bytes"
	"encoding/json"
	"flag"
	"fmt"
	"go/ast"
	"go/parser"
	"go/printer"
	"go/token"
	"os"
	"path/filepath"
	"sort"
	"strconv"
	"strings"
)

const modPath = "github.com/jcmturner/gokrb5/v8"

var timeSel = map[string]bool{"Now": true, "Since": true, "Until": true, "Sleep": true, "After": true,
	"AfterFunc": true, "NewTimer": true, "Timer": true, "Tick": true, "NewTicker": true, "Ticker": true}

var netPkgs = map[string]bool{"client": true, "spnego": true}

type report struct {
	Files     int            `json:"files_rewritten"`
	Rewrites  map[string]int `json:"rewrites"`
	Unhandled []string       `json:"unhandled"`
}

var rep = report{Rewrites: map[string]int{}}

func main() {
	repo := flag.String("repo", "/repo/v8", "gokrb5 module root")
	verif := flag.String("verif", "/verif", "verif root")
	out := flag.String("out", "/verif/.build", "output dir")
	extra := flag.String("patchdir", "", "optional directory tree of replacement files (relative to repo root) applied on top; used by self-tests")
	minExports := flag.String("minexports", "", "comma separated packages whose export file is taken from shim/exports-min (public API only) because the full one does not compile against this tree")
	flag.Parse()

	ovDir := filepath.Join(*out, "ov")
	os.RemoveAll(ovDir)
	must(os.MkdirAll(ovDir, 0o755))
	replace := map[string]string{}

	// 1. rewrite gokrb5 sources
	err := filepath.Walk(*repo, func(p string, info os.FileInfo, err error) error {
		if err != nil {
			return err
		}
		rel, _ := filepath.Rel(*repo, p)
		if info.IsDir() {
			if rel == "examples" || rel == "test" || strings.HasPrefix(rel, ".") && rel != "." || rel == "zzverif" {
				return filepath.SkipDir
			}
			return nil
		}
		if !strings.HasSuffix(p, ".go") || strings.HasSuffix(p, "_test.go") {
			return nil
		}
		src := p
		if *extra != "" {
			if alt := filepath.Join(*extra, rel); fileExists(alt) {
				src = alt
			}
		}
		nb, changed, err := rewriteFile(src, rel)
		if err != nil {
			return fmt.Errorf("%s: %v", rel, err)
		}
		if changed || src != p {
			if !changed {
				// a replacement file that needs no rewriting is laid over as it is
				nb, err = os.ReadFile(src)
				if err != nil {
					return err
				}
			}
			dst := filepath.Join(ovDir, rel)
			must(os.MkdirAll(filepath.Dir(dst), 0o755))
			must(os.WriteFile(dst, nb, 0o644))
			replace[p] = dst
			rep.Files++
		}
		return nil
	})
	if err != nil {
		fmt.Fprintf(os.Stderr, "BUILD-ERROR instr: %v\n", err)
		os.Exit(2)
	}

	// 2. mount shim packages
	shimRoot := filepath.Join(*verif, "shim")
	ents, _ := os.ReadDir(shimRoot)
	for _, e := range ents {
		if !e.IsDir() || e.Name() == "exports" {
			continue
		}
		files, _ := os.ReadDir(filepath.Join(shimRoot, e.Name()))
		for _, f := range files {
			if strings.HasSuffix(f.Name(), ".go") && !strings.HasSuffix(f.Name(), "_test.go") {
				replace[filepath.Join(*repo, "zzverif", e.Name(), f.Name())] = filepath.Join(shimRoot, e.Name(), f.Name())
			}
		}
	}
	// 3. mount export files: shim/exports/<pkg path with / replaced by __>.go -> <pkg>/zz_verif.go
	exps, _ := os.ReadDir(filepath.Join(shimRoot, "exports"))
	for _, f := range exps {
		if !strings.HasSuffix(f.Name(), ".go") {
			continue
		}
		pkg := strings.ReplaceAll(strings.TrimSuffix(f.Name(), ".go"), "__", "/")
		src := filepath.Join(shimRoot, "exports", f.Name())
		for _, m := range strings.Split(*minExports, ",") {
			if m == pkg && fileExists(filepath.Join(shimRoot, "exports-min", f.Name())) {
				src = filepath.Join(shimRoot, "exports-min", f.Name())
			}
		}
		replace[filepath.Join(*repo, pkg, "zz_verif.go")] = src
	}

	ov := map[string]interface{}{"Replace": replace}
	b, _ := json.MarshalIndent(ov, "", " ")
	must(os.WriteFile(filepath.Join(*out, "overlay.json"), b, 0o644))
	sort.Strings(rep.Unhandled)
	rb, _ := json.MarshalIndent(rep, "", " ")
	must(os.WriteFile(filepath.Join(*out, "instr_report.json"), rb, 0o644))
}

func fileExists(p string) bool { _, err := os.Stat(p); return err == nil }

func must(err error) {
	if err != nil {
		fmt.Fprintf(os.Stderr, "BUILD-ERROR instr: %v\n", err)
		os.Exit(2)
	}
}

type fileCtx struct {
	fset      *token.FileSet
	f         *ast.File
	rel       string
	timeName  string // local name of package "time" ("" if not imported)
	needClock bool
	needSched bool
	changed   bool
	tmp       int
	skip      map[ast.Stmt]bool // comm statements of rewritten selects: already preceded by Select
	doneSel   map[*ast.SelectStmt]bool
}

func rewriteFile(path, rel string) ([]byte, bool, error) {
	fset := token.NewFileSet()
	f, err := parser.ParseFile(fset, path, nil, parser.ParseComments)
	if err != nil {
		return nil, false, err
	}
	c := &fileCtx{fset: fset, f: f, rel: rel, skip: map[ast.Stmt]bool{}, doneSel: map[*ast.SelectStmt]bool{}}
	pkgDir := filepath.Dir(rel)

	for _, im := range f.Imports {
		p, _ := strconv.Unquote(im.Path.Value)
		name := ""
		if im.Name != nil {
			name = im.Name.Name
		}
		swap := func(shim, defName string) {
			if name == "" {
				im.Name = ast.NewIdent(defName)
			}
			im.Path.Value = strconv.Quote(modPath + "/zzverif/" + shim)
			c.changed = true
			rep.Rewrites["import:"+shim]++
		}
		switch p {
		case "time":
			c.timeName = "time"
			if name != "" {
				c.timeName = name
			}
		case "sync":
			swap("vsync", "sync")
		case "math/rand":
			swap("vrand", "rand")
		case "crypto/rand":
			swap("vcrand", "rand")
		case "golang.org/x/crypto/pbkdf2", "github.com/jcmturner/gofork/x/crypto/pbkdf2":
			swap("vpbkdf2", "pbkdf2")
		case "net":
			if netPkgs[pkgDir] {
				swap("vnet", "net")
			}
		}
	}

	// time selector rewrite
	if c.timeName != "" {
		ast.Inspect(f, func(n ast.Node) bool {
			se, ok := n.(*ast.SelectorExpr)
			if !ok {
				return true
			}
			id, ok := se.X.(*ast.Ident)
			if !ok || id.Name != c.timeName || id.Obj != nil {
				return true
			}
			if timeSel[se.Sel.Name] {
				se.X = ast.NewIdent("zzvclock")
				c.needClock = true
				c.changed = true
				rep.Rewrites["time."+se.Sel.Name]++
			}
			return true
		})
	}

	// statement-level rewrites (go, send, recv, select)
	ast.Inspect(f, func(n ast.Node) bool {
		switch b := n.(type) {
		case *ast.BlockStmt:
			b.List = c.rewriteList(b.List)
		case *ast.CaseClause:
			b.Body = c.rewriteList(b.Body)
		case *ast.CommClause:
			b.Body = c.rewriteList(b.Body)
		}
		return true
	})

	if c.needClock {
		addImport(f, "zzvclock", modPath+"/zzverif/vclock")
	}
	if c.needSched {
		addImport(f, "zzvsched", modPath+"/zzverif/vsched")
	}
	if !c.changed {
		return nil, false, nil
	}
	// Comments would be scattered by the rewrites; keep only those before the
	// package clause (build constraints) and //go: directives.
	var keep []*ast.CommentGroup
	for _, cg := range f.Comments {
		if cg.End() < f.Package || strings.HasPrefix(cg.List[0].Text, "//go:") {
			keep = append(keep, cg)
		}
	}
	f.Comments = keep
	var buf bytes.Buffer
	cfg := printer.Config{Mode: printer.UseSpaces | printer.TabIndent, Tabwidth: 8}
	if err := cfg.Fprint(&buf, fset, f); err != nil {
		return nil, false, err
	}
	// the "time" import may have become unused
	out := buf.Bytes()
	if c.timeName != "" && !usesPkg(out, c.timeName) {
		out = append(out, []byte("\nvar _ = "+c.timeName+".Second\n")...)
	}
	return out, true, nil
}

// usesPkg re-parses the output and reports whether identifier name is still
// used as a package qualifier.
func usesPkg(src []byte, name string) bool {
	fset := token.NewFileSet()
	f, err := parser.ParseFile(fset, "x.go", src, 0)
	if err != nil {
		return true
	}
	used := false
	ast.Inspect(f, func(n ast.Node) bool {
		if se, ok := n.(*ast.SelectorExpr); ok {
			if id, ok := se.X.(*ast.Ident); ok && id.Name == name && id.Obj == nil {
				used = true
			}
		}
		return !used
	})
	return used
}

func addImport(f *ast.File, name, path string) {
	spec := &ast.ImportSpec{Name: ast.NewIdent(name), Path: &ast.BasicLit{Kind: token.STRING, Value: strconv.Quote(path)}}
	for _, d := range f.Decls {
		if gd, ok := d.(*ast.GenDecl); ok && gd.Tok == token.IMPORT {
			gd.Specs = append(gd.Specs, spec)
			if !gd.Lparen.IsValid() {
				gd.Lparen = gd.Pos()
				gd.Rparen = gd.End()
			}
			f.Imports = append(f.Imports, spec)
			return
		}
	}
	gd := &ast.GenDecl{Tok: token.IMPORT, Specs: []ast.Spec{spec}}
	f.Decls = append([]ast.Decl{gd}, f.Decls...)
	f.Imports = append(f.Imports, spec)
}

func sel(pkg, name string) ast.Expr {
	return &ast.SelectorExpr{X: ast.NewIdent(pkg), Sel: ast.NewIdent(name)}
}

func call(fn ast.Expr, args ...ast.Expr) *ast.CallExpr { return &ast.CallExpr{Fun: fn, Args: args} }

func (c *fileCtx) rewriteList(list []ast.Stmt) []ast.Stmt {
	var out []ast.Stmt
	for _, s := range list {
		// labelled statements: look through the label
		target := s
		if ls, ok := s.(*ast.LabeledStmt); ok {
			target = ls.Stmt
		}
		if c.skip[s] {
			out = append(out, s)
			continue
		}
		switch st := target.(type) {
		case *ast.GoStmt:
			ns := c.rewriteGo(st)
			out = append(out, relabel(s, ns))
			continue
		case *ast.SendStmt:
			c.needSched, c.changed = true, true
			rep.Rewrites["chan-send"]++
			out = append(out, &ast.ExprStmt{X: call(sel("zzvsched", "BeforeSend"), st.Chan)})
			out = append(out, s)
			continue
		case *ast.ExprStmt:
			if ch := recvChan(st.X); ch != nil {
				c.needSched, c.changed = true, true
				rep.Rewrites["chan-recv"]++
				out = append(out, &ast.ExprStmt{X: call(sel("zzvsched", "BeforeRecv"), ch)})
				out = append(out, s)
				continue
			}
		case *ast.AssignStmt:
			if len(st.Rhs) == 1 {
				if ch := recvChan(st.Rhs[0]); ch != nil {
					c.needSched, c.changed = true, true
					rep.Rewrites["chan-recv"]++
					out = append(out, &ast.ExprStmt{X: call(sel("zzvsched", "BeforeRecv"), ch)})
					out = append(out, s)
					continue
				}
			}
		case *ast.SelectStmt:
			if ns := c.rewriteSelect(st); ns != nil {
				out = append(out, relabel(s, ns))
				continue
			}
		case *ast.RangeStmt:
			// `for v := range ch` is not used by gokrb5; flag it if it appears.
		}
		out = append(out, s)
	}
	return out
}

func relabel(orig, ns ast.Stmt) ast.Stmt {
	if ls, ok := orig.(*ast.LabeledStmt); ok {
		ls.Stmt = ns
		return ls
	}
	return ns
}

func recvChan(e ast.Expr) ast.Expr {
	if p, ok := e.(*ast.ParenExpr); ok {
		return recvChan(p.X)
	}
	if u, ok := e.(*ast.UnaryExpr); ok && u.Op == token.ARROW {
		return u.X
	}
	return nil
}

// go f(a, b) => { zz1 := a; zz2 := b; vsched.Go(func(){ f(zz1, zz2) }) }
// For a function-literal callee the literal itself is evaluated in place.
func (c *fileCtx) rewriteGo(st *ast.GoStmt) ast.Stmt {
	c.needSched, c.changed = true, true
	rep.Rewrites["go"]++
	var pre []ast.Stmt
	newArgs := make([]ast.Expr, len(st.Call.Args))
	for i, a := range st.Call.Args {
		c.tmp++
		name := fmt.Sprintf("zzarg%d", c.tmp)
		pre = append(pre, &ast.AssignStmt{Lhs: []ast.Expr{ast.NewIdent(name)}, Tok: token.DEFINE, Rhs: []ast.Expr{a}})
		newArgs[i] = ast.NewIdent(name)
	}
	fn := st.Call.Fun
	if _, isLit := fn.(*ast.FuncLit); !isLit {
		// evaluate the function value (method value / variable) at the go statement
		c.tmp++
		name := fmt.Sprintf("zzfn%d", c.tmp)
		pre = append(pre, &ast.AssignStmt{Lhs: []ast.Expr{ast.NewIdent(name)}, Tok: token.DEFINE, Rhs: []ast.Expr{fn}})
		fn = ast.NewIdent(name)
	}
	inner := &ast.CallExpr{Fun: fn, Args: newArgs, Ellipsis: st.Call.Ellipsis}
	lit := &ast.FuncLit{Type: &ast.FuncType{Params: &ast.FieldList{}}, Body: &ast.BlockStmt{List: []ast.Stmt{&ast.ExprStmt{X: inner}}}}
	pre = append(pre, &ast.ExprStmt{X: call(sel("zzvsched", "Go"), lit)})
	return &ast.BlockStmt{List: pre}
}

// select { case <-a: A; case v := <-b: B; case c <- x: C }   (no default)
// =>
// switch zzvsched.Select(zzvsched.R(a), zzvsched.R(b), zzvsched.S(c)) {
// case 0: <-a; A
// case 1: v := <-b; B
// case 2: c <- x; C
// }
func (c *fileCtx) rewriteSelect(st *ast.SelectStmt) ast.Stmt {
	if c.doneSel[st] {
		return nil // a non-blocking select that already got its scheduling point (it is visited again inside the block)
	}
	var cases []ast.Expr
	var clauses []ast.Stmt
	for i, cl := range st.Body.List {
		cc := cl.(*ast.CommClause)
		if cc.Comm == nil {
			// has default: non-blocking. The statement stays as it is, preceded by a scheduling point (another
			// thread may fill or drain the channels first).
			for _, cl2 := range st.Body.List {
				if cm := cl2.(*ast.CommClause).Comm; cm != nil {
					c.skip[cm] = true
				}
			}
			c.needSched, c.changed = true, true
			c.doneSel[st] = true
			rep.Rewrites["select-default"]++
			yield := &ast.ExprStmt{X: call(sel("zzvsched", "Yield"), &ast.BasicLit{Kind: token.STRING, Value: strconv.Quote("select-default")})}
			return &ast.BlockStmt{List: []ast.Stmt{yield, st}}
		}
		var chExpr ast.Expr
		var kind string
		switch cm := cc.Comm.(type) {
		case *ast.SendStmt:
			chExpr, kind = cm.Chan, "Snd"
		case *ast.ExprStmt:
			chExpr, kind = recvChan(cm.X), "R"
		case *ast.AssignStmt:
			if len(cm.Rhs) == 1 {
				chExpr, kind = recvChan(cm.Rhs[0]), "R"
			}
		}
		if chExpr == nil {
			rep.Unhandled = append(rep.Unhandled, fmt.Sprintf("%s: select case %d not understood", c.rel, i))
			return nil
		}
		cases = append(cases, call(sel("zzvsched", kind), chExpr))
		c.skip[cc.Comm] = true
		body := append([]ast.Stmt{cc.Comm}, cc.Body...)
		clauses = append(clauses, &ast.CaseClause{
			List: []ast.Expr{&ast.BasicLit{Kind: token.INT, Value: strconv.Itoa(i)}},
			Body: body,
		})
	}
	c.needSched, c.changed = true, true
	rep.Rewrites["select"]++
	return &ast.SwitchStmt{Tag: call(sel("zzvsched", "Select"), cases...), Body: &ast.BlockStmt{List: clauses}}
}
