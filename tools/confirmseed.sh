#!/bin/bash
# tools/confirmseed.sh <seeddir> <k> <demo-path-relative-to-repo-root> <name>
# Confirms in a scratch worktree that patch<k>.diff compiles, keeps the existing suite green, and that
# demo<k>_test.go fails with the change and passes without it; then stores it as /verif/seeded/<name>/.
set -u
export GOFLAGS=-mod=mod GOPROXY=off GOSUMDB=off GOTOOLCHAIN=local
SD="$1"; K="$2"; DEMO="$3"; NAME="$4"
WT=/tmp/confirm-$$
git -C /repo worktree add -q --detach "$WT" HEAD || exit 9
cleanup() { git -C /repo worktree remove --force "$WT" 2>/dev/null; }
trap cleanup EXIT
cd "$WT" || exit 9
git apply "$SD/patch$K.diff" || { echo "FAIL: patch does not apply"; exit 1; }
(cd v8 && go build ./... ) || { echo "FAIL: does not compile"; exit 1; }
T=$(cd v8 && go test -vet=off -count=1 ./... 2>&1); if echo "$T" | grep -q "^FAIL\|^--- FAIL"; then echo "FAIL: existing tests fail with the change"; echo "$T" | grep FAIL | head; exit 1; fi
cp "$SD/demo${K}_test.go" "$DEMO"
PKG=./$(dirname "${DEMO#v8/}")/
W=$(cd v8 && go test -vet=off -count=1 "$PKG" 2>&1); WRC=$?
git checkout -q -- . 
O=$(cd v8 && go test -vet=off -count=1 "$PKG" 2>&1); ORC=$?
if [ $WRC -eq 0 ]; then echo "FAIL: demo passes WITH the change"; exit 1; fi
if [ $ORC -ne 0 ]; then echo "FAIL: demo fails WITHOUT the change"; echo "$O" | tail -5; exit 1; fi
D=/verif/seeded/$NAME; mkdir -p "$D"
cp "$SD/patch$K.diff" "$D/patch.diff"; cp "$SD/demo${K}_test.go" "$D/demo_test.go"
echo "CONFIRMED $NAME: compiles, existing suite passes with change, demo fails with change (rc=$WRC) and passes without"
