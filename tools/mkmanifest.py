#!/usr/bin/env python3
"""Regenerates /verif/MANIFEST.json from the table below (kept in one place so
that claimed checks and the not_applicable list can never drift apart)."""
import json, sys

CHECKS = {
 "C01": dict(
   category="model_checking",
   text="AP-REQs minted by the independent reference (DER + crypto) for each of the six etypes are presented to the real APReq.Unmarshal + service.VerifyAPREQ under a virtual clock: the valid request and every single defect of a 52-entry catalogue under all 108 combinations of service settings, and every pair of defects (1326 pairs) under two settings (quick) or all settings (thorough). The verdict must equal the biconditional transcribed from the property statement (inclusive skew boundaries at 1 ns / 1 us resolution), the reported user, realm and expiry must be the values sealed in the ticket, and a panic is a violation.",
   design="DESIGN.md 2/C01",
   note="Not judged (statement silent): empty/krbtgt ticket sname under a principal override, empty client names, ticket addresses with no client address configured. PAC cases are added by the C19 machinery. Key bytes seeded; error codes are recorded but not judged.",
   technique="bounded-exhaustive enumeration of valid + 1-2 catalogue deviations x configurations on the real code against a reference predicate",
   engine="enum"),
 "C02": dict(
   category="model_checking",
   text="Stateless exploration of every interleaving (iterative preemption bounding, then unbounded for <=3 threads in the thorough tier) of 2-4 thread scenarios over the real replay cache singleton, its real clean-up goroutine included, under a cooperative scheduler that owns every lock/once/sleep/clock operation; plus breadth-first explicit-state search over every history of presentations, clock advances and clean-ups up to depth 5 (7 thorough) against a reference set model, deduplicated by canonical (cache dump, reference) state. A free-running -race pass over the same scenario bodies covers unsynchronised accesses.",
   design="DESIGN.md 2/C02, 1.2, 1.3",
   note="Scheduling points only at synchronisation operations (sound for data-race-free code; races are the -race pass's job, which is a dynamic analysis of the runs it sees). Virtual clock. 2 clients x 3 timestamps x 2 services alphabet. Trusts the Go runtime and the shim's model of sync.RWMutex (writer preference).",
   technique="stateless model checking of thread interleavings (preemption-bounded DFS under a controlled scheduler) + explicit-state BFS over operation histories on the real code",
   engine="sched+bfs"),
 "C03": dict(
   category="model_checking",
   text="The real spnego.SPNEGOKRB5Authenticate wrapper is driven through httptest with Authorization headers built from reference-minted tokens: inner tokens (valid AP-REQ for each etype, every judged defect of the C01 catalogue, KRB-ERROR with three msg-types, AP-REP, wrong and unknown TOK_IDs, none, garbage) x framings (GSS-framed and bare NegTokenInit with 7 mechanism lists incl. empty and foreign, NegTokenResp with 4 states x 3 mechanisms, raw KRB5 token) and 12 header shapes; every prefix and every single-byte substitution (255 values) of three valid tokens (about 600k requests in fault-isolating workers); every request sequence of length <=4 over {fresh valid token, replayed token, no header, garbage, session cookie, forged cookie} x {no session manager, in-memory, failing New, failing Get}. The inner handler may run only for a header that carries the minted ticket and authenticator ciphertexts of an acceptable request unmodified (or a cookie issued after one) with the minted identity in the context; everything else must be 401 + WWW-Authenticate: Negotiate (5xx only when the session store fails); the same tokens are offered to AcceptSecContext / the Verify chain, which must not report success without an accepted AP-REQ.",
   design="DESIGN.md 2/C03",
   note="Acceptance is judged semantically (a mutated header still carrying both ciphertexts intact may be served). The positive direction is demanded only for the standard framings (GSS-framed NegTokenInit with krb5 first, raw KRB5 token). Virtual clock; replay cache reset per stateless case.",
   technique="bounded-exhaustive enumeration (catalogue product, single-deviation neighbourhoods of valid tokens, BFS over request sequences) on the real handler against a reference predicate",
   engine="enum+guard+bfs"),
 "C04": dict(
   category="exploration",
   text="Bounded-exhaustive input enumeration for 62 entry points: every exported Unmarshal of messages / types / spnego / gssapi / pac (with the follow-up calls the library itself makes on decoded values: flag tests, name helpers, PA-data and key derivation, DecryptEncPart, GetPACType, re-Marshal), keytab / ccache / gob credentials / krb5.conf / SPN parsing, kadmin replies, DecryptMessage for the six etypes, and flows through the real client (Login, GetServiceTicket, ChangePasswd fed a replaced AS-REP / KRB-ERROR / TGS-REP / sealed enc-part plaintext / TCP stream / kpasswd reply by the simulated KDC) and the real service (VerifyAPREQ with arbitrary EncTicketPart / Authenticator plaintexts sealed under genuine keys, with and without PAC; the SPNEGO acceptor on whole tokens; the Basic authenticator header). Per seed: every prefix, every single-byte substitution (11 values quick / 255 thorough), every DER length field x 19 encodings, every structural DER edit with consistent lengths, nesting to depth 100000, every 2/4/8-byte integer window x 14 boundary values x both byte orders, character and line edits for text; plus all byte strings of length <= 2 (<= 3 thorough for cheap decoders). Oracle per input: returns (no panic, with the panicking function in the key), no fatal error / stall (worker subprocess under RLIMIT_AS with the in-flight input recorded), allocation within 1 MiB + 4 KiB per input byte + 8 x a valid seed's allocation (exact re-measurement and allocating function on excess), at most 20 s CPU.",
   design="DESIGN.md 2/C04",
   note="Exploration, not proof: inputs more than one deviation from a valid seed and longer than 3 bytes are outside the bound. PBKDF2 iteration counts above 131072 are abstracted (terminates, cost linear in a peer-chosen 32-bit count). Known finding: the NDR decoder of dependency jcmturner/rpc allocates by unchecked array counts. After 3 fatal deaths with one key per shard the rest of that case is skipped (reported as capped, exhaustive=false).",
   technique="bounded-exhaustive enumeration of single-deviation mutation families and of all short inputs on the real parsers and flows, in guarded worker subprocesses",
   engine="enum+guard"),
 "C05": dict(
   category="model_checking",
   text="Complete enumeration of the product etype(6) x plaintext length 0..130 x every key usage gokrb5 names plus boundary usages (127,128,255,256,1024,2^31) x 2-3 keys, in both directions, against an independent RFC implementation (ref/rcrypto, validated against the RFC appendix vectors on every run): what gokrb5 encrypts the reference decrypts and vice versa; the confounder recovered by the reference must be exactly the bytes drawn from the (recorded) CSPRNG and differ between two encryptions. Thorough tier: OpenJDK's Kerberos crypto decrypts every cell too.",
   design="DESIGN.md 2/C05, 1.5",
   note="Key and plaintext bytes are seeded pseudo-random (not enumerated). Trusts Go's AES/DES/RC4/HMAC/SHA/MD4/MD5 primitives (shared by gokrb5 and the reference) and the RFC test vectors.",
   technique="bounded-exhaustive enumeration of the (etype,length,usage,direction) space on the real code against a reference model",
   engine="enum"),
 "C06": dict(
   category="model_checking",
   text="For every etype and plaintext length 0..64, a genuine reference-produced ciphertext is subjected to every single-bit flip, every truncation, appended/prepended bytes, every swap of two aligned blocks, every other key usage of the usage set (rc4 modulo the RFC 4757 aliases), unrelated keys and the same key bytes under every other etype of equal key length; gokrb5's DecryptMessage must return an error and no plaintext for each (a panic counts as a violation).",
   design="DESIGN.md 2/C06",
   note="Mutations are single deviations from a genuine ciphertext (plus key/usage/etype substitutions); a mutated input the reference also accepts would not be judged (none observed). Key/plaintext bytes seeded.",
   technique="bounded-exhaustive enumeration of single-deviation neighbourhoods of valid ciphertexts on the real code",
   engine="enum"),
 "C07": dict(
   category="model_checking",
   text="Checksum values for checksum type(6) x data length 0..200 x usage set x 2 keys are compared with the independent RFC implementation (and OpenJDK in the thorough tier); VerifyChecksum must accept exactly that value and reject every truncation, all 256 one-byte extensions, every single-bit flip, flipped/extended/truncated data, another key and every other (non-aliased) usage; GetChksumEtype is checked for every id in -200..200 against the IANA pairing.",
   design="DESIGN.md 2/C07",
   note="Key and data bytes are seeded pseudo-random. Trusts the hash primitives and the RFC vectors.",
   technique="bounded-exhaustive enumeration of (type,length,usage) and of single-deviation neighbourhoods of correct checksums against a reference model",
   engine="enum"),
 "C08": dict(
   category="model_checking",
   text="String-to-key over etype(6) x 14 passwords (ASCII, Latin-1, BMP, supplementary plane, empty, 64/65 bytes) x 5 salts x iteration counts (1..64 and powers of two quick, 1..5000 thorough, defaults) and malformed parameters; n-fold for every input length 1..64 x 5 output sizes x all unit-bit vectors; DK/DR/KDF-HMAC-SHA2 with constants of every length 1..16 and every usage constant; DES3 random-to-key for all 256 values at each byte position and pre-images of all 16 weak keys in each third; GetKeyFromPassword for every ordered sequence of every subset of the three PA-data hints (with/without s2kparams, hint etype equal/different); generated session keys and subkeys of every etype must have the RFC length and round-trip through the reference.",
   design="DESIGN.md 2/C08",
   note="Not judged: des3 string-to-key of empty password with empty salt (n-fold of the empty string is undefined); EncryptionKey.KeyType label when the hinted etype differs from the requested one. PA-data encodings come from the independent DER writer.",
   technique="bounded-exhaustive enumeration of input grids on the real code against a reference model (RFC vectors + JDK as second oracle)",
   engine="enum"),
 "C09": dict(
   category="model_checking",
   text="The real Client.Login and Client.GetServiceTicket run over the in-memory network against a simulated RFC 4120 KDC built on the reference encoder and crypto, in adversary mode: for each etype(6) x credential kind {keytab, password} x exchange {AS, AS after PREAUTH_REQUIRED, TGS}, the genuine reply and each single perturbation (nonce +-1/0, cname changed/added/emptied, crealm, enc sname/srealm, KDC time at and 1 s beyond the skew bound in both directions, enc-part under a random key / a service key / another key usage / the ticket usage, wrong message type and application tag, truncations, appended bytes, truncated and empty replies, every bit of the first and last 16 ciphertext bytes) must be accepted or rejected as the property says; a rejected reply must leave no session and no cached ticket, an accepted one must leave exactly the ticket and key of the KDC's issue log. Stale replies answering an earlier nonce, every KRB-ERROR code 0..100 plus three unassigned ones for both exchanges (the error must carry the code, retries bounded) and ASRep.Verify with requested addresses (equal, reordered, superset, disjoint, other type).",
   design="DESIGN.md 2/C09",
   note="Not judged (statement silent): crealm/sname/srealm of TGS replies, the ticket's clear-text realm, the unauthenticated etype label of the enc-part, caddr in a reply when none were requested. Benign variations that must be accepted: enc-part application tag 25<->26, name-type-only change. Trusts the simulated KDC (validated by driving gokrb5's own client through all six etypes).",
   technique="bounded-exhaustive enumeration of single-field perturbations of genuine replies x etype x credential x exchange on the real client against a simulated KDC",
   engine="enum"),
 "C10": dict(
   category="model_checking",
   text="Explicit-state breadth-first search over client operation histories on the real client.Client (rebuilt and replayed per history, run under the cooperative scheduler so that the TGT auto-renewal goroutine runs to quiescence deterministically after every event): alphabet {login, service ticket for two SPNs and an other-realm SPN, clock advance by 1 s / to the next pending timer / to 1 s before and after the earliest cached ticket end / past the TGT end / past renew-till, destroy}; depth 4 (7 thorough) on the default and on a renewable short-lived configuration, depth 3 (4) on a pairwise-covering set of 22 configurations over 9 settings (credential kind, etype list, pre-authentication policy, forwardable, proxiable, canonicalize, renew_lifetime, ticket_lifetime, FAST negotiation); referral chains of 0..8 realms. States are deduplicated by a canonical key (sessions, cache entries and pending timers relative to the clock). Oracle: the simulated KDC validates every request strictly against what the rendered krb5.conf implies and keeps an issue log; every returned (ticket, key) must be in the log for that SPN and inside its validity at return time; operations must succeed against the conformant KDC; exchanges per event are bounded; no deadlock or livelock.",
   design="DESIGN.md 2/C10, 1.3",
   note="noaddresses is always set (local interface addresses are environment-dependent). Not judged: re-requesting although a valid ticket is cached. The authenticator-crealm defect of multi-hop referrals found here is repaired in /repo (39872a2). A client built from a credential cache cannot log in again: its failures after the newest TGT's end are not judged. The default schedule only; interleavings are C11's subject.",
   technique="explicit-state BFS over operation histories on the real client with canonical-state deduplication, against a simulated KDC (request validation + issue log)",
   engine="bfs+sched"),
 "C11": dict(
   category="model_checking",
   text="Stateless exploration (own cooperative scheduler, iterative preemption bounding 0,1,2; 3 in the thorough tier) of every interleaving of 19 (26) scenarios of 2-3 threads on one real client.Client and its Config against the simulated KDC: two service-ticket requests for the same / different / other-realm SPNs, with and without a prior login; ticket vs login; login vs login; ticket / login vs destroy; ticket / login / destroy vs the auto-renewal goroutine woken by the clock; Client.Print (session and cache dumps) vs login / destroy; a cached-ticket hit vs a new ticket; two requests for a cached ticket that has expired but is renewable; GetKDCs / GetKpasswdServers from two threads and against a ticket request with 2-3 KDCs under every outcome of the random server order. Scheduling points: every sync.Mutex/RWMutex/Once/WaitGroup acquisition (RWMutex with writer preference), channel send/receive/select, timer, clock advance and network exchange of the rewritten sources. Invariants per schedule: no panic, no deadlock (blocked harness thread or library goroutine blocked on a lock / channel send), no livelock (horizon), operations succeed unless a destroy is in the scenario, every returned (ticket, key) pair and every cached entry / session after quiescence was issued together by the KDC, requests stay well-formed, address lookups return a permutation and leave the Config deep-equal. Sharded over worker processes on first-level subtrees. A separate free-running -race build runs the same scenario bodies (15 repetitions each; 150 thorough) for unsynchronised accesses.",
   design="DESIGN.md 2/C11",
   note="The property's 2-16 goroutines and random repetitions are replaced by exhaustive schedules of 2-3 threads within a preemption bound. The -race pass is a dynamic complement (the cooperative scheduler's hand-offs hide races from the detector); reports whose racing access lies in harness or shim code are not counted. Known finding: Client.Destroy replaces cl.Credentials unsynchronised.",
   technique="stateless model checking of the implementation: exhaustive schedule enumeration under a controlled scheduler with iterative preemption bounding, plus a free-running race-detector pass",
   engine="sched+race"),
 "C12": dict(
   category="fault_enumeration",
   text="Every assignment of a behaviour from {answers, refuses, closes early, silent, answers KRB-ERROR, response-too-big on UDP / partial reply on TCP} to each (KDC, transport) endpoint for 1, 2 and 3 configured KDCs (36 + 1,296 + 46,656 assignments) x udp_preference_limit {1, below the request size, above it} x the orders the random server ordering can produce (all for 1-2 KDCs; the default order for 3 KDCs in the quick tier and all 36 in the thorough tier) is run through the real Client.sendToKDC over the in-memory network. Clauses: success returns exactly the reply of an answering endpoint on a permitted transport (never empty); a surfaced KRBError carries a code some endpoint sent; with no KRB-ERROR endpoint, success iff some permitted endpoint answers; the first responding KDC of the first transport decides (too-big on UDP defers to TCP); connection attempts are bounded by twice the number of endpoints. A reduced set (2 KDCs, 4 behaviours) is also run through Client.Login with the simulated KDC behind the answering endpoints.",
   design="DESIGN.md 2/C12",
   note="Endpoint fidelity (UDP datagram = one read, TCP = stream with 4-byte prefix; read/write deadlines are judged against the virtual clock and a silent endpoint advances it to the read deadline) is an assumption of the in-memory network shim. Random order is scripted, not sampled.",
   technique="exhaustive enumeration of fault assignments x configurations on the real fail-over code over a simulated network",
   engine="enum"),
 "C13": dict(
   category="model_checking",
   text="For each of the 17 listed types a baseline value, every single field variant and every pair of variants of different fields (optionals present/absent, integers at the 8/16/32-bit boundaries and negative, 0-4 name components, string lengths {0,1,127,128,255,256,65535,65536}, every flag bit, 0-3 additional tickets, 1-9 etypes) is encoded by the independent strict-DER reference (which reproduces the MIT reference encodings byte for byte), decoded by gokrb5 and re-encoded: the bytes must be identical, which makes the independent decoder's view of gokrb5's output equal to the model. The same for real encrypted Ticket / AP-REQ / AS-REP / TGS-REP / KRB-PRIV of every etype after Decrypt / Verify / DecryptEncPart; values built with gokrb5's constructors (SetFlag for every bit, NewKRBError, MarshalTicketSequence, AddASNAppTag) are decoded by the strict reference decoder; MarshalLengthBytes / GetLengthFromASN / GetNumberBytesInLengthHeader are compared with the reference for every length 0..2^24.",
   design="DESIGN.md 2/C13",
   note="Generated values avoid optional fields transmitted with a zero/empty value (the property exempts them). NegTokenResp always carries negState (gokrb5 cannot omit it; decoding foreign tokens without it belongs to C03/C04). Known finding: EncTGSRepPart is re-encoded with application tag 25.",
   technique="bounded-exhaustive enumeration (baseline + 1-2 field deviations per type) with byte-exact differential comparison against an independent DER codec",
   engine="enum"),
 "C14": dict(
   category="model_checking",
   text="Keytab files rendered by an independent writer from an enumerated entry alphabet (6 principal shapes incl. empty and 300-byte components x 3 realms x 5 etypes incl. unsupported and negative ids x 5 kvno8/kvno32 shapes x 5 timestamps over the 32-bit range = 2250 entries) x format version {1,2} x 5 hole patterns, plus the empty keytab, all ordered pairs over a sub-alphabet and all sequences up to length 6/8: gokrb5's parse must equal the independent reader field by field, Marshal output must be read back identically by the independent reader and by gokrb5. Key lookup is compared with a model filter for every query of a near-miss product (6 principals x 4 realms x 7 kvnos x 3 etypes) against every 1-3 entry keytab of a 10-entry lookup alphabet; AddEntry is checked for six etypes against the reference string-to-key.",
   design="DESIGN.md 2/C14",
   note="Timestamps compared modulo 2^32 and key type as sign-extended 16 bits (the format stores unsigned fields). Lookup alphabet avoids empty keys and timestamps >= 2^31 (signedness of 'newest' is not settled by the statement). Native byte order for version 1 is little-endian on this platform.",
   technique="bounded-exhaustive enumeration of file models and lookups on the real code against an independent format implementation and a model filter",
   engine="enum"),
 "C15": dict(
   category="model_checking",
   text="Credential cache files rendered by an independent writer from an enumerated model: version 1-4 x five v4 header shapes (0-2 fields, unknown tags) x four default principals (0-3 components, empty realm) x {no credential, each of 14 credential shapes covering key lengths 0-64, unsupported key types, times over the signed 32-bit range, single flag bits, 0-3 addresses and authdata entries, empty/long tickets and second tickets, X-CACHECONF entries, empty names}, all ordered pairs of shapes, sliding windows of 3-6 and the whole alphabet. gokrb5's parse must equal the model in every field; GetEntry/Contains/GetEntries/GetClientCredentials must equal the model filter; a client built with NewFromCCache must serve exactly the cached, time-valid tickets and keys under the virtual clock.",
   design="DESIGN.md 2/C15",
   note="Native byte order for versions 1/2 is little-endian on this platform. Key types and address/authdata types are compared as sign-extended 16-bit values. Random payload bytes seeded.",
   technique="bounded-exhaustive enumeration of file models on the real parser against an independent format writer",
   engine="enum"),
 "C16": dict(
   category="model_checking",
   text="A configuration model is rendered to krb5.conf text and parsed by the real config.NewFromString: every libdefaults key with every listed spelling (10 boolean spellings x 3 letter cases, 18 duration formats, enctype lists incl. aliases/weak/unknown names, integers at their bounds) under each of 8 layouts (spacing, tabs, comment and blank lines, section order, unknown sections/keys, indented headers), all ordered key pairs; realms with 0-4 servers per kind, with/without port, the final marker at each position, nested blocks of three kinds at each position, windows of 2-4 realms; 12 structurally invalid files must be rejected without panic; ResolveRealm for every hostname of depth <=5 over labels {a,b} (with/without trailing dot) against every subset of an 8-key mapping universe (31,744 cases) versus exact-else-longest-dotted-suffix; GetKDCs/GetKpasswdServers for 1-4 servers under every outcome of the (scripted) random ordering, three consecutive calls each.",
   design="DESIGN.md 2/C16",
   note="Not judged: spellings MIT accepts but the property does not list (on/off, mixed-case booleans, trailing comments, commas in enctype lists, dotless parent-domain keys, des3-cbc-sha1 naming). An UnsupportedDirective notice for v4 blocks counts as loaded when the Config is returned.",
   technique="bounded-exhaustive enumeration of configuration models x layouts and of hostname x mapping-set spaces on the real code against a reference model",
   engine="enum"),
 "C17": dict(
   category="model_checking",
   text="MIC and Wrap tokens built by gokrb5 (SetChecksum/SetCheckSum + Marshal and the NewInitiator* constructors) for the full product etype(6) x payload length 0..300 x flags 0..7 x sequence numbers {0,1,2^32,2^64-1} x key usages {22,23,24,25} must equal, byte for byte, an independent construction (layout from RFC 4121 4.2.6, checksum from the reference crypto); Unmarshal(Marshal(t)) must return the fields for the matching direction and fail for the other. For payload lengths {0,1,16,17,300} x flags {0,1,4,7}: every single-bit flip and every truncation of the marshalled token, appended bytes, another key, other usages, and every bit of flags / sequence number / payload / checksum changed after the checksum was set must make Unmarshal fail or Verify return false.",
   design="DESIGN.md 2/C17",
   note="Not judged: bits of the Wrap token's RRC field (excluded from the checksum by RFC 4121 and not listed by the property). Payload and key bytes seeded.",
   technique="bounded-exhaustive enumeration of the token parameter space and of single-deviation neighbourhoods on the real code against a reference construction",
   engine="enum"),
 "C18": dict(
   category="model_checking",
   text="The real spnego.Client.Do (with the real net/http client and its redirect logic) runs over a scripted RoundTripper while its Kerberos client talks to the simulated KDC: every server script consisting of a word of length <=4 (5 thorough) over {200, 401 bare Negotiate, 401 Negotiate with reject token, 401 Basic, 302 same host, 302 other host, 500} followed by each constant tail (19,607 / 137,256 scripts) with a POST body; every script of length <=2 x method {GET, HEAD, POST} x body size {0, 1, 64 KiB, 1 MiB} x SPN {explicit, URL-derived}; etype(6) x CNAME canonicalisation {none, mixed-case, other host} x how much of the body the server read before answering the challenge {all, half, none} x 6 challenge scripts x 3 body sizes. Oracle: Do returns within 32 requests (the transport ends a run at 64 so that non-termination is observed); after a bare 401 Negotiate the next request goes to the same URL with a token an independent acceptor (strict DER + reference decoders and crypto + the KDC's key database) accepts for the intended SPN; the re-sent body is byte-identical to the original; the result is the server's final response or an error.",
   design="DESIGN.md 2/C18",
   note="Body identity is judged for retries of the original request (method and URL unchanged); what net/http does to method and body on a 302 is HTTP's business. Guarded worker processes; virtual clock; in-memory network with scripted CNAME lookups.",
   technique="exhaustive enumeration of server response scripts (words up to a length + constant tail) and environment deviations on the real client against an independent acceptor",
   engine="enum+guard"),
 "C19": dict(
   category="model_checking",
   text="PACs assembled, NDR-encoded and signed by an independent implementation (which reproduces the two captured KERB_VALIDATION_INFO samples byte for byte) from enumerated attribute models (5 name shapes x 0-3 groups x 0-2 extra SIDs x resource groups, plus the captured samples) x 5 signature types x 2 keys x RODC identifier present/absent: the real ProcessPACInfoBuffers must accept them and expose exactly the modelled names, ids, logon times and group SIDs; another key and every other declared checksum type must be rejected. Every single-bit flip of every byte of selected PACs per signature type and of the captured PAC (guarded worker processes: a crash, out-of-memory or stall is a violation), all 120 orders of five buffers, removal and duplication of each buffer. The same through Ticket.GetPACType / service.VerifyAPREQ for each etype (valid, bad signature, other key, missing buffer, PAC decoding disabled) comparing ADCredentials.",
   design="DESIGN.md 2/C19, 1.4",
   note="Not judged: bits of the KDC signature value (not covered by the server signature and not verifiable without the krbtgt key). Known finding: names with supplementary-plane characters are garbled by the NDR dependency (jcmturner/rpc). des3 has no PAC signature type.",
   technique="bounded-exhaustive enumeration of attribute models and of single-bit-flip neighbourhoods on the real code, in fault-isolating worker processes, against an independent PAC assembler",
   engine="enum+guard"),
 "C20": dict(
   category="model_checking",
   text="Marker secrets are planted wherever the library holds one (two marker passwords, the long-term keys of every principal / realm of the simulated KDCs, unused entries of the client keytab, every session key the KDCs issue, authenticator subkeys recovered by the reference decoder, keytab and ccache keys). Explored: every operation sequence up to depth 2 (3 thorough) after a login over a 13-operation alphabet (login, wrong password, ticket, unknown service, other realm, SPNEGO round trip through the real acceptor, replayed token, renewal timer, KDC unreachable, tampered AS / TGS reply, change password, destroy) x 5 configurations; the 40 reply perturbations of the C09 catalogue on the AS and on the TGS exchange x 3 configurations; every truncation and 7-8 single-byte corruptions per offset of v1/v2 keytabs and a ccache; the C01 defect catalogue x 6 etypes presented to a service with a logger; Marshal after decrypt of Ticket / AS-REP / TGS-REP / KRB-PRIV / AP-REQ x 6 etypes. After every step every surface (Client.Print, Diagnostics, Credentials JSON and gob, Keytab.JSON, Config.JSON, client and service logs, Error() and %+v of every error, all bytes sent to KDCs and service, identity JSON / gob, re-encoded messages) is searched for every marker as raw 8-byte window, hex (both cases, plain / spaced), base64 (std / url, 3 alignments), decimal list and UTF-16LE. The scanner is self-tested on planted leaks at start, and the run fails as vacuous unless the success and failure paths were actually taken.",
   design="DESIGN.md 2/C20",
   note="Keytab.String() (an explicit key listing) and plaintext types (Authenticator, EncKDCRepPart, EncTicketPart) are not surfaces. Secret values are markers, not all values; two password shapes (one with format / quote / unicode characters).",
   technique="bounded-exhaustive enumeration of operation sequences and error paths on the real client and service with a taint-by-marker oracle over all output surfaces",
   engine="enum"),
}

# What the seeded-change rounds added to each check after the text above was written (appended to the text).
EXT = {
 "C01": "Added later: catalogue entries for kvno differing by multiples of 256, names with the same rendering but another split, names differing only in case, empty ticket realm, times at the extremes of the representable range, PAC defects; tickets with addresses are judged against the configured client address. Round 4: skews that are not whole seconds (500 ms, 2.5 s) with expectations at the wire's time resolution, client names containing '@', INVALID flag without starttime.",
 "C02": "Added later: timestamps differing below the second and presented in other time zones, service names differing only in case, presentations at 2 x skew - 500 ms; the same histories driven through service.VerifyAPREQ (keytab principal override with altered clear-text sname, two skews, a 6000-authenticator history) and a concurrent VerifyAPREQ scenario. Round 4: replays whose clear-text sname is the same text in another split of components; the window's edge driven through VerifyAPREQ (3 skews x 5 client clock offsets x 10 sub-second steps x clean-up or not).",
 "C03": "Added later: one wrapper shared by a sequence and by two scheduled requests (address-bound tickets from two remote addresses), a second user and the cookie of the first user's session, remote-address shapes (IPv4/IPv6/with zone/without port), replayed tokens with one letter of the clear-text sname in another case. Round 4: a session manager whose Get returns stale bytes together with an error.",
 "C04": "Added later: truncation inside nested DER elements with consistent outer lengths, raw (non-DER) nodes, seeds above 64 KiB for length-prefixed PAC buffers, a guard that reports a seed the library refuses once by name. Round 4: a flow against KDCs that refer the client on in a cycle, and a cap of 400 connections per operation that turns non-termination into a reported violation.",
 "C05": "Added later: dense usage sweep 1..8192, caller-buffer integrity after every call, aliasing histories (key buffer overwritten in place: A, B, A), sibling etypes sharing key bytes, schedules of two concurrent encryptions/decryptions plus a free-running -race pass. Round 4: one of the des3 keys of every crypto check is 24 raw random octets (no parity adjustment).",
 "C06": "Added later: the three decryption APIs (DecryptMessage, DecryptEncPart, etype method), a usage matrix 0..32 x 0..32 and a dense sweep 1..1200 after a prior operation with a colliding usage, a genuine ciphertext retried after a failed attempt on the same buffers, returned bytes judged even when an error is returned. Round 4: key-buffer histories (one key buffer overwritten in place between calls).",
 "C07": "Added later: dense usage sweep 0..8192, keys of wrong length, empty and over-long presented checksums, keys differing in one bit, aliasing histories, concurrent schedules. Round 4: raw (non-parity) des3 keys.",
 "C08": "Added later: unrelated PA-data elements at every position of every hint sequence, ETYPE-INFO and ETYPE-INFO2 naming different etypes, default salts for 10 realms (lower/mixed case, non-ASCII, empty, blanks) x 10 names x etypes x hint shapes without salt. Round 4: the hint sequences (with decoys in the lower-precedence kinds) presented by the simulated KDC to the real client's login for 9 (real, decoy) etype pairs; usage constants of every usage number 0..1200 and of numbers carrying a tag octet in any byte.",
 "C09": "Added later: world variants (every exchange forced onto TCP by RESPONSE_TOO_BIG, two-component client principal with a sibling keytab entry, canonicalize, forwardable+proxiable, a KDC that always advertises an explicit salt), replies sealed under a sibling principal's key, enc-parts that decrypt but are not a complete EncKDCRepPart (cut at every offset for one configuration, sample offsets elsewhere; foreign application tags), stale replies to an earlier nonce, KRB-ERROR codes 0..100. Round 4: KRB-ERROR codes answering the pre-authenticated request; replies to the follow-up request after a referral (perturbation catalogue, sealed under the home TGT's key).",
 "C10": "Added later: time elapsing over two ticket lifetimes with every timer firing at its own instant, KDCs that replace the session key on renewal, referral chains 0..12 and a referral cycle against strict and lenient KDCs (plateau of the exchange count demanded), clients built from a credential cache holding a TGT and a shorter-lived service ticket (not renewable / renewable / renewable with key replacement), nested [domain_realm] suffixes, a virtual clock in a non-UTC zone. Round 4: every etype alone x {keytab, password with pre-authentication}; noaddresses = false with IPv4 and IPv6 extra_addresses.",
 "C11": "Added later: scenarios print-vs-login/destroy, cached-ticket-vs-new-ticket, two requests for an expired renewable ticket, lookups with 3 KDCs; the race pass judges the same invariants on the executions it sees and turns goroutines still blocked after 60 s into a deadlock violation. Round 4: every sequential history up to depth 5 (6) in which a Login may complete while a renewal / ticket request is in flight (found the deadlock repaired by 4b4e8dd); a keytab with several entries and a keytab-unchanged invariant; the race pass walks one 2 ms pause over every lock release of each scenario.",
 "C12": "Added later: I/O deadlines judged per KDC on the virtual clock, replies retained across attempts, reply sizes around the UDP limit and the TCP length prefix, realm names that are not upper case. Round 4: udp_preference_limit 0 and 2; datagram replies of 10 sizes up to the 4096-byte buffer; all ordered pairs of five KRB-ERROR shapes (optional fields present / absent) compared field by field.",
 "C13": "Added later: consecutive tickets alternating kvno present/absent, negative nonces, round trips through the keytab path and VerifyAPREQ with kvno omitted, all lengths 0..2^24 for the length helpers, re-encoding after decrypt for every encrypted container. Round 4: the library's constructors (AS-REQ, TGS-REQ, authenticator, AP-REQ, PA-ENC-TS-ENC, KRB-ERROR) run under the non-UTC clock and decoded strictly; SetFlag on bit strings of 0..5 octets; AS-REPs with padata in non-ascending order decrypted through password credentials.",
 "C14": "Added later: kvno values differing by multiples of 256, near-miss lookups whose rendering equals a stored entry's (separator inside a component), holes as first record. Round 4: key version 0, 8-bit versions >= 128 with the 32-bit field absent / zero / set, a newer duplicate of an entry.",
 "C15": "Added later: tickets with and without kvno mixed, repeated services (last written wins), every pair of different address / authorization-data counts 0..3, versions parsed in alternation in one process. Round 4: the identity of the client built from the cache for 7 default principals per version.",
 "C16": "Added later: final-value markers in isolation for all four server kinds, preferred_preauth_types in the documented blank-separated form, realm names that are not upper case, boundary-value grids over every field of the three duration formats (seconds; h:m[:s] with hours up to 999; every subset of d/h/m/s units), three consecutive lookups per random outcome. Round 4: five shapes of the [domain_realm] header in the resolve enumeration.",
 "C17": "Added later: sequence numbers above 2^32, keys differing in one bit, payload slices with spare capacity, tokens verified twice, presented checksums shortened or extended. Round 4: Wrap tokens built with RRC in {1,12,28,256,65535} (checksum over the header with EC and RRC zeroed).",
 "C18": "Added later: the first challenge must be answered, every token sent must be fresh and acceptable at its destination (strict reference decode of the AP-REQ and authenticator), bodies read back from the returned response, redirect loops. Round 4: the clock moves 1 us per reading and the (client, ctime, cusec) of the tokens of a call must differ; five spellings of the URL host (port, absolute name, case) x resolver answering / failing.",
 "C19": "Added later: PACs laid out for one declared type and signed with another mechanism of equal length, repeated group SIDs among the extra SIDs, duplicated signature buffers and trailing bytes, every declared checksum type -200..200 outside the supported five with value lengths {0,1,12,16,20,24} under a key of every etype, one PACType value processing two PACs in turn. Round 4: PACs damaged at header level (count, cuts, offsets, empty) presented through the ticket.",
 "C20": "Added later: unused keytab entries with marker keys, the whole C09 perturbation catalogue on both exchanges (incl. enc-parts that decrypt but do not decode), ccache files of every version and header shape with all 256 values of every header byte, an operation that makes JSON renderings fail (times outside years 0..9999), tickets renewed after expiry, marshal-after-decrypt of request bodies carrying a decrypted additional ticket. Round 4: a marker password that is not valid UTF-8.",
}

TODO_REASON = "check not yet built in this revision of /verif (work in progress; see DESIGN.md section 2 for the planned bounded-exhaustive exploration)"

def main():
    ids = ["C%02d" % i for i in range(1, 21)]
    checks = []
    for i in ids:
        if i not in CHECKS: continue
        c = CHECKS[i]
        checks.append({
            "property_id": i,
            "quick_cmd": "bin/check %s quick" % i,
            "thorough_cmd": "bin/check %s thorough" % i,
            "evidence_file": "/verif/evidence/%s.json" % i,
            "replay_cmd_template": "bin/check replay {path}",
            "engine": c["engine"],
            "level_claimed": {"category": c["category"], "text": c["text"] + (" " + EXT[i] if i in EXT else ""), "design_ref": c["design"]},
            "level_note": c["note"],
            "technique": c["technique"],
        })
    na = [{"property_id": i, "reason": NA.get(i, TODO_REASON)} for i in ids if i not in CHECKS]
    m = {
        "version": 1,
        "setup_cmd": "bin/setup",
        "hooks": {
            "guard": "verif",
            "enable": "no hook is committed to /repo: bin/check regenerates a `go build -overlay` from /repo's current working tree (tools/instr rewrites time/sync/go/chan/rand/net uses to the shims under /verif/shim, mounted virtually at /repo/v8/zzverif/, and mounts per-package export files) and builds the harness with `-overlay .build/overlay.json -tags verif`; without the overlay none of that code exists",
            "baseline_off_cmd": "cd /repo/v8 && go test -mod=mod -vet=off -count=1 ./...",
            "source_commits": [],
            "add_only": True,
        },
        "engines": [
            {"name": "sched", "path": "shim/vsched, engine/explore.go", "serves_properties": ["C02", "C03", "C05", "C06", "C07", "C10", "C11"], "kind_free_text": "cooperative scheduler + stateless DFS over schedules with iterative preemption bounding, determinism gate, deadlock detection"},
            {"name": "bfs", "path": "checks/*/hist.go", "serves_properties": ["C02", "C10", "C18"], "kind_free_text": "explicit-state breadth-first search over operation histories on fresh real objects, canonical-state deduplication, reference-model oracle"},
            {"name": "guard", "path": "engine/guard.go", "serves_properties": ["C03", "C04", "C11", "C18", "C19"], "kind_free_text": "fault-isolating worker subprocesses (address-space limit, stall watchdog, in-flight input record, resume after death) that run enumeration shards and attribute a fatal death or stall to the exact input"},
            {"name": "race", "path": "engine/race.go", "serves_properties": ["C02", "C05", "C06", "C07", "C11"], "kind_free_text": "free-running -race pass over the same scenario bodies (dynamic complement for unsynchronised accesses the cooperative scheduler cannot see); only reports with both accesses in gokrb5 code count"},
            {"name": "enum", "path": "engine/", "serves_properties": [], "kind_free_text": "bounded-exhaustive enumeration of input spaces (full products / deviation neighbourhoods) against independent reference models"},
        ],
        "checks": checks,
        "not_applicable": na,
        "notes": "All checks rebuild the instrumented harness from /repo's working tree on every invocation (bin/check). Exit 0 held / 1 VIOLATION / 2 BUILD-ERROR / 3 ENGINE-ERROR. Known findings: /verif/known_findings.json.",
    }
    json.dump(m, open("/verif/MANIFEST.json", "w"), indent=1)
    print("checks:", [c["property_id"] for c in checks], "not_applicable:", len(na))

NA = {}
if __name__ == "__main__":
    main()
