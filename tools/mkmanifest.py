#!/usr/bin/env python3
"""Regenerates /verif/MANIFEST.json from the table below (kept in one place so
that claimed checks and the not_applicable list can never drift apart)."""
import json, sys

CHECKS = {
 "C02": dict(
   category="model_checking",
   text="Stateless exploration of every interleaving (iterative preemption bounding, then unbounded for <=3 threads in the thorough tier) of 2-4 thread scenarios over the real replay cache singleton, its real clean-up goroutine included, under a cooperative scheduler that owns every lock/once/sleep/clock operation; plus breadth-first explicit-state search over every history of presentations, clock advances and clean-ups up to depth 5 (7 thorough) against a reference set model, deduplicated by canonical (cache dump, reference) state. A free-running -race pass over the same scenario bodies covers unsynchronised accesses.",
   design="DESIGN.md 2/C02, 1.2, 1.3",
   note="Scheduling points only at synchronisation operations (sound for data-race-free code; races are the -race pass's job, which is a dynamic analysis of the runs it sees). Virtual clock. 2 clients x 3 timestamps x 2 services alphabet. Trusts the Go runtime and the shim's model of sync.RWMutex (writer preference).",
   technique="stateless model checking of thread interleavings (preemption-bounded DFS under a controlled scheduler) + explicit-state BFS over operation histories on the real code",
   engine="sched+bfs"),
}

TODO_REASON = "check not yet built in this revision of /verif (work in progress; see DESIGN.md section 2 for the planned bounded-exhaustive exploration)"

def main():
    ids = ["C%02d" % i for i in range(1, 21)]
    checks = []
    for i in ids:
        if i not in CHECKS: continue
        c = CHECKS[i]
        checks.append({
            "property_id": i,
            "quick_cmd": "bin/check %s quick" % i,
            "thorough_cmd": "bin/check %s thorough" % i,
            "evidence_file": "/verif/evidence/%s.json" % i,
            "replay_cmd_template": "bin/check replay {path}",
            "engine": c["engine"],
            "level_claimed": {"category": c["category"], "text": c["text"], "design_ref": c["design"]},
            "level_note": c["note"],
            "technique": c["technique"],
        })
    na = [{"property_id": i, "reason": NA.get(i, TODO_REASON)} for i in ids if i not in CHECKS]
    m = {
        "version": 1,
        "setup_cmd": "bin/setup",
        "hooks": {
            "guard": "verif",
            "enable": "no hook is committed to /repo: bin/check regenerates a `go build -overlay` from /repo's current working tree (tools/instr rewrites time/sync/go/chan/rand/net uses to the shims under /verif/shim, mounted virtually at /repo/v8/zzverif/, and mounts per-package export files) and builds the harness with `-overlay .build/overlay.json -tags verif`; without the overlay none of that code exists",
            "baseline_off_cmd": "cd /repo/v8 && go test -mod=mod -vet=off -count=1 ./...",
            "source_commits": [],
            "add_only": True,
        },
        "engines": [
            {"name": "sched", "path": "shim/vsched, engine/explore.go", "serves_properties": ["C02", "C11", "C10"], "kind_free_text": "cooperative scheduler + stateless DFS over schedules with iterative preemption bounding, determinism gate, deadlock detection"},
            {"name": "bfs", "path": "checks/*/hist.go", "serves_properties": ["C02", "C10", "C18"], "kind_free_text": "explicit-state breadth-first search over operation histories on fresh real objects, canonical-state deduplication, reference-model oracle"},
            {"name": "enum", "path": "engine/", "serves_properties": [], "kind_free_text": "bounded-exhaustive enumeration of input spaces (full products / deviation neighbourhoods) against independent reference models"},
        ],
        "checks": checks,
        "not_applicable": na,
        "notes": "All checks rebuild the instrumented harness from /repo's working tree on every invocation (bin/check). Exit 0 held / 1 VIOLATION / 2 BUILD-ERROR / 3 ENGINE-ERROR. Known findings: /verif/known_findings.json.",
    }
    json.dump(m, open("/verif/MANIFEST.json", "w"), indent=1)
    print("checks:", [c["property_id"] for c in checks], "not_applicable:", len(na))

NA = {}
if __name__ == "__main__":
    main()
