#!/bin/bash
# tools/round2.sh <ID>   try the three round-2 seeded changes in /tmp/seed2-<ID> against the check (overlay run, /repo untouched)
id=$1
for k in 1 2 3; do
  p=/tmp/seed2-$id/patch$k.diff
  [ -f "$p" ] || { echo "$id/$k no patch"; continue; }
  echo "$id/$k $(/verif/tools/trymutant_alt.sh $p $id 2>&1 | tail -1 | cut -c1-260)"
done
