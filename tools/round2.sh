#!/bin/bash
# ROUND=<n> tools/round2.sh <ID>   try the three round-n seeded changes in /tmp/seed<n>-<ID> against the check (overlay run, /repo untouched)
id=$1
for k in 1 2 3; do
  p=/tmp/seed${ROUND:-2}-$id/patch$k.diff
  [ -f "$p" ] || { echo "$id/$k no patch"; continue; }
  echo "$id/$k $(/verif/tools/trymutant_alt.sh $p $id 2>&1 | tail -1 | cut -c1-260)"
done
