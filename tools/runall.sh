#!/bin/bash
# tools/runall.sh [quick|thorough]  run every check sequentially on /repo's working tree; one summary line each.
T=${1:-quick}
cd /verif
for i in $(seq -w 1 20); do
  id=C$i
  out=$(bin/check $id $T 2>&1); rc=$?
  echo "rc=$rc $(echo "$out" | tail -1 | cut -c1-200)"
  if [ $rc -ne 0 ]; then echo "$out" | grep "^VIOLATION\|ERROR" | cut -c1-400 | head -5; fi
done
