#!/bin/bash
# tools/runall.sh [quick|thorough] [ids...]  run checks sequentially on /repo's working tree; one summary line each.
# Thorough runs keep the quick evidence file of record in place and store their own evidence under evidence-thorough/.
T=${1:-quick}; shift
ids=("$@"); [ ${#ids[@]} -eq 0 ] && ids=($(seq -f 'C%02g' 1 20))
cd /verif
mkdir -p evidence-thorough
for id in "${ids[@]}"; do
  [ "$T" = thorough ] && cp evidence/$id.json /tmp/evq.$id.$$ 2>/dev/null
  out=$(bin/check $id $T 2>&1); rc=$?
  echo "rc=$rc $(echo "$out" | tail -1 | cut -c1-200)"
  if [ $rc -ne 0 ]; then echo "$out" | grep "^VIOLATION\|ERROR" | cut -c1-400 | head -5; fi
  if [ "$T" = thorough ]; then cp evidence/$id.json evidence-thorough/$id.json; [ -f /tmp/evq.$id.$$ ] && mv /tmp/evq.$id.$$ evidence/$id.json; fi
done
