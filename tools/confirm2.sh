#!/bin/bash
# tools/confirm2.sh <ID> <k> <demo path rel. repo root> <breaks> <needs> <detected keys> [notes]
# confirm round-2 seed k of /tmp/seed2-<ID> and store it under the next free /verif/seeded/<ID>-<n>
id=$1; k=$2; demo=$3; breaks=$4; needs=$5; det=$6; notes=${7:-}
n=1; while [ -d /verif/seeded/$id-$n ]; do n=$((n+1)); done
name=$id-$n
r=$(/verif/tools/confirmseed.sh /tmp/seed${ROUND:-2}-$id $k $demo $name 2>&1 | tail -1)
echo "$r"
case "$r" in CONFIRMED*) /verif/tools/mkmeta.py $name $id $demo "$breaks" "$needs" "$det" "$notes"; [ -f /tmp/seed${ROUND:-2}-$id/NOTES.md ] && cp /tmp/seed${ROUND:-2}-$id/NOTES.md /verif/seeded/$id-round${ROUND:-2}-NOTES.md;; esac
