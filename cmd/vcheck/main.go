// Command vcheck runs one property check: vcheck <ID> <quick|thorough>.
package main

import (
	"fmt"
	"github.com/jcmturner/gokrb5/v8/zzverif/vclock"
	"os"
	"strconv"
	"strings"
	"time"

	"verif/checks/c01"
	"verif/checks/c02"
	"verif/checks/c03"
	"verif/checks/c04"
	"verif/checks/c09"
	"verif/checks/c10"
	"verif/checks/c11"
	"verif/checks/c12"
	"verif/checks/c13"
	"verif/checks/c14"
	"verif/checks/c15"
	"verif/checks/c16"
	"verif/checks/c17"
	"verif/checks/c18"
	"verif/checks/c19"
	"verif/checks/c20"
	"verif/checks/ccrypto"
	"verif/engine"
)

type check struct {
	level string
	run   func(*engine.Ctx)
}

var checks = map[string]check{
	"C01": {"model_checking", c01.Run},
	"C02": {"model_checking", c02.Run},
	"C09": {"model_checking", c09.Run},
	"C10": {"model_checking", c10.Run},
	"C11": {"model_checking", c11.Run},
	"C12": {"fault_enumeration", c12.Run},
	"C13": {"model_checking", c13.Run},
	"C14": {"model_checking", c14.Run},
	"C15": {"model_checking", c15.Run},
	"C16": {"model_checking", c16.Run},
	"C17": {"model_checking", c17.Run},
	"C18": {"model_checking", c18.Run},
	"C19": {"model_checking", c19.Run},
	"C20": {"model_checking", c20.Run},
	"C03": {"model_checking", c03.Run},
	"C04": {"exploration", c04.Run},
	"C05": {"model_checking", ccrypto.RunC05},
	"C06": {"model_checking", ccrypto.RunC06},
	"C07": {"model_checking", ccrypto.RunC07},
	"C08": {"model_checking", ccrypto.RunC08},
}

func main() {
	// The simulated machine is not on UTC (see vclock.Zone): times the library builds with time.Unix / time.Date(...,
	// time.Local) or reads from the real clock come out in that zone too, as they do on most machines.
	time.Local = vclock.Zone
	if len(os.Args) < 2 {
		fmt.Fprintln(os.Stderr, "usage: vcheck <ID> [quick|thorough]")
		os.Exit(3)
	}
	id := strings.ToUpper(os.Args[1])
	if id == "WORKER" {
		engine.WorkerMain(os.Args[2:])
		return
	}
	if id == "CCRACE" {
		n, _ := strconv.Atoi(os.Args[2])
		seed, _ := strconv.ParseInt(os.Args[3], 10, 64)
		ccrypto.RaceBody(n, seed)
		return
	}
	if id == "C11RACE" {
		n, _ := strconv.Atoi(os.Args[2])
		c11.RaceBody(n)
		return
	}
	if id == "C17RACE" {
		n, _ := strconv.Atoi(os.Args[2])
		seed, _ := strconv.ParseInt(os.Args[3], 10, 64)
		c17.RaceBody(n, seed)
		return
	}
	if id == "C02COLD" {
		c02.ColdStartBody()
		return
	}
	if id == "C02RACE" {
		n, _ := strconv.Atoi(os.Args[2])
		c02.RaceBody(n)
		return
	}
	tier := ""
	if len(os.Args) > 2 {
		tier = os.Args[2]
	}
	ck, ok := checks[id]
	if !ok {
		fmt.Fprintf(os.Stderr, "ENGINE-ERROR unknown check %s\n", id)
		os.Exit(3)
	}
	c := engine.New(id, tier, ck.level)
	ck.run(c)
	c.Finish()
}
