// Command reftest runs the self-validation of every reference model.
package main

import (
	"fmt"
	"os"

	"verif/ref"
	"verif/ref/krbmsg"
	"verif/ref/rcrypto"
)

func main() {
	n, err := rcrypto.SelfTest()
	if err != nil {
		fmt.Println("REFERENCE-ERROR", err)
		os.Exit(3)
	}
	fmt.Printf("rcrypto: %d vectors ok\n", n)
	n, err = krbmsg.SelfTest(ref.MITVectors())
	if err != nil {
		fmt.Println("REFERENCE-ERROR", err)
		os.Exit(3)
	}
	fmt.Printf("krbmsg: %d MIT vectors round-trip\n", n)
}
