// Command reftest runs the self-validation of every reference model.
package main

import (
	"fmt"
	"os"

	"verif/ref"
	"verif/ref/krbmsg"
	"verif/ref/pac"
	"verif/ref/rcrypto"
)

func main() {
	n, err := rcrypto.SelfTest()
	if err != nil {
		fmt.Println("REFERENCE-ERROR", err)
		os.Exit(3)
	}
	fmt.Printf("rcrypto: %d vectors ok\n", n)
	n, err = krbmsg.SelfTest(ref.MITVectors())
	if err != nil {
		fmt.Println("REFERENCE-ERROR", err)
		os.Exit(3)
	}
	fmt.Printf("krbmsg: %d MIT vectors round-trip\n", n)
	n, err = pac.SelfTest(ref.PACSamples())
	if err != nil {
		fmt.Println("REFERENCE-ERROR", err)
		os.Exit(3)
	}
	fmt.Printf("pac: %d captured KERB_VALIDATION_INFO samples reproduced byte for byte\n", n)
}
