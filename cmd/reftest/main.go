// Command reftest runs the self-validation of every reference model.
package main

import (
	"fmt"
	"os"

	"verif/ref/rcrypto"
)

func main() {
	n, err := rcrypto.SelfTest()
	if err != nil {
		fmt.Println("REFERENCE-ERROR", err)
		os.Exit(3)
	}
	fmt.Printf("rcrypto: %d vectors ok\n", n)
}
