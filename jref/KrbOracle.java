// Second, independent oracle: OpenJDK's own Kerberos crypto (sun.security.krb5.internal.crypto).
// Line protocol on stdin/stdout, one answer per request line:
//   E <etype> <keyhex> <usage> <pthex>            -> <cthex> | ERR <msg>
//   D <etype> <keyhex> <usage> <cthex>            -> OK <pthex> | ERR <msg>
//   C <cksumtype> <keyhex> <usage> <datahex>      -> <cksumhex> | ERR <msg>
//   S <etype> <pw-utf8-hex> <salt-utf8-hex> <paramshex|->  -> <keyhex> | ERR <msg>
import java.io.*;
import java.nio.charset.StandardCharsets;
import sun.security.krb5.EncryptionKey;
import sun.security.krb5.internal.crypto.*;

public class KrbOracle {
    static byte[] unhex(String s) {
        if (s.equals("-") || s.equals("")) return new byte[0];
        byte[] b = new byte[s.length() / 2];
        for (int i = 0; i < b.length; i++) b[i] = (byte) Integer.parseInt(s.substring(2 * i, 2 * i + 2), 16);
        return b;
    }
    static String hex(byte[] b) {
        StringBuilder sb = new StringBuilder();
        for (byte x : b) sb.append(String.format("%02x", x & 0xff));
        return sb.toString();
    }
    public static void main(String[] a) throws Exception {
        BufferedReader in = new BufferedReader(new InputStreamReader(System.in));
        PrintStream out = new PrintStream(new BufferedOutputStream(System.out, 1 << 16));
        String line;
        while ((line = in.readLine()) != null) {
            String[] f = line.split(" ", -1);
            try {
                switch (f[0]) {
                case "E": {
                    EType et = EType.getInstance(Integer.parseInt(f[1]));
                    byte[] ct = et.encrypt(unhex(f[4]), unhex(f[2]), Integer.parseInt(f[3]));
                    out.println(hex(ct));
                    break;
                }
                case "D": {
                    EType et = EType.getInstance(Integer.parseInt(f[1]));
                    byte[] pt = et.decrypt(unhex(f[4]), unhex(f[2]), Integer.parseInt(f[3]));
                    pt = et.decryptedData(pt);
                    out.println("OK " + hex(pt));
                    break;
                }
                case "C": {
                    CksumType ct = CksumType.getInstance(Integer.parseInt(f[1]));
                    byte[] d = unhex(f[4]);
                    out.println(hex(ct.calculateChecksum(d, d.length, unhex(f[2]), Integer.parseInt(f[3]))));
                    break;
                }
                case "S": {
                    char[] pw = new String(unhex(f[2]), StandardCharsets.UTF_8).toCharArray();
                    String salt = new String(unhex(f[3]), StandardCharsets.UTF_8);
                    byte[] params = f[4].equals("-") ? null : unhex(f[4]);
                    EncryptionKey k = EncryptionKey.acquireSecretKey(pw, salt, Integer.parseInt(f[1]), params);
                    out.println(hex(k.getBytes()));
                    break;
                }
                default:
                    out.println("ERR unknown command");
                }
            } catch (Throwable t) {
                String m = String.valueOf(t);
                out.println("ERR " + m.replace('\n', ' '));
            }
        }
        out.flush();
    }
}
